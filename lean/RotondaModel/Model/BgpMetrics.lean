import RotondaModel.Model.BgpIn
/-!
# BgpMetrics — the bgp-tcp-in unit's own metrics as a function of the history of connection events

`Model/BgpIn.lean` (imported, not edited) is the unit's accept loop and session handling; this file puts the
metric record next to it. Transliterated, and from where:

* `Call` / `Metrics.call` = `BgpTcpInStatusReporter` (`bgp_tcp_in/status_reporter.rs`): `listener_listening`
  (`listener_bound_count += 1`), `listener_connection_accepted` (`connection_accepted_count += 1`),
  `peer_connection_lost` (`connection_lost_count += 1`), `disconnect` (`disconnect_count += 1`); and
  `GateMetrics::update` (`comms.rs:1089`): `num_updates += 1`, `num_dropped_updates += 1` when no link took the
  update, `update_set_size := len` for a `Bulk` only. `bind_error` and `listener_io_error` only log. Nothing
  ever subtracts. `established_session_count` has no writer and is not exported; `Metrics.exported` = the
  samples `BgpTcpInMetrics::append` (`metrics.rs:73`) and `GateMetrics::append` write (`update_set_size` only
  once an update went through).
* `baseCalls` = the call sites for the events `Model/BgpIn.lean` has:
  accept loop (`unit.rs:302-351`): `listener_connection_accepted` for **every** accepted TCP connection, before
  the configuration is looked at; `Processor::process` (`router_handler.rs:220-562`) **on the tree with
  588c795** (the loop ends as soon as the session has no connection; `fsmdrop = repaired` in BgpIn's terms;
  the tree before that commit is not modelled here):
  - `Message::ConnectionLost` ⇒ `peer_connection_lost`; but a FIN makes routecore's `tick` queue that message,
    drop the connection and return `Ok`, on which the loop now breaks **before the message is read**
    (site `lostfin`); a reset or an unparsable frame makes `tick` return `Err` ⇒ `break`, nothing counted
    (site `losterr`); the hold timer and a handled `Command::Disconnect` drop the connection silently ⇒ `break`,
    nothing counted;
  - `SessionNegotiated` for a key already live ⇒ `Command::Disconnect(ConnectionRejected)`, `break`, nothing
    counted (site `discdup`); an OPEN with a peer AS the config refuses ⇒ `tick` `Err`, nothing counted;
  - `Err(Terminated)` ⇒ `disconnect` if the session has a connection, then the session winds down;
  - the epilogue: `Update::Withdraw` through the gate iff negotiated and not rejected (`finishCalls`).
* `MOp.reconf` = `GateStatus::Reconfiguring` in the accept loop (`unit.rs:378-405`: new config stored, re-bind iff
  `listen` differs ⇒ `listener_listening` again) and in every processor (`router_handler.rs:258-323`,
  `verdict`): `new_unit != self.unit_cfg` (own `PartialEq`: listen, my_asn, my_bgp_id; `self.unit_cfg` is the
  config the connection was accepted under) ⇒ `Disconnect(Reconfiguration)`, `break`, nothing counted (site
  `discmain`); else `get_exact(key matched at accept)`: present and different (`PartialEq for PeerConfig`:
  remote_asn, hold_time; since d309a16 also protocols and addpath, which every entry of a case has alike) ⇒ `Disconnect(Reconfiguration)` without `break`, the loop ends on the next `tick`,
  nothing counted (site `discpeer`); absent ⇒ `disconnect`, `Disconnect(Deconfigured)`, `break`. The root gate
  replaces its subscriber map before it tells the clones (`comms.rs:545`), so from a reconfiguration on every
  update counts as dropped until a downstream unit links again (`linked := false`; re-linking is not modelled).
* `MOp.acceptErr` = `listener.accept()` returns `Err` ⇒ `listener_io_error`, `break 'inner`, bind again ⇒
  `listener_listening`; `MOp.bindFail` = one failing `bind` (`bind_error`, back-off, retry): no metric.
`Obs`, `nBound … nDropped`, `lastBulk` are the ledger: what each metric should be by the observable history alone.
Import-free apart from `Model/BgpIn.lean` (and through it `Model/Rib.lean`). Theorems: `Props/BgpMetrics.lean`.
-/
namespace Rotonda.BgpMetrics

open Rotonda Rotonda.BgpIn

/-- Defect sites of this area (`asWritten` / `repaired`); `frame` is BgpIn's. -/
structure MVariant where
  frame : Site := .asWritten
  lostfin : Site := .asWritten
  losterr : Site := .asWritten
  discdup : Site := .asWritten
  discmain : Site := .asWritten
  discpeer : Site := .asWritten
  rib : Rib.Variant := {}
  deriving DecidableEq, Repr

/-- The BgpIn variant underneath: always the tree with 588c795. -/
def MVariant.base (mv : MVariant) : BgpIn.Variant := { fsmdrop := .repaired, frame := mv.frame, rib := mv.rib }

def asWritten : MVariant := {}
def repaired : MVariant :=
  { frame := .repaired, lostfin := .repaired, losterr := .repaired, discdup := .repaired, discmain := .repaired,
    discpeer := .repaired }

/-! ### The reporter -/

inductive Call where
  | listening
  | accepted
  | lost
  | disconnect
  | gate (bulk : Option Nat) (delivered : Bool)
  deriving DecidableEq, Repr

structure Metrics where
  bound : Nat := 0
  accepted : Nat := 0
  lost : Nat := 0
  disc : Nat := 0
  gUpdates : Nat := 0
  gDropped : Nat := 0
  setSize : Nat := 0
  deriving DecidableEq, Repr

def Metrics.call (m : Metrics) : Call → Metrics
  | .listening => { m with bound := m.bound + 1 }
  | .accepted => { m with accepted := m.accepted + 1 }
  | .lost => { m with lost := m.lost + 1 }
  | .disconnect => { m with disc := m.disc + 1 }
  | .gate bulk delivered =>
    { m with gUpdates := m.gUpdates + 1,
             gDropped := if delivered then m.gDropped else m.gDropped + 1,
             setSize := match bulk with | some n => n | none => m.setSize }

def Metrics.calls (m : Metrics) (cs : List Call) : Metrics := cs.foldl Metrics.call m

/-- The `update_set_size` sample: written only once an update went through the gate. -/
def Metrics.exportedSetSize (m : Metrics) : Option Nat := if m.gUpdates = 0 then none else some m.setSize

/-! ### State -/

/-- What the `Processor` of a slot was created with. -/
structure Acc where
  key : Key
  asns : Asns
  hold : Nat
  main : Nat × Nat
  deriving DecidableEq, Repr

structure MWorld where
  w : World
  m : Metrics := {}
  acc : List (Option Acc) := []     -- parallel to `w.sess`
  main : Nat × Nat := (0, 0)        -- (listen, own AS): what `PartialEq for BgpTcpIn` compares
  linked : Bool := true
  deriving DecidableEq, Repr

inductive Verdict where
  | mainChanged | peerChanged | deconfigured
  deriving DecidableEq, Repr

inductive MOp where
  | base (o : Op)
  | reconf (cfg : List Entry) (listen asn : Nat)
  | acceptErr
  | bindFail
  deriving DecidableEq, Repr

inductive MOut where
  | base (o : Out)
  | term (up : Nat) (ws : List Nat)         -- sessions up when the unit was terminated; ids withdrawn
  | reconf (rebound : Bool) (ended : List (Nat × Verdict × Bool))   -- slot, why, whether a Withdraw went out
  | accErr | armed | nc
  deriving DecidableEq, Repr

/-! ### Call sites -/

def counted (s : Site) (c : Call) : List Call := if s = .repaired then [c] else []

/-- The epilogue of `Processor::process`: the `Withdraw` goes through the gate iff negotiated and not rejected. -/
def finishCalls (linked : Bool) (s : Sess) : List Call :=
  match s.neg, s.rejected with
  | some _, false => [.gate none linked]
  | _, _ => []

def connCalls (mv : MVariant) (w : World) (a : Addr) (asn : Nat) : List Call :=
  if w.term then []
  else .accepted ::
    match get w.cfg a with
    | none => []
    | some e =>
      if !e.asns.accepts asn then []
      else if w.live.contains (a, asn) then counted mv.discdup .disconnect
      else []

def terminateCalls (linked : Bool) : List Sess → List Call
  | [] => []
  | s :: rest => (if s.ph = .running then .disconnect :: finishCalls linked s else []) ++ terminateCalls linked rest

/-- What a per-session event makes slot `x` report (`none`: no such slot). -/
def slotCalls (mv : MVariant) (linked : Bool) (x : Sess) : Op → List Call
  | .upd _ u => if !x.copen then [] else if x.ph = .running then [.gate (some (payloadCount u)) linked] else []
  | .fin _ =>
    if !x.copen then [] else if x.ph = .running ∨ x.ph = .flooding then counted mv.lostfin .lost ++ finishCalls linked x else []
  | .rst _ =>
    if !x.copen then [] else if x.ph = .running ∨ x.ph = .flooding then counted mv.losterr .lost ++ finishCalls linked x else []
  | .garbage _ kind =>
    if !x.copen then []
    else if x.ph = .running then
      if kind = 0 ∧ mv.frame = .asWritten then [] else counted mv.losterr .lost ++ finishCalls linked x
    else if x.ph = .flooding then counted mv.losterr .lost ++ finishCalls linked x
    else []
  | .hold _ => if !x.copen then [] else if x.ph = .running then finishCalls linked x else []
  | _ => []

def opSlot : Op → Option Nat
  | .upd k _ | .notif k | .fin k | .rst k | .garbage k _ | .hold k => some k
  | _ => none

def baseCalls (mv : MVariant) (s : MWorld) (o : Op) : List Call :=
  match o with
  | .conn a asn => connCalls mv s.w a asn
  | .terminate => if s.w.term then [] else terminateCalls s.linked s.w.sess
  | o =>
    match opSlot o with
    | none => []
    | some k =>
      match s.w.sess[k]? with
      | none => []
      | some x => slotCalls mv s.linked x o

/-- The `Processor`'s view of its own configuration for a new slot. -/
def accOf (w : World) (main : Nat × Nat) : Op → List (Option Acc)
  | .conn a _ => [if w.term then none else (get w.cfg a).map fun e => ⟨e.key, e.asns, e.hold, main⟩]
  | _ => []

def runningN (l : List Sess) : Nat := (l.filter fun x => x.ph = .running).length

/-! ### Reconfiguration -/

/-- `PeerConfigs::get_exact`. -/
def getExact (cfg : List Entry) (k : Key) : Option Entry := cfg.find? fun e => e.key = k

/-- `GateStatus::Reconfiguring` in the processor of slot `x`. -/
def verdict (cfg' : List Entry) (main' : Nat × Nat) (x : Sess) (a : Option Acc) : Option Verdict :=
  if x.ph ≠ .running then none
  else match a with
    | none => none
    | some a =>
      if main' ≠ a.main then some .mainChanged
      else match getExact cfg' a.key with
        | none => some .deconfigured
        | some e => if e.asns ≠ a.asns ∨ e.hold ≠ a.hold then some .peerChanged else none

def verdictCalls (mv : MVariant) : Verdict → List Call
  | .mainChanged => counted mv.discmain .disconnect
  | .peerChanged => counted mv.discpeer .disconnect
  | .deconfigured => [.disconnect]

def reconfCalls (mv : MVariant) (cfg' : List Entry) (main' : Nat × Nat) : List Sess → List (Option Acc) → List Call
  | x :: xs, a :: as =>
    (match verdict cfg' main' x a with
     | some vd => verdictCalls mv vd ++ finishCalls false x
     | none => []) ++ reconfCalls mv cfg' main' xs as
  | _, _ => []

def reconfAll (v : BgpIn.Variant) (cfg' : List Entry) (main' : Nat × Nat) :
    Nat → List Sess → List (Option Acc) → World → List (Nat × Verdict × Bool) → World × List (Nat × Verdict × Bool)
  | k, x :: xs, a :: as, w, out =>
    match verdict cfg' main' x a with
    | some vd =>
      let r := finish v w k x
      reconfAll v cfg' main' (k + 1) xs as r.1 (out ++ [(k, vd, r.2.isSome)])
    | none => reconfAll v cfg' main' (k + 1) xs as w out
  | _, _, _, w, out => (w, out)

/-! ### The step -/

def mstep (mv : MVariant) (s : MWorld) : MOp → MWorld × MOut
  | .base o =>
    let r := step mv.base s.w o
    let out : MOut := match o, r.2 with
      | .terminate, .term ws => .term (runningN s.w.sess) ws
      | _, x => .base x
    ({ s with w := r.1, m := s.m.calls (baseCalls mv s o), acc := s.acc ++ accOf s.w s.main o }, out)
  | .reconf cfg' l a =>
    if s.w.term then (s, .nc)
    else
      let main' := (l, a)
      let r := reconfAll mv.base cfg' main' 0 s.w.sess s.acc s.w []
      let cs := (if l ≠ s.main.1 then [Call.listening] else []) ++ reconfCalls mv cfg' main' s.w.sess s.acc
      ({ s with w := { r.1 with cfg := cfg' }, m := s.m.calls cs, main := main', linked := false },
       .reconf (l ≠ s.main.1) r.2)
  | .acceptErr => if s.w.term then (s, .nc) else ({ s with m := s.m.call .listening }, .accErr)
  | .bindFail => if s.w.term then (s, .nc) else (s, .armed)

/-- The calls of one step (what `mstep` applies to the metric record). -/
def stepCalls (mv : MVariant) (s : MWorld) : MOp → List Call
  | .base o => baseCalls mv s o
  | .reconf cfg' l a =>
    if s.w.term then []
    else (if l ≠ s.main.1 then [Call.listening] else []) ++ reconfCalls mv cfg' (l, a) s.w.sess s.acc
  | .acceptErr => if s.w.term then [] else [.listening]
  | .bindFail => []

/-- One observation: the event, what the peers / the gate saw, whether a link was attached before it. -/
structure Obs where
  op : MOp
  out : MOut
  linked : Bool
  deriving DecidableEq, Repr

def runFrom (mv : MVariant) (s : MWorld) : List MOp → MWorld × List Obs
  | [] => (s, [])
  | o :: os =>
    let r := mstep mv s o
    let q := runFrom mv r.1 os
    (q.1, ⟨o, r.2, s.linked⟩ :: q.2)

/-- The unit after start-up: listening (one successful bind, failed attempts before it leave no trace). -/
def MWorld.init (cfg : List Entry) (linked : Bool) : MWorld :=
  { w := World.init cfg, m := { bound := 1 }, linked := linked }

def run (mv : MVariant) (cfg : List Entry) (linked : Bool) (ops : List MOp) : MWorld × List Obs :=
  runFrom mv (MWorld.init cfg linked) ops

/-- Every reporter call of a run, in order. -/
def trace (mv : MVariant) (s : MWorld) : List MOp → List Call
  | [] => []
  | o :: os => stepCalls mv s o ++ trace mv (mstep mv s o).1 os

/-! ### The ledger: what the observable history alone implies for each metric -/

def isEnd : Out → Bool
  | .ended _ | .endedQuiet => true
  | _ => false

def withdrew : Out → Bool
  | .ended _ => true
  | _ => false

def on (s : Site) : Nat := if s = .repaired then 1 else 0

def verdictWeight (mv : MVariant) : Verdict → Nat
  | .mainChanged => on mv.discmain
  | .peerChanged => on mv.discpeer
  | .deconfigured => 1

/-- Successful binds after start-up. -/
def nBound (o : Obs) : Nat :=
  match o.op, o.out with
  | .acceptErr, .accErr => 1
  | .reconf .., .reconf true _ => 1
  | _, _ => 0

/-- TCP connections the unit took. -/
def nAccepted (o : Obs) : Nat :=
  match o.op, o.out with
  | .base (.conn ..), .base .nocfg | .base (.conn ..), .base .badas
  | .base (.conn ..), .base .rejected | .base (.conn ..), .base .neg => 1
  | _, _ => 0

/-- `peer_connection_lost` calls: per site, the session ends the peer caused (close / reset / damaged frame). -/
def nLost (mv : MVariant) (o : Obs) : Nat :=
  match o.op, o.out with
  | .base (.fin _), .base out => if isEnd out then on mv.lostfin else 0
  | .base (.rst _), .base out | .base (.garbage ..), .base out => if isEnd out then on mv.losterr else 0
  | _, _ => 0

/-- `disconnect` calls. -/
def nDisc (mv : MVariant) (o : Obs) : Nat :=
  match o.op, o.out with
  | .base (.conn ..), .base .rejected => on mv.discdup
  | .base .terminate, .term up _ => up
  | .reconf .., .reconf _ ended => (ended.map fun e => verdictWeight mv e.2.1).sum
  | _, _ => 0

/-- Updates that went through the gate. -/
def nGate (o : Obs) : Nat :=
  match o.op, o.out with
  | .base (.upd ..), .base (.sent ..) => 1
  | .base (.fin _), .base out | .base (.rst _), .base out | .base (.garbage ..), .base out => if withdrew out then 1 else 0
  | .base (.hold _), .base (.expired (some _)) => 1
  | .base .terminate, .term _ ws => ws.length
  | .reconf .., .reconf _ ended => (ended.filter fun e => e.2.2).length
  | _, _ => 0

/-- … of which nobody received: everything sent while no link is attached; a reconfiguration detaches first. -/
def nDropped (o : Obs) : Nat :=
  match o.op with
  | .reconf .. => nGate o
  | _ => if o.linked then 0 else nGate o

/-- The size of the last `Bulk` (an UPDATE that went through), `d` if there was none. -/
def lastBulk (d : Nat) : List Obs → Nat
  | [] => d
  | o :: os =>
    match o.op, o.out with
    | .base (.upd ..), .base (.sent _ n) => lastBulk n os
    | _, _ => lastBulk d os

def total (f : Obs → Nat) (l : List Obs) : Nat := (l.map f).sum

/-- Sessions that are up. -/
def live (s : MWorld) : Nat := runningN s.w.sess

end Rotonda.BgpMetrics
