/-
Model of concurrent writers on one RIB unit (property C09).  Import-free.

What is transliterated, and from where:

* `RibUnitRunner::process_update` (src/units/rib_unit/unit.rs:672-754) without a
  roto filter: `Single`/`Bulk` insert their payloads one after the other
  (`filter_payload` → `insert_payload` → `Rib::insert`), `Withdraw(id, af)` and
  `WithdrawBulk(ids)` call `Rib::withdraw_for_ingress` (`signal_withdraw`).
* `Rib::insert_prefix` (rib.rs:151-209): status Active ⇒ `store.insert` (replace the
  record of `(prefix, mui)`), status Withdrawn ⇒ `mark_mui_as_withdrawn_for_prefix`
  (keeps the attributes, no effect without a record; an unknown prefix is an error that
  only reaches a metric).  In rotonda-store 0.4.1 both end in ONE critical section of the
  per-prefix `Mutex<HashMap<mui, record>>` (`MultiMap::upsert_record`,
  `MultiMap::mark_as_withdrawn_for_mui`): one atomic model step each (`Micro.ins`, `Micro.wdp`).
* `Rib::withdraw_for_ingress` (rib.rs:211-329): `None` ⇒ `mark_mui_as_withdrawn` on the
  unicast store (v4 tree, then v6 tree) and on the multicast store (v4, v6): four marker
  sets ("trees" 0..3 = uni-v4, uni-v6, multi-v4, multi-v6); `Some(af)` ⇒ the one tree of `af`.
* `CustomAllocStorage::mark_mui_as_withdrawn` (rotonda-store custom_alloc.rs:754-782), step
  by step exactly as written:

      let current = bmin.load();                    -- step 1  (PC.loaded, new = cur ∪ {m})
      let mut new = current.clone(); new.insert(mui);
      loop { match bmin.compare_exchange(current, Owned::new(new)) {   -- step 2, 3, …
               Ok(_)        => return Ok(()),
               Err(updated) => { new = updated.current.clone(); } } }  -- `current` NOT refreshed,
                                                                        -- `mui` NOT re-inserted

  The atomic holds a pointer; the CAS compares pointers.  A replaced bitmap is never freed
  (no `defer_destroy`), so an installed pointer value never comes back: the model's pointer
  is a per-tree version counter that grows by one with every successful CAS.
  rotonda never calls `mark_mui_as_active`, so the marker sets only grow.
* Variant `locked` (the proposed repair, proposed_fixes/C09-*.diff): a `Mutex` held
  around the whole body of `Rib::withdraw_for_ingress` (`Micro.lock` / `Micro.unlock`).

Not modelled: the trie's own lock-free node/prefix creation (the per-prefix record map is
assumed to exist atomically); the default-route quirk; `Rib::match_prefix`'s
unicast-before-multicast lookup (the harness uses distinct addresses per tree).
-/
namespace Rotonda.RibConc

abbrev Mui := Nat
abbrev Pfx := Nat
abbrev Attr := Nat
abbrev Tree := Nat

/-- Prefix `p` of the harness pool lives in tree `p % 4`. -/
def treeOf (p : Pfx) : Tree := p % 4

/-- One payload: a route announcement (status Active) or a per-prefix withdrawal (status Withdrawn). -/
inductive Pl where
  | ann (p : Pfx) (m : Mui) (a : Attr)
  | wd (p : Pfx) (m : Mui)
  deriving DecidableEq, Repr

/-- `payload::Update`, the four variants that write to the RIB. -/
inductive Op where
  | single (pl : Pl)
  | bulk (pls : List Pl)
  | withdraw (m : Mui) (af : Option Tree)
  | withdrawBulk (ms : List Mui)
  deriving DecidableEq, Repr

/-- Atomic shared-memory actions. -/
inductive Micro where
  | ins (p : Pfx) (m : Mui) (a : Attr)
  | wdp (p : Pfx) (m : Mui)
  | mark (t : Tree) (m : Mui)
  | lock
  | unlock
  deriving DecidableEq, Repr

structure Variant where
  /-- `true` = repaired: `withdraw_for_ingress` runs under a mutex. -/
  locked : Bool
  deriving DecidableEq, Repr

def asWritten : Variant := ⟨false⟩
def repaired : Variant := ⟨true⟩

def compilePl : Pl → Micro
  | .ann p m a => .ins p m a
  | .wd p m => .wdp p m

/-- One call of `Rib::withdraw_for_ingress`. -/
def compileWithdraw (v : Variant) (m : Mui) (af : Option Tree) : List Micro :=
  let marks := match af with
    | none => [.mark 0 m, .mark 1 m, .mark 2 m, .mark 3 m]
    | some t => [.mark t m]
  if v.locked then .lock :: (marks ++ [.unlock]) else marks

def compileWithdrawBulk (v : Variant) : List Mui → List Micro
  | [] => []
  | m :: ms => compileWithdraw v m none ++ compileWithdrawBulk v ms

def compileOp (v : Variant) : Op → List Micro
  | .single pl => [compilePl pl]
  | .bulk pls => pls.map compilePl
  | .withdraw m af => compileWithdraw v m af
  | .withdrawBulk ms => compileWithdrawBulk v ms

def compile (v : Variant) : List Op → List Micro
  | [] => []
  | op :: ops => compileOp v op ++ compile v ops

/-! ### Shared state -/

/-- A finite map as a write log: newest binding first. -/
def lget {κ ν : Type} [DecidableEq κ] : List (κ × ν) → κ → Option ν
  | [], _ => none
  | (k', x) :: l, k => if k' = k then some x else lget l k

/-- `(withdrawn, attrs)` per `(prefix, mui)`. -/
abbrev Recs := List ((Pfx × Mui) × (Bool × Attr))

/-- pointer (version) and content of one tree's withdrawn-muis bitmap. -/
abbrev Trees := List (Tree × (Nat × List Mui))

def treeGet (ts : Trees) (t : Tree) : Nat × List Mui := (lget ts t).getD (0, [])

/-- Effect of a record action on the record map. -/
def recStep (r : Recs) : Micro → Recs
  | .ins p m a => ((p, m), (false, a)) :: r
  | .wdp p m =>
    match lget r (p, m) with
    | some x => ((p, m), (true, x.2)) :: r
    | none => r
  | _ => r

inductive PC where
  | idle
  /-- inside the CAS loop of `mark_mui_as_withdrawn t m`: `cur` is the pointer loaded at
      entry (never refreshed), `new` the bitmap the next CAS will try to install. -/
  | loaded (t : Tree) (m : Mui) (cur : Nat) (new : List Mui)
  deriving DecidableEq, Repr

structure Thread where
  todo : List Micro
  pc : PC
  /-- GHOST: completed atomic actions, newest first. -/
  done : List Micro
  /-- GHOST: number of steps this thread has executed (a step on which the thread is
      blocked on the mutex is not executed and not counted). -/
  steps : Nat
  deriving DecidableEq, Repr

structure Sys where
  recs : Recs
  trees : Trees
  lock : Option Nat
  threads : List Thread
  deriving DecidableEq, Repr

def init (v : Variant) (progs : List (List Op)) : Sys :=
  { recs := [], trees := [], lock := none,
    threads := progs.map fun p => { todo := compile v p, pc := .idle, done := [], steps := 0 } }

def Thread.finished (th : Thread) : Bool := th.todo.isEmpty && th.pc == .idle

/-- Thread `i` executes its next atomic action (or nothing, if it has finished or is
    blocked on the mutex). -/
def step (s : Sys) (i : Nat) : Sys :=
  match s.threads[i]? with
  | none => s
  | some th =>
    match th.pc with
    | .loaded t m cur new =>
      let tr := treeGet s.trees t
      if tr.1 = cur then
        -- compare_exchange succeeds: `new` is installed under a fresh pointer
        { s with trees := (t, (tr.1 + 1, new)) :: s.trees,
                 threads := s.threads.set i { th with pc := .idle, done := .mark t m :: th.done, steps := th.steps + 1 } }
      else
        -- compare_exchange fails: new := clone(observed); `current` keeps its stale value
        { s with threads := s.threads.set i { th with pc := .loaded t m cur tr.2, steps := th.steps + 1 } }
    | .idle =>
      match th.todo with
      | [] => s
      | .ins p m a :: rest =>
        { s with recs := recStep s.recs (.ins p m a),
                 threads := s.threads.set i { th with todo := rest, done := .ins p m a :: th.done, steps := th.steps + 1 } }
      | .wdp p m :: rest =>
        { s with recs := recStep s.recs (.wdp p m),
                 threads := s.threads.set i { th with todo := rest, done := .wdp p m :: th.done, steps := th.steps + 1 } }
      | .mark t m :: rest =>
        -- load; clone; insert
        let tr := treeGet s.trees t
        { s with threads := s.threads.set i { th with todo := rest, pc := .loaded t m tr.1 (m :: tr.2), steps := th.steps + 1 } }
      | .lock :: rest =>
        match s.lock with
        | none => { s with lock := some i,
                           threads := s.threads.set i { th with todo := rest, done := .lock :: th.done, steps := th.steps + 1 } }
        | some _ => s
      | .unlock :: rest =>
        { s with lock := none,
                 threads := s.threads.set i { th with todo := rest, done := .unlock :: th.done, steps := th.steps + 1 } }

def run (s : Sys) (sched : List Nat) : Sys := sched.foldl step s

/-! ### What a query sees (`Rib::match_prefix`, `include_withdrawn = true`) -/

/-- The record of `(p, m)` with its status rewritten to withdrawn when `m` is in the
    withdrawn-muis set of `p`'s tree. -/
def viewOf (r : Recs) (ts : Trees) (p : Pfx) (m : Mui) : Option (Bool × Attr) :=
  (lget r (p, m)).map fun x => (x.1 || (treeGet ts (treeOf p)).2.contains m, x.2)

def Sys.view (s : Sys) (p : Pfx) (m : Mui) : Option (Bool × Attr) := viewOf s.recs s.trees p m

/-! ### Sequential specification: one writer, whole updates -/

structure SeqRib where
  recs : Recs
  marks : List (Tree × Mui)
  deriving DecidableEq, Repr

def seqPl (r : SeqRib) (pl : Pl) : SeqRib := { r with recs := recStep r.recs (compilePl pl) }

def seqWithdraw (r : SeqRib) (m : Mui) : Option Tree → SeqRib
  | none => { r with marks := (3, m) :: (2, m) :: (1, m) :: (0, m) :: r.marks }
  | some t => { r with marks := (t, m) :: r.marks }

def seqOp (r : SeqRib) : Op → SeqRib
  | .single pl => seqPl r pl
  | .bulk pls => pls.foldl seqPl r
  | .withdraw m af => seqWithdraw r m af
  | .withdrawBulk ms => ms.foldl (fun r m => seqWithdraw r m none) r

def seqRun (prog : List Op) : SeqRib := prog.foldl seqOp ⟨[], []⟩

def SeqRib.view (r : SeqRib) (p : Pfx) (m : Mui) : Option (Bool × Attr) :=
  (lget r.recs (p, m)).map fun x => (x.1 || r.marks.contains (treeOf p, m), x.2)

/-! ### Cost: the number of own steps an update needs when no CAS fails -/

def microCost : Micro → Nat
  | .mark _ _ => 2
  | _ => 1

def cost : List Micro → Nat
  | [] => 0
  | μ :: l => microCost μ + cost l

end Rotonda.RibConc
