/-
Model of `src/ingress.rs` (`Register`, `IngressInfo`) and of the find-then-register
programs at its call sites.  Import-free (core Lean only) so that the driver links.

* `Register.serial` is an `AtomicU32` bumped with one `fetch_add` (wraps modulo `2^32`);
  the modulus is a parameter `M` of the model so that the no-wrap hypothesis of the
  uniqueness theorem is explicit (the driver runs `M = 2^32`).
* `Register.info` is a `HashMap<IngressId, IngressInfo>` behind an `RwLock`: an association
  list without an order that matters.  Every public operation takes the lock once
  (`update_info`: write; the others: read), so each operation is ONE atomic step and a
  concurrent execution is a merge of the threads' operation lists.
* `find_existing_*` return "the first match in hash-map iteration order".  That order is not
  modelled: `candidates` is the set of matches, and `pick` chooses among them with a `hint`
  (the id the implementation answered).  For every hint the result is a member of the
  candidates (or `none` iff there are none), and every member is produced by some hint.
* Payloads (names, addresses, AS numbers, RIB types, paths) are opaque: interned to `Nat`.
-/
namespace Rotonda.Ingress

/-- `IngressInfo` (ingress.rs:187-200), fields in declaration order. -/
structure Info where
  unitName : Option Nat := none
  parent   : Option Nat := none
  addr     : Option Nat := none
  asn      : Option Nat := none
  ribType  : Option Nat := none
  filename : Option Nat := none
  name     : Option Nat := none
  desc     : Option Nat := none
  deriving DecidableEq, Repr

/-- The field names of the model, in order (compared with the extracted field lists). -/
def Info.fieldNames : List String :=
  ["unit_name", "parent_ingress", "remote_addr", "remote_asn", "rib_type", "filename", "name", "desc"]

/-- `update_field!` (ingress.rs:27-33): `if new.f.is_some() { old.f = new.f }`. -/
def updField (old new : Option Nat) : Option Nat :=
  match new with
  | some v => some v
  | none => old

/-- The eight `update_field!` lines of `update_info` (ingress.rs:73-80). -/
def Info.merge (old new : Info) : Info :=
  { unitName := updField old.unitName new.unitName
    parent   := updField old.parent new.parent
    addr     := updField old.addr new.addr
    asn      := updField old.asn new.asn
    ribType  := updField old.ribType new.ribType
    filename := updField old.filename new.filename
    name     := updField old.name new.name
    desc     := updField old.desc new.desc }

abbrev Table := List (Nat × Info)

def lookup (id : Nat) : Table → Option Info
  | [] => none
  | e :: t => if e.1 = id then some e.2 else lookup id t

/-- `HashMap::remove` (content only). -/
def erase (id : Nat) (t : Table) : Table := t.filter (fun e => e.1 != id)

/-- `HashMap::insert` (content only). -/
def insert (id : Nat) (v : Info) (t : Table) : Table := erase id t ++ [(id, v)]

structure Register where
  serial : Nat
  info : Table
  deriving DecidableEq, Repr

/-- `Register::new()`: the counter starts at 1. -/
def Register.new : Register := ⟨1, []⟩

/-- `register()` = `serial.fetch_add(1)`: returns the old value, wraps modulo `M`. -/
def register (M : Nat) (r : Register) : Nat × Register :=
  (r.serial, { r with serial := (r.serial + 1) % M })

/-- `update_info` (ingress.rs:63-85), state part. -/
def updateInfo (r : Register) (id : Nat) (new : Info) : Register :=
  match lookup id r.info with
  | some old => { r with info := insert id (old.merge new) (erase id r.info) }
  | none => { r with info := insert id new r.info }

/-- `update_info`, returned value: what `HashMap::insert` finds under the key at that moment
    (in the `Some(old)` branch the key has just been removed). -/
def updateRet (r : Register) (id : Nat) : Option Info :=
  match lookup id r.info with
  | some _ => lookup id (erase id r.info)
  | none => lookup id r.info

def get (r : Register) (id : Nat) : Option Info := lookup id r.info

/-- `ids_for_parent` (ingress.rs:98-106); the order of the result is the hash map's. -/
def idsForParent (r : Register) (p : Nat) : List Nat :=
  (r.info.filter (fun e => e.2.parent == some p)).map (·.1)

inductive Level where
  | peer | router
  deriving DecidableEq, Repr

/-- The conditions of `find_existing_peer` (ingress.rs:136-144) and
    `find_existing_bmp_router` (ingress.rs:163-167): `q` is the query, `i` the stored info. -/
def matchesLvl : Level → Info → Info → Bool
  | .peer, q, i =>
      i.parent.isSome && i.addr.isSome && i.asn.isSome
      && (i.parent == q.parent) && (i.asn == q.asn) && (i.addr == q.addr)
      && (i.ribType == q.ribType)
  | .router, q, i =>
      i.parent.isSome && i.addr.isSome
      && (i.parent == q.parent) && (i.addr == q.addr)

def candidates (lvl : Level) (r : Register) (q : Info) : Table :=
  r.info.filter (fun e => matchesLvl lvl q e.2)

/-- Choice among the matches: the hinted id if it is a match, else the first in list order. -/
def pick (c : Table) (hint : Option Nat) : Option (Nat × Info) :=
  match hint with
  | some h =>
    match lookup h c with
    | some i => some (h, i)
    | none => c.head?
  | none => c.head?

inductive Op where
  | reg
  | upd (id : Nat) (i : Info)
  | get (id : Nat)
  | kids (p : Nat)
  | find (lvl : Level) (q : Info) (hint : Option Nat)
  /-- the call-site program `find; else { register; update_info }` run without interruption -/
  | findOrReg (lvl : Level) (q : Info) (hint : Option Nat)
  deriving DecidableEq, Repr

inductive Ret where
  | id (n : Nat)
  | info (o : Option Info)
  | ids (l : List Nat)
  | found (o : Option (Nat × Info))
  deriving DecidableEq, Repr

def step (M : Nat) (r : Register) : Op → Register × Ret
  | .reg => ((register M r).2, .id (register M r).1)
  | .upd id i => (updateInfo r id i, .info (updateRet r id))
  | .get id => (r, .info (get r id))
  | .kids p => (r, .ids (idsForParent r p))
  | .find lvl q hint => (r, .found (pick (candidates lvl r q) hint))
  | .findOrReg lvl q hint =>
    match pick (candidates lvl r q) hint with
    | some e => (r, .id e.1)
    | none => (updateInfo (register M r).2 r.serial q, .id r.serial)

def run (M : Nat) (r : Register) : List Op → Register × List Ret
  | [] => (r, [])
  | op :: ops => ((run M (step M r op).1 ops).1, (step M r op).2 :: (run M (step M r op).1 ops).2)

/-- Does this operation perform a `fetch_add` in state `r`? -/
def allocates (r : Register) : Op → Bool
  | .reg => true
  | .findOrReg lvl q hint => (pick (candidates lvl r q) hint).isNone
  | _ => false

/-- The ids handed out by `fetch_add` during a history, in order. -/
def allocs (M : Nat) (r : Register) : List Op → List Nat
  | [] => []
  | op :: ops => (if allocates r op then [r.serial] else []) ++ allocs M (step M r op).1 ops

/-- The ids that `register()` calls returned to their callers (read off the return values). -/
def regRets : List Op → List Ret → List Nat
  | .reg :: ops, .id n :: rets => n :: regRets ops rets
  | _ :: ops, _ :: rets => regRets ops rets
  | _, _ => []

/-! ### Concurrency: a concurrent execution is a merge of the threads' operation lists -/

/-- Take the next operation of thread `i` (if any). -/
def takeOp (progs : List (List Op)) (i : Nat) : Option (Op × List (List Op)) :=
  match progs[i]? with
  | some (op :: rest) => some (op, progs.set i rest)
  | _ => none

/-- The merge selected by a schedule (thread index per step; steps naming a finished thread are
    skipped); whatever is left when the schedule ends is appended thread by thread. -/
def interleave (progs : List (List Op)) : List Nat → List (Nat × Op)
  | [] => (progs.zipIdx.map (fun p => p.1.map (fun op => (p.2, op)))).flatten
  | i :: sched =>
    match takeOp progs i with
    | some (op, progs') => (i, op) :: interleave progs' sched
    | none => interleave progs sched

def runConc (M : Nat) (r : Register) (progs : List (List Op)) (sched : List Nat) : Register × List Ret :=
  run M r ((interleave progs sched).map (·.2))

/-! ### Call sites: `find; else { register; update_info }` as three separate atomic steps -/

structure TState where
  found : Option Nat := none
  cur : Nat := 0
  deriving DecidableEq, Repr

inductive Micro where
  | find (lvl : Level) (q : Info) (hint : Option Nat)
  | regIfNone
  | updIfNew (q : Info)
  deriving DecidableEq, Repr

def microStep (M : Nat) (r : Register) (t : TState) : Micro → Register × TState
  | .find lvl q hint => (r, { t with found := (pick (candidates lvl r q) hint).map (·.1) })
  | .regIfNone =>
    match t.found with
    | some id => (r, { t with cur := id })
    | none => ((register M r).2, { t with cur := r.serial })
  | .updIfNew q =>
    match t.found with
    | some _ => (r, t)
    | none => (updateInfo r t.cur q, t)

/-- bmp_tcp_in/unit.rs:422-432, state_machine/machine.rs:1220-1232, mrt_file_in/unit.rs:224-243. -/
def siteProg (lvl : Level) (q : Info) (hint : Option Nat) : List Micro :=
  [.find lvl q hint, .regIfNone, .updIfNew q]

structure SiteSys where
  reg : Register
  progs : List (List Micro)
  ts : List TState
  deriving DecidableEq, Repr

def siteStep (M : Nat) (s : SiteSys) (i : Nat) : SiteSys :=
  match s.progs[i]?, s.ts[i]? with
  | some (m :: rest), some t =>
    { reg := (microStep M s.reg t m).1, progs := s.progs.set i rest, ts := s.ts.set i (microStep M s.reg t m).2 }
  | _, _ => s

def siteInit (r : Register) (progs : List (List Micro)) : SiteSys :=
  { reg := r, progs := progs, ts := progs.map (fun _ => {}) }

/-- Run a schedule, then finish every thread in index order (3 steps are enough per remaining
    call-site program; `fuel` bounds the tail). -/
def runSite (M : Nat) (r : Register) (progs : List (List Micro)) (sched : List Nat) : SiteSys :=
  let s := sched.foldl (siteStep M) (siteInit r progs)
  let tail := (s.progs.zipIdx.map (fun p => List.replicate p.1.length p.2)).flatten
  tail.foldl (siteStep M) s

end Rotonda.Ingress
