import RotondaModel.Model.Gate
/-
GateReconf: small-step model of `src/comms.rs` for **reconfiguration and the clone command
queues** (C08 across a reconfigure, the gate-level mechanisms behind C13's executed part).
Imports only `Model/Gate.lean` (for `upd`, `ins`, `del`, `seqsOf`), so the driver links.

What `Model/Gate.lean` has and this model adds / changes:

* **Command channels by generation.**  `Gate::new` makes one bounded command channel
  (`COMMAND_QUEUE_LEN`, here `ccap`).  The manager creates a *new* gate for every kept unit on a
  reload and sends `Reconfigure { new_gate }` through the agent it holds, then keeps the new
  gate's agent (`manager.rs`, `reconfigure_unit`).  So generation `g+1`'s `Reconfigure` always
  travels through channel `g` (`agentReconfigure`); links and agents made for generation `g`
  send into channel `g`.  `chq g` is the queue of channel `g`; `rx` is the generation whose
  receiver the root gate reads.  A channel `g < rx` is closed (its receiver was dropped by the
  `Reconfigure` arm: `*self.commands.write().await = new_commands`): sends into it fail, what was
  still queued in it is discarded (a `Subscribe`'s oneshot sender, an `AttachClone`'s `tx`, ...).
  A channel `g > rx` already exists (its receiver travels inside the queued `Reconfigure`), so
  commands can be queued in it before the root gate has taken it over.
* **`Gate::process`, arm `Reconfigure`**: id swap, `take()` of the new gate, receiver swap,
  command sender swap (current tree: `*state.command_sender.lock() = new`, commit e536b86;
  `Variant.staleSender = true` is the code before that commit: the sender is never updated),
  `self.updates.replace(new_updates)` (the *empty* subscriber set of the new gate; the map is
  shared with all clones), `notify_clones(FollowReconfigure)`, return `Reconfiguring`.
  `suspended` is not touched by the arm and not modelled here (no suspension in this model).
* **`notify_clones` is not atomic**: it iterates a snapshot of `clone_senders` (a `FrimMap`, i.e.
  insertion order) and *awaits* `sender.send(cmd)` on each clone's bounded queue.  While the head
  clone's queue is full the root gate is stuck inside `process()`: no further command is taken off
  its queue.  `busy` holds the notification in progress, `rootNotify` is one send (or one skipped
  closed sender, or the end of the loop: `retain` + what the arm does afterwards), `rootBlock`
  records that the pending send has been polled (the future is parked on the queue's semaphore).
  If the clone is dropped while the root is parked, the send returns `Err` and
  `.expect("Internal error: failed to notify cloned gate")` panics (`Variant.notifyPanics`;
  `false` = the proposed repair: treat it like a closed sender).  A closed sender seen *before*
  the send (`sender.is_closed()`) is skipped and removed by `retain` afterwards.
* **`Gate::clone`** registers the clone through a *spawned task* (`cloneNew` then `cloneAttach`):
  the task sends `AttachClone { tx }` through the root gate's `command_sender` (`sendGen`), read
  when the task runs.  Sent into a closed channel the `tx` is dropped: the clone's own channel has
  no sender left, its `process()` returns `Err(Terminated)` (`cloneClosed`).  The same happens to
  an `AttachClone` that is still queued behind a `Reconfigure` in the old channel.
* Clones handle `FollowSubscribe` / `FollowUnsubscribe` by editing `self.updates`, which is the
  *same shared map* (as in `Model/Gate.lean`).  After a `Reconfigure` a stale `FollowSubscribe`
  therefore puts a slot of the *old* generation into the new map (`Chan.res`, ghost);
  `Variant.followEdits = false` is the proposed repair (the clone arms only consume the command).

Simplifications (stated in `checks/Xgatereconf.json`): update queues are unbounded here (the
back-pressure of queue links is `Model/Gate.lean`'s business; the engine gives queue links more
room than a case publishes), no suspension, no cancelled `connect()`, no root drop, clones are
made from the root gate only, `ReportLinks` / `Trigger` (two more notification kinds that behave
like `FollowReconfigure` with respect to the queues) are not modelled, the manager always sends
through the agent of the newest generation.

Ghost fields (no counterpart in the code): `Chan.acked/unsubbed/res/owner`, `PubSt.snap/notified/
processed`, `St.handled`.
-/
namespace Rotonda.GateReconf
open Rotonda.Gate (upd ins del seqsOf Slot Pub Msg)

/-- gate generations are numbered `0, 1, …` (plain `Nat` so that `omega` sees them) -/
abbrev Gen := Nat

inductive Cmd where
  | subscribe (s : Slot)
  | unsubscribe (s : Slot)
  | attach (c : Pub)
  | detach (c : Pub)
  | terminate
  | reconfigure (g : Nat)
  | followSub (s : Slot)
  | followUnsub (s : Slot)
  | followReconf
  deriving DecidableEq, Repr

/-- What the `process()` arm does once `notify_clones` has returned. -/
inductive After where
  | cont      -- go on with the loop (`subscribe`, `unsubscribe`)
  | ret       -- `return Ok(Reconfiguring)`
  | term      -- `return Err(Terminated)`
  deriving DecidableEq, Repr

/-- The root gate inside `notify_clones(cmd)`. -/
structure Busy where
  cmd : Cmd
  /-- clones of the `clone_senders` snapshot that have not been served yet, in map order -/
  rest : List Pub
  /-- the `send().await` on the head's full queue has been polled and is parked -/
  blocked : Bool
  closedFound : Bool
  after : After
  deriving DecidableEq, Repr

/-- Defect sites: `true` = code as written (for `staleSender`: as written before e536b86). -/
structure Variant where
  staleSender : Bool
  notifyPanics : Bool
  /-- clones edit the (shared) subscription map when they handle `FollowSubscribe` /
      `FollowUnsubscribe`; `false` = the proposed repair: the arms only consume the command -/
  followEdits : Bool
  deriving DecidableEq, Repr

structure PubSt where
  /-- the gate object exists (for a clone: its command receiver exists) -/
  alive : Bool := false
  seq : Nat := 0
  sending : Option (List Slot) := none
  /-- GHOST: the whole snapshot of the latest update -/
  snap : List Slot := []
  /-- the clone's bounded command queue -/
  cmdq : List Cmd := []
  /-- `process()` returned `Err(Terminated)` -/
  terminated : Bool := false
  /-- the spawned `gate-attach-clone` task has not sent yet (it holds the clone's `tx`) -/
  attachPending : Bool := false
  /-- `process()` returned `Ok(Reconfiguring)` this many times -/
  reconfSeen : Nat := 0
  /-- GHOST: notifications pushed into / commands taken off this clone's queue -/
  notified : Nat := 0
  processed : Nat := 0
  deriving DecidableEq, Repr

structure Chan where
  /-- GHOST: the downstream component this subscription belongs to -/
  owner : Nat := 0
  /-- generation of the agent the link was made from = the channel its commands go into -/
  via : Nat := 0
  /-- GHOST: the gate handled the `Subscribe` (inserted the slot and answered) -/
  acked : Bool := false
  /-- GHOST: the gate handled `Unsubscribe` for this slot -/
  unsubbed : Bool := false
  /-- the link called `disconnect()` / was dropped -/
  disc : Bool := false
  /-- GHOST: a clone's stale `FollowSubscribe` put the slot (back) into a map it no longer
      belongs to (other generation, or already unsubscribed) -/
  res : Bool := false
  /-- the receiving end exists (queue link: receiver; direct link: target alive) -/
  open_ : Bool := true
  /-- messages pushed to the link, in push order -/
  hist : List Msg := []
  deriving DecidableEq, Repr

structure St where
  updates : List Slot
  /-- generation of the command receiver the root gate reads -/
  rx : Nat
  /-- gate generations created so far (`0 .. ngen-1`) -/
  ngen : Nat
  /-- generation `NormalGateState.command_sender` points at -/
  sendGen : Nat
  chq : Nat → List Cmd
  /-- `clone_senders`, in insertion order -/
  clones : List Pub
  busy : Option Busy
  rootTerminated : Bool
  rootPanicked : Bool
  pubs : Pub → PubSt
  chans : Slot → Chan
  npubs : Nat
  nslots : Nat
  /-- `COMMAND_QUEUE_LEN` -/
  ccap : Nat
  /-- GHOST: commands the root gate has taken off its queue -/
  handled : Nat

inductive Step where
  | pubBegin (p : Pub)
  | pubDeliver (p : Pub) (s : Slot)
  | pubEnd (p : Pub)
  | linkSubscribe (s : Slot) (d : Nat) (g : Nat)
  | linkDisconnect (s : Slot) (keep : Bool)
  | agentReconfigure
  | agentTerminate
  | rootProc
  | rootBlock
  | rootNotify
  | cloneNew (c : Pub)
  | cloneAttach (c : Pub)
  | cloneProc (c : Pub)
  | cloneClosed (c : Pub)
  | cloneDrop (c : Pub)
  deriving DecidableEq, Repr

def init (ccap : Nat) : St :=
  { updates := [], rx := 0, ngen := 1, sendGen := 0, chq := fun _ => [], clones := [], busy := none,
    rootTerminated := false, rootPanicked := false,
    pubs := fun p => if p = 0 then { alive := true } else {},
    chans := fun _ => {}, npubs := 1, nslots := 0, ccap := ccap, handled := 0 }

/-- Room in command channel `g`. -/
def St.room (st : St) (g : Nat) : Bool := (st.chq g).length < st.ccap

/-- Push a command into channel `g`. -/
def St.push (st : St) (g : Nat) (x : Cmd) : St := { st with chq := upd st.chq g (st.chq g ++ [x]) }

/-- Some sender of clone `c`'s command channel still exists: the attach task, an `AttachClone`
    queued in a channel that is still read or will be read, or `clone_senders`. -/
def St.hasSender (st : St) (c : Pub) : Bool :=
  (st.pubs c).attachPending || st.clones.contains c ||
  (List.range st.ngen).any (fun g => decide (st.rx ≤ g) && (st.chq g).contains (.attach c))

/-- The notification a `process()` arm starts. -/
def St.startNotify (st : St) (x : Cmd) (a : After) : St :=
  { st with busy := some { cmd := x, rest := st.clones, blocked := false, closedFound := false, after := a } }

/-- The root gate handles one command (`process()` match arms). -/
def rootHandle (v : Variant) (st : St) (x : Cmd) : St :=
  match x with
  | .subscribe s =>
    { st with updates := ins s st.updates,
              chans := upd st.chans s { st.chans s with acked := true } }.startNotify (.followSub s) .cont
  | .unsubscribe s =>
    { st with updates := del s st.updates,
              chans := upd st.chans s { st.chans s with unsubbed := true } }.startNotify (.followUnsub s) .cont
  | .attach c => { st with clones := ins c st.clones }
  | .detach c => { st with clones := del c st.clones }
  | .terminate => st.startNotify .terminate .term
  | .reconfigure g =>
    { st with rx := g, chq := upd st.chq st.rx [],
              sendGen := if v.staleSender then st.sendGen else g,
              updates := [] }.startNotify .followReconf .ret
  | .followSub _ => st      -- a root gate never receives these (assert in the code)
  | .followUnsub _ => st
  | .followReconf => st

/-- A clone handles one command. -/
def cloneHandle (v : Variant) (st : St) (c : Pub) (x : Cmd) : St :=
  match x with
  | .followSub s =>
    if v.followEdits then
      { st with updates := ins s st.updates,
                chans := upd st.chans s { st.chans s with res := (st.chans s).res || !(decide ((st.chans s).via = st.rx) && !(st.chans s).unsubbed) } }
    else st
  | .followUnsub s => if v.followEdits then { st with updates := del s st.updates } else st
  | .followReconf => { st with pubs := upd st.pubs c { st.pubs c with reconfSeen := (st.pubs c).reconfSeen + 1 } }
  | .terminate => { st with pubs := upd st.pubs c { st.pubs c with terminated := true } }
  | _ => st

/-- `notify_clones` after its loop: `retain` if a closed sender was seen, then the rest of the arm. -/
def finish (st : St) (b : Busy) : St :=
  { st with clones := if b.closedFound then st.clones.filter (fun c => (st.pubs c).alive) else st.clones,
            busy := none,
            rootTerminated := st.rootTerminated || decide (b.after = .term) }

/-- `some st'` if the step is enabled in `st`. -/
def step (v : Variant) (st : St) : Step → Option St
  | .pubBegin p =>
    let P := st.pubs p
    if P.alive && P.sending.isNone then
      some { st with pubs := upd st.pubs p { P with seq := P.seq + 1, sending := some st.updates, snap := st.updates } }
    else none
  | .pubDeliver p s =>
    let P := st.pubs p
    match P.sending with
    | none => none
    | some R =>
      if R.contains s then
        let ch := st.chans s
        let P' := { P with sending := some (R.erase s) }
        if ch.open_ then
          some { st with pubs := upd st.pubs p P',
                         chans := upd st.chans s { ch with hist := ch.hist ++ [(p, P.seq)] } }
        else some { st with pubs := upd st.pubs p P' }   -- send fails / upgrade fails: skipped
      else none
  | .pubEnd p =>
    let P := st.pubs p
    match P.sending with
    | some [] => some { st with pubs := upd st.pubs p { P with sending := none } }
    | _ => none
  | .linkSubscribe s d g =>
    if s = st.nslots ∧ g < st.ngen then
      let ch : Chan := { st.chans s with owner := d, via := g }
      if st.rx ≤ g then
        if st.room g then
          some { (st.push g (.subscribe s)) with chans := upd st.chans s ch, nslots := st.nslots + 1 }
        else none          -- the bounded command channel is full: `connect()` waits
      else                 -- closed channel: `connect()` returns `Err(Gone)`
        some { st with chans := upd st.chans s { ch with open_ := false }, nslots := st.nslots + 1 }
    else none
  | .linkDisconnect s keep =>
    let ch := st.chans s
    if ch.acked && !ch.disc then
      let ch' := { ch with disc := true, open_ := ch.open_ && keep }
      if st.rx ≤ ch.via then
        if st.room ch.via then
          some { (st.push ch.via (.unsubscribe s)) with chans := upd st.chans s ch' }
        else none
      else some { st with chans := upd st.chans s ch' }   -- `let _ = send(Unsubscribe)`: lost
    else none
  | .agentReconfigure =>
    if st.rx ≤ st.ngen - 1 then
      if st.room (st.ngen - 1) then
        some { (st.push (st.ngen - 1) (.reconfigure st.ngen)) with ngen := st.ngen + 1 }
      else none
    else some { st with ngen := st.ngen + 1 }
  | .agentTerminate =>
    if st.rx ≤ st.ngen - 1 then
      if st.room (st.ngen - 1) then some (st.push (st.ngen - 1) .terminate) else none
    else some st
  | .rootProc =>
    if st.busy.isSome || st.rootTerminated || st.rootPanicked then none else
    match st.chq st.rx with
    | [] => none
    | x :: q => some (rootHandle v { st with chq := upd st.chq st.rx q, handled := st.handled + 1 } x)
  | .rootBlock =>
    match st.busy with
    | none => none
    | some b =>
      match b.rest with
      | [] => none
      | c :: _ =>
        if !st.rootPanicked && !b.blocked && (st.pubs c).alive && !(decide ((st.pubs c).cmdq.length < st.ccap)) then
          some { st with busy := some { b with blocked := true } }
        else none
  | .rootNotify =>
    match st.busy with
    | none => none
    | some b =>
      if st.rootPanicked then none else
      match b.rest with
      | [] => some (finish st b)
      | c :: R =>
        let P := st.pubs c
        if P.alive then
          if P.cmdq.length < st.ccap then
            some { st with pubs := upd st.pubs c { P with cmdq := P.cmdq ++ [b.cmd], notified := P.notified + 1 },
                           busy := some { b with rest := R, blocked := false } }
          else none        -- the clone's queue is full: `sender.send(cmd).await` does not return
        else if b.blocked && v.notifyPanics then
          some { st with rootPanicked := true }       -- `.expect(..)` on the failed send
        else
          some { st with busy := some { b with rest := R, blocked := false, closedFound := true } }
  | .cloneNew c =>
    if c = st.npubs then
      some { st with pubs := upd st.pubs c { st.pubs c with alive := true, attachPending := true }, npubs := st.npubs + 1 }
    else none
  | .cloneAttach c =>
    let P := st.pubs c
    if P.attachPending then
      if st.rx ≤ st.sendGen then
        if st.room st.sendGen then
          some { (st.push st.sendGen (.attach c)) with pubs := upd st.pubs c { P with attachPending := false } }
        else none
      else some { st with pubs := upd st.pubs c { P with attachPending := false } }   -- `tx` dropped
    else none
  | .cloneProc c =>
    let P := st.pubs c
    if c ≠ 0 && P.alive && !P.terminated then
      match P.cmdq with
      | [] => none
      | x :: q => some (cloneHandle v { st with pubs := upd st.pubs c { P with cmdq := q, processed := P.processed + 1 } } c x)
    else none
  | .cloneClosed c =>
    let P := st.pubs c
    if c ≠ 0 && P.alive && !P.terminated && P.cmdq.isEmpty && !st.hasSender c then
      some { st with pubs := upd st.pubs c { P with terminated := true } }
    else none
  | .cloneDrop c =>
    let P := st.pubs c
    if c ≠ 0 && P.alive && P.sending.isNone then
      let P' := { P with alive := false, cmdq := [] }
      if st.rx ≤ st.sendGen then
        if st.room st.sendGen then
          some { (st.push st.sendGen (.detach c)) with pubs := upd st.pubs c P' }
        else none
      else some { st with pubs := upd st.pubs c P' }
    else none

/-- Run a trace; `none` as soon as a step is not enabled. -/
def run (v : Variant) (st : St) : List Step → Option St
  | [] => some st
  | x :: xs => match step v st x with
    | some st' => run v st' xs
    | none => none

/-- The current tree: command sender follows the reconfigure (e536b86), `notify_clones` panics
    when a clone goes away while the root waits for room in its queue. -/
def asIs : Variant := ⟨false, true, true⟩
/-- Before e536b86. -/
def asWritten : Variant := ⟨true, true, true⟩
def repaired : Variant := ⟨false, false, false⟩

/-- The link's subscription belongs to the generation the gate currently serves, has been
    answered and not unsubscribed. -/
def St.current (st : St) (s : Slot) : Prop :=
  (st.chans s).acked = true ∧ (st.chans s).via = st.rx ∧ (st.chans s).unsubbed = false

/-- The root gate is stuck in `notify_clones` on clone `c`'s full queue. -/
def St.wedgedOn (st : St) (c : Pub) : Prop :=
  ∃ b R, st.busy = some b ∧ b.rest = c :: R ∧ (st.pubs c).alive = true ∧ st.ccap ≤ (st.pubs c).cmdq.length

end Rotonda.GateReconf
