import RotondaModel.Model.Rib
/-
The RIB unit's metrics (`src/units/rib_unit/{metrics.rs,status_reporter.rs,statistics.rs}`) and every
call site in `unit.rs` / `rib.rs` that updates them, on top of `Model/Rib.lean` (imported, not edited:
`Update`, `Payload`, `Rib`, `Store` and its `known` slots = the rotonda-store contract of C01).
Core Lean only, so the driver links.  Reading guide: `notes/RibMetrics.md`.

What is transliterated, and from where
--------------------------------------
* `Metrics`            = the atomics of `RibUnitMetrics` (metrics.rs:24-39) + the keys of its per-ingress
                         `routers` map + the three `GateMetrics` atomics it renders first (comms.rs:1065).
                         `announced` is an `AtomicUsize` that the code *decrements*: it lives in
                         `Nat mod 2^64` (`fetch_sub` wraps, it never panics).
* `Metrics.effect`     = `RibUnitStatusReporter::insert_or_update` (status_reporter.rs:100-153), the `match change`.
* `Metrics.insertOk`   = `insert_ok` (54-75): stores the insert duration, registers the ingress id in `routers`,
                         adds `num_retries` (= the store's `cas_count`, 0 without contention) and applies the effect.
* `Metrics.insertFailed` = `insert_failed` (49-52).
* `report`             = what `Rib::insert` hands back to `insert_payload` (rib.rs:114-216, unit.rs:1046-1111):
                         `Reprocess` context → `insert_failed` before the store is touched; a `Withdrawn` payload
                         → `mark_mui_as_withdrawn_for_prefix`, whose `Err(PrefixNotFound)` (no slot for the
                         prefix; *the call creates the slot*) becomes `insert_failed`, and whose `Ok` is reported
                         as the constant `UpsertReport { prefix_new: false, cas_count: 0, .. }`; an `Active`
                         payload → `store.insert`, `prefix_new` = "no slot existed" (`upsert_prefix`,
                         custom_alloc.rs:645-690).
* `Metrics.payload`    = the `Ok(report)` / `Err` arms of `insert_payload` (unit.rs:1065-1111): `insert_ok(…,
                         RouteAdded | RouteUpdated)` and then, for a `Withdrawn` payload, a second
                         `insert_ok(…, RoutesWithdrawn(1))`.
* `St.apply`           = `process_update` (unit.rs:677-759) as far as metrics go: `Single`/`Bulk` →
                         `insert_payload` per payload, then one `gate.update_data` per `Rib.forwards`;
                         `Withdraw` / `WithdrawBulk` → `signal_withdraw` → `Rib::withdraw_for_ingress`, which
                         has no status reporter and touches **no** metric.
* Never called by anything (read): `update_ok`, `unique_prefix_count_updated`, `RibMergeUpdateStatistics::add`,
  and no call site builds `RoutesRemoved(_)` or `RoutesWithdrawn(0)`; `update_duration` and both histograms
  are therefore constant 0 (`updateDur`, not modelled beyond that).
* Durations: `pre_insert.duration_since(post_insert)` and `payload.received.duration_since(post_insert)`
  (unit.rs:1068-1069) have their operands the wrong way round; `Instant::duration_since` saturates to zero,
  so `rib_unit_insert_duration` and every `rib_unit_e2e_duration` sample are 0 (`Variant.durationFix = false`).
  The engine gives every payload a `received` instant 3 s in the past: an e2e sample is `aged` when it
  reports ≥ 3000 ms.
-/
namespace Rotonda.RibMetrics
open Rotonda.Rib

/-- `usize::MAX + 1` on the 64-bit targets rotonda is built for. -/
def W : Nat := 18446744073709551616

/-- Defect-site variants (both settings are models of *some* code).
    * `durationFix = false`: as written, operands of `duration_since` swapped, durations are 0;
      `true`: `post_insert.duration_since(pre_insert / payload.received)`.
    * `wdEffectFix = false`: as written, a withdrawal payload the store accepted is first reported as
      `RouteUpdated` (the constant report says `prefix_new: false`) and then as `RoutesWithdrawn(1)`;
      `true`: it is reported as `RoutesWithdrawn(1)` only. -/
structure MVariant where
  durationFix : Bool := false
  wdEffectFix : Bool := false
  deriving DecidableEq, Repr

def mAsWritten : MVariant := {}

/-- `StoreInsertionEffect` (rib.rs:889). -/
inductive Effect where
  | routesWithdrawn (n : Nat)
  | routesRemoved (n : Nat)
  | routeAdded
  | routeUpdated
  deriving DecidableEq, Repr

structure Metrics where
  uniquePrefixes : Nat := 0   -- rib_unit_num_unique_prefixes                       (Counter)
  items : Nat := 0            -- rib_unit_num_items                                 (Gauge)
  insertRetries : Nat := 0    -- rib_unit_num_insert_retries                        (Counter)
  hardFailures : Nat := 0     -- rib_unit_num_insert_hard_failures                  (Counter)
  announced : Nat := 0        -- rib_unit_num_routes_announced                      (Counter, mod 2^64)
  modified : Nat := 0         -- rib_unit_num_modified_route_announcements          (Counter)
  withdrawn : Nat := 0        -- rib_unit_num_routes_withdrawn                      (Counter)
  wdNoAnn : Nat := 0          -- rib_unit_num_route_withdrawals_without_announcements (Counter)
  insertDurSet : Bool := false -- has a (possibly non-zero) insert duration been stored? (repaired variant only)
  updateDur : Nat := 0        -- rib_unit_update_duration: nothing ever stores it
  e2e : List (Mui × Bool) := [] -- keys of `routers` with "the sample reflects the payload's age"
  gUpdates : Nat := 0         -- <unit>_num_updates
  gDropped : Nat := 0         -- <unit>_num_dropped_updates
  gSetSize : Nat := 0         -- <unit>_update_set_size (last Bulk sent; the sample is absent before the first update)
  deriving DecidableEq, Repr

def Metrics.empty : Metrics := {}

/-- `fetch_sub(n)` on an `AtomicUsize`. -/
def subWrap (a n : Nat) : Nat := (a + (W - n % W)) % W

/-- the `match change` of `insert_or_update`. -/
def Metrics.effect (m : Metrics) : Effect → Metrics
  | .routesWithdrawn 0 | .routesRemoved 0 => { m with wdNoAnn := m.wdNoAnn + 1 }
  | .routesWithdrawn n => { m with announced := subWrap m.announced n, withdrawn := m.withdrawn + n }
  | .routesRemoved n => { m with announced := subWrap m.announced n, items := m.items - n }
  | .routeAdded => { m with announced := (m.announced + 1) % W, uniquePrefixes := m.uniquePrefixes + 1,
                            items := m.items + 1 }
  | .routeUpdated => { m with modified := m.modified + 1 }

/-- `insert_ok(ingress_id, insert_delay, propagation_delay, num_retries, change)`. -/
def Metrics.insertOk (v : MVariant) (m : Metrics) (ing : Mui) (retries : Nat) (e : Effect) : Metrics :=
  let m := { m with insertDurSet := v.durationFix,
                    e2e := upsert ing v.durationFix m.e2e,
                    insertRetries := m.insertRetries + retries }
  m.effect e

def Metrics.insertFailed (m : Metrics) : Metrics := { m with hardFailures := m.hardFailures + 1 }

/-- What `insert_payload` learns from `Rib::insert`. -/
inductive Report where
  | failed
  | ok (prefixNew : Bool)
  deriving DecidableEq, Repr

def report (r : Rib) (pl : Payload) : Report :=
  match pl.ctx with
  | .reprocess => .failed
  | _ =>
    match pl.status with
    | .withdrawn => if pl.route.pfx ∈ (r.store pl.route.mc).known then .ok false else .failed
    | .active => .ok (decide (pl.route.pfx ∉ (r.store pl.route.mc).known))

/-- The metric half of `insert_payload`. Single-threaded: `cas_count = 0`. -/
def Metrics.payload (v : MVariant) (m : Metrics) (rep : Report) (pl : Payload) : Metrics :=
  match rep with
  | .failed => m.insertFailed
  | .ok pn =>
    match pl.status with
    | .active => m.insertOk v pl.mui 0 (if pn then .routeAdded else .routeUpdated)
    | .withdrawn =>
      if v.wdEffectFix then m.insertOk v pl.mui 0 (.routesWithdrawn 1)
      else (m.insertOk v pl.mui 0 (if pn then .routeAdded else .routeUpdated)).insertOk v pl.mui 0 (.routesWithdrawn 1)

/-- `GateMetrics::update` for an update nobody receives (the engine attaches no link). -/
def Metrics.gate (m : Metrics) : Update → Metrics
  | .bulk ps => { m with gUpdates := m.gUpdates + 1, gDropped := m.gDropped + 1, gSetSize := ps.length }
  | _ => { m with gUpdates := m.gUpdates + 1, gDropped := m.gDropped + 1 }

/-- RIB content and metrics side by side. -/
structure St where
  rib : Rib := {}
  mx : Metrics := {}
  deriving DecidableEq, Repr

def St.empty : St := {}

def St.payload (v : MVariant) (s : St) (pl : Payload) : St :=
  ⟨s.rib.insertPayload pl, s.mx.payload v (report s.rib pl) pl⟩

/-- `process_update` (no roto filter, physical RIB). -/
def St.apply (rv : Rotonda.Rib.Variant) (v : MVariant) (s : St) (u : Update) : St :=
  let s' : St := match u with
    | .single p => s.payload v p
    | .bulk ps => ps.foldl (St.payload v) s
    | u => ⟨s.rib.apply rv u, s.mx⟩
  { s' with mx := (Rib.forwards u).foldl Metrics.gate s'.mx }

def St.runFrom (rv : Rotonda.Rib.Variant) (v : MVariant) (s : St) (us : List Update) : St := us.foldl (St.apply rv v) s
def St.run (rv : Rotonda.Rib.Variant) (v : MVariant) (us : List Update) : St := St.runFrom rv v St.empty us

/-- the metrics after a history of source events (C01's `History`). -/
def runHistory (rv : Rotonda.Rib.Variant) (v : MVariant) (h : History) : St :=
  St.run rv v (h.flatMap (Ev.updates rv))

/-! ### The ledger: which events of a history each counter names (independent of `Metrics`) -/

/-- The payloads `process_update` hands to `insert_payload`, in order. -/
def payloadsOf : Update → List Payload
  | .single p => [p]
  | .bulk ps => ps
  | _ => []

/-- How one payload event is classified against the RIB content *before* it. -/
inductive Kind where
  | reprocess          -- a `Reprocess` context: rejected before the store
  | blindWithdraw      -- withdrawal, the store has no slot for the prefix (never announced, never withdrawn before)
  | withdraw           -- withdrawal the store accepts (slot exists; the (prefix, ingress) record may or may not)
  | newPrefix          -- announcement, no slot for the prefix yet
  | knownPrefix        -- announcement, slot exists (new route of another ingress, re-announcement, or after a blind withdrawal)
  deriving DecidableEq, Repr

def kind (r : Rib) (pl : Payload) : Kind :=
  match pl.ctx with
  | .reprocess => .reprocess
  | _ =>
    match pl.status with
    | .withdrawn => if pl.route.pfx ∈ (r.store pl.route.mc).known then .withdraw else .blindWithdraw
    | .active => if pl.route.pfx ∈ (r.store pl.route.mc).known then .knownPrefix else .newPrefix

/-- The kinds of all payload events of a list of updates, played from RIB content `r` with C01's `Rib.apply`. -/
def kindsP (r : Rib) : List Payload → List Kind
  | [] => []
  | p :: ps => kind r p :: kindsP (r.insertPayload p) ps

def kindsFrom (rv : Rotonda.Rib.Variant) (r : Rib) : List Update → List Kind
  | [] => []
  | u :: us => kindsP r (payloadsOf u) ++ kindsFrom rv (r.apply rv u) us

def kinds (rv : Rotonda.Rib.Variant) (us : List Update) : List Kind := kindsFrom rv Rib.empty us

def cnt (k : Kind) (ks : List Kind) : Nat := ks.count k

/-- Does the store accept the payload (so that `insert_ok` runs and its ingress gets an e2e sample)? -/
def Kind.accepted : Kind → Bool
  | .withdraw | .newPrefix | .knownPrefix => true
  | _ => false

/-- The ingress ids of the accepted payload events, in order, with repetitions. -/
def okMuisP (r : Rib) : List Payload → List Mui
  | [] => []
  | p :: ps => (if (kind r p).accepted then [p.mui] else []) ++ okMuisP (r.insertPayload p) ps

def okMuisFrom (rv : Rotonda.Rib.Variant) (r : Rib) : List Update → List Mui
  | [] => []
  | u :: us => okMuisP r (payloadsOf u) ++ okMuisFrom rv (r.apply rv u) us

def okMuis (rv : Rotonda.Rib.Variant) (us : List Update) : List Mui := okMuisFrom rv Rib.empty us

/-! ### What the metric names say they count, computed from the RIB content -/

/-- Does store `s` hold at least one record for prefix `p`? -/
def hasRec (s : Store) (p : Prefix) : Bool := s.recs.any fun e => e.1.1 = p

/-- `n` is the number of prefixes with at least one record in `s`: there is a duplicate-free
    enumeration of exactly those prefixes, of length `n`. -/
def CountsPrefixes (s : Store) (n : Nat) : Prop :=
  ∃ l : List Prefix, l.Nodup ∧ (∀ p, p ∈ l ↔ hasRec s p = true) ∧ l.length = n

/-- Records stored (withdrawn or not). -/
def numRecs (s : Store) : Nat := s.recs.length

/-- Is the record reported as active by a query (local status and global withdrawn marker)? -/
def activeRec (s : Store) (e : Key × Val) : Bool := e.2.1 = .active && !(decide (e.1.2 ∈ s.wd e.1.1.fam))

def numActive (s : Store) : Nat := (s.recs.filter (activeRec s)).length

def ribNumRecs (r : Rib) : Nat := numRecs r.unicast + numRecs r.multicast
def ribNumActive (r : Rib) : Nat := numActive r.unicast + numActive r.multicast

/-! ### Guards of the partial theorems -/

/-- No payload is classified `k`. -/
def noKind (k : Kind) (ks : List Kind) : Bool := !(ks.contains k)

/-! ### Rendering for the driver -/

def Metrics.show (v : MVariant) (m : Metrics) : String :=
  let e2e := (m.e2e.toArray.qsort (fun a b => a.1 < b.1)).toList
  let e := if e2e.isEmpty then "-" else ";".intercalate (e2e.map fun x => s!"{x.1}{if x.2 then "a" else "z"}")
  s!"{m.uniquePrefixes},{m.items},{m.insertRetries},{m.hardFailures},{m.announced},{m.modified},{m.withdrawn},{m.wdNoAnn},{if v.durationFix then "-" else "z"},{m.updateDur},{e},{m.gUpdates},{m.gDropped},{if m.gUpdates = 0 then "missing" else toString m.gSetSize}"

end Rotonda.RibMetrics
