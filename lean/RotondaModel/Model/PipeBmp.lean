import RotondaModel.Model.Bmp
import RotondaModel.Model.Rib
/-!
# PipeBmp — the composition  BMP state machine ∘ RIB unit

`Model/Bmp.lean` (C05) abstracts the content of a Route Monitoring message to the counters the
parser reports; `Model/Rib.lean` (C01–C03) starts from abstract RIB events.  This file composes
them: a BMP message **with its route content** is stepped through `Bmp.step`, and whatever
`Update` the state machine emits (`Bulk` for a delivered Route Monitoring message,
`Withdraw(id, None)` for a Peer Down, `WithdrawBulk(ids)` for a Termination) is applied to the
RIB with `Rib.apply` — the path  `RouterHandler` → gate → `RibUnitRunner::process_update`.

Several router sessions share one ingress register (`bmp_tcp_in/unit.rs:417-432`: one
`BmpState` per accepted connection, all built on the unit's `ingress_register`), so the ingress
ids the peers get — and get *back* after a Peer Down / Peer Up or after a reconnect — are part of
the model (in `Model/Rib.lean`'s histories they are an input).

Nothing of the two models is edited; `Bmp.step`, `Bmp.regFor`, `Rib.ingest`, `Rib.apply` are
called as they are.  Import-free apart from the two models.

Second half: the **specification-level tracker** (`Track`): per session only "not started /
live / ended" and the set of up peers with their ingress ids.  It turns a BMP history into the
`Rib.History` of route data of peers that were up when they sent it — the vocabulary in which
C01–C03 are stated.  `Proofs/PipeBmp.lean` shows that the composed model refines it.
-/
namespace Rotonda.PipeBmp
open Rotonda

abbrev Hdr := Nat
abbrev Mui := Nat
abbrev Key := Nat

/-- A BMP message as the composition sees it: `Bmp.Msg` plus, for Route Monitoring, the route
    content of the BGP UPDATE (`Rib.Upd`: attribute id, announced and withdrawn NLRI, or
    `malformed` when the parser / `explode_update` rejects it). `t` is what the real parser
    reported about the same PDU (`Bmp.Rm`). -/
inductive Msg where
  | init
  | peerUp (h : Hdr) (eor c4 : Bool)
  | peerDown (h : Hdr)
  | routeMon (h : Hdr) (t : Bmp.Rm) (u : Rib.Upd)
  | stats (h : Hdr)
  | mirror (h : Hdr)
  | term
  deriving DecidableEq, Repr

/-- Forget the route content. -/
def Msg.toBmp : Msg → Bmp.Msg
  | .init => .init
  | .peerUp h e c => .peerUp h e c
  | .peerDown h => .peerDown h
  | .routeMon h t _ => .routeMon h t
  | .stats h => .stats h
  | .mirror h => .mirror h
  | .term => .term

/-- Defect-site variants of the two components, unchanged. -/
structure Variant where
  bmp : Bmp.Variant
  rib : Rib.Variant
  deriving DecidableEq, Repr

def asWritten : Variant := ⟨Bmp.asWritten, Rib.asWritten⟩

/-- The life cycle of a session as RFC 7854 sees it: before the Initiation message, between it and the
    end of the session, after the end. -/
inductive Life where
  | fresh | live | dead
  deriving DecidableEq, Repr

/-- The phase of the state machine, read as a life-cycle stage (also the abstraction map of the refinement). -/
def lifeOf : Bmp.Phase → Life
  | .initiating => .fresh
  | .dumping => .live
  | .updating => .live
  | .terminated => .dead

/-- One accepted connection: a `BmpState` without the register (which is shared). -/
structure Sess where
  phase : Bmp.Phase
  peers : List Bmp.Peer
  deriving DecidableEq, Repr

/-- One `bmp-tcp-in` unit feeding one RIB unit. Session `i` is the `i`-th accepted connection.
    `rids[i]` is the router ingress id connection `i` was given (`unit.rs:422-428`), `par` the
    `parent_ingress` of every peer-level register entry (id, router id) — what
    `Register::ids_for_parent` reads.  A connection that is no longer read (`read_from_router` has
    left its loop) is represented by `⟨.terminated, []⟩`: its state machine is never stepped again. -/
structure World where
  sess : List Sess
  reg : List (Key × Mui)
  next : Mui
  rids : List Mui
  par : List (Mui × Mui)
  rib : Rib.Rib
  deriving DecidableEq, Repr

/-- A fresh unit: the unit itself holds ingress id 1 (`unit.rs:385`), nothing else is registered. -/
def World.init : World := ⟨[], [], 2, [], [], Rib.Rib.empty⟩

inductive Ev where
  /-- A connection is accepted from a router whose register key class (unit, remote address) is `rk`:
      `find_or_register_bmp_router`, then `router_connected` → `BmpState::new` (phase Initiating). -/
  | connect (rk : Key)
  /-- Message `m` arrives on connection `i`. -/
  | msg (i : Nat) (m : Msg)
  /-- Connection `i` ends without a Termination message (EOF, fatal read error): `read_from_router`
      leaves its loop and runs its epilogue (`router_handler.rs:305-335`). -/
  | disconnect (i : Nat)
  deriving DecidableEq, Repr

abbrev History := List Ev

/-- The `Update`s that reach the RIB unit for one processed message: `RouterHandler` forwards
    `MessageType::RoutingUpdate { update }` to the gate and nothing else. The payloads of a `Bulk`
    are `explode_update` of the UPDATE, all carrying the peer's ingress id (`machine.rs:831`). -/
def emit (vr : Rib.Variant) (m : Msg) : Bmp.Out → List Rib.Update
  | .routing (.bulk mui _ _) =>
    (match m with
     | .routeMon _ _ u => Rib.ingest vr .fresh mui u
     | _ => [])
  | .routing (.withdraw mui) => [.withdraw mui none]
  | .routing (.withdrawBulk ids) => [.withdrawBulk ids]
  | _ => []

/-- The `BmpState` of a session: its own phase and peer table on the shared register. -/
def World.view (w : World) (s : Sess) : Bmp.State := ⟨s.phase, s.peers, w.reg, w.next⟩

/-- The register entries a state machine step added (`register()` + `update_info` with
    `parent_ingress = ` the router id of the connection): the ids `next … next' - 1`. -/
def newChildren (rid : Mui) (next next' : Mui) : List (Mui × Mui) :=
  (List.range' next (next' - next)).map (fun m => (m, rid))

/-- `Register::ids_for_parent` (`ingress.rs:100`): every id whose `parent_ingress` is `rid` — the
    peers that are up, the peers that went down long ago, and the peers of any other connection
    that was given the same router id.  (Hash-map order in the code; the order does not matter to
    `WithdrawBulk`.) -/
def idsForParent (rid : Mui) (par : List (Mui × Mui)) : List Mui :=
  (par.filter (fun e => e.2 == rid)).map (·.1)

/-- The epilogue of `read_from_router` (`router_handler.rs:313-335`): `WithdrawBulk(ids_for_parent(router
    id))`, then `UpstreamStatusChange(EndOfStream)`. It runs whenever the read loop is left: end of
    input, fatal read error, **and** after a Termination message (`router_handler.rs:293-300`). -/
def epilogue (rid : Mui) (par : List (Mui × Mui)) : List Rib.Update :=
  [.withdrawBulk (idsForParent rid par), .endOfStream]

/-- Did this step end the session (`matches!(state, BmpState::Terminated(_))` after the message)? -/
def endedBy : Life → Life → Bool
  | .dead, _ => false
  | _, .dead => true
  | _, _ => false

/-- One event. `K i h` is the register key class (router id of connection `i`, peer address,
    peer AS, RIB type) of per-peer header `h` on connection `i`. -/
def World.step (v : Variant) (K : Nat → Hdr → Key) (w : World) : Ev → World
  | .connect rk =>
    let r := Bmp.regFor rk ⟨.initiating, [], w.reg, w.next⟩
    { w with sess := w.sess ++ [⟨.initiating, []⟩], reg := r.1, next := r.2.1, rids := w.rids ++ [r.2.2] }
  | .msg i m =>
    match w.sess[i]? with
    | none => w
    | some s =>
      let r := Bmp.step v.bmp (K i) (w.view s) m.toBmp
      let rid := w.rids.getD i 0
      let par := w.par ++ newChildren rid w.next r.st.next
      { sess := w.sess.set i ⟨r.st.phase, r.st.peers⟩, reg := r.st.reg, next := r.st.next,
        rids := w.rids, par := par,
        rib := w.rib.applyAll v.rib (emit v.rib m r.out ++
          (match endedBy (lifeOf s.phase) (lifeOf r.st.phase) with
           | true => epilogue rid par
           | false => [])) }
  | .disconnect i =>
    match w.sess[i]? with
    | none => w
    | some s =>
      match lifeOf s.phase with
      | .dead => w
      | _ =>
        { w with sess := w.sess.set i ⟨.terminated, []⟩,
                 rib := w.rib.applyAll v.rib (epilogue (w.rids.getD i 0) w.par) }

def World.runFrom (v : Variant) (K : Nat → Hdr → Key) (w : World) (H : History) : World :=
  H.foldl (World.step v K) w

def run (v : Variant) (K : Nat → Hdr → Key) (H : History) : World := World.runFrom v K World.init H

/-! ### Parser contract between the token and the content of a Route Monitoring message -/

/-- The UPDATE yields no route at all (every NLRI, if any, is of an unsupported family). -/
def noRoutes : Rib.Upd → Bool
  | .malformed => true
  | .ok _ ann wd => (Rib.explodeList ann 0).isEmpty && (Rib.explodeList wd 0).isEmpty

/-- The parser accepted the PDU with one of the session configs and both `explode_*` and
    `announcements_vec()` succeeded: the state machine can hand its routes on. -/
def deliverable (t : Bmp.Rm) : Bool := (t.p4 || t.p2) && (t.xok && t.avok)

/-- Guard of the refinement: what the state machine (variant `vb`) takes for an End-of-RIB marker
    carries no route. For `eorAnyUpdate = false` (the repaired `end_of_rib`) this follows from the
    parser contract `Msg.consistent`; for the code as written it excludes real messages. -/
def Msg.ok (vb : Bmp.Variant) : Msg → Bool
  | .routeMon _ t u => (Bmp.effEor vb t).isNone || noRoutes u
  | _ => true

def Ev.ok (vb : Bmp.Variant) : Ev → Bool
  | .msg _ m => m.ok vb
  | _ => true

/-- What the token must say about the content (checked by the driver on every case, so a parser
    that breaks it shows up as a correspondence failure): deliverable iff the content is not
    `malformed`; the route counts are those of `explode_announcements` / `explode_withdrawals`;
    `pure` iff there is no NLRI at all. -/
def Msg.consistent : Msg → Bool
  | .routeMon _ t u =>
    (match u with
     | .malformed => !(deliverable t)
     | .ok a ann wd =>
       deliverable t && (t.pure == (ann.isEmpty && wd.isEmpty)) &&
       (t.na == (Rib.explodeList ann a).length) && (t.nw == (Rib.explodeList wd 0).length))
  | _ => true

/-! ### The specification-level tracker -/

/-- What RFC 7854 says a monitoring station has to remember about one session. -/
structure TSess where
  life : Life
  up : List (Hdr × Mui)
  deriving DecidableEq, Repr

structure Track where
  sess : List TSess
  reg : List (Key × Mui)
  next : Mui
  rids : List Mui
  par : List (Mui × Mui)
  deriving DecidableEq, Repr

def Track.init : Track := ⟨[], [], 2, [], []⟩

/-- `find_or_register_*` on the register: the id of key class `k`, registering it if new. -/
def regFor (k : Key) (reg : List (Key × Mui)) (next : Mui) : List (Key × Mui) × Mui × Mui :=
  match Bmp.lookupKey k reg with
  | some id => (reg, next, id)
  | none => (reg ++ [(k, next)], next + 1, next)

/-- Result of one message on one tracked session: the session, the register, and the route data
    that reaches the RIB, as `Rib.Ev`s labelled with the ingress id of the peer that sent them. -/
structure TRes where
  s : TSess
  reg : List (Key × Mui)
  next : Mui
  evs : List Rib.Ev
  deriving DecidableEq, Repr

/-- One message on one tracked session (`K1 h` = register key class of header `h` on it).
    * nothing counts before the Initiation message or after the Termination message;
    * Route Monitoring counts only for a header that is up, if the UPDATE parses (`deliverable`);
    * Peer Down of an up header is a session-level withdrawal of its id;
    * Termination is one for all up headers of the session. -/
def TSess.step (K1 : Hdr → Key) (s : TSess) (reg : List (Key × Mui)) (next : Mui) (m : Msg) : TRes :=
  match s.life with
  | .fresh =>
    (match m with
     | .init => ⟨⟨.live, s.up⟩, reg, next, []⟩
     | _ => ⟨s, reg, next, []⟩)
  | .dead => ⟨s, reg, next, []⟩
  | .live =>
    match m with
    | .peerUp h _ _ =>
      let r := regFor (K1 h) reg next
      (match Bmp.lookupUp h s.up with
       | some _ => ⟨s, r.1, r.2.1, []⟩
       | none => ⟨⟨.live, s.up ++ [(h, r.2.2)]⟩, r.1, r.2.1, []⟩)
    | .peerDown h =>
      (match Bmp.lookupUp h s.up with
       | some mui => ⟨⟨.live, s.up.filter (fun e => e.1 != h)⟩, reg, next, [.down mui]⟩
       | none => ⟨s, reg, next, []⟩)
    | .routeMon h t u =>
      (match Bmp.lookupUp h s.up with
       | some mui => ⟨s, reg, next, match deliverable t with | true => [.upd mui u] | false => []⟩
       | none => ⟨s, reg, next, []⟩)
    | .term =>
      ⟨⟨.dead, []⟩, reg, next,
       match s.up.map (·.2) with
       | [] => []
       | ids => [.downBulk ids]⟩
    | _ => ⟨s, reg, next, []⟩

/-- One event on the tracker: the new tracker and the `Rib.Ev`s that **reach the RIB** for it (what the
    code sends). When a session ends — by a Termination message or because the connection is lost — the
    handler's epilogue names every id registered under the connection's router id. -/
def Track.step (K : Nat → Hdr → Key) (T : Track) : Ev → Track × List Rib.Ev
  | .connect rk =>
    let r := regFor rk T.reg T.next
    ({ T with sess := T.sess ++ [⟨.fresh, []⟩], reg := r.1, next := r.2.1, rids := T.rids ++ [r.2.2] }, [])
  | .msg i m =>
    match T.sess[i]? with
    | none => (T, [])
    | some s =>
      let r := s.step (K i) T.reg T.next m
      let rid := T.rids.getD i 0
      let par := T.par ++ newChildren rid T.next r.next
      (⟨T.sess.set i r.s, r.reg, r.next, T.rids, par⟩,
       r.evs ++ (match endedBy s.life r.s.life with
                 | true => [.downBulk (idsForParent rid par)]
                 | false => []))
  | .disconnect i =>
    match T.sess[i]? with
    | none => (T, [])
    | some s =>
      match s.life with
      | .dead => (T, [])
      | _ => ({ T with sess := T.sess.set i ⟨.dead, []⟩ }, [.downBulk (idsForParent (T.rids.getD i 0) T.par)])

/-- The session-level withdrawal the property asks for when a session ends: the ids of the peers that are up on it. -/
def TSess.endEvs (s : TSess) : List Rib.Ev :=
  match s.up.map (·.2) with
  | [] => []
  | ids => [.downBulk ids]

/-- What the **property** wants the RIB to see for one event (C02: "losing a session withdraws exactly that
    session's routes and nothing else"): the route data and Peer Downs as they come, a Termination and a lost
    connection as one withdrawal of the ids of the peers that were up on that session. -/
def Track.want (K : Nat → Hdr → Key) (T : Track) : Ev → List Rib.Ev
  | .connect _ => []
  | .msg i m =>
    (match T.sess[i]? with
     | none => []
     | some s => (s.step (K i) T.reg T.next m).evs)
  | .disconnect i =>
    (match T.sess[i]? with
     | none => []
     | some s => match s.life with | .dead => [] | _ => s.endEvs)

def Track.runFrom (K : Nat → Hdr → Key) (T : Track) (H : History) : Track :=
  H.foldl (fun T e => (T.step K e).1) T

/-- The RIB history of a BMP history: route data of peers that were up when they sent it. -/
def traceFrom (K : Nat → Hdr → Key) : Track → History → Rib.History
  | _, [] => []
  | T, e :: H => (T.step K e).2 ++ traceFrom K (T.step K e).1 H

def trace (K : Nat → Hdr → Key) (H : History) : Rib.History := traceFrom K Track.init H

/-- The RIB history the property asks for (`Track.want` along the history). -/
def wantFrom (K : Nat → Hdr → Key) : Track → History → Rib.History
  | _, [] => []
  | T, e :: H => T.want K e ++ wantFrom K (T.step K e).1 H

def want (K : Nat → Hdr → Key) (H : History) : Rib.History := wantFrom K Track.init H

def upOf (ps : List Bmp.Peer) : List (Hdr × Mui) := ps.map (fun p => (p.hdr, p.mui))

def Sess.abs (s : Sess) : TSess := ⟨lifeOf s.phase, upOf s.peers⟩

def World.abs (w : World) : Track := ⟨w.sess.map Sess.abs, w.reg, w.next, w.rids, w.par⟩

end Rotonda.PipeBmp
