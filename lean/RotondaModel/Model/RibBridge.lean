import RotondaModel.Model.Rib
import RotondaModel.Model.RibQuery
import RotondaModel.Model.RibConc
/-!
# One RIB vocabulary: abstraction maps between the three RIB models (builder U)

`Model/Rib.lean` (C01/C02/C03, the *shared* model: `Store`, `Rib.apply`, `Rib.query`, `run`) is the
concrete side. This file maps its states and inputs into the two vocabularies that were written
independently of it:

* `Model/RibQuery.lean` (C11): `storeToQ` / `ribToQ` — every stored record becomes one query-side
  record carrying its prefix and its **reported** status (the per-tree global withdrawn marker of
  the shared store already applied; the query-side store-wide set `wd` is left empty, because the
  shared store has one marker set per address family and the query-side store only one).
  `storeToQraw` is the literal alternative (raw statuses, `wd := wd4`), equal in what it reports
  whenever the two per-family marker sets agree — which holds in every state reachable by `run`
  (`Proofs/RibBridge.lean`, `run_wdUniform`).
  Attributes: the shared model has an opaque `AttrId`; `ι : AttrId → Attrs` interprets it.
  `httpOfHistory` is the composed executable function *history → HTTP answer* the c11 engine's
  `H` case stream is compared against.
* `Model/RibConc.lean` (C09): `ribToSeq` (state) and `opOf` (input) for an encoding
  `enc : multicast? → Prefix → Nat` of prefixes into RibConc's numeric prefixes such that prefix
  `enc mc p` lives in tree `treeIdx mc p.fam` (RibConc's `treeOf n = n % 4`: 0 = unicast v4,
  1 = unicast v6, 2 = multicast v4, 3 = multicast v6). `encStd` is a concrete such encoding.

Import-free apart from the three models, so that drivers link. Theorems: `Props/RibBridge.lean`.
-/
namespace Rotonda.Bridge

open Rotonda

/-! ## Shared model → query model (C11) -/

def qFam : Rib.Fam → RibQuery.Fam
  | .v4 => .v4
  | .v6 => .v6

def qPfx (p : Rib.Prefix) : RibQuery.Prefix := ⟨qFam p.fam, p.len, p.bits⟩

def qStatus : Rib.Status → RibQuery.Status
  | .active => .active
  | .withdrawn => .withdrawn

/-- Interpretation of the shared model's opaque attribute ids. -/
abbrev AttrInterp := Rib.AttrId → RibQuery.Attrs

/-- The default interpretation: only the id is known. -/
def idAttrs : AttrInterp := fun a => ⟨a, none, []⟩

/-- A reported record of prefix `p` in the query vocabulary. -/
def qRec (ι : AttrInterp) (p : Rib.Prefix) (r : Rib.Rec) : RibQuery.Rec :=
  ⟨qPfx p, r.mui, qStatus r.status, ι r.attrs⟩

/-- One stored entry as a query reports it: the global marker of the entry's tree applied. -/
def qEntry (ι : AttrInterp) (s : Rib.Store) (e : Rib.Key × Rib.Val) : RibQuery.Rec :=
  qRec ι e.1.1 (Rib.rewrite (s.wd e.1.1.fam) (Rib.toRec e))

/-- The record-less prefix slots of the shared store (`known` without the prefixes that hold a
    record): what `mark_mui_as_withdrawn_for_prefix` on an unknown prefix leaves behind. -/
def emptySlots (s : Rib.Store) : List RibQuery.Prefix :=
  (s.known.filter fun p => !(s.recs.any fun e => decide (e.1.1 = p))).map qPfx

/-- **Abstraction map** shared store → query-side store. -/
def storeToQ (ι : AttrInterp) (s : Rib.Store) : RibQuery.Store :=
  { recs := s.recs.map (qEntry ι s), wd := [], empty := emptySlots s }

/-- The literal alternative: raw statuses plus one store-wide marker set (the v4 tree's). -/
def storeToQraw (ι : AttrInterp) (s : Rib.Store) : RibQuery.Store :=
  { recs := s.recs.map fun e => qRec ι e.1.1 (Rib.toRec e), wd := s.wd4, empty := emptySlots s }

/-- **Abstraction map** shared RIB → query-side RIB. -/
def ribToQ (ι : AttrInterp) (r : Rib.Rib) : RibQuery.Rib :=
  ⟨storeToQ ι r.unicast, storeToQ ι r.multicast⟩

def ribToQraw (ι : AttrInterp) (r : Rib.Rib) : RibQuery.Rib :=
  ⟨storeToQraw ι r.unicast, storeToQraw ι r.multicast⟩

/-- What the C11 `mcast` repair makes of `Rib.query`: both tables, concatenated. -/
def queryMerged (r : Rib.Rib) (p : Rib.Prefix) : List Rib.Rec :=
  r.unicast.matchExact p {} ++ r.multicast.matchExact p {}

/-- **The composition**: the HTTP answer to `url` after the RIB unit has processed history `h`
    (C01's `run`, variant `v`), answered by C11's handler (variant `vq`). -/
def httpOfHistory (v : Rib.Variant) (vq : RibQuery.Variant) (ι : AttrInterp) (h : Rib.History)
    (lim : RibQuery.Limits) (reg : RibQuery.Register) (url : RibQuery.Url)
    (obsU obsM : List RibQuery.Prefix) : RibQuery.Resp :=
  RibQuery.handle vq (ribToQ ι (Rib.run v h)) lim reg url obsU obsM

/-- The same from a list of `Update`s (session-level withdrawals per address family included). -/
def httpOfUpdates (v : Rib.Variant) (vq : RibQuery.Variant) (ι : AttrInterp) (us : List Rib.Update)
    (lim : RibQuery.Limits) (reg : RibQuery.Register) (url : RibQuery.Url)
    (obsU obsM : List RibQuery.Prefix) : RibQuery.Resp :=
  RibQuery.handle vq (ribToQ ι (Rib.Rib.empty.applyAll v us)) lim reg url obsU obsM

/-! ## Shared model → concurrent model's sequential RIB (C09) -/

/-- The marker "tree" of RibConc that holds prefixes of family `f` of the (multicast?) store. -/
def treeIdx (mc : Bool) (f : Rib.Fam) : Nat :=
  (if mc then 2 else 0) + (match f with | .v4 => 0 | .v6 => 1)

/-- `Rib::withdraw_for_ingress(_, Some(af))`: the one tree it marks; 4 = none of the four. -/
def afTree : Rib.AfiSafi → Nat
  | .v4u => 0
  | .v6u => 1
  | .v4m => 2
  | .v6m => 3
  | .other => 4

/-- A prefix encoding RibConc can work with: injective, and consistent with `treeOf`. -/
structure EncOK (enc : Bool → Rib.Prefix → Nat) : Prop where
  inj : ∀ mc p mc' p', enc mc p = enc mc' p' → mc = mc' ∧ p = p'
  tree : ∀ mc p, RibConc.treeOf (enc mc p) = treeIdx mc p.fam

/-- A concrete encoding: `4 · 2^len · (2·bits + 1) + tree`. -/
def encStd (mc : Bool) (p : Rib.Prefix) : Nat :=
  4 * (2 ^ p.len * (2 * p.bits + 1)) + treeIdx mc p.fam

/-- `(withdrawn?, attrs)` of RibConc for a stored `(status, attrs)`. -/
def cVal (v : Rib.Val) : Bool × Nat := (decide (v.1 = .withdrawn), v.2)

def plOf (enc : Bool → Rib.Prefix → Nat) (pl : Rib.Payload) : Option RibConc.Pl :=
  match pl.ctx with
  | .reprocess => none
  | _ =>
    match pl.status with
    | .active => some (.ann (enc pl.route.mc pl.route.pfx) pl.mui pl.route.attrs)
    | .withdrawn => some (.wd (enc pl.route.mc pl.route.pfx) pl.mui)

/-- The four RIB-writing `Update` variants in RibConc's vocabulary (`none` for the other three). -/
def opOf (enc : Bool → Rib.Prefix → Nat) : Rib.Update → Option RibConc.Op
  | .single p => some (match plOf enc p with | some pl => .single pl | none => .bulk [])
  | .bulk ps => some (.bulk (ps.filterMap (plOf enc)))
  | .withdraw m af => some (.withdraw m (af.map afTree))
  | .withdrawBulk ms => some (.withdrawBulk ms)
  | _ => none

def toProg (enc : Bool → Rib.Prefix → Nat) (us : List Rib.Update) : List RibConc.Op :=
  us.filterMap (opOf enc)

def storeRecs (enc : Bool → Rib.Prefix → Nat) (mc : Bool) (s : Rib.Store) : RibConc.Recs :=
  s.recs.map fun e => ((enc mc e.1.1, e.1.2), cVal e.2)

def storeMarks (mc : Bool) (s : Rib.Store) : List (Nat × Nat) :=
  s.wd4.map (fun m => (treeIdx mc .v4, m)) ++ s.wd6.map (fun m => (treeIdx mc .v6, m))

/-- **Abstraction map** shared RIB → RibConc's sequential RIB. -/
def ribToSeq (enc : Bool → Rib.Prefix → Nat) (r : Rib.Rib) : RibConc.SeqRib :=
  { recs := storeRecs enc false r.unicast ++ storeRecs enc true r.multicast
    marks := storeMarks false r.unicast ++ storeMarks true r.multicast }

end Rotonda.Bridge
