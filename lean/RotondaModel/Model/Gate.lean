/-
Model of `src/comms.rs`: `Gate` (root gate + clones), `Link`, `DirectLink` (C08).
Import-free (core Lean only) so that the driver links.

A labelled transition system.  One model step per *atomic action on shared state*
of the real code:

* the two subscription maps `Gate.updates` / `Gate.suspended` are `FrimMap`s that a
  root gate and all its clones share (`Arc`).  They are modelled as atomic maps
  (lists of slot ids): one `guard()` = one snapshot, one `insert`/`remove` = one
  atomic edit.  This is what C18 (`Model/Frim.lean`, linearizability + snapshot
  theorems) justifies; it is an assumption here.
* `update_data` = `pubBegin` (the single `self.updates.guard()`), then one
  `pubDeliver` per slot of that snapshot (`sender.send(..).await` or
  `direct.direct_update(..).await`; the model lets the slots be served in any
  order, the code serves them in map order), then `pubEnd`.
* `process()` of the root gate takes one command off the command queue per
  `rootProc`; `Subscribe` is split in two (`rootProc` = map insert, `rootRespond` =
  answer the oneshot, then `notify_clones(FollowSubscribe)`; or, if the link dropped
  the oneshot receiver, remove the slot again) because the code inserts *before* it
  answers.
* `process()` of a clone takes one command per `cloneProc`.  As in the code,
  `FollowSubscribe`/`FollowUnsubscribe` edit `self.updates`, which for a clone is the
  *same shared map* as the root's.
* link side: `linkSubscribe` (send `Subscribe`), `linkCancel` (drop the pending
  `connect()` future), `linkSuspend`, `linkDisconnect` (send `Unsubscribe`, drop the
  receiver), `linkClose` (`Link::close()` / direct target dropped), `linkRecv`
  (`query()` returns an update), `linkGone` (`query()` returns `Err(Gone)`: every
  sender of the update channel has been dropped).

Slot ids: the code draws a fresh `Uuid::new_v4()` when it handles `Subscribe`; the
model names the slot when the link sends the command (`s = nslots`).  Uniqueness of
v4 UUIDs is an assumption.

Per slot `hist` is the list of messages pushed into the link's channel (queue link)
or handed to `direct_update` (direct link), in push order; the first `nrecv` of them
have been received.  tokio's mpsc is assumed FIFO and bounded (`cap`).

Ghost fields (no counterpart in the code, used by the theorems only): `PubSt.snap`,
`Chan.acked`, `Chan.unsubbed`, `Chan.susp`, `Chan.suspSent`.
-/
namespace Rotonda.Gate

abbrev Slot := Nat
/-- Publisher id: `0` is the root gate, `c > 0` are clones. -/
abbrev Pub := Nat
/-- (publisher, per-publisher sequence number) -/
abbrev Msg := Pub × Nat

inductive Kind where
  | queue | direct
  deriving DecidableEq, Repr

inductive Cmd where
  | subscribe (s : Slot) (susp : Bool)
  | unsubscribe (s : Slot)
  | suspension (s : Slot) (susp : Bool)
  | attach (c : Pub)
  | detach (c : Pub)
  | terminate
  | followSub (s : Slot)
  | followUnsub (s : Slot)
  deriving DecidableEq, Repr

structure PubSt where
  /-- the gate object exists -/
  alive : Bool := false
  /-- registered in the root's `clone_senders` -/
  attached : Bool := false
  /-- sequence number of the latest update begun by this publisher -/
  seq : Nat := 0
  /-- inside `update_data`: the slots of the snapshot not yet served -/
  sending : Option (List Slot) := none
  /-- GHOST: the whole snapshot of the latest update -/
  snap : List Slot := []
  /-- the clone's command queue -/
  cmdq : List Cmd := []
  /-- `process()` returned `Err(Terminated)` -/
  terminated : Bool := false
  deriving DecidableEq, Repr

structure Chan where
  kind : Kind := .queue
  /-- the link dropped the oneshot receiver before the answer -/
  cancelled : Bool := false
  /-- GHOST: the gate answered the oneshot (the link is connected from here on) -/
  acked : Bool := false
  /-- GHOST: the gate handled `Unsubscribe` for this slot -/
  unsubbed : Bool := false
  /-- GHOST: subscribed suspended, or the gate handled `Suspension{suspend:true}` last -/
  susp : Bool := false
  /-- the link called `disconnect()` -/
  disc : Bool := false
  /-- GHOST: the link asked for suspension at some point (`connect(suspended = true)` or `suspend()`) -/
  suspSent : Bool := false
  /-- receiver not closed/dropped (queue link), target alive (direct link) -/
  open_ : Bool := true
  /-- messages pushed to the link, in push order -/
  hist : List Msg := []
  /-- how many of them the link has received -/
  nrecv : Nat := 0
  /-- `query()` returned `Err(UnitStatus::Gone)` -/
  sawGone : Bool := false
  deriving DecidableEq, Repr

structure St where
  updates : List Slot
  suspended : List Slot
  rootq : List Cmd
  /-- root gate is between the map insert and the oneshot answer of `subscribe()` -/
  responding : Option (Slot × Bool)
  rootTerminated : Bool
  rootDropped : Bool
  pubs : Pub → PubSt
  chans : Slot → Chan
  npubs : Nat
  nslots : Nat
  cap : Nat

inductive Step where
  | pubBegin (p : Pub)
  | pubDeliver (p : Pub) (s : Slot)
  | pubEnd (p : Pub)
  | linkSubscribe (s : Slot) (k : Kind) (susp : Bool)
  | linkCancel (s : Slot)
  | linkSuspend (s : Slot) (b : Bool)
  | linkDisconnect (s : Slot)
  | linkClose (s : Slot)
  | linkRecv (s : Slot)
  | linkGone (s : Slot)
  | agentTerminate
  | rootProc
  | rootRespond
  | rootDrop
  | cloneNew (c : Pub)
  | cloneProc (c : Pub)
  | cloneClosed (c : Pub)
  | cloneDrop (c : Pub)
  deriving DecidableEq, Repr

def upd {α : Type} (f : Nat → α) (i : Nat) (x : α) : Nat → α :=
  fun j => if j = i then x else f j

/-- `FrimMap::insert`: drop an existing entry with that key, append. -/
def ins (s : Slot) (l : List Slot) : List Slot := l.filter (· != s) ++ [s]

/-- `FrimMap::remove`: remove the first entry with that key. -/
def del (s : Slot) (l : List Slot) : List Slot := l.erase s

def init (cap : Nat) : St :=
  { updates := [], suspended := [], rootq := [], responding := none,
    rootTerminated := false, rootDropped := false,
    pubs := fun p => if p = 0 then { alive := true } else {},
    chans := fun _ => {}, npubs := 1, nslots := 0, cap := cap }

/-- `notify_clones(cmd)`: one send per registered clone whose receiver still exists. -/
def notify (pubs : Pub → PubSt) (x : Cmd) : Pub → PubSt :=
  fun c => if (pubs c).attached && (pubs c).alive
    then { pubs c with cmdq := (pubs c).cmdq ++ [x] } else pubs c

/-- A command sent to the root gate (lost if the gate has been dropped). -/
def St.send (st : St) (x : Cmd) : St :=
  if st.rootDropped then st else { st with rootq := st.rootq ++ [x] }

/-- Some `Sender` of slot `s`'s update channel still exists. -/
def senderHeld (st : St) (s : Slot) : Bool :=
  (List.range st.npubs).any (fun p => (st.pubs p).alive) &&
  (st.updates.contains s || st.suspended.contains s
    || (match st.responding with | some (s', _) => s' == s | none => false)
    || (List.range st.npubs).any (fun p => (st.pubs p).alive &&
          (((st.pubs p).sending.isSome && (st.pubs p).snap.contains s)
            || (st.pubs p).cmdq.contains (.followSub s))))

/-- The root gate handles one command (`process()` match arms). -/
def rootHandle (st : St) (x : Cmd) : St :=
  match x with
  | .subscribe s b =>
    let ch := st.chans s
    if b then
      { st with suspended := ins s st.suspended, responding := some (s, b),
                chans := upd st.chans s { ch with susp := true } }
    else
      { st with updates := ins s st.updates, responding := some (s, b) }
  | .unsubscribe s =>
    { st with suspended := del s st.suspended, updates := del s st.updates,
              chans := upd st.chans s { st.chans s with unsubbed := true },
              pubs := notify st.pubs (.followUnsub s) }
  | .suspension s true =>
    if st.updates.contains s then
      { st with updates := del s st.updates, suspended := ins s st.suspended,
                chans := upd st.chans s { st.chans s with susp := true } }
    else { st with chans := upd st.chans s { st.chans s with susp := true } }
  | .suspension s false =>
    if st.suspended.contains s then
      { st with suspended := del s st.suspended, updates := ins s st.updates,
                chans := upd st.chans s { st.chans s with susp := false } }
    else st
  | .attach c => { st with pubs := upd st.pubs c { st.pubs c with attached := true } }
  | .detach c => { st with pubs := upd st.pubs c { st.pubs c with attached := false } }
  | .terminate => { st with pubs := notify st.pubs .terminate, rootTerminated := true }
  | .followSub _ => st      -- a root gate never receives these (assert in the code)
  | .followUnsub _ => st

/-- A clone handles one command. -/
def cloneHandle (st : St) (c : Pub) (x : Cmd) : St :=
  match x with
  | .followSub s => { st with updates := ins s st.updates }
  | .followUnsub s => { st with updates := del s st.updates }
  | .terminate => { st with pubs := upd st.pubs c { st.pubs c with terminated := true } }
  | _ => st

/-- `some st'` if the step is enabled in `st`. -/
def step (st : St) : Step → Option St
  | .pubBegin p =>
    let P := st.pubs p
    if P.alive && P.sending.isNone then
      let P' := { P with seq := P.seq + 1, sending := some st.updates, snap := st.updates }
      some { st with pubs := upd st.pubs p P' }
    else none
  | .pubDeliver p s =>
    let P := st.pubs p
    match P.sending with
    | none => none
    | some R =>
      if R.contains s then
        let ch := st.chans s
        let P' := { P with sending := some (R.erase s) }
        if ch.open_ then
          match ch.kind with
          | .queue =>
            if ch.hist.length - ch.nrecv < st.cap then
              some { st with pubs := upd st.pubs p P',
                             chans := upd st.chans s { ch with hist := ch.hist ++ [(p, P.seq)] } }
            else none        -- bounded channel full: the publisher waits
          | .direct =>
            some { st with pubs := upd st.pubs p P',
                           chans := upd st.chans s { ch with hist := ch.hist ++ [(p, P.seq)],
                                                             nrecv := ch.hist.length + 1 } }
        else some { st with pubs := upd st.pubs p P' }   -- send fails / upgrade fails: skipped
      else none
  | .pubEnd p =>
    let P := st.pubs p
    match P.sending with
    | some [] => some { st with pubs := upd st.pubs p { P with sending := none } }
    | _ => none
  | .linkSubscribe s k b =>
    if s = st.nslots then
      some { (st.send (.subscribe s b)) with
               chans := upd st.chans s { st.chans s with kind := k, suspSent := (st.chans s).suspSent || b },
               nslots := st.nslots + 1 }
    else none
  | .linkCancel s =>
    let ch := st.chans s
    if s < st.nslots && !ch.acked && !ch.cancelled then
      some { st with chans := upd st.chans s { ch with cancelled := true, open_ := false } }
    else none
  | .linkSuspend s b =>
    let ch := st.chans s
    if ch.acked && !ch.disc then
      some { (st.send (.suspension s b)) with
               chans := upd st.chans s { ch with suspSent := ch.suspSent || b } }
    else none
  | .linkDisconnect s =>
    let ch := st.chans s
    if ch.acked && !ch.disc then
      some { (st.send (.unsubscribe s)) with
               chans := upd st.chans s { ch with disc := true, open_ := false } }
    else none
  | .linkClose s =>
    let ch := st.chans s
    if ch.acked then some { st with chans := upd st.chans s { ch with open_ := false } } else none
  | .linkRecv s =>
    let ch := st.chans s
    if ch.kind = .queue && ch.open_ && ch.nrecv < ch.hist.length then
      some { st with chans := upd st.chans s { ch with nrecv := ch.nrecv + 1 } }
    else none
  | .linkGone s =>
    let ch := st.chans s
    if ch.kind = .queue && ch.acked && ch.open_ && ch.nrecv = ch.hist.length && !senderHeld st s then
      some { st with chans := upd st.chans s { ch with sawGone := true } }
    else none
  | .agentTerminate => some (st.send .terminate)
  | .rootProc =>
    if st.rootTerminated || st.rootDropped || st.responding.isSome then none else
    match st.rootq with
    | [] => none
    | x :: q => some (rootHandle { st with rootq := q } x)
  | .rootRespond =>
    match st.responding with
    | none => none
    | some (s, b) =>
      let ch := st.chans s
      if ch.cancelled then
        some (if b then { st with suspended := del s st.suspended, responding := none }
              else { st with updates := del s st.updates, responding := none })
      else
        some { st with responding := none,
                       chans := upd st.chans s { ch with acked := true },
                       pubs := notify st.pubs (.followSub s) }
  | .rootDrop =>
    if !st.rootDropped && st.responding.isNone && (st.pubs 0).sending.isNone then
      some { st with rootDropped := true, rootq := [],
                     pubs := upd st.pubs 0 { st.pubs 0 with alive := false } }
    else none
  | .cloneNew c =>
    if c = st.npubs && !st.rootDropped then
      some { (st.send (.attach c)) with
               pubs := upd st.pubs c { st.pubs c with alive := true, attached := false,
                                                      cmdq := [], terminated := false },
               npubs := st.npubs + 1 }
    else none
  | .cloneProc c =>
    let P := st.pubs c
    if c ≠ 0 && P.alive && !P.terminated then
      match P.cmdq with
      | [] => none
      | x :: q => some (cloneHandle { st with pubs := upd st.pubs c { P with cmdq := q } } c x)
    else none
  | .cloneClosed c =>
    let P := st.pubs c
    if c ≠ 0 && P.alive && !P.terminated && P.cmdq.isEmpty && st.rootDropped then
      some { st with pubs := upd st.pubs c { P with terminated := true } }
    else none
  | .cloneDrop c =>
    let P := st.pubs c
    if c ≠ 0 && P.alive && P.sending.isNone then
      some { (st.send (.detach c)) with pubs := upd st.pubs c { P with alive := false, cmdq := [] } }
    else none

/-- Run a trace; `none` as soon as a step is not enabled. -/
def run (st : St) : List Step → Option St
  | [] => some st
  | x :: xs => match step st x with
    | some st' => run st' xs
    | none => none

/-- Index of the first step of the trace that is not enabled. -/
def firstBad (st : St) : List Step → Nat → Option Nat
  | [], _ => none
  | x :: xs, i => match step st x with
    | some st' => firstBad st' xs (i + 1)
    | none => some i

/-- Sequence numbers of publisher `p` in a message list, in list order. -/
def seqsOf (p : Pub) (l : List Msg) : List Nat := (l.filter (fun m => m.1 == p)).map (·.2)

/-- What the link has received so far. -/
def Chan.received (ch : Chan) : List Msg := ch.hist.take ch.nrecv

/-- GHOST: the link is connected and neither unsubscribed nor suspended at the gate. -/
def St.live (st : St) (s : Slot) : Prop :=
  (st.chans s).acked = true ∧ (st.chans s).unsubbed = false ∧ (st.chans s).susp = false

end Rotonda.Gate
