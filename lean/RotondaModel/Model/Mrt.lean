/-!
# mrt-file-in (C16): `process_file` and the sequential queue consumer

Hand transliteration of `src/units/mrt_file_in/unit.rs:161-468,480-513`
composed with the ingress register (`src/ingress.rs`, `register`,
`update_info`, `find_existing_peer`) and with the behaviour of routecore
0.5.1's `MrtFile::{pi, rib_entries, messages}` iterators as read in
`routecore/src/mrt.rs` (a dependency: assumed, sampled by the correspondence):

* `pi()` succeeds iff the first record is a TABLE_DUMP_V2 PEER_INDEX_TABLE;
* `rib_entries()` walks the records after the peer index; RIB_IPV4/6_UNICAST
  yield their entries (`peer_index.get(..).unwrap()`), an empty RIB record, any
  other TABLE_DUMP_V2 subtype (`todo!()`), any BGP4MP record
  (`current_table.take().unwrap()`) and any unparsable header
  (`CommonHeader::parse(..).unwrap()`) panic;
* `messages()` walks the whole file again, skips TABLE_DUMP_V2 records, stops
  silently at an unsupported MRT type / truncated record, and hits `todo!()`
  on BGP4MP subtypes other than 0, 1, 4, 5.

An abstract file is a list of records; addresses, prefixes and attribute sets
are small numbers (interned by the harness). The BGP UPDATE codec is C04's
subject: an update is its exploded announcement / withdrawal lists.

Variants: `sc` — `process_state_change` queries the register without
(`asWritten`) / with (`repaired`) the unit's parent id; `iso` — a panic inside
`process_file` kills the only queue consumer task (`asWritten`) / is confined
to that file (`repaired`: the file runs in its own task); `ov` — `process_message`
turns an UPDATE into `explode_announcements` followed by `explode_withdrawals`
(`asWritten`: a prefix the UPDATE both withdraws and announces leaves as `+p … -p`) /
calls `explode_update` (`repaired`, commit 2186599: the withdrawal of a prefix that
the same UPDATE announces is dropped, RFC 4271 4.3). An UPDATE of this model has
one family, so "same NLRI" is "same prefix number".

Fourth site, `dumpreg` (a separate `Site` argument of `processFileD` / `runQueueD`, so that
`processFile` / `runQueue` and `Variant` keep their shape for the bridge `Model/PipeMrt.lean`):
the peer index loop of `process_file` (`unit.rs:344-356`) calls `ingresses.register()` +
`update_info` for every entry of every TABLE_DUMP_V2 file without a lookup (`asWritten`:
`registerAll`; `processFileD .asWritten` *is* `processFile`) / calls
`ingresses.find_or_register_peer(..)` like `process_message` does (`repaired`: `lookupAll`;
proposed_fixes/PipeMrt-dump-registers-known-peer-again.diff). Repaired, one table that lists the
same (address, ASN) twice gives both entries one id.
-/
namespace Rotonda.Mrt

structure Peer where
  addr : Nat
  asn : Nat
  deriving DecidableEq, Repr

inductive Bgp
  | update (v6 : Bool) (ann wd : List Nat) (attrs : Nat)
  | other        -- OPEN / KEEPALIVE / NOTIFICATION / ROUTE-REFRESH: skipped
  | garbage      -- `bgp_msg()` fails: logged, skipped
  deriving DecidableEq, Repr

inductive Rec
  | peerIndex (ps : List Peer)
  | rib (v6 : Bool) (pfx : Nat) (entries : List (Nat × Nat))   -- (peer index, attribute set)
  | ribOther                                                   -- TABLE_DUMP_V2 subtype 3, 5, 6
  | msg (peer : Peer) (m : Bgp)                                -- BGP4MP_MESSAGE(_AS4)
  | stateChange (peer : Peer) (old new : Nat)                  -- BGP4MP_STATE_CHANGE(_AS4)
  | localMsg                                                   -- BGP4MP subtype 6, 7, unknown
  | otherType                                                  -- unsupported MRT type or truncated record
  deriving DecidableEq, Repr

inductive Comp | plain | gzip | bzip2 | missing | undecodable
  deriving DecidableEq, Repr

structure File where
  comp : Comp
  recs : List Rec
  deriving DecidableEq, Repr

/-- What leaves the unit's gate. -/
inductive Upd
  | single (v6 : Bool) (pfx id attrs : Nat)          -- `Update::Single`, one RIB entry
  | bulk (id : Nat) (v6 : Bool) (ann wd : List Nat)  -- `Update::Bulk`, one exploded UPDATE
  | withdraw (id : Nat)                              -- `Update::Withdraw(id, None)`
  deriving DecidableEq, Repr

/-- The ingress register as this unit uses it: the serial, and the peer-level
    entries `(id, parent, peer)` in registration order. -/
structure Reg where
  next : Nat
  infos : List (Nat × Nat × Peer)
  deriving DecidableEq, Repr

def Reg.register (r : Reg) (parent : Nat) (p : Peer) : Reg × Nat :=
  (⟨r.next + 1, r.infos ++ [(r.next, parent, p)]⟩, r.next)

/-- `find_existing_peer`: every stored entry has `parent_ingress = Some(_)`, so a
    query without parent matches nothing. Among several matches the code returns
    one in hash-map order; the model (and the harness' canonicalisation) takes the
    smallest id. -/
def Reg.find (r : Reg) (parent : Option Nat) (p : Peer) : Option Nat :=
  match parent with
  | none => none
  | some par =>
    match r.infos.find? (fun e => e.2.1 = par ∧ e.2.2 = p) with
    | some e => some e.1
    | none => none

def registerAll (r : Reg) (parent : Nat) : List Peer → Reg × List Nat
  | [] => (r, [])
  | p :: ps =>
    let (r1, id) := r.register parent p
    let (r2, ids) := registerAll r1 parent ps
    (r2, id :: ids)

inductive Site | asWritten | repaired
  deriving DecidableEq, Repr

structure Variant where
  sc : Site
  iso : Site
  ov : Site
  deriving DecidableEq, Repr

def asWritten : Variant := ⟨.asWritten, .asWritten, .asWritten⟩
def repaired : Variant := ⟨.repaired, .repaired, .repaired⟩

/-- The withdrawals of one UPDATE that `process_message` hands on: all of them
    (`explode_withdrawals`, as written) / those whose prefix the UPDATE does not announce
    (`explode_update`: `unreach.retain(|w| !reach.iter().any(|a| a.same_nlri(w)))`). -/
def keptWd (v : Variant) (ann wd : List Nat) : List Nat :=
  match v.ov with
  | .asWritten => wd
  | .repaired => wd.filter (fun p => !ann.contains p)

inductive Status | ok | err | panic
  deriving DecidableEq, Repr

/-- Entries of one RIB record: `ingress_map[usize::from(peer_id)]` (routecore
    already unwrapped `peer_index.get(..)`, so an index past the table panics). -/
def dumpEntries (v6 : Bool) (pfx : Nat) (map : List Nat) : List (Nat × Nat) → List Upd × Bool
  | [] => ([], false)
  | (idx, a) :: es =>
    match map[idx]? with
    | none => ([], true)
    | some id =>
      let (o, p) := dumpEntries v6 pfx map es
      (.single v6 pfx id a :: o, p)

/-- The dump part: records after the peer index table. `true` = panicked
    (everything emitted before is already through the gate). -/
def dumpLoop (map : List Nat) : List Rec → List Upd × Bool
  | [] => ([], false)
  | .rib _ _ [] :: _ => ([], true)
  | .rib v6 pfx es :: rest =>
    match dumpEntries v6 pfx map es with
    | (o, true) => (o, true)
    | (o, false) =>
      let (o2, p) := dumpLoop map rest
      (o ++ o2, p)
  | _ :: _ => ([], true)

structure Res where
  reg : Reg
  out : List Upd
  status : Status
  deriving DecidableEq, Repr

def established : Nat := 6
def idle : Nat := 1

/-- The messages part, over the whole file. -/
def msgLoop (v : Variant) (parent : Nat) : Reg → List Rec → Res
  | reg, [] => ⟨reg, [], .ok⟩
  | reg, .otherType :: _ => ⟨reg, [], .ok⟩            -- iterator fuses: the rest of the file is silently ignored
  | reg, .localMsg :: _ => ⟨reg, [], .panic⟩          -- `todo!()`
  | reg, .msg p (.update v6 ann wd _) :: rest =>
    let (reg1, id) := match reg.find (some parent) p with
      | some id => (reg, id)
      | none => reg.register parent p
    let r := msgLoop v parent reg1 rest
    ⟨r.reg, .bulk id v6 ann (keptWd v ann wd) :: r.out, r.status⟩
  | reg, .msg _ _ :: rest => msgLoop v parent reg rest
  | reg, .stateChange p old new :: rest =>
    let w : List Upd :=
      if old = established ∧ new = idle then
        match reg.find (match v.sc with | .asWritten => none | .repaired => some parent) p with
        | some id => [.withdraw id]
        | none => []
      else []
    let r := msgLoop v parent reg rest
    ⟨r.reg, w ++ r.out, r.status⟩
  | reg, _ :: rest => msgLoop v parent reg rest       -- TABLE_DUMP_V2 records are not BGP4MP: skipped

def Comp.readable : Comp → Bool
  | .missing => false
  | .undecodable => false
  | _ => true

/-- `process_file`. -/
def processFile (v : Variant) (parent : Nat) (reg : Reg) (f : File) : Res :=
  if !f.comp.readable then ⟨reg, [], .err⟩            -- `File::open` / decoder error: `?`
  else
    match f.recs with
    | .peerIndex ps :: rest =>
      let (reg1, map) := registerAll reg parent ps
      match dumpLoop map rest with
      | (o, true) => ⟨reg1, o, .panic⟩
      | (o, false) =>
        let r := msgLoop v parent reg1 f.recs
        ⟨r.reg, o ++ r.out, r.status⟩
    | _ => msgLoop v parent reg f.recs

/-- `find_or_register_peer` per peer index entry (the `dumpreg` repair): the same lookup under
    this unit's id that `msgLoop` does per UPDATE, a fresh id only for an unknown peer. -/
def lookupAll (r : Reg) (parent : Nat) : List Peer → Reg × List Nat
  | [] => (r, [])
  | p :: ps =>
    let x : Reg × Nat := match r.find (some parent) p with
      | some id => (r, id)
      | none => r.register parent p
    let y := lookupAll x.1 parent ps
    (y.1, x.2 :: y.2)

/-- The peer index loop (`unit.rs:344-356`) by `dumpreg` site: register and `ingress_map`. -/
def peerIndexLoop (d : Site) (r : Reg) (parent : Nat) (ps : List Peer) : Reg × List Nat :=
  match d with
  | .asWritten => registerAll r parent ps
  | .repaired => lookupAll r parent ps

/-- `process_file` with the `dumpreg` site (`d = .asWritten`: `processFile`, theorem
    `processFileD_asWritten`). -/
def processFileD (d : Site) (v : Variant) (parent : Nat) (reg : Reg) (f : File) : Res :=
  if !f.comp.readable then ⟨reg, [], .err⟩
  else
    match f.recs with
    | .peerIndex ps :: rest =>
      let rm := peerIndexLoop d reg parent ps
      match dumpLoop rm.2 rest with
      | (o, true) => ⟨rm.1, o, .panic⟩
      | (o, false) =>
        let r := msgLoop v parent rm.1 f.recs
        ⟨r.reg, o ++ r.out, r.status⟩
    | _ => msgLoop v parent reg f.recs

structure QRes where
  reg : Reg
  out : List Upd
  resps : List Bool          -- per queued file: did the enqueuer get its answer
  deriving DecidableEq, Repr

/-- The queue consumer (`while let Some((p, tx)) = queue.recv().await`), sequential. -/
def runQueue (v : Variant) (parent : Nat) : Reg → List File → QRes
  | reg, [] => ⟨reg, [], []⟩
  | reg, f :: fs =>
    let r := processFile v parent reg f
    match r.status, v.iso with
    | .panic, .asWritten => ⟨r.reg, r.out, (f :: fs).map fun _ => false⟩   -- the task is gone
    | _, _ =>
      let q := runQueue v parent r.reg fs
      ⟨q.reg, r.out ++ q.out, true :: q.resps⟩

/-- The queue consumer with the `dumpreg` site (what the driver runs). -/
def runQueueD (d : Site) (v : Variant) (parent : Nat) : Reg → List File → QRes
  | reg, [] => ⟨reg, [], []⟩
  | reg, f :: fs =>
    let r := processFileD d v parent reg f
    match r.status, v.iso with
    | .panic, .asWritten => ⟨r.reg, r.out, (f :: fs).map fun _ => false⟩
    | _, _ =>
      let q := runQueueD d v parent r.reg fs
      ⟨q.reg, r.out ++ q.out, true :: q.resps⟩

end Rotonda.Mrt
