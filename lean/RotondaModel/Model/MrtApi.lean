/-
Model of the MRT queue endpoint (C20), import-free.

Transliterated from
* `src/units/mrt_file_in/api.rs`  `Processor::process_request`, `Processor::queue`, `err`
* `src/http.rs`                   `PercentDecodedPath::decoded_path`, `extract_params`,
                                  `get_param`, `MatchedParam::parse`
* std (unix)                      `Path::is_relative`, `PathBuf::push`, `Path::components`,
                                  `Path::ancestors`, `Path == Path`
* crates                          `percent_encoding::percent_decode`, `String::from_utf8_lossy`,
                                  `url::form_urlencoded::parse`

Byte strings are `List Nat` (every element < 256 in every use).  Panics are values
(`Outcome.panic site`): every `unwrap()` of `api.rs` (all five are `Response::builder()…unwrap()`)
goes through `respond`, which fails exactly when `http::response::Builder` would.

Two levels:
* **oracle level** (`Env.canon`): `std::fs::canonicalize` is a parameter; the decision function
  only looks at what it returned.  This is the level the confinement theorem is stated at, and the
  correspondence engine supplies the results of the real `canonicalize`.
* **file-system level** (`Fs`, `canonFs`): a finite tree of directories, files and symbolic links
  and a fuel-bounded `realpath`; the engine compares it with the real `canonicalize` on every case.

The byte-string, percent-decoding, UTF-8 and query-parameter primitives are copied from
`Model/Http.lean` (builder F, C12) so that this file stays self-contained.
-/
namespace Rotonda.MrtApi

abbrev Bytes := List Nat

/-! ### String constants -/

/-- `"queue"` -/
def sQueue : Bytes := [113, 117, 101, 117, 101]
/-- `"file"` -/
def sFile : Bytes := [102, 105, 108, 101]
/-- `"Content-Type"` -/
def sContentType : Bytes := [67, 111, 110, 116, 101, 110, 116, 45, 84, 121, 112, 101]
/-- `"text/plain"` -/
def sTextPlain : Bytes := [116, 101, 120, 116, 47, 112, 108, 97, 105, 110]

/-! ### `str` / byte-string primitives -/

/-- `str::starts_with` -/
def startsWith : Bytes → Bytes → Bool
  | _, [] => true
  | [], _ :: _ => false
  | a :: s, b :: p => a == b && startsWith s p

/-- `str::strip_prefix` -/
def stripPrefix : Bytes → Bytes → Option Bytes
  | s, [] => some s
  | [], _ :: _ => none
  | a :: s, b :: p => if a == b then stripPrefix s p else none

/-- `str::split(c)` (always at least one piece). -/
def splitOn (c : Nat) : Bytes → List Bytes
  | [] => [[]]
  | a :: s =>
    match splitOn c s with
    | [] => [[]]            -- unreachable
    | p :: ps => if a == c then [] :: p :: ps else (a :: p) :: ps

def hexVal (b : Nat) : Option Nat :=
  if 48 ≤ b && b ≤ 57 then some (b - 48)
  else if 65 ≤ b && b ≤ 70 then some (b - 55)
  else if 97 ≤ b && b ≤ 102 then some (b - 87)
  else none

/-- `percent_encoding::percent_decode`: `%XY` with two hex digits becomes one byte, a `%`
    not followed by two hex digits stays. -/
def pctDecode : Bytes → Bytes
  | [] => []
  | [a] => [a]
  | [a, b] => [a, b]
  | a :: b :: c :: rest =>
    if a == 37 then
      match hexVal b, hexVal c with
      | some h, some l => (h * 16 + l) :: pctDecode rest
      | _, _ => a :: pctDecode (b :: c :: rest)
    else a :: pctDecode (b :: c :: rest)

def isCont (b : Nat) : Bool := 128 ≤ b && b ≤ 191

/-- U+FFFD -/
def replChar : Bytes := [239, 191, 189]

/-- One step of `core::str::Utf8Chunks`: the bytes to emit and how many input bytes they
    account for (always ≥ 1). A maximal invalid prefix becomes one U+FFFD. -/
def utf8Step : Bytes → Bytes × Nat
  | [] => ([], 1)
  | b :: rest =>
    if b < 128 then ([b], 1)
    else if 194 ≤ b && b ≤ 223 then
      match rest with
      | c :: _ => if isCont c then ([b, c], 2) else (replChar, 1)
      | [] => (replChar, 1)
    else if 224 ≤ b && b ≤ 239 then
      match rest with
      | c :: r1 =>
        let ok2 := if b == 224 then 160 ≤ c && c ≤ 191
                   else if b == 237 then 128 ≤ c && c ≤ 159
                   else isCont c
        if ok2 then
          match r1 with
          | d :: _ => if isCont d then ([b, c, d], 3) else (replChar, 2)
          | [] => (replChar, 2)
        else (replChar, 1)
      | [] => (replChar, 1)
    else if 240 ≤ b && b ≤ 244 then
      match rest with
      | c :: r1 =>
        let ok2 := if b == 240 then 144 ≤ c && c ≤ 191
                   else if b == 244 then 128 ≤ c && c ≤ 143
                   else isCont c
        if ok2 then
          match r1 with
          | d :: r2 =>
            if isCont d then
              match r2 with
              | e :: _ => if isCont e then ([b, c, d, e], 4) else (replChar, 3)
              | [] => (replChar, 3)
            else (replChar, 2)
          | [] => (replChar, 2)
        else (replChar, 1)
      | [] => (replChar, 1)
    else (replChar, 1)

def utf8LossyAux : Nat → Bytes → Bytes
  | 0, _ => []
  | fuel + 1, s =>
    match s with
    | [] => []
    | _ :: _ =>
      let st := utf8Step s
      st.1 ++ utf8LossyAux fuel (s.drop st.2)

/-- `String::from_utf8_lossy` (fuel = input length; every step consumes at least one byte). -/
def utf8Lossy (s : Bytes) : Bytes := utf8LossyAux s.length s

/-- `Uri::decoded_path()` = `percent_decode(path).decode_utf8_lossy()` -/
def decodedPath (raw : Bytes) : Bytes := utf8Lossy (pctDecode raw)

/-! ### Query parameters (`extract_params`, `get_param`) -/

structure Param where
  name : Bytes
  value : Bytes
  deriving DecidableEq, Repr

def plusToSpace (s : Bytes) : Bytes := s.map fun b => if b == 43 then 32 else b

def formDecode (s : Bytes) : Bytes := utf8Lossy (pctDecode (plusToSpace s))

/-- split at the first `=` -/
def splitFirstEq : Bytes → Bytes × Bytes
  | [] => ([], [])
  | a :: s => if a == 61 then ([], s) else
      let r := splitFirstEq s
      (a :: r.1, r.2)

/-- `form_urlencoded::parse`: pieces between `&`, empty pieces skipped. -/
def parseQuery (q : Bytes) : List Param :=
  ((splitOn 38 q).filter (fun p => !p.isEmpty)).map fun p =>
    let nv := splitFirstEq p
    { name := formDecode nv.1, value := formDecode nv.2 }

/-- `extract_params`: `uri.query().map(parse).unwrap_or_default()` -/
def extractParams : Option Bytes → List Param
  | none => []
  | some q => parseQuery q

inductive Matched where
  | exact (v : Bytes)
  | family (f v : Bytes)
  deriving DecidableEq, Repr

def isBracket (b : Nat) : Bool := b == 91 || b == 93

def takeUntilBracket : Bytes → Bytes
  | [] => []
  | a :: s => if isBracket a then [] else a :: takeUntilBracket s

/-- first two pieces of `name.split(&['[', ']'])` -/
def splitBrackets : Bytes → Bytes × Option Bytes
  | [] => ([], none)
  | a :: s =>
    if isBracket a then ([], some (takeUntilBracket s))
    else
      let r := splitBrackets s
      (a :: r.1, r.2)

/-- `MatchedParam::parse` -/
def matchParam (needle : Bytes) (p : Param) : Option Matched :=
  let kf := splitBrackets p.name
  if kf.1 = needle then
    some (match kf.2 with
          | none => .exact p.value
          | some f => .family f p.value)
  else none

/-- `get_param`: the first matching parameter (`find_map`). -/
def getParam (needle : Bytes) : List Param → Option Matched
  | [] => none
  | p :: ps => match matchParam needle p with
    | some m => some m
    | none => getParam needle ps

/-! ### Paths (unix `std::path`) -/

/-- `std::path::Component` without `Prefix` (unix) and with `RootDir` folded into `Path.abs`. -/
inductive Comp where
  | cur
  | parent
  | normal (name : Bytes)
  deriving DecidableEq, Repr

/-- What `Path::components()` yields: whether there is a root, then the components. -/
structure Path where
  abs : Bool
  comps : List Comp
  deriving DecidableEq, Repr

/-- `Path::has_root` = `Path::is_absolute` on unix. -/
def hasRoot (s : Bytes) : Bool := s.head? == some 47

/-- `Path::is_relative` -/
def isRelative (s : Bytes) : Bool := !hasRoot s

/-- A piece between separators as a component: empty pieces and `.` vanish. -/
def pieceComp (p : Bytes) : Option Comp :=
  if p.isEmpty then none
  else if p = [46] then none
  else if p = [46, 46] then some .parent
  else some (.normal p)

/-- Does a relative path start with a `.` component (`include_cur_dir`)? -/
def leadingCur (s : Bytes) : Bool :=
  match s with
  | [46] => true
  | 46 :: 47 :: _ => true
  | _ => false

/-- `Path::components()`. -/
def parsePath (s : Bytes) : Path :=
  let body := (splitOn 47 s).filterMap pieceComp
  if hasRoot s then ⟨true, body⟩
  else if leadingCur s then ⟨false, .cur :: body⟩
  else ⟨false, body⟩

/-- `PathBuf::push` (unix): an absolute argument replaces the buffer; otherwise a separator is
    added unless the buffer is empty or already ends in one. -/
def push (base p : Bytes) : Bytes :=
  if hasRoot p then p
  else if !base.isEmpty && base.getLast? != some 47 then base ++ [47] ++ p
  else base ++ p

/-- `Path::ancestors()` on the component view: the path itself, then each `parent()`.
    (`parent()` drops the last component; the root / the empty relative path has none.) -/
def ancestorsAux (abs : Bool) (cs : List Comp) : Nat → List Path
  | 0 => [⟨abs, cs.take 0⟩]
  | k + 1 => ⟨abs, cs.take (k + 1)⟩ :: ancestorsAux abs cs k

def ancestors (p : Path) : List Path := ancestorsAux p.abs p.comps p.comps.length

/-- `full_path.ancestors().any(|a| a == update_dir)` -/
def underDir (p d : Bytes) : Bool := (ancestors (parsePath p)).any (· == parsePath d)

/-! ### File-system level: a finite tree and `realpath`

`std::fs::canonicalize` on Linux is glibc `realpath(3)` (after a NUL check).  The model follows
glibc's loop: components are taken from the *string* one at a time; `.` is skipped; `..` drops the
last resolved component; a symbolic link's target is spliced in front of the rest of the string
(restarting at `/` when it is absolute); at most 40 links are expanded (`ELOOP`); a non-directory
followed by anything (even a lone `/`) is `ENOTDIR`.

The world is closed: `/` has the single child `@R@` (the scratch root of the engine; in the real
run it stands for `<tmp>/verif-<pid>/tNNNN`).  A resolution that steps out of `@R@` (by `..` or by
an absolute link target that does not start with `/@R@`) is `escaped`: the model makes no claim
about what is found out there.
-/

inductive Node where
  | dir
  | file
  | link (target : Bytes)
  deriving DecidableEq, Repr

/-- A finite file system: link-free absolute paths (lists of names) ↦ node. -/
structure Fs where
  nodes : List (List Bytes × Node)
  deriving Repr

/-- `"@R@"` -/
def rootName : Bytes := [64, 82, 64]

/-- `lstat`: the root `/` and `/@R@` are directories. -/
def Fs.get (fs : Fs) (p : List Bytes) : Option Node :=
  if p.isEmpty || p == [rootName] then some .dir
  else (fs.nodes.find? (fun e => e.1 == p)).map (·.2)

inductive CanonRes where
  | ok (p : List Bytes)
  | err          -- `Err(_)`: ENOENT, ENOTDIR, ELOOP, or a NUL byte in the argument
  | escaped      -- left the modelled tree
  | fuelOut      -- the step bound of the model was too small (see `realpathFuel`)
  deriving DecidableEq, Repr

/-- Skip separators, then split at the next separator: the component and the rest. -/
def nextComp (s : Bytes) : Bytes × Bytes :=
  let s' := s.dropWhile (· == 47)
  (s'.takeWhile (· != 47), s'.dropWhile (· != 47))

/-- glibc `MIN_ELOOP_THRESHOLD` -/
def maxLinks : Nat := 40

def realpathAux (fs : Fs) : Nat → Nat → List Bytes → Bytes → CanonRes
  | 0, _, _, _ => .fuelOut
  | fuel + 1, links, dest, name =>
    match nextComp name with
    | (c, rest) =>
      if c.isEmpty then .ok dest
      else if c = [46] then realpathAux fs fuel links dest rest
      else if c = [46, 46] then
        if dest = [rootName] then .escaped
        else realpathAux fs fuel links dest.dropLast rest
      else if dest.isEmpty && c != rootName then .escaped
      else
        match fs.get (dest ++ [c]) with
        | none => .err
        | some (.link t) =>
          if links + 1 > maxLinks then .err
          else realpathAux fs fuel (links + 1) (if hasRoot t then [] else dest) (t ++ rest)
        | some .dir => realpathAux fs fuel links (dest ++ [c]) rest
        | some .file => if rest.isEmpty then .ok (dest ++ [c]) else .err

/-- Intended to be enough steps: every step either consumes a component of the current string or
    expands one of at most 40 links, and a string of length `n` has at most `n` components.
    (Sufficiency is not proved: `fuelOut` is a separate result that no theorem identifies with
    `ok`, and the driver reports it as a mismatch; it has never been observed.) -/
def realpathFuel (fs : Fs) (s : Bytes) : Nat :=
  (maxLinks + 1) * (s.length + 1 + (fs.nodes.map fun e => match e.2 with | .link t => t.length + 1 | _ => 0).sum + 1)

/-- `std::fs::canonicalize` for an absolute argument. -/
def canonFs (fs : Fs) (s : Bytes) : CanonRes :=
  if s.contains 0 then .err
  else if s.isEmpty then .err
  else if !hasRoot s then .escaped        -- relative: the working directory is not modelled
  else realpathAux fs (realpathFuel fs s) 0 [] s

/-- Render a resolved path: `/` for the root, else `/a/b/c`. -/
def render (p : List Bytes) : Bytes :=
  if p.isEmpty then [47] else p.flatMap (47 :: ·)

/-- `canonFs` as the `Env.canon` oracle (`escaped`/`fuelOut` have no counterpart: `none`). -/
def canonOracle (fs : Fs) (s : Bytes) : Option Bytes :=
  match canonFs fs s with
  | .ok p => some (render p)
  | _ => none

/-! ### The endpoint -/

/-- What the consumer of the unit's queue does with the `oneshot` sender of an entry. -/
inductive Reply where
  | ok        -- `tx.send(Ok(msg))`
  | err       -- `tx.send(Err(msg))`
  | dropped   -- sender dropped without a message
  | silent    -- nothing within the 5 s timeout
  deriving DecidableEq, Repr

/-- The environment of one request. -/
structure Env where
  /-- `std::fs::canonicalize`: `none` = `Err(_)`. -/
  canon : Bytes → Option Bytes
  /-- the receiving end of the unit's queue still exists -/
  rxOpen : Bool
  reply : Reply

inductive Outcome where
  | notHandled                                   -- `process_request` returned `None`
  | resp (status : Nat) (enq : Option Bytes)     -- response status, path sent to the queue
  | panic (site : String)
  deriving DecidableEq, Repr

/-- `http::header::HeaderName::from_bytes`: a non-empty token. -/
def validHeaderName (n : Bytes) : Bool :=
  !n.isEmpty && n.all fun b =>
    (48 ≤ b && b ≤ 57) || (65 ≤ b && b ≤ 90) || (97 ≤ b && b ≤ 122) ||
    [33, 35, 36, 37, 38, 39, 42, 43, 45, 46, 94, 95, 96, 124, 126].contains b

/-- `http::header::HeaderValue::try_from(&str)`: visible ASCII, tab, or ≥ 0x80, never DEL. -/
def validHeaderValue (v : Bytes) : Bool := v.all fun b => (32 ≤ b && b != 127) || b == 9

/-- `StatusCode::from_u16` -/
def validStatus (s : Nat) : Bool := 100 ≤ s && s < 1000

/-- `Response::builder().status(s).header("Content-Type", "text/plain").body(..).unwrap()`:
    the builder carries an error (and `unwrap` panics) iff the status or the header is invalid. -/
def respond (site : String) (status : Nat) (enq : Option Bytes) : Outcome :=
  if validStatus status && validHeaderName sContentType && validHeaderValue sTextPlain
  then .resp status enq else .panic site

/-- `api.rs` `fn err` -/
def err400 (enq : Option Bytes) : Outcome := respond "api.rs:err" 400 enq

/-- The `file` parameter `queue` goes on with: `Some(MatchedParam::Exact(file))`. -/
def fileParam (query : Option Bytes) : Option Bytes :=
  match getParam sFile (extractParams query) with
  | some (.exact f) => some f
  | _ => none

/-- `Processor::queue` after the channel send: the answer depends on the queue consumer. -/
def afterSend (env : Env) (p : Bytes) : Outcome :=
  if !env.rxOpen then
    -- `let _ = queue_tx.send(..).await` fails, the entry (with `tx`) is dropped,
    -- `rx` resolves to `Err(RecvError)`: nothing was enqueued
    err400 none
  else
    match env.reply with
    | .silent => respond "api.rs:queued" 200 (some p)
    | .ok => respond "api.rs:processed" 200 (some p)
    | .err => err400 (some p)
    | .dropped => err400 (some p)

/-- `Processor::queue` -/
def queue (cfg : Option Bytes) (env : Env) (query : Option Bytes) : Outcome :=
  match cfg with
  | none => err400 none
  | some up =>
    match env.canon up with
    | none => err400 none
    | some d =>
      match fileParam query with
      | none => respond "api.rs:missing-param" 400 none
      | some file =>
        if !isRelative file then err400 none
        else
          match env.canon (push d file) with
          | none => err400 none
          | some p =>
            if !underDir p d then err400 none
            else afterSend env p

/-- `Processor::process_request` -/
def processRequest (apiPath : Bytes) (cfg : Option Bytes) (env : Env)
    (isGet : Bool) (rawPath : Bytes) (query : Option Bytes) : Outcome :=
  let reqPath := decodedPath rawPath
  if !isGet then .notHandled
  else
    match stripPrefix reqPath apiPath with
    | none => .notHandled
    | some action =>
      if startsWith action sQueue then queue cfg env query else .notHandled

/-- The two paths `queue` hands to `canonicalize` (for the driver: the oracle table must
    contain them). -/
def canonQueries (cfg : Option Bytes) (canon : Bytes → Option Bytes) (query : Option Bytes) :
    List Bytes :=
  match cfg with
  | none => []
  | some up =>
    up :: (match canon up, fileParam query with
      | some d, some file => if isRelative file then [push d file] else []
      | _, _ => [])

end Rotonda.MrtApi
