/-
Model of the HTTP request path of rotonda (C12), import-free.

Transliterated from
* `src/http.rs`            `Server::handle_request`, `encode_response`,
                           `Resources::process_request`, `PercentDecodedPath`,
                           `extract_params`, `get_param`, `get_all_params`, `MatchedParam::parse`
* `src/manager.rs`         `mk_svg_http_processor` (`/status/graph…`), `mk_tracer_http_processor`
* `src/units/rib_unit/http/request.rs`   `PrefixesApi::process_request`, `handle_prefix_query`,
                           `handle_ingress_id_query`, `parse_*_param(s)`, `extract_filter_kind`
* `src/units/mrt_file_in/api.rs`         `Processor::process_request`, `queue`

Byte strings are `List Nat` (every element < 256 in every use).  A response is reduced to what
C12 talks about: status code, whether `Content-Encoding: gzip` was added, and whether the body
(the "reason" of a 400) is non-empty.  Panics are values.

Behaviour of *dependencies* is a parameter (`Deps`), not modelled: `inetnum::Prefix::from_str`,
`inetnum::Asn::from_str`, `routecore … HumanReadableCommunity::from_str` and the file system
(`canonicalize` + ancestor test) are looked up by the exact string the rotonda code passes them.
Std-library functions the handlers rely on *are* modelled: `percent_decode`,
`String::from_utf8_lossy`, `form_urlencoded::parse`, `str::{split, split_at, contains,
starts_with, strip_prefix, is_char_boundary}`, `u32::from_str`, `HeaderValue::to_str`.
-/
namespace Rotonda.Http

abbrev Bytes := List Nat

/-! ### String constants (explicit bytes so that `decide` can evaluate witnesses) -/

/-- `"/metrics"` -/
def sMetrics : Bytes := [47, 109, 101, 116, 114, 105, 99, 115]
/-- `"/status"` -/
def sStatus : Bytes := [47, 115, 116, 97, 116, 117, 115]
/-- `"/status/graph"` -/
def sGraph : Bytes := [47, 115, 116, 97, 116, 117, 115, 47, 103, 114, 97, 112, 104]
/-- `"/traces/"` -/
def sTracesSeg : Bytes := [47, 116, 114, 97, 99, 101, 115, 47]
/-- `"/status/traces"` -/
def sTracer : Bytes := [47, 115, 116, 97, 116, 117, 115, 47, 116, 114, 97, 99, 101, 115]
/-- `"gzip"` -/
def sGzip : Bytes := [103, 122, 105, 112]
/-- `"queue"` -/
def sQueue : Bytes := [113, 117, 101, 117, 101]
/-- `"include"` -/
def sInclude : Bytes := [105, 110, 99, 108, 117, 100, 101]
/-- `"details"` -/
def sDetails : Bytes := [100, 101, 116, 97, 105, 108, 115]
/-- `"select"` -/
def sSelect : Bytes := [115, 101, 108, 101, 99, 116]
/-- `"discard"` -/
def sDiscard : Bytes := [100, 105, 115, 99, 97, 114, 100]
/-- `"filter_op"` -/
def sFilterOp : Bytes := [102, 105, 108, 116, 101, 114, 95, 111, 112]
/-- `"sort"` -/
def sSort : Bytes := [115, 111, 114, 116]
/-- `"format"` -/
def sFormat : Bytes := [102, 111, 114, 109, 97, 116]
/-- `"file"` -/
def sFile : Bytes := [102, 105, 108, 101]
/-- `"lessSpecifics"` -/
def sLess : Bytes := [108, 101, 115, 115, 83, 112, 101, 99, 105, 102, 105, 99, 115]
/-- `"moreSpecifics"` -/
def sMore : Bytes := [109, 111, 114, 101, 83, 112, 101, 99, 105, 102, 105, 99, 115]
/-- `"communities"` -/
def sCommunities : Bytes := [99, 111, 109, 109, 117, 110, 105, 116, 105, 101, 115]
/-- `"as_path"` -/
def sAsPath : Bytes := [97, 115, 95, 112, 97, 116, 104]
/-- `"peer_as"` -/
def sPeerAs : Bytes := [112, 101, 101, 114, 95, 97, 115]
/-- `"community"` -/
def sCommunity : Bytes := [99, 111, 109, 109, 117, 110, 105, 116, 121]
/-- `"any"` -/
def sAny : Bytes := [97, 110, 121]
/-- `"all"` -/
def sAll : Bytes := [97, 108, 108]
/-- `"dump"` -/
def sDump : Bytes := [100, 117, 109, 112]
/-- `"sort_by"` -/
def sSortBy : Bytes := [115, 111, 114, 116, 95, 98, 121]
/-- `"sort_order"` -/
def sSortOrder : Bytes := [115, 111, 114, 116, 95, 111, 114, 100, 101, 114]
/-- `"asc"` -/
def sAsc : Bytes := [97, 115, 99]
/-- `"desc"` -/
def sDesc : Bytes := [100, 101, 115, 99]
/-- the values `RouterListApi::sort_routers` accepts for `sort_by`: `addr`, `sys_name`, `sys_desc`,
    `state`, `peers_up`, `peers_up_eor_capable`, `peers_up_dumping`, `peers_up_eor_capable_pc`,
    `peers_up_dumping_pc`, `invalid_messages`, `soft_parse_errors`, `hard_parse_errors` -/
def sortByValues : List Bytes := [
  [97, 100, 100, 114],
  [115, 121, 115, 95, 110, 97, 109, 101],
  [115, 121, 115, 95, 100, 101, 115, 99],
  [115, 116, 97, 116, 101],
  [112, 101, 101, 114, 115, 95, 117, 112],
  [112, 101, 101, 114, 115, 95, 117, 112, 95, 101, 111, 114, 95, 99, 97, 112, 97, 98, 108, 101],
  [112, 101, 101, 114, 115, 95, 117, 112, 95, 100, 117, 109, 112, 105, 110, 103],
  [112, 101, 101, 114, 115, 95, 117, 112, 95, 101, 111, 114, 95, 99, 97, 112, 97, 98, 108, 101, 95, 112, 99],
  [112, 101, 101, 114, 115, 95, 117, 112, 95, 100, 117, 109, 112, 105, 110, 103, 95, 112, 99],
  [105, 110, 118, 97, 108, 105, 100, 95, 109, 101, 115, 115, 97, 103, 101, 115],
  [115, 111, 102, 116, 95, 112, 97, 114, 115, 101, 95, 101, 114, 114, 111, 114, 115],
  [104, 97, 114, 100, 95, 112, 97, 114, 115, 101, 95, 101, 114, 114, 111, 114, 115]]

/-! ### `str` / byte-string primitives -/

/-- `str::starts_with` -/
def startsWith : Bytes → Bytes → Bool
  | _, [] => true
  | [], _ :: _ => false
  | a :: s, b :: p => a == b && startsWith s p

/-- `str::strip_prefix` -/
def stripPrefix : Bytes → Bytes → Option Bytes
  | s, [] => some s
  | [], _ :: _ => none
  | a :: s, b :: p => if a == b then stripPrefix s p else none

/-- `str::contains(&str)` -/
def containsSub : Bytes → Bytes → Bool
  | [], needle => needle.isEmpty
  | a :: s, needle => startsWith (a :: s) needle || containsSub s needle

/-- `str::is_char_boundary` on a valid UTF-8 string. -/
def isCharBoundary (s : Bytes) (i : Nat) : Bool :=
  if i = 0 then true
  else match s[i]? with
    | none => i == s.length
    | some b => b < 128 || 192 ≤ b

/-- `str::split(c)` (always at least one piece). -/
def splitOn (c : Nat) : Bytes → List Bytes
  | [] => [[]]
  | a :: s =>
    match splitOn c s with
    | [] => [[]]            -- unreachable
    | p :: ps => if a == c then [] :: p :: ps else (a :: p) :: ps

/-- number of occurrences of `c`; `s.split(c).count() = count c s + 1`. -/
def countByte (c : Nat) : Bytes → Nat
  | [] => 0
  | a :: s => (if a == c then 1 else 0) + countByte c s

def isDigit (b : Nat) : Bool := 48 ≤ b && b ≤ 57

/-- `u32::from_str` / `u8::from_str` (`max` = the type's maximum): optional `+`, then at least
    one ASCII digit, no overflow. -/
def parseUInt (max : Nat) (s : Bytes) : Option Nat :=
  let ds := match s with
    | 43 :: rest => rest
    | _ => s
  if ds.isEmpty then none
  else if ds.all isDigit then
    let v := ds.foldl (fun a d => a * 10 + (d - 48)) 0
    if v ≤ max then some v else none
  else none

def hexVal (b : Nat) : Option Nat :=
  if 48 ≤ b && b ≤ 57 then some (b - 48)
  else if 65 ≤ b && b ≤ 70 then some (b - 55)
  else if 97 ≤ b && b ≤ 102 then some (b - 87)
  else none

/-- `percent_encoding::percent_decode`: `%XY` with two hex digits becomes one byte, a `%`
    not followed by two hex digits stays. -/
def pctDecode : Bytes → Bytes
  | [] => []
  | [a] => [a]
  | [a, b] => [a, b]
  | a :: b :: c :: rest =>
    if a == 37 then
      match hexVal b, hexVal c with
      | some h, some l => (h * 16 + l) :: pctDecode rest
      | _, _ => a :: pctDecode (b :: c :: rest)
    else a :: pctDecode (b :: c :: rest)

def isCont (b : Nat) : Bool := 128 ≤ b && b ≤ 191

/-- U+FFFD -/
def replChar : Bytes := [239, 191, 189]

/-- One step of `core::str::Utf8Chunks`: the bytes to emit and how many input bytes they
    account for (always ≥ 1). A maximal invalid prefix becomes one U+FFFD. -/
def utf8Step : Bytes → Bytes × Nat
  | [] => ([], 1)
  | b :: rest =>
    if b < 128 then ([b], 1)
    else if 194 ≤ b && b ≤ 223 then
      match rest with
      | c :: _ => if isCont c then ([b, c], 2) else (replChar, 1)
      | [] => (replChar, 1)
    else if 224 ≤ b && b ≤ 239 then
      match rest with
      | c :: r1 =>
        let ok2 := if b == 224 then 160 ≤ c && c ≤ 191
                   else if b == 237 then 128 ≤ c && c ≤ 159
                   else isCont c
        if ok2 then
          match r1 with
          | d :: _ => if isCont d then ([b, c, d], 3) else (replChar, 2)
          | [] => (replChar, 2)
        else (replChar, 1)
      | [] => (replChar, 1)
    else if 240 ≤ b && b ≤ 244 then
      match rest with
      | c :: r1 =>
        let ok2 := if b == 240 then 144 ≤ c && c ≤ 191
                   else if b == 244 then 128 ≤ c && c ≤ 143
                   else isCont c
        if ok2 then
          match r1 with
          | d :: r2 =>
            if isCont d then
              match r2 with
              | e :: _ => if isCont e then ([b, c, d, e], 4) else (replChar, 3)
              | [] => (replChar, 3)
            else (replChar, 2)
          | [] => (replChar, 2)
        else (replChar, 1)
      | [] => (replChar, 1)
    else (replChar, 1)

def utf8LossyAux : Nat → Bytes → Bytes
  | 0, _ => []
  | fuel + 1, s =>
    match s with
    | [] => []
    | _ :: _ =>
      let st := utf8Step s
      st.1 ++ utf8LossyAux fuel (s.drop st.2)

/-- `String::from_utf8_lossy`: every maximal invalid sequence becomes one U+FFFD
    (fuel = input length; every step consumes at least one byte). -/
def utf8Lossy (s : Bytes) : Bytes := utf8LossyAux s.length s

/-- `Uri::decoded_path()` = `percent_decode(path).decode_utf8_lossy()` -/
def decodedPath (raw : Bytes) : Bytes := utf8Lossy (pctDecode raw)

/-! ### Query parameters (`extract_params`, `get_param`, `get_all_params`) -/

structure Param where
  name : Bytes
  value : Bytes
  deriving DecidableEq, Repr

def plusToSpace (s : Bytes) : Bytes := s.map fun b => if b == 43 then 32 else b

def formDecode (s : Bytes) : Bytes := utf8Lossy (pctDecode (plusToSpace s))

/-- split at the first `=` -/
def splitFirstEq : Bytes → Bytes × Bytes
  | [] => ([], [])
  | a :: s => if a == 61 then ([], s) else
      let r := splitFirstEq s
      (a :: r.1, r.2)

/-- `form_urlencoded::parse`: pieces between `&`, empty pieces skipped. -/
def parseQuery (q : Bytes) : List Param :=
  ((splitOn 38 q).filter (fun p => !p.isEmpty)).map fun p =>
    let nv := splitFirstEq p
    { name := formDecode nv.1, value := formDecode nv.2 }

inductive Matched where
  | exact (v : Bytes)
  | family (f v : Bytes)
  deriving DecidableEq, Repr

def Matched.value : Matched → Bytes
  | .exact v => v
  | .family _ v => v

def isBracket (b : Nat) : Bool := b == 91 || b == 93

def takeUntilBracket : Bytes → Bytes
  | [] => []
  | a :: s => if isBracket a then [] else a :: takeUntilBracket s

/-- first two pieces of `name.split(&['[', ']'])` -/
def splitBrackets : Bytes → Bytes × Option Bytes
  | [] => ([], none)
  | a :: s =>
    if isBracket a then ([], some (takeUntilBracket s))
    else
      let r := splitBrackets s
      (a :: r.1, r.2)

/-- `MatchedParam::parse` -/
def matchParam (needle : Bytes) (p : Param) : Option Matched :=
  let kf := splitBrackets p.name
  if kf.1 = needle then
    some (match kf.2 with
          | none => .exact p.value
          | some f => .family f p.value)
  else none

/-- `get_param`: the first matching parameter. -/
def getParam (needle : Bytes) : List Param → Option Matched
  | [] => none
  | p :: ps => match matchParam needle p with
    | some m => some m
    | none => getParam needle ps

/-- `get_all_params` -/
def getAllParams (needle : Bytes) (ps : List Param) : List Matched :=
  ps.filterMap (matchParam needle)

/-- Is parameter number `i` the one `get_param needle` marks as used? -/
def firstMatchIdx (needle : Bytes) : List Param → Option Nat
  | [] => none
  | p :: ps => match matchParam needle p with
    | some _ => some 0
    | none => (firstMatchIdx needle ps).map (· + 1)

/-! ### Dependencies, requests, responses -/

inductive PfxRes where
  | err
  | ok (v4 : Bool) (len : Nat)
  deriving DecidableEq, Repr

inductive FsRes where
  | missing   -- `canonicalize` of `update_dir/file` fails
  | outside   -- canonical path has no ancestor equal to the canonical update dir
  | inside
  deriving DecidableEq, Repr

/-- What a dependency's `from_str` does with a string: `Ok`, `Err`, or it panics itself
    (inetnum 0.1.1 `Asn::from_str` slices `s[..2]` and panics when byte 2 is inside a character). -/
inductive PRes where
  | ok | err | panic
  deriving DecidableEq, Repr

/-- Assumed behaviour of code outside `/repo`. -/
structure Deps where
  pfx : Bytes → PfxRes          -- `inetnum::addr::Prefix::from_str`
  asn : Bytes → PRes            -- `inetnum::asn::Asn::from_str`
  community : Bytes → PRes      -- `routecore … HumanReadableCommunity::from_str`
  fs : Bytes → FsRes            -- the file system as seen by `Processor::queue`

inductive Method where
  | get | other
  deriving DecidableEq, Repr

structure Req where
  method : Method
  path : Bytes                  -- `uri.path()`, as accepted by the HTTP parser
  query : Option Bytes          -- `uri.query()`
  acceptEnc : Option Bytes      -- bytes of the first `Accept-Encoding` header, if any
  deriving DecidableEq, Repr

structure Resp where
  status : Nat
  gzip : Bool                   -- `Content-Encoding: gzip` present
  reason : Bool                 -- body non-empty
  deriving DecidableEq, Repr

inductive Site where
  | aeToStr        -- http.rs:261  `v.to_str().unwrap()`
  | graphSplitAt   -- manager.rs:1463 `restant.split_at("/traces/".len())`
  | graphEmpty     -- manager.rs:403  `vg.do_it(..)` on a graph without nodes (layout-rs asserts)
  | depFromStr     -- rib_unit/http/request.rs `extract_filter_kind`: the dependency's `from_str` panics
  deriving DecidableEq, Repr

inductive Outcome where
  | ok (r : Resp)
  | panic (s : Site)
  deriving DecidableEq, Repr

/-- What one processor answers. -/
inductive PR where
  | none                        -- `None`: not responsible
  | resp (r : Resp)
  | panic (s : Site)
  deriving DecidableEq, Repr

inductive Proc where
  | tracer                                          -- `/status/traces`
  | graph (empty : Bool)                            -- `/status/graph…`; `empty`: no link report yet
  | routerList (base : Bytes)                       -- bmp-tcp-in router list (no router connected)
  | rib (base : Bytes) (v4min v6min : Nat)          -- physical RIB, `query_limits.more_specifics`
  | mrt (base : Bytes) (hasDir : Bool)              -- mrt-file-in queue endpoint, `update_path` set?
  | dead                                            -- registered, but the component is gone (`Weak` dangling)
  deriving DecidableEq, Repr

structure Registry where
  compress : Bool
  procs : List Proc
  deriving DecidableEq, Repr

/-- Defect sites: `true` = code as written, `false` = repaired. -/
structure Variant where
  aeUnwrap : Bool       -- `to_str().unwrap()` vs `to_str().map(..).unwrap_or(false)`
  graphSplit : Bool     -- `split_at(8)` after `contains` vs `strip_prefix("/traces/")`
  graphEmpty : Bool     -- laying out a graph without nodes vs skipping the layout
  depPanic : Bool       -- filter values handed to `Asn::from_str` unchecked vs rejected when not ASCII
  deriving DecidableEq, Repr

def asWritten : Variant := ⟨true, true, true, true⟩
def repaired : Variant := ⟨false, false, false, false⟩

def r200 : Resp := ⟨200, false, true⟩
def r400 : Resp := ⟨400, false, true⟩
def r404 : Resp := ⟨404, false, true⟩
def r405 : Resp := ⟨405, false, true⟩

/-! ### The processors -/

/-- `mk_tracer_http_processor` -/
def tracerProc (dec : Bytes) : PR :=
  if dec = sTracer then .resp r200 else .none

/-- `mk_svg_http_processor` -/
def graphProc (v : Variant) (empty : Bool) (dec : Bytes) : PR :=
  if startsWith dec sGraph then
    let restant := dec.drop sGraph.length          -- split_at on an ASCII prefix: always a boundary
    if v.graphSplit && containsSub restant sTracesSeg && !isCharBoundary restant sTracesSeg.length then
      .panic .graphSplitAt
    else if v.graphEmpty && empty then .panic .graphEmpty     -- `get_svg` → layout-rs `assert!(!is_empty())`
    else .resp r200                                -- the trace id only changes the body
  else .none

def sortByOk (ps : List Param) : Bool :=
  match getParam sSortBy ps with
  | some m => sortByValues.contains m.value
  | none => true

def sortOrderOk (ps : List Param) : Bool :=
  match getParam sSortOrder ps with
  | some m => m.value = sAsc || m.value = sDesc
  | none => true

/-- `RouterListApi::process_request` + `sort_routers` with no router connected -/
def routerListProc (base : Bytes) (dec : Bytes) (ps : List Param) : PR :=
  if dec = base then
    if !sortByOk ps then .resp r400
    else if !sortOrderOk ps then .resp r400
    else .resp r200
  else .none

/-- all pieces of `value.split(',')` are in `allowed` -/
def allPiecesIn (allowed : List Bytes) (value : Bytes) : Bool :=
  (splitOn 44 value).all fun p => allowed.contains p

/-- the dependency calls `extract_filter_kind` makes for one filter parameter, in order -/
def filterSeq (d : Deps) : Matched → List PRes
  | .exact _ => [.err]
  | .family f v =>
    if f = sAsPath then (splitOn 44 v).map d.asn
    else if f = sPeerAs then [d.asn v]
    else if f = sCommunity then [d.community v]
    else [.err]

/-- the first call that does not return `Ok` decides (`?` / unwinding) -/
def firstBad : List PRes → PRes
  | [] => .ok
  | .ok :: l => firstBad l
  | .err :: _ => .err
  | .panic :: _ => .panic

/-- Parameters that no `get_param`/`get_all_params` call of `handle_prefix_query` marks as used. -/
def unusedParams (ps : List Param) : List Nat :=
  (List.range ps.length).filter fun i =>
    !( firstMatchIdx sInclude ps == some i
    || firstMatchIdx sDetails ps == some i
    || (match ps[i]? with | some p => (matchParam sSelect p).isSome || (matchParam sDiscard p).isSome | none => false)
    || firstMatchIdx sFilterOp ps == some i
    || firstMatchIdx sSort ps == some i
    || firstMatchIdx sFormat ps == some i)

/-- `parse_include_param`: every piece of the first `include` parameter is known -/
def includeOk (ps : List Param) : Bool :=
  match getParam sInclude ps with
  | some m => allPiecesIn [sLess, sMore] m.value
  | none => true

/-- `includes.more_specifics` -/
def wantsMore (ps : List Param) : Bool :=
  match getParam sInclude ps with
  | some m => (splitOn 44 m.value).contains sMore
  | none => false

/-- `parse_details_param` -/
def detailsOk (ps : List Param) : Bool :=
  match getParam sDetails ps with
  | some m => allPiecesIn [sCommunities] m.value
  | none => true

/-- `parse_filter_params`, the `select` / `discard` loops -/
def filtersRes (d : Deps) (needle : Bytes) (ps : List Param) : PRes :=
  firstBad ((getAllParams needle ps).flatMap (filterSeq d))

/-- `parse_filter_params`, `filter_op` -/
def filterOpOk (ps : List Param) : Bool :=
  match getParam sFilterOp ps with
  | some m => m.value = sAny || m.value = sAll
  | none => true

/-- the final `match format` -/
def formatOk (ps : List Param) : Bool :=
  match getParam sFormat ps with
  | some m => m.value = sDump
  | none => true

/-- what a filter loop's outcome means for the request: `none` = go on -/
def filterStop (v : Variant) : PRes → Option PR
  | .ok => none
  | .err => some (.resp r400)
  | .panic => some (if v.depPanic then .panic .depFromStr else .resp r400)

/-- `handle_prefix_query`, in the order of the code (each `?` is an early 400). -/
def ribPrefixQuery (v : Variant) (d : Deps) (v4min v6min : Nat) (suffix : Bytes) (ps : List Param) : PR :=
  match d.pfx suffix with
  | .err => .resp r400
  | .ok v4 len =>
    if !includeOk ps then .resp r400 else
    if wantsMore ps && len < (if v4 then v4min else v6min) then .resp r400 else
    if !detailsOk ps then .resp r400 else
    match filterStop v (filtersRes d sSelect ps) with
    | some r => r
    | none =>
    match filterStop v (filtersRes d sDiscard ps) with
    | some r => r
    | none =>
    if !filterOpOk ps then .resp r400 else
    -- parse_sort_params never fails; `format` is looked up here (marked used) but judged last
    if !(unusedParams ps).isEmpty then .resp r400 else
    -- the store query itself (a physical RIB with a store): a result
    if formatOk ps then .resp r200 else .resp r400

/-- `handle_ingress_id_query` on a physical RIB -/
def ribIngressQuery (suffix : Bytes) : Resp :=
  match parseUInt 4294967295 suffix with
  | none => r400
  | some _ => r200

/-- `PrefixesApi::process_request` -/
def ribProc (v : Variant) (d : Deps) (base : Bytes) (v4min v6min : Nat) (raw dec : Bytes) (ps : List Param) : PR :=
  match stripPrefix dec base with
  | none => .none
  | some suffix =>
    if countByte 47 raw + 1 = 3 then .resp (ribIngressQuery suffix)
    else ribPrefixQuery v d v4min v6min suffix ps

/-- `Processor::queue` after the `update_path` check: is the `file` parameter usable? -/
def mrtFileOk (d : Deps) (ps : List Param) : Bool :=
  match getParam sFile ps with
  | some (.exact f) =>
    if f.head? = some 47 then false                  -- "not relative"
    else match d.fs f with
      | .missing => false
      | .outside => false
      | .inside => true
  | _ => false

/-- `mrt_file_in::api::Processor::process_request` + `queue` (the queue consumer is the
    harness: it answers `Ok` for every file that gets enqueued). -/
def mrtProc (d : Deps) (base : Bytes) (hasDir : Bool) (dec : Bytes) (ps : List Param) : PR :=
  match stripPrefix dec base with
  | none => .none
  | some action =>
    if startsWith action sQueue then
      if !hasDir then .resp r400
      else if mrtFileOk d ps then .resp r200 else .resp r400
    else .none

def Proc.run (v : Variant) (d : Deps) (raw dec : Bytes) (ps : List Param) : Proc → PR
  | .tracer => tracerProc dec
  | .graph empty => graphProc v empty dec
  | .routerList base => routerListProc base dec ps
  | .rib base v4 v6 => ribProc v d base v4 v6 raw dec ps
  | .mrt base hasDir => mrtProc d base hasDir dec ps
  | .dead => .none

/-- `Resources::process_request`: the first processor that returns `Some`. -/
def firstSome (v : Variant) (d : Deps) (raw dec : Bytes) (ps : List Param) : List Proc → PR
  | [] => .none
  | p :: rest =>
    match p.run v d raw dec ps with
    | .none => firstSome v d raw dec ps rest
    | r => r

/-- `HeaderValue::to_str().is_ok()`: every byte is visible ASCII, space or tab. -/
def toStrOk (h : Bytes) : Bool := h.all fun b => b == 9 || (32 ≤ b && b < 127)

/-- `encode_response` (feature `http-api-gzip`, the default build) -/
def encode (v : Variant) (compress : Bool) (ae : Option Bytes) (r : Resp) : Outcome :=
  if compress then
    match ae with
    | none => .ok r
    | some h =>
      if v.aeUnwrap && !toStrOk h then .panic .aeToStr
      else if toStrOk h && containsSub h sGzip then .ok { r with gzip := true }
      else .ok r
  else .ok r

/-- `Server::handle_request` -/
def handle (v : Variant) (d : Deps) (reg : Registry) (req : Req) : Outcome :=
  match req.method with
  | .other => .ok r405
  | .get =>
    let dec := decodedPath req.path
    if dec = sMetrics || dec = sStatus then encode v reg.compress req.acceptEnc r200
    else
      let ps := match req.query with | some q => parseQuery q | none => []
      match firstSome v d req.path dec ps reg.procs with
      | .none => encode v reg.compress req.acceptEnc r404
      | .resp r => encode v reg.compress req.acceptEnc r
      | .panic s => .panic s

end Rotonda.Http
