/-
Model of the HTML pages of the BMP unit (`bmp_tcp_in/http/router_info`, `router_list`) for C19.
Import-free.  The page *templates* are not written here: they are extracted from the source text
into `Generated/Escape.lean` (`tools/extract_escape.py`) as lists of segments; this file defines what
a template is, how it is filled, `html_escape::encode_safe` (html-escape 0.2.13:
`& < > " ' /` → `&amp; &lt; &gt; &quot; &#x27; &#x2F;`), and the structural skeleton of a page.

Strings are `List Char`.  Router-supplied bytes reach the pages through `String::from_utf8_lossy`,
which maps every ASCII byte to itself and everything else to non-ASCII characters, so for the
structural characters (all ASCII) the bytes can be used directly (the driver maps bytes ≥ 128 to `?`).
-/
namespace Rotonda.Escape

/-- How the expression that reaches a `{}` of a format string was classified by the extractor. -/
inductive Cls where
  | escaped   -- flows through `html_escape::encode_safe`
  | safe      -- numeric / typed Display without HTML metacharacters / configuration-derived
  | raw       -- a string of external origin, interpolated as it is
  | nested    -- a `String` assembled from other templates (`write!(x, …)`, `x.push_str(…)`)
  deriving DecidableEq, Repr

inductive Seg where
  | lit (s : String)
  /-- `sliced`: the escaped value is byte-sliced to at most 61 bytes before it is interpolated. -/
  | hole (expr : String) (cls : Cls) (sliced : Bool) (why : String)
  deriving DecidableEq, Repr

abbrev Template := List Seg

def encodeSafeC : Char → List Char
  | '&' => ['&', 'a', 'm', 'p', ';']
  | '<' => ['&', 'l', 't', ';']
  | '>' => ['&', 'g', 't', ';']
  | '"' => ['&', 'q', 'u', 'o', 't', ';']
  | '\'' => ['&', '#', 'x', '2', '7', ';']
  | '/' => ['&', '#', 'x', '2', 'F', ';']
  | c => [c]

/-- `html_escape::encode_safe` -/
def encodeSafe (s : List Char) : List Char := s.flatMap encodeSafeC

/-- The characters that delimit tags and attribute values. -/
def structural (c : Char) : Bool := c == '<' || c == '>' || c == '"' || c == '\''

/-- What is left of a document when everything but the structural characters is dropped. -/
def skeleton (s : List Char) : List Char := s.filter structural

/-- `if s.len() > 60 { &s[0..=60] } else { &s[..] }` (router_list/response.rs:127-136), on ASCII. -/
def slice61 (s : List Char) : List Char := if s.length > 60 then s.take 61 else s

/-- Values for the holes, by expression text. -/
abbrev Env := String → List Char

/-- Fill one segment. `safe` holes are rendered as nothing: their values (numbers, addresses,
    timestamps, configuration) contain no structural character — an assumption, sampled by the
    correspondence, which compares skeletons of real pages. -/
def fill (inp : Env) : Seg → List Char
  | .lit s => s.toList
  | .hole e .escaped true _ => slice61 (encodeSafe (inp e))
  | .hole e .escaped false _ => encodeSafe (inp e)
  | .hole _ .safe _ _ => []
  | .hole e .raw _ _ => inp e
  | .hole e .nested _ _ => inp e

def render (t : Template) (inp : Env) : List Char := t.flatMap (fill inp)

/-- The template's own text. -/
def lits (t : Template) : List Char := t.flatMap (fun | .lit s => s.toList | .hole .. => [])

def isRawHole : Seg → Bool
  | .hole _ .raw _ _ => true
  | _ => false

def isOpenHole : Seg → Bool
  | .hole _ .raw _ _ => true
  | .hole _ .nested _ _ => true
  | _ => false

/-- No hole of the template lets a string through unescaped. -/
def AllEscaped (t : Template) : Prop := ∀ s ∈ t, isOpenHole s = false

instance (t : Template) : Decidable (AllEscaped t) := by unfold AllEscaped; exact inferInstance

/-- The raw holes of a template, by expression. -/
def rawHoles (t : Template) : List String :=
  t.filterMap (fun | .hole e .raw _ _ => some e | _ => none)

/-! ### Page assembly (hand transliteration of the code around the templates) -/

/-- Environment from an association list. -/
def envOf (kv : List (String × List Char)) : Env := fun e =>
  match kv.find? (·.1 == e) with
  | some p => p.2
  | none => []

end Rotonda.Escape
