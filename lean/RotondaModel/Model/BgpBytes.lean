/-!
# BgpBytes — the byte-level contract of the BGP receiver (bgp-tcp-in), property C06

What one BGP connection does with the bytes it receives, as rotonda (`units/bgp_tcp_in/router_handler.rs`
`Processor::process`, `handle_connection`) and its dependency routecore 0.5.1 (`bgp/fsm/session.rs`
`Connection::read_frame` / `parse_frame`, `Session::tick` / `handle_msg` / `handle_event`,
`bgp/message/{mod,open,keepalive,notification,update}.rs`) implement it. Everything is a transliteration of the code
that exists; panics are values (`Site`), never hidden.

Layers, bottom up:
* `parseFrame`  — `Connection::parse_frame`: 18 bytes needed to look at the length, `(len as usize) - 18`
  (panics below 18 in builds with overflow checks, wraps to ~2^64 in release builds), no marker check, no upper bound;
* `fromOctets` — `BgpMsg::from_octets`: `Header::parse` (marker, 19 bytes), per type: `OpenMessage::check`
  (lenient: capabilities are skipped by their length byte, a non-capability parameter's value is *not* skipped),
  `KeepaliveMessage::check` (exactly 19), `NotificationMessage::from_octets` (no check at all),
  `UpdateMessage::parse` (section lengths, IPv4 NLRI, attribute framing; a failed per-attribute validation is *not*
  an error, MP_(UN)REACH need 3 value bytes), ROUTE-REFRESH and unknown types are `Unsupported`;
* `Capability::parse` (`capParse`), the typed capability parser that the *iterators* use with `.unwrap()`
  (`CapabilitiesIter::next`, `ParametersParser::next`) — the check above does not imply it succeeds;
* `handleMsg` — `Session::handle_msg` + `handle_event` for the states a passive session can be in
  (Active with DelayOpenTimer running, OpenSent, OpenConfirm, Established, and Idle-with-connection, which several arms
  leave behind because "drops the TCP connection" is a TODO there), plus what `Processor::process` does with the
  `Message` the session sends it (SessionNegotiated → live_sessions, UpdateMessage → `process_update` → Bulk,
  NotificationMessage → `debug!("…{:?}", pdu.details())`);
* `run` — the whole connection: frames until the stream is exhausted, then end of input; the epilogue of
  `Processor::process` (`live_sessions.remove` + `Update::Withdraw`) runs iff the task did not panic.
-/
namespace Rotonda.BgpBytes

abbrev Bytes := List Nat

def be16 (a b : Nat) : Nat := a * 256 + b

/-- Panic sites reachable from received bytes. -/
inductive Site
  /-- routecore `session.rs:1917` `(len as usize) - 18` (overflow-checked builds) -/
  | frameLen
  /-- routecore `open.rs` `ParametersParser::next`: `parse_u8().unwrap()` / `parse_parser(len).unwrap()` -/
  | paramIter
  /-- routecore `open.rs` `CapabilitiesIter::next`: `Capability::parse(..).unwrap()` -/
  | capIter
  /-- routecore `open.rs` `Capability::parse`, (Prestandard)Multisession: `0..len-1` with `len = 0` (overflow-checked builds) -/
  | capSub
  /-- routecore `open.rs` `my_asn`: `c.value().try_into().expect("parsed before")` -/
  | asn4
  /-- routecore `session.rs` `(S::OpenConfirm, E::BgpOpen(_)) => todo!()` -/
  | fsmOpenConfirm
  /-- routecore `session.rs` `(S::Established, E::BgpOpen(_)) => todo!()` -/
  | fsmEstablished
  /-- routecore `notification.rs` `details()`: `self.octets.as_ref()[COFF+1]`, evaluated by rotonda's
      `debug!("received NOTIFICATION: {:?}", pdu.details())` only when the Debug log level is enabled -/
  | notifDetails
  deriving DecidableEq, Repr

/-- Code as written (`false`) or repaired (`true`) per defect site; `checked` is the build profile
(overflow checks on = dev/test, off = release). -/
structure Variant where
  frame : Bool := false
  capiter : Bool := false
  asn4 : Bool := false
  fsmopen : Bool := false
  notiflog : Bool := false
  checked : Bool := true
  deriving DecidableEq, Repr

def Variant.asWritten : Variant := {}
def Variant.repaired : Variant := { frame := true, capiter := true, asn4 := true, fsmopen := true, notiflog := true }

/-- What the deployment fixes for this connection. -/
structure Cfg where
  /-- Debug log level enabled (arguments of `debug!` are evaluated) -/
  debug : Bool
  /-- `remote_asn_allowed`: `none` = any AS, `some n` = exactly `n` -/
  allowed : Option Nat
  deriving DecidableEq, Repr

inductive Fsm | active | openSent | openConfirm | established | idle
  deriving DecidableEq, Repr

structure Sess where
  fsm : Fsm
  /-- `session.negotiated().is_some()` -/
  negotiated : Bool
  /-- the processor has handled `SessionNegotiated`: the key is in `live_sessions` -/
  inLive : Bool
  deriving DecidableEq, Repr

/-- Observable events of one connection, in order. -/
inductive Ev
  | txOpen | txKeepalive | txNotif (code sub : Nat)
  | bulk (n : Nat)
  /-- an UPDATE carrying MP_REACH/MP_UNREACH reached `process_update`: contents not modelled -/
  | bulkMp
  | withdraw
  /-- release builds: the reader waits for ~2^64 bytes; `n` bytes were swallowed unprocessed -/
  | stalled (n : Nat)
  deriving DecidableEq, Repr

/-- Why the connection's task stopped. -/
inductive Stop
  /-- `session.tick()` returned `Err` (unparsable frame, read error, `handle_msg` failed) -/
  | tickErr
  /-- the FSM dropped the connection and `tick` returned `Ok`; the processor sees `connected_addr() = None` -/
  | fsmDropped
  /-- the processor broke out itself (UPDATE without a `NegotiatedConfig`) -/
  | procBreak
  /-- clean end of input on a frame boundary (`ConnectionLost`) -/
  | lost
  | panic (s : Site)
  deriving DecidableEq, Repr

-- ------------------------------------------------------------------ Capability::parse

/-- `while parser.pos() < pos + len { read step bytes }`: `c` = bytes consumed since `pos` (header included),
`avail` = bytes available since `pos`. `false` = ShortInput. -/
def loopOk (step len avail : Nat) : Nat → Nat → Bool
  | 0, _ => true
  | fuel + 1, c => if c < len then (if c + step ≤ avail then loopOk step len avail fuel (c + step) else false) else true

inductive CapRes
  | ok (typ : Nat) (value rest : Bytes)
  | err
  | panic (s : Site)
  deriving DecidableEq, Repr

/-- The type-specific part of `Capability::parse`: `body` = every byte of the enclosing parameter after the two
header bytes (the typed readers are *not* limited to the capability's own length). `none` = ok. -/
def capBody (v : Variant) (typ len : Nat) (body : Bytes) : Option CapRes :=
  let avail := body.length + 2
  let need (n : Nat) : Option CapRes := if n ≤ body.length then none else some .err
  let loop (step start : Nat) : Option CapRes := if loopOk step len avail (len + 1) start then none else some .err
  match typ with
  | 1 => need 4
  | 2 | 6 | 70 | 128 => if len = 0 then none else some .err
  | 3 | 130 => if 5 ≤ body.length then need (5 + 2 * body.getD 4 0) else some .err
  | 5 => loop 6 2
  | 8 => loop 4 2
  | 9 => if len = 1 then need 1 else some .err
  | 64 => if 2 ≤ body.length then loop 4 4 else some .err
  | 65 => need 4
  | 66 | 67 => need len
  | 68 | 131 =>
    if body.length < 1 then some .err
    else if len = 0 then (if v.capiter then some .err else if v.checked then some (.panic .capSub) else some .err)
    else need len
  | 69 => if 4 ≤ body.length then (if body.getD 3 0 ≤ 3 then none else some .err) else some .err
  | 71 => loop 7 2
  | 73 =>
    if 1 ≤ body.length then
      let hl := body.getD 0 0
      if 2 + hl ≤ body.length then need (2 + hl + body.getD (1 + hl) 0) else some .err
    else some .err
  | 75 | 76 => if 1 ≤ body.length then need (1 + body.getD 0 0) else some .err
  | _ => none

/-- `Capability::parse` on the remaining bytes of a capabilities parameter. -/
def capParse (v : Variant) : Bytes → CapRes
  | typ :: len :: body =>
    match capBody v typ len body with
    | some r => r
    | none => if len ≤ body.length then .ok typ (body.take len) (body.drop len) else .err
  | _ => .err

inductive Item
  | cap (typ : Nat) (value : Bytes)
  | panic (s : Site)
  deriving DecidableEq, Repr

/-- `CapabilitiesIter` over one parameter's value. The trace ends at the first failure. -/
def capsOf (v : Variant) : Nat → Bytes → List Item
  | 0, _ => []
  | _ + 1, [] => []
  | fuel + 1, b :: rem =>
    match capParse v (b :: rem) with
    | .ok t val rest => .cap t val :: capsOf v fuel rest
    | .err => [.panic .capIter]
    | .panic s => [.panic s]

/-- `capabilities()` = `ParametersParser` filtered on type 2, flat-mapped through `CapabilitiesIter`: every item the
lazy iterator can yield, in order; consumers stop at the first `panic` item they reach. -/
def capTrace (v : Variant) : Nat → Bytes → List Item
  | 0, _ => []
  | _ + 1, [] => []
  | _ + 1, [_] => [.panic .paramIter]
  | fuel + 1, typ :: len :: rest =>
    if len ≤ rest.length then
      (if typ = 2 then capsOf v (len + 1) (rest.take len) else []) ++ capTrace v fuel (rest.drop len)
    else [.panic .paramIter]

def Item.isPanic : Item → Bool
  | .panic _ => true
  | _ => false

/-- `capabilities().find(|c| c.typ() == FourOctetAsn)`: stops at the first match. -/
inductive Found | none | value (val : Bytes) | panic (s : Site)
  deriving DecidableEq, Repr

def find65 : List Item → Found
  | [] => .none
  | .panic s :: _ => .panic s
  | .cap t val :: rest => if t = 65 then .value val else find65 rest

/-- first panic item of a full iteration -/
def firstPanic : List Item → Option Site
  | [] => none
  | .panic s :: _ => some s
  | .cap _ _ :: rest => firstPanic rest

-- ------------------------------------------------------------------ OpenMessage::check

/-- `Capability::check` loop inside one parameter: type, length, skip. -/
def capsCheck : Nat → Bytes → Bool
  | 0, _ => true
  | _ + 1, [] => true
  | _ + 1, [_] => false
  | fuel + 1, _ :: len :: rest => if len ≤ rest.length then capsCheck fuel (rest.drop len) else false

/-- `Parameter::check` loop: a capabilities parameter (type 2) is sub-parsed; any other type only has its two header
bytes consumed (its value is then read as the next parameter). -/
def paramsCheck : Nat → Bytes → Bool
  | 0, _ => true
  | _ + 1, [] => true
  | _ + 1, [_] => false
  | fuel + 1, typ :: len :: rest =>
    if typ = 2 then
      (if len ≤ rest.length then capsCheck (len + 1) (rest.take len) && paramsCheck fuel (rest.drop len) else false)
    else paramsCheck fuel rest

/-- the optional-parameters area of an OPEN frame that passed the check -/
def openParams (frame : Bytes) : Bytes := (frame.drop 29).take (frame.getD 28 0)

def openCheck (v : Variant) (frame : Bytes) : Bool :=
  29 ≤ frame.length
  && 29 + frame.getD 28 0 == frame.length
  && paramsCheck (frame.length + 1) (openParams frame)
  && (if v.capiter then (firstPanic (capTrace v (frame.length + 1) (openParams frame))).isNone else true)

-- ------------------------------------------------------------------ UpdateMessage::parse

/-- `NlriIter::ipv4_unicast(..).validate()`: `none` = error; else the prefixes `(bits, bytes)`. -/
def nlriV4 : Nat → Bytes → Option (List (Nat × Bytes))
  | 0, _ => some []
  | _ + 1, [] => some []
  | fuel + 1, bits :: rest =>
    let nb := (bits + 7) / 8
    if nb > 4 then none
    else if rest.length < nb then none
    else if nb > 0 && (rest.getD (nb - 1) 0) % (2 ^ (8 * nb - bits)) != 0 then none
    else match nlriV4 fuel (rest.drop nb) with
      | none => none
      | some l => some ((bits, rest.take nb) :: l)

/-- attribute framing (`WireformatPathAttribute::parse`): `none` = ShortInput; else `(type, value length)` each. -/
def attrsFrame : Nat → Bytes → Option (List (Nat × Nat))
  | 0, _ => some []
  | _ + 1, [] => some []
  | fuel + 1, flags :: rest =>
    match rest with
    | [] => none
    | typ :: rest2 =>
      let ext := (flags / 16) % 2 == 1
      if ext then
        match rest2 with
        | l1 :: l2 :: val =>
          let len := be16 l1 l2
          if len ≤ val.length then (attrsFrame fuel (val.drop len)).map ((typ, len) :: ·) else none
        | _ => none
      else
        match rest2 with
        | l1 :: val => if l1 ≤ val.length then (attrsFrame fuel (val.drop l1)).map ((typ, l1) :: ·) else none
        | _ => none

inductive UpdRes
  | err
  /-- accepted; `n` = payloads `explode_update` yields (announcements, then withdrawals not announced in the same message) -/
  | ok (n : Nat)
  /-- accepted, carries MP_REACH / MP_UNREACH: payload count not modelled -/
  | okMp
  deriving DecidableEq, Repr

def updateParse (frame : Bytes) : UpdRes :=
  match frame.drop 19 with
  | w1 :: w2 :: r1 =>
    let wl := be16 w1 w2
    if wl > r1.length then .err else
    match nlriV4 (wl + 1) (r1.take wl) with
    | none => .err
    | some wds =>
      match r1.drop wl with
      | a1 :: a2 :: r2 =>
        let al := be16 a1 a2
        if al > r2.length then .err else
        match attrsFrame (al + 1) (r2.take al) with
        | none => .err
        | some attrs =>
          if attrs.any (fun a => (a.1 == 14 || a.1 == 15) && a.2 < 3) then .err else
          match nlriV4 (r2.length + 1) (r2.drop al) with
          | none => .err
          | some anns =>
            if attrs.any (fun a => a.1 == 14 || a.1 == 15) then .okMp
            else .ok (anns.length + (wds.filter (fun w => !anns.contains w)).length)
      | _ => .err
  | _ => .err

-- ------------------------------------------------------------------ BgpMsg::from_octets

inductive Msg
  | open | update (r : UpdRes) | notification | keepalive
  deriving DecidableEq, Repr

/-- `none` = `ParseError` (the frame is not consumed, `tick` returns `Err`). `frame.length ≥ 18` by `parseFrame`. -/
def fromOctets (v : Variant) (frame : Bytes) : Option Msg :=
  if (frame.take 16).all (· == 255) && 19 ≤ frame.length then
    match frame.getD 18 0 with
    | 1 => if openCheck v frame then some .open else none
    | 2 => match updateParse frame with
      | .err => none
      | r => some (.update r)
    | 3 => some .notification
    | 4 => if frame.length = 19 then some .keepalive else none
    | _ => none
  else none

-- ------------------------------------------------------------------ Session::handle_msg + Processor::process

/-- Result of handling one complete frame. -/
inductive Step
  | cont (s : Sess) (evs : List Ev)
  | stop (evs : List Ev) (why : Stop) (s : Sess)
  deriving DecidableEq, Repr

def be32 (l : Bytes) : Nat := l.foldl (fun a b => a * 256 + b) 0

/-- `OpenMessage::my_asn` -/
def myAsn (v : Variant) (frame : Bytes) : Except Site Nat :=
  match find65 (capTrace v (frame.length + 1) (openParams frame)) with
  | .panic s => .error s
  | .value val => if val.length = 4 then .ok (be32 val) else (if v.asn4 then .ok (be16 (frame.getD 20 0) (frame.getD 21 0)) else .error .asn4)
  | .none => .ok (be16 (frame.getD 20 0) (frame.getD 21 0))

/-- `addpath_families_vec`: `Except.error` = panic, `ok false` = `Err` (ParseError), `ok true` = fine. -/
def addpathOk (v : Variant) (frame : Bytes) : Except Site Bool :=
  let tr := capTrace v (frame.length + 1) (openParams frame)
  match firstPanic tr with
  | some s => .error s
  | none => .ok (tr.all fun
      | .cap 69 val => val.length % 4 == 0 && ((List.range (val.length / 4)).all fun i => let d := val.getD (4 * i + 3) 0; 1 ≤ d && d ≤ 3)
      | _ => true)

/-- OPEN in Active (delay-open timer running: `withOpen = true`, our OPEN is sent now) or OpenSent. -/
def acceptOpen (v : Variant) (cfg : Cfg) (s : Sess) (frame : Bytes) (withOpen : Bool) : Step :=
  match myAsn v frame with
  | .error site => .stop [] (.panic site) s
  | .ok asn =>
    if (match cfg.allowed with | none => true | some a => a == asn) then
      match addpathOk v frame with
      | .error site => .stop [] (.panic site) s
      | .ok false => .stop [] .tickErr s
      | .ok true =>
        .cont { fsm := .openConfirm, negotiated := true, inLive := true }
          ((if withOpen then [Ev.txOpen] else []) ++ [Ev.txKeepalive])
    else .stop [.txNotif 2 2] .tickErr s

def handleMsg (v : Variant) (cfg : Cfg) (s : Sess) (frame : Bytes) : Msg → Step
  | .open =>
    -- handle_msg: debug!("got OPEN from {}, generating event", m.my_asn())
    match (if cfg.debug then myAsn v frame else .ok 0) with
    | .error site => .stop [] (.panic site) s
    | .ok _ =>
      match s.fsm with
      | .active => acceptOpen v cfg s frame true
      | .openSent => acceptOpen v cfg s frame false
      | .openConfirm =>
        if v.fsmopen then .stop [.txNotif 5 2] .fsmDropped s else .stop [] (.panic .fsmOpenConfirm) s
      | .established =>
        if v.fsmopen then .stop [.txNotif 5 3] .fsmDropped s else .stop [] (.panic .fsmEstablished) s
      | .idle => .cont s []
  | .keepalive =>
    match s.fsm with
    | .active => .cont { s with fsm := .idle } []
    | .openSent => .stop [.txNotif 5 1] .fsmDropped s
    | .openConfirm => .cont { s with fsm := .established } []
    | .established => .cont s []
    | .idle => .cont s []
  | .update r =>
    match s.fsm with
    | .active | .idle => .stop [] .procBreak s
    | .openSent => .stop [.txNotif 5 1] .fsmDropped s
    | .openConfirm => .stop [.txNotif 5 2] .fsmDropped s
    | .established =>
      match r with
      | .ok n => .cont s [.bulk n]
      | .okMp => .cont s [.bulkMp]
      | .err => .cont s []
  | .notification =>
    -- no FSM event in any state; the processor logs `pdu.details()` at Debug level
    if cfg.debug && frame.length < 21 && !v.notiflog then .stop [] (.panic .notifDetails) s else .cont s []

-- ------------------------------------------------------------------ Connection::parse_frame / read_frame

inductive Frame
  /-- fewer bytes buffered than needed: read more (at end of input: `lost` if the buffer is empty, else `Err`) -/
  | needMore
  | frame (f rest : Bytes)
  | panic
  /-- release builds, length < 18: the subtraction wraps, the condition never holds again -/
  | stall
  /-- repaired: a declared length outside 19..=4096 is a framing error (RFC 4271 4.1) -/
  | bad
  deriving DecidableEq, Repr

/-- the length field of the header at the front of the buffer -/
def declLen (buf : Bytes) : Nat := be16 (buf.getD 16 0) (buf.getD 17 0)

def parseFrame (v : Variant) (buf : Bytes) : Frame :=
  if buf.length < 18 then .needMore
  else if v.frame && (declLen buf < 19 || 4096 < declLen buf) then .bad
  else if declLen buf < 18 then (if v.checked then .panic else .stall)
  else if buf.length < declLen buf then .needMore
  else .frame (buf.take (declLen buf)) (buf.drop (declLen buf))

/-- The connection: frames until the buffered stream is exhausted, then end of input. `fuel` bounds the number of
frames (every frame consumes at least 18 bytes: `buf.length + 1` always suffices, see `Props`). -/
def loop (v : Variant) (cfg : Cfg) : Nat → Sess → Bytes → List Ev × Stop × Sess
  | 0, s, _ => ([], .tickErr, s)
  | fuel + 1, s, buf =>
    match parseFrame v buf with
    | .needMore => ([], if buf.isEmpty then .lost else .tickErr, s)
    | .panic => ([], .panic .frameLen, s)
    | .stall => ([.stalled buf.length], .tickErr, s)
    | .bad => ([], .tickErr, s)
    | .frame f rest =>
      match fromOctets v f with
      | none => ([], .tickErr, s)
      | some m =>
        match handleMsg v cfg s f m with
        | .stop evs why s' => (evs, why, s')
        | .cont s' evs => let r := loop v cfg fuel s' rest; (evs ++ r.1, r.2.1, r.2.2)

/-- Final observation of one connection. -/
structure Result where
  evs : List Ev
  stop : Stop
  /-- the connection's key is still in `live_sessions` after the task has gone -/
  live : Bool
  deriving DecidableEq, Repr

def Stop.isPanic : Stop → Bool
  | .panic _ => true
  | _ => false

/-- `Processor::process` around the loop: the epilogue (`live_sessions.remove`, `Update::Withdraw`) runs whenever
the loop is left, i.e. unless the task panicked. -/
def run (v : Variant) (cfg : Cfg) (s0 : Sess) (stream : Bytes) : Result :=
  let r := loop v cfg (stream.length + 1) s0 stream
  let s := r.2.2
  if r.2.1.isPanic then { evs := r.1, stop := r.2.1, live := s.inLive }
  else { evs := r.1 ++ (if s.negotiated then [Ev.withdraw] else []), stop := r.2.1, live := false }

/-- The session states a test can start from (reached with well-formed bytes). -/
def Sess.start : Fsm → Sess
  | .openConfirm => { fsm := .openConfirm, negotiated := true, inLive := true }
  | .established => { fsm := .established, negotiated := true, inLive := true }
  | f => { fsm := f, negotiated := false, inLive := false }

end Rotonda.BgpBytes
