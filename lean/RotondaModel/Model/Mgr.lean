/-
Model of configuration (re)loading (C13), import-free.

Transliterated from
* `src/config.rs`   `ConfigFile::new` = `expand_shorthand_vribs` + `remap_sources`
                    (`unreachable!()` on a `source`/`sources` value that is neither a string nor
                    an array of strings is a panic *value* here)
* `src/manager.rs`  the thread-local `GATES` filled by `load_link` while serde deserialises
                    `sources`, `Manager::load`, `Manager::prepare` (drain `GATES`; first unresolved
                    link ⇒ `Err` *after* earlier gates were moved to `pending_gates`),
                    `Manager::spawn_internal` (diff of the new config against the running units and
                    targets by name + type discriminant).

Names are `Nat`s (interned by the harness).  Unit types: 0 bmp-tcp-in, 1 bgp-tcp-in,
2 mrt-file-in, 3 filter, 4 rib.  Target types: 0 null-out, 1 file-out, 2 mqtt-out.
`HashMap` iteration order is not modelled: action lists and running sets are compared as sorted
sets; where the code's outcome depends on it (which gates a *failing* `prepare` had already moved,
which links a *failing* deserialisation had already created) the observed subset is an input.
-/
namespace Rotonda.Mgr

abbrev Name := Nat
abbrev Ty := Nat

/-! ### The TOML document, reduced to what `ConfigFile::new` and the loader look at -/

/-- A TOML value where a unit name is expected. -/
inductive V where
  | s (n : Name)     -- a string
  | bad              -- anything else (integer, table, …)
  deriving DecidableEq, Repr

/-- The `sources` key of a component. -/
inductive Srcs where
  | absent
  | one (v : V)            -- `sources = <value>`
  | many (vs : List V)     -- `sources = [ … ]`
  deriving DecidableEq, Repr

structure RawComp where
  name : Name
  ty : Option Ty           -- `none`: missing / unknown `type` (serde rejects the document)
  sources : Srcs
  source : Option V        -- the singular key `source` (alias accepted by null-out)
  filters : Nat            -- rib only: length of a `filter_names` array (0 = key absent)
  upstream : Option Name   -- `vrib_upstream` (only ever set by the expansion)
  deriving DecidableEq, Repr

structure RawDoc where
  units : List RawComp
  targets : List RawComp
  deriving DecidableEq, Repr

/-- Name of the `k`-th generated virtual RIB of unit `n` (`"{n}-vRIB-{k}"`); the harness keeps
    user-chosen names below 100 so that they never collide with generated ones. -/
def vribName (n : Name) (k : Nat) : Name := 100 + n * 10 + k

def V.wellTyped : V → Bool
  | .s _ => true
  | .bad => false

/-- `remap_sources` reaches `unreachable!()` for this component. -/
def RawComp.malformed (c : RawComp) : Bool :=
  (match c.source with | some v => !v.wellTyped | none => false) ||
  (match c.sources with
   | .absent => false
   | .one v => !v.wellTyped
   | .many vs => vs.any (fun v => !v.wellTyped))

def isShorthand (c : RawComp) : Bool := c.ty == some 4 && decide (2 ≤ c.filters)

/-- `source_remappings`: shorthand unit ↦ its last generated vRIB. -/
def remapOf (units : List RawComp) (n : Name) : Name :=
  match units.find? (fun c => isShorthand c && c.name == n) with
  | some c => vribName n (c.filters - 2)
  | none => n

def V.remap (f : Name → Name) : V → V
  | .s n => .s (f n)
  | .bad => .bad

def Srcs.remap (f : Name → Name) : Srcs → Srcs
  | .absent => .absent
  | .one v => .one (v.remap f)
  | .many vs => .many (vs.map (V.remap f))

def RawComp.remap (f : Name → Name) (c : RawComp) : RawComp :=
  { c with sources := c.sources.remap f, source := c.source.map (V.remap f) }

/-- The `k`-th generated vRIB of shorthand unit `c` (`k < c.filters - 1`). -/
def vribOf (c : RawComp) (k : Nat) : RawComp :=
  { name := vribName c.name k, ty := some 4,
    sources := .many [.s (if k = 0 then c.name else vribName c.name (k - 1))],
    source := c.source, filters := 0, upstream := some c.name }

inductive Outcome (α : Type) where
  | ok (a : α)
  | panic
  deriving Repr

/-- `ConfigFile::new`. `unreach = true`: code as written (`unreachable!()`); `false`: repaired
    (`remap_sources` leaves values it does not understand alone, serde rejects them later). -/
def preprocess (unreach : Bool) (d : RawDoc) : Outcome RawDoc :=
  if unreach && (d.units.any RawComp.malformed || d.targets.any RawComp.malformed) then .panic
  else
    let f := remapOf d.units
    let units := d.units.map (fun c => (c.remap f))
    let units := units.map (fun c => if isShorthand c then { c with filters := 1 } else c)
    let extra := (d.units.filter isShorthand).flatMap (fun c => (List.range (c.filters - 1)).map (vribOf c))
    .ok { units := units ++ extra, targets := d.targets.map (fun c => c.remap f) }

/-! ### Deserialisation: which components and links serde produces -/

structure Comp where
  name : Name
  ty : Ty
  links : List Name        -- every `Link`/`DirectLink` the component's config holds
  deriving DecidableEq, Repr

structure Cfg where
  units : List Comp
  targets : List Comp
  deriving DecidableEq, Repr

def names? (vs : List V) : Option (List Name) :=
  vs.mapM (fun v => match v with | .s n => some n | .bad => none)

/-- Links of a unit as serde reads them; `none` = the document is rejected. Source-less unit types
    ignore a `sources` key (unknown fields are not denied). -/
def unitLinks (c : RawComp) : Option (Ty × List Name) :=
  match c.ty with
  | none => none
  | some ty =>
    if ty ≤ 2 then some (ty, [])
    else if ty ≤ 4 then
      -- filter, rib: `sources: NonEmpty<DirectLink>` (a non-empty array of strings)
      match c.sources with
      | .many vs =>
        match names? vs with
        | some (n :: ns) => some (ty, (n :: ns) ++ (match c.upstream with | some u => [u] | none => []))
        | _ => none
      | _ => none
    else none

/-- Links of a target. null-out: one-or-many strings under `sources` or its alias `source` (both:
    duplicate field); file-out: exactly one string under `sources`; mqtt-out: a non-empty array
    under `sources`. A key a type does not read (`source` on file-out / mqtt-out) is ignored. -/
def targetLinks (c : RawComp) : Option (Ty × List Name) :=
  match c.ty with
  | none => none
  | some 0 =>
    (match c.sources, c.source with
     | .one (.s n), none => some (0, [n])
     | .many vs, none => (names? vs).map (fun ns => (0, ns))
     | .absent, some (.s n) => some (0, [n])
     | _, _ => none)
  | some 1 =>
    (match c.sources with
     | .one (.s n) => some (1, [n])
     | _ => none)
  | some 2 =>
    (match c.sources with
     | .many vs =>
       (match names? vs with
        | some (n :: ns) => some (2, n :: ns)
        | _ => none)
     | _ => none)
  | some _ => none

def deser (d : RawDoc) : Option Cfg := do
  let us ← d.units.mapM (fun c => (unitLinks c).map (fun tl => Comp.mk c.name tl.1 tl.2))
  let ts ← d.targets.mapM (fun c => (targetLinks c).map (fun tl => Comp.mk c.name tl.1 tl.2))
  some ⟨us, ts⟩

/-! ### Manager state and the load → prepare → spawn step -/

inductive Action where
  | spawnU (n : Name) (t : Ty) | reconfU (n : Name) | termU (n : Name)
  | spawnT (n : Name) (t : Ty) | reconfT (n : Name) | termT (n : Name)
  deriving DecidableEq, Repr

structure St where
  runU : List (Name × Ty)      -- `running_units` (name ↦ type discriminant)
  runT : List (Name × Ty)      -- `running_targets`
  pending : List Name          -- keys of `pending_gates`
  gates : List Name            -- keys of the thread-local `GATES`
  deriving DecidableEq, Repr

def St.init : St := ⟨[], [], [], []⟩

def union (a b : List Name) : List Name := b.foldl (fun acc x => if acc.contains x then acc else acc ++ [x]) a

def lookup (n : Name) : List (Name × Ty) → Option Ty
  | [] => none
  | e :: l => if e.1 = n then some e.2 else lookup n l

def Cfg.links (c : Cfg) : List Name := (c.units.flatMap Comp.links) ++ (c.targets.flatMap Comp.links)
def Cfg.unitNames (c : Cfg) : List Name := c.units.map Comp.name

/-- the targets loop of `spawn_internal` -/
def targetActions (runT : List (Name × Ty)) (ts : List Comp) : List Action :=
  ts.flatMap (fun t =>
    match lookup t.name runT with
    | some ty => if ty ≠ t.ty then [.termT t.name, .spawnT t.name t.ty] else [.reconfT t.name]
    | none => [.spawnT t.name t.ty])
  ++ (runT.filter (fun e => !(ts.map Comp.name).contains e.1)).map (fun e => .termT e.1)

/-- the units loop of `spawn_internal`: only units with a pending gate are started/reconfigured -/
def unitActions (runU : List (Name × Ty)) (pending : List Name) (us : List Comp) : List Action :=
  us.flatMap (fun u =>
    if pending.contains u.name then
      match lookup u.name runU with
      | some ty => if ty ≠ u.ty then [.termU u.name, .spawnU u.name u.ty] else [.reconfU u.name]
      | none => [.spawnU u.name u.ty]
    else
      match lookup u.name runU with
      | some _ => [.termU u.name]          -- "is unused and will be stopped"
      | none => [])                         -- "is unused and will not be started"
  ++ (runU.filter (fun e => !(us.map Comp.name).contains e.1)).map (fun e => .termU e.1)

inductive Result where
  | ok (acts : List Action)
  | err
  | panic
  deriving DecidableEq, Repr

/-- One (re)load.
    * `doc`      the document;
    * `roto`     the main roto script fails to compile (`prepare` returns before draining `GATES`);
    * `residue`  if serde rejects the document: the links it had created before the error;
    * `moved`    if `prepare` fails on an unresolved link: the gates it had moved before the error.
    `v.unreach`  the `unreachable!()` of `remap_sources`; `v.stale`: `GATES` / `pending_gates`
    survive a failed load (as written) vs `load` starts from empty `GATES` and `prepare` checks
    every link before it moves anything into a cleared `pending_gates` (repaired). -/
structure Variant where
  unreach : Bool
  stale : Bool
  deriving DecidableEq, Repr

def asWritten : Variant := ⟨true, true⟩
def repaired : Variant := ⟨false, false⟩

structure Load where
  notToml : Bool           -- the file is not TOML at all: `ConfigFile::new` returns `Err`
  doc : RawDoc
  roto : Bool
  residue : List Name
  moved : List Name
  deriving DecidableEq, Repr

/-- what `load` finds in `GATES` when it starts -/
def Variant.gates0 (v : Variant) (s : St) : List Name := if v.stale then s.gates else []
/-- what `prepare` finds in `pending_gates` when it starts moving gates -/
def Variant.pending0 (v : Variant) (s : St) : List Name := if v.stale then s.pending else []
/-- `pending_gates` after a `prepare` that failed on an unresolved link -/
def Variant.failPending (v : Variant) (s : St) (moved : List Name) : List Name :=
  if v.stale then union s.pending moved else []

def step (v : Variant) (s : St) (l : Load) : St × Result :=
  if l.notToml then (s, .err) else
  match preprocess v.unreach l.doc with
  | .panic => (s, .panic)
  | .ok doc =>
    match deser doc with
    | none => ({ s with gates := union (v.gates0 s) l.residue }, .err)
    | some cfg =>
      if l.roto then ({ s with gates := union (v.gates0 s) cfg.links }, .err)
      else
        -- `GATES` is drained here
        if (union (v.gates0 s) cfg.links).any (fun n => !cfg.unitNames.contains n) then
          ({ s with gates := [], pending := v.failPending s l.moved }, .err)
        else
          let pending := union (v.pending0 s) (union (v.gates0 s) cfg.links)
          ({ runU := (cfg.units.filter (fun u => pending.contains u.name)).map (fun u => (u.name, u.ty)),
             runT := cfg.targets.map (fun t => (t.name, t.ty)),
             pending := pending.filter (fun n => !cfg.unitNames.contains n),
             gates := [] },
           .ok (targetActions s.runT cfg.targets ++ unitActions s.runU pending cfg.units))

def run (v : Variant) : St → List Load → St × List Result
  | s, [] => (s, [])
  | s, l :: ls =>
    let r := step v s l
    let rest := run v r.1 ls
    (rest.1, r.2 :: rest.2)

end Rotonda.Mgr
