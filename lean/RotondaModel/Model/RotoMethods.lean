/-!
# RotoMethods — what the roto-callable methods of `create_runtime` return and write

Import-free executable model of the methods of `src/roto_runtime/runtime.rs` that C10's
generated grammar never calls (C10 / Model/Roto.lean covers the predicates):

* on a BGP UPDATE (`BgpMsg`), a BMP message (`BmpMsg`) and a route (`Route`, rib-in-pre):
  `announcements_count`, `withdrawals_count`, `fmt_aspath`, `fmt_aspath_origin`,
  `fmt_communities`, `fmt_large_communities`, `contains_large_community`
  (+ `aspath_contains` / `match_aspath_origin` over *all* AS_PATH segment kinds), `Asn.fmt`;
* the `Log` / `LogEntry` methods: `entry`, `custom`, `origin_as`, `peer_as`, `as_path_hops`,
  `conventional_reach`, `conventional_unreach`, `mp_reach`, `mp_unreach`, `log_all`,
  `write_entry`, `log_custom`, on the `OutputStream { msgs, entry }` of `roto_runtime/types.rs`.

The UPDATE is structured data (`Upd`): AS_PATH as wire segments (AS_SET, AS_SEQUENCE,
AS_CONFED_SEQUENCE, AS_CONFED_SET), standard / large / extended communities, conventional and
MP NLRI. The AS width (2 or 4 octets, as negotiated / as flagged in the per-peer header) only
decides how the segments are encoded; since `session_config_for` parses a RouteMonitoring PDU
with the width of its per-peer header, every method sees the segments as structured here.

Transliterated from routecore 0.5.1: `AsPath::hops` (every ASN of an AS_SEQUENCE is one hop,
an empty AS_SEQUENCE and every other segment is one `Hop::Segment`), `AsPath::origin` (last
hop), `is_single_sequence`, `Display` of `AsPath` / `Segment` / `Asn` / `StandardCommunity` /
`Wellknown` / `LargeCommunity`, `HopPath::to_as_path` (runs of ASN hops recomposed into
AS_SEQUENCE segments of at most 255, the *first* one taking `len % 255`),
`UpdateMessage::announcements` / `withdrawals` (MP part first, then conventional).
-/
namespace Rotonda.RotoMethods

/-! ## Structured UPDATE -/

inductive SegKind where
  | set | seq | confSeq | confSet
  deriving DecidableEq, Repr

structure Seg where
  kind : SegKind
  asns : List Nat
  deriving DecidableEq, Repr

/-- routecore `Hop`: an ASN out of an AS_SEQUENCE, or a whole segment -/
inductive Hop where
  | asn (a : Nat)
  | seg (s : Seg)
  deriving DecidableEq, Repr

/-- MP_REACH_NLRI / MP_UNREACH_NLRI: family (0 = IPv4 unicast, 1 = IPv4 multicast,
    2 = IPv6 unicast, 3 = IPv6 multicast) and its NLRI -/
structure Mp where
  fam : Nat
  nlri : List Nat
  deriving DecidableEq, Repr

structure Large where
  global : Nat
  l1 : Nat
  l2 : Nat
  deriving DecidableEq, Repr

structure Upd where
  /-- `none`: no AS_PATH attribute; `some []`: an empty one -/
  aspath : Option (List Seg)
  /-- COMMUNITIES (RFC 1997), raw u32 values -/
  comms : Option (List Nat)
  /-- LARGE_COMMUNITIES (RFC 8092) -/
  lcomms : Option (List Large)
  /-- number of EXTENDED_COMMUNITIES present (no method reads them) -/
  ecomms : Nat
  /-- conventional NLRI / withdrawn routes (IPv4 unicast) -/
  reach : List Nat
  unreach : List Nat
  mpReach : Option Mp
  mpUnreach : Option Mp
  deriving DecidableEq, Repr

def Upd.empty : Upd := ⟨none, none, none, 0, [], [], none, none⟩

/-! ## AS_PATH -/

/-- `PathHops::next` for one segment -/
def segHops (s : Seg) : List Hop :=
  match s.kind, s.asns with
  | .seq, a :: r => (a :: r).map Hop.asn
  | _, _ => [Hop.seg s]

/-- `AsPath::hops` -/
def hops (p : List Seg) : List Hop := p.flatMap segHops

/-- `AsPath::origin` -/
def origin (p : List Seg) : Option Hop := (hops p).getLast?

/-- `aspath_contains`: some hop equals `Hop::Asn(a)` -/
def aspathContains (u : Upd) (a : Nat) : Bool :=
  match u.aspath with
  | some p => (hops p).any (· == Hop.asn a)
  | none => false

/-- `match_aspath_origin` -/
def matchOrigin (u : Upd) (a : Nat) : Bool :=
  match u.aspath with
  | some p => origin p == some (Hop.asn a)
  | none => false

/-- `hops().count()` -/
def hopCount (p : List Seg) : Nat := (hops p).length

/-- origin as an ASN (`try_into_asn().ok()`) -/
def originAsn (p : List Seg) : Option Nat :=
  match origin p with
  | some (.asn a) => some a
  | _ => none

/-- `AsPath::is_single_sequence`: the octets are exactly one AS_SEQUENCE segment -/
def isSingleSeq : List Seg → Option (List Nat)
  | [⟨.seq, l⟩] => some l
  | _ => none

/-! ### formatting, structured first, then rendered -/

/-- what `_fmt_aspath` prints: the bare numbers of a single AS_SEQUENCE, or routecore's `Display`
    of the segments -/
inductive AspOut where
  | plain (asns : List Nat)
  | segs (l : List Seg)
  deriving DecidableEq, Repr

def fmtAspathS (p : List Seg) : AspOut :=
  match isSingleSeq p with
  | some l => .plain l
  | none => .segs p

def kindName : SegKind → String
  | .set => "AS_SET"
  | .seq => "AS_SEQUENCE"
  | .confSeq => "AS_CONFED_SEQUENCE"
  | .confSet => "AS_CONFED_SET"

def showAsn (a : Nat) : String := "AS" ++ toString a

def showSeg (s : Seg) : String :=
  kindName s.kind ++ "(" ++ ", ".intercalate (s.asns.map showAsn) ++ ")"

def AspOut.render : AspOut → String
  | .plain l => " ".intercalate (l.map toString)
  | .segs l => ", ".intercalate (l.map showSeg)

/-- `fmt_aspath` of an UPDATE -/
def fmtAspath (u : Upd) : String :=
  match u.aspath with
  | some p => (fmtAspathS p).render
  | none => ""

/-- `fmt_aspath_origin` -/
def fmtOriginP (p : List Seg) : String :=
  match originAsn p with
  | some a => showAsn a
  | none => ""

def fmtOrigin (u : Upd) : String :=
  match u.aspath with
  | some p => fmtOriginP p
  | none => ""

/-! ### the route's HopPath (`rr_*`): hops recomposed into an AsPath -/

/-- leading run of ASN hops -/
def spanAsn : List Hop → List Nat × List Hop
  | .asn a :: r => ((spanAsn r).1 |> (a :: ·), (spanAsn r).2)
  | r => ([], r)

theorem spanAsn_len (l : List Hop) : (spanAsn l).2.length ≤ l.length := by
  induction l with
  | nil => simp [spanAsn]
  | cons h t ih => cases h <;> simp [spanAsn] <;> omega

/-- chunks of `n` (`slice::chunks`) -/
def chunksOf (n : Nat) (l : List Nat) : List (List Nat) :=
  if _h : l = [] ∨ n = 0 then [] else l.take n :: chunksOf n (l.drop n)
termination_by l.length
decreasing_by
  have h1 : l ≠ [] := fun e => _h (Or.inl e)
  have h2 : n ≠ 0 := fun e => _h (Or.inr e)
  have : 0 < l.length := List.length_pos_iff.mpr h1
  simp only [List.length_drop]; omega

/-- `compose_as_path` for one run of ASN hops: first `len % 255`, then chunks of 255 -/
def seqChunks (l : List Nat) : List (List Nat) :=
  let h := l.length % 255
  (if h = 0 then [] else [l.take h]) ++ chunksOf 255 (l.drop h)

/-- `HopPath::to_as_path` -/
def recompose (l : List Hop) : List Seg :=
  match l with
  | [] => []
  | .seg s :: r => s :: recompose r
  | .asn a :: r =>
    (seqChunks (a :: (spanAsn r).1)).map (⟨.seq, ·⟩) ++ recompose (spanAsn r).2
termination_by l.length
decreasing_by
  · simp
  · have := spanAsn_len r; simp; omega

/-- the AS_PATH a route's methods see -/
def routePath (p : List Seg) : List Seg := recompose (hops p)

/-! ## Communities -/

/-- routecore's `wellknown!` table: value and the first (printed) name -/
def wellknownTable : List (Nat × String) := [
  (0xFFFF0000, "GRACEFUL_SHUTDOWN"), (0xFFFF0001, "ACCEPT_OWN"), (0xFFFF0002, "ROUTE_FILTER_TRANSLATED_v4"),
  (0xFFFF0003, "ROUTE_FILTER_v4"), (0xFFFF0004, "ROUTE_FILTER_TRANSLATED_v6"), (0xFFFF0005, "ROUTE_FILTER_v6"),
  (0xFFFF0006, "LLGR_STALE"), (0xFFFF0007, "NO_LLGR"), (0xFFFF0008, "accept-own-nexthop"),
  (0xFFFF0009, "Standby PE"), (0xFFFFFF01, "NO_EXPORT"), (0xFFFFFF02, "NO_ADVERTISE"),
  (0xFFFFFF03, "NO_EXPORT_SUBCONFED"), (0xFFFFFF04, "NOPEER"), (0xFFFF029A, "BLACKHOLE")]

/-- `Wellknown` `Display` (first name of the macro table) -/
def wellknownName (c : Nat) : Option String := (wellknownTable.find? (·.1 == c)).map (·.2)

/-- reading a printed well-known name back -/
def wellknownValue (n : String) : Option Nat := (wellknownTable.find? (·.2 == n)).map (·.1)

def hexDigit (n : Nat) : Char :=
  if n < 10 then Char.ofNat (48 + n) else Char.ofNat (55 + n)

def hex4 (n : Nat) : String :=
  String.ofList [hexDigit (n / 4096 % 16), hexDigit (n / 256 % 16), hexDigit (n / 16 % 16), hexDigit (n % 16)]

/-- structured form of one printed standard community -/
inductive CommOut where
  | named (name : String)
  | unrec (low : Nat)
  | pair (asn tag : Nat)
  deriving DecidableEq, Repr

/-- `StandardCommunity` `Display` -/
def fmtCommS (c : Nat) : CommOut :=
  if c / 65536 = 65535 then
    match wellknownName c with
    | some n => .named n
    | none => .unrec (c % 65536)
  else .pair (c / 65536) (c % 65536)

def CommOut.render : CommOut → String
  | .named n => n
  | .unrec l => "0xFFFF" ++ hex4 l
  | .pair a t => showAsn a ++ ":" ++ toString t

def fmtComm (c : Nat) : String := (fmtCommS c).render

/-- `fmt_communities` -/
def fmtCommunities (u : Upd) : String :=
  match u.comms with
  | some l => ", ".intercalate (l.map fmtComm)
  | none => ""

def fmtLarge (c : Large) : String := s!"{c.global}:{c.l1}:{c.l2}"

/-- `fmt_large_communities` -/
def fmtLargeCommunities (u : Upd) : String :=
  match u.lcomms with
  | some l => ", ".intercalate (l.map fmtLarge)
  | none => ""

/-- `contains_large_community` -/
def containsLarge (u : Upd) (c : Large) : Bool :=
  match u.lcomms with
  | some l => l.any (· == c)
  | none => false

/-! ## NLRI counts -/

def u32Max : Nat := 4294967295

def mpNlri : Option Mp → List Nat
  | some m => m.nlri
  | none => []

/-- `UpdateMessage::announcements`: MP_REACH first, then conventional -/
def announcements (u : Upd) : List Nat := mpNlri u.mpReach ++ u.reach

def withdrawals (u : Upd) : List Nat := mpNlri u.mpUnreach ++ u.unreach

/-- `iter.count().try_into().unwrap_or(u32::MAX)` -/
def sat32 (n : Nat) : Nat := if n ≤ u32Max then n else u32Max

def announcementsCount (u : Upd) : Nat := sat32 (announcements u).length

def withdrawalsCount (u : Upd) : Nat := sat32 (withdrawals u).length

/-! ## The three receivers -/

inductive BmpKind where
  | initiation | peerUp | peerDown | routeMon | stats | termination
  deriving DecidableEq, Repr

/-- a BMP message as the methods see it; `upd = none` on a RouteMonitoring means its PDU does not
    parse as an UPDATE -/
structure Bmp where
  kind : BmpKind
  /-- ASN of the per-peer header (meaningless for initiation / termination) -/
  pphAsn : Nat
  upd : Option Upd
  deriving DecidableEq, Repr

/-- the UPDATE a `BmpMsg` method works on: only a RouteMonitoring whose PDU parses has one -/
def Bmp.view (m : Bmp) : Option Upd :=
  match m.kind with
  | .routeMon => m.upd
  | _ => none

/-- a route as rib-in-pre sees it: `attrs = none` for a withdrawal (empty attribute map) -/
structure Route where
  attrs : Option Upd
  deriving DecidableEq, Repr

/-- the attribute view of a route: same communities, AS_PATH recomposed from the HopPath -/
def Route.view (r : Route) : Option Upd :=
  r.attrs.map fun u => { u with aspath := u.aspath.map routePath }

/-- everything the probe scripts observe on one receiver -/
structure Obs where
  annCount : Nat
  wdrCount : Nat
  aspath : String
  origin : String
  comms : String
  lcomms : String
  hasLarge : Bool
  hasAsn : Bool
  originIs : Bool
  deriving DecidableEq, Repr

/-- the neutral answer of every method (`0` / `""` / `false`) -/
def Obs.neutral : Obs := ⟨0, 0, "", "", "", "", false, false, false⟩

def obsUpd (u : Upd) (qLarge : Large) (qAsn : Nat) : Obs :=
  { annCount := announcementsCount u, wdrCount := withdrawalsCount u,
    aspath := fmtAspath u, origin := fmtOrigin u, comms := fmtCommunities u,
    lcomms := fmtLargeCommunities u, hasLarge := containsLarge u qLarge,
    hasAsn := aspathContains u qAsn, originIs := matchOrigin u qAsn }

/-- `BgpMsg` methods -/
def obsBgp (u : Upd) (qLarge : Large) (qAsn : Nat) : Obs := obsUpd u qLarge qAsn

/-- `BmpMsg` methods -/
def obsBmp (m : Bmp) (qLarge : Large) (qAsn : Nat) : Obs :=
  match m.view with
  | some u => obsUpd u qLarge qAsn
  | none => Obs.neutral

/-- `Route` methods (no count methods are registered on `Route`: reported as 0) -/
def obsRoute (r : Route) (qLarge : Large) (qAsn : Nat) : Obs :=
  match r.view with
  | some u => { obsUpd u qLarge qAsn with annCount := 0, wdrCount := 0 }
  | none => Obs.neutral

/-! ## `Log` / `LogEntry` -/

/-- `LogEntry`; `ts = true`: a wall-clock timestamp (set by `LogEntry::new()`), `false`: the
    `Default` value 1970-01-01T00:00:00Z -/
structure Entry where
  ts : Bool
  originAs : Option Nat
  peerAs : Option Nat
  asPathHops : Option Nat
  convReach : Nat
  convUnreach : Nat
  mpReach : Option Nat
  mpReachFam : Option Nat
  mpUnreach : Option Nat
  mpUnreachFam : Option Nat
  custom : Option String
  deriving DecidableEq, Repr

/-- `LogEntry::default()` -/
def Entry.default : Entry := ⟨false, none, none, none, 0, 0, none, none, none, none, none⟩

/-- `LogEntry::new()` -/
def Entry.new : Entry := { Entry.default with ts := true }

/-- `Output` (the two variants these methods push) -/
inductive Out where
  | custom (id val : Nat)
  | entry (e : Entry)
  deriving DecidableEq, Repr

/-- `OutputStream<Output>` -/
structure Stream where
  msgs : List Out
  entry : Entry
  deriving DecidableEq, Repr

/-- `RotoOutputStream::new()` -/
def Stream.new : Stream := ⟨[], Entry.new⟩

/-- one method call of a script on `output` / `output.entry()` -/
inductive Op where
  | custom (s : String)
  | originAs | peerAs | asPathHops | convReach | convUnreach | mpReach | mpUnreach | logAll
  | writeEntry
  | logCustom (id val : Nat)
  deriving DecidableEq, Repr

/-- `take_entry` variant: `false` = as written (`std::mem::take`, the next entry is
    `LogEntry::default()`), `true` = repaired (the next entry is `LogEntry::new()`) -/
structure Variant where
  freshTs : Bool
  /-- rib-in-pre output stream: `false` = as written (one `RotoOutputStream` for all payloads of an
      `Update`, rib_unit/unit.rs:788), `true` = repaired (a new one per payload, as bgp-in and
      bmp-in make one per message) -/
  perRoute : Bool
  /-- bgp-in / bmp-in output stream: `true` = one `RotoOutputStream` per received message (the code
      as written: created inside the UPDATE arm of `Processor::process`, inside
      `RouterHandler::process_msg`), `false` = one for the whole session (a regression: the entry
      under construction would survive from one message to the next) -/
  perMsg : Bool := true
  deriving DecidableEq, Repr

def Variant.asWritten : Variant := ⟨false, false, true⟩
def Variant.repaired : Variant := ⟨true, true, true⟩

def setMpReach (e : Entry) (u : Upd) : Entry :=
  match u.mpReach with
  | some m => { e with mpReachFam := some m.fam, mpReach := some m.nlri.length }
  | none => e

def setMpUnreach (e : Entry) (u : Upd) : Entry :=
  match u.mpUnreach with
  | some m => { e with mpUnreachFam := some m.fam, mpUnreach := some m.nlri.length }
  | none => e

/-- the `LogEntry` setters on a `BmpMsg` (runtime.rs:719-903) -/
def setter (m : Bmp) (o : Op) (e : Entry) : Entry :=
  match o with
  | .custom s => { e with custom := some s }
  | .originAs =>
    match m.view with
    | some u =>
      match u.aspath.bind originAsn with
      | some a => { e with originAs := some a }
      | none => e
    | none => e
  | .peerAs =>
    match m.kind with
    | .routeMon => { e with peerAs := some m.pphAsn }
    | _ => e
  | .asPathHops =>
    match m.view with
    | some u => { e with asPathHops := u.aspath.map hopCount }
    | none => e
  | .convReach =>
    match m.view with
    | some u => { e with convReach := u.reach.length }
    | none => e
  | .convUnreach =>
    match m.view with
    | some u => { e with convUnreach := u.unreach.length }
    | none => e
  | .mpReach =>
    match m.view with
    | some u => setMpReach e u
    | none => e
  | .mpUnreach =>
    match m.view with
    | some u => setMpUnreach e u
    | none => e
  | .logAll =>
    match m.kind with
    | .routeMon =>
      let e := { e with peerAs := some m.pphAsn }
      match m.view with
      | some u =>
        let e := match u.aspath with
          | some p => { e with asPathHops := some (hopCount p), originAs := originAsn p }
          | none => e
        let e := { e with convReach := u.reach.length, convUnreach := u.unreach.length }
        setMpUnreach (setMpReach e u) u
      | none => e
    | _ => e
  | .writeEntry => e
  | .logCustom _ _ => e

/-- one call on the stream -/
def step (v : Variant) (m : Bmp) (s : Stream) (o : Op) : Stream :=
  match o with
  | .writeEntry =>
    { msgs := s.msgs ++ [Out.entry s.entry],
      entry := if v.freshTs then Entry.new else Entry.default }
  | .logCustom a b => { s with msgs := s.msgs ++ [Out.custom a b] }
  | o => { s with entry := setter m o s.entry }

def run (v : Variant) (m : Bmp) (ops : List Op) (s : Stream) : Stream :=
  ops.foldl (step v m) s

/-- what one call of a filter leaves on a fresh stream (bgp-in, bmp-in: one stream per message) -/
def runFresh (v : Variant) (m : Bmp) (ops : List Op) : List Out := (run v m ops Stream.new).msgs

/-- a non-BMP receiver (bgp-in, rib-in-pre): only `custom`, `write_entry`, `log_custom` type-check;
    modelled as a message without an UPDATE view -/
def noBmp : Bmp := ⟨.initiation, 0, none⟩

/-- rib-in-pre: ONE stream for all payloads of an `Update` (rib_unit/unit.rs:788), drained after
    every payload; the entry under construction survives from one route to the next -/
def runRoutes (v : Variant) (scripts : List (List Op)) : List (List Out) :=
  if v.perRoute then scripts.map (runFresh v noBmp) else
  (scripts.foldl (fun (acc : Stream × List (List Out)) ops =>
      let s := run v noBmp ops acc.1
      ({ s with msgs := [] }, acc.2 ++ [s.msgs])) (Stream.new, [])).2


/-! ## Sessions: the per-message filter points over a whole session

`Processor::process` (bgp-in) and `RouterHandler::read_from_router` → `process_msg` (bmp-in) loop
over the messages of a session; every iteration creates its stream, calls the filter, drains. -/

/-- the loop, with the stream either created per iteration or hoisted out of it -/
def runMsgs (v : Variant) (calls : List (Bmp × List Op)) : List (List Out) :=
  (calls.foldl (fun (acc : Stream × List (List Out)) c =>
      let s := run v c.1 c.2 (if v.perMsg then Stream.new else acc.1)
      ({ s with msgs := [] }, acc.2 ++ [s.msgs])) (Stream.new, [])).2

/-- the session scripts: `if m.aspath_contains(tag) { a } else { b }` -/
def branch (tag : Nat) (a b : List Op) (m : Bmp) : List Op :=
  if (match m.view with | some u => aspathContains u tag | none => false) then a else b

def runSession (v : Variant) (tag : Nat) (a b : List Op) (msgs : List Bmp) : List (List Out) :=
  runMsgs v (msgs.map fun m => (m, branch tag a b m))

/-- a BGP UPDATE as a message of a bgp-in session -/
def bgpMsg (u : Upd) : Bmp := ⟨.routeMon, 0, some u⟩

/-! ## The registered method table

`receiver.method/arity` (arity counts the receiver) in registration order, as `create_runtime`
hands it to roto (`Runtime::functions`, roto's own basic methods left out). The engine prints the
real table; a method added, removed, renamed or moved to another receiver changes the line. -/
def registry : List String := [
  "-.Community/1", "Provenance.peer_asn/1", "Asn.fmt/1", "Route.prefix_matches/2", "Route.aspath_contains/2",
  "Route.match_aspath_origin/2", "Route.contains_community/2", "Route.contains_large_community/2",
  "Route.has_attribute/2", "Route.fmt_aspath/1", "Route.fmt_aspath_origin/1", "Route.fmt_communities/1",
  "Route.fmt_large_communities/1", "BgpMsg.aspath_contains/2", "BgpMsg.match_aspath_origin/2",
  "BgpMsg.contains_community/2", "BgpMsg.contains_large_community/2", "BgpMsg.has_attribute/2",
  "BgpMsg.announcements_count/1", "BgpMsg.withdrawals_count/1", "BgpMsg.fmt_aspath/1", "BgpMsg.fmt_aspath_origin/1",
  "BgpMsg.fmt_communities/1", "BgpMsg.fmt_large_communities/1", "BgpMsg.fmt_pcap/1", "BmpMsg.is_ibgp/2",
  "BmpMsg.is_route_monitoring/1", "BmpMsg.is_peer_down/1", "BmpMsg.aspath_contains/2", "BmpMsg.match_aspath_origin/2",
  "BmpMsg.contains_community/2", "BmpMsg.contains_large_community/2", "BmpMsg.has_attribute/2",
  "BmpMsg.announcements_count/1", "BmpMsg.withdrawals_count/1", "BmpMsg.fmt_aspath/1", "BmpMsg.fmt_aspath_origin/1",
  "BmpMsg.fmt_communities/1", "BmpMsg.fmt_large_communities/1", "BmpMsg.fmt_pcap/1", "Log.log_prefix/2",
  "Log.log_matched_asn/2", "Log.log_matched_origin/2", "Log.log_matched_community/2", "Log.log_peer_down/1",
  "Log.log_custom/3", "Log.print/2", "Log.entry/1", "LogEntryPtr.custom/2", "LogEntryPtr.origin_as/2",
  "LogEntryPtr.peer_as/2", "LogEntryPtr.as_path_hops/2", "LogEntryPtr.conventional_reach/2",
  "LogEntryPtr.conventional_unreach/2", "LogEntryPtr.mp_reach/2", "LogEntryPtr.mp_unreach/2",
  "LogEntryPtr.log_all/2", "Log.write_entry/1"]

end Rotonda.RotoMethods
