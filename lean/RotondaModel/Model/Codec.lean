/-
Reference BGP UPDATE codec and route-event derivation (property C04).
Import-free (core Lean only) so that the driver links.

This file is BOTH
* the independent reference decoder that C04 asks for (`decode`, `events`), and
* a transliteration of what rotonda + routecore 0.5.1 do with the same bytes:
    `routecore::bgp::message::UpdateMessage::from_octets`  ~  `decode`
    `roto_runtime::types::explode_announcements`            ~  `announcements`
    `roto_runtime::types::explode_withdrawals`              ~  `withdrawals`
    the engine's direct composition reach ++ unreach                ~  `events` / `run`
    the three callers (bgp_tcp_in/router_handler.rs, bmp_tcp_in/state_machine/
    machine.rs, mrt_file_in/unit.rs): payloads = reach ++ unreach, where since
    commit 2186599 (`explode_update`) unreach no longer holds the withdrawal of an
    NLRI that the same UPDATE announces         ~  `explodeUpdate` / `runCaller`.

Bytes are `Nat`s (< 256 on the wire; the decoder never needs that bound).
All parse errors are one class (`none`): the property does not distinguish them.

Behaviour of the real code that is kept on purpose:
* routecore rejects a prefix whose trailing pad bits (the bits of the last
  address byte beyond the prefix length) are not zero (`inetnum::Prefix::new_v4`
  -> `NonZeroHost`), although RFC 4271 4.3 calls their value irrelevant.  In
  the conventional fields this makes `from_octets` fail, in MP_(UN)REACH it
  makes `explode_*` fail; either way the whole UPDATE yields no route.
  `Variant.maskPad = false` is the code as written; `true` masks the bits
  (`Prefix::new_v4_relaxed`), the repair.
* MP_REACH / MP_UNREACH are found with `find(type_code == 14 / 15)`: the first one.
* MP NLRI are parsed lazily (in `explode_*`), not in `from_octets`; `from_octets`
  only requires the value of every type 14 / 15 attribute to hold AFI + SAFI.
* announcements and withdrawals: MP first, then the conventional field.
* withdrawals carry an empty attribute map, announcements the whole attribute
  section of the UPDATE (MP attributes included), both tagged with the session's
  2- or 4-octet AS setting.
* bytes after the length given in the header are ignored.
Not modelled: ADD-PATH sessions; the NLRI grammars of families routecore can
parse but rotonda does not support (labelled, VPN, FlowSpec, EVPN, ...): the
model says "no event, no error" for every family outside the four supported.
-/
namespace Rotonda.Codec

abbrev Bytes := List Nat

/-- Defect-site variants.
* `maskPad`: what happens to non-zero trailing pad bits of a prefix (`false` = parse
  error, the code as written; `true` = cleared, the repair).
* `eorDrops`: BMP, Dumping phase: a Route Monitoring UPDATE for which routecore's
  `is_eor()` answers "End-of-RIB" is consumed as the marker and its routes are never
  extracted (`true`, the code as written); `false` = its routes are still extracted.
* `mrtForcesAs4`: MRT, BGP4MP_MESSAGE (2-octet AS) records are parsed with
  `SessionConfig::modern()` like BGP4MP_MESSAGE_AS4 ones (`routecore::mrt::MessageAs4::
  bgp_msg`, reached through `msg.into()` in `mrt_file_in/unit.rs`), so their attribute
  maps are tagged 4-octet-AS (`true`, the code as written); `false` = tagged as recorded.
* `overlapKept`: the three ingress call sites, one UPDATE that withdraws and announces the
  same NLRI: `true` = the callers run `explode_announcements` and `explode_withdrawals`
  separately and emit both, the withdrawal after the announcement (the code as written,
  before commit 2186599); `false` = they call `explode_update`, which drops the withdrawal
  of an NLRI the same UPDATE announces (RFC 4271 4.3), the repair. `explode_announcements`
  / `explode_withdrawals` themselves are the same in both. -/
structure Variant where
  maskPad : Bool
  eorDrops : Bool
  mrtForcesAs4 : Bool
  overlapKept : Bool
  deriving DecidableEq, Repr

def asWritten : Variant := ⟨false, true, true, true⟩
def repaired : Variant := ⟨true, false, false, false⟩

/-- Big-endian 16 bit. -/
def u16 (n : Nat) : Bytes := [n / 256, n % 256]

/-- Address bytes needed for a prefix length: `prefix_bits_to_bytes`. -/
def nbytes (len : Nat) : Nat := (len + 7) / 8

/-- Number of pad bits in the last address byte. -/
def padBits (len : Nat) : Nat := 8 * nbytes len - len

structure Pfx where
  len : Nat
  addr : Bytes
  deriving DecidableEq, Repr

/-- Are the low `k` bits of the last byte zero?  (`Bits::is_host_zero`) -/
def lastPadZero (k : Nat) : Bytes → Bool
  | [] => true
  | [b] => b % 2 ^ k == 0
  | _ :: bs => lastPadZero k bs

/-- Clear the low `k` bits of the last byte.  (`Bits::clear_host`) -/
def maskLast (k : Nat) : Bytes → Bytes
  | [] => []
  | [b] => [b - b % 2 ^ k]
  | b :: bs => b :: maskLast k bs

def Pfx.canon (p : Pfx) : Pfx := ⟨p.len, maskLast (padBits p.len) p.addr⟩

def encPfx (p : Pfx) : Bytes := p.len :: p.addr

def encPfxs : List Pfx → Bytes
  | [] => []
  | p :: ps => encPfx p ++ encPfxs ps

/-- `parse_v4_prefix` / `parse_v6_prefix` (`maxBytes` = 4 / 16). -/
def decPfx (v : Variant) (maxBytes : Nat) : Bytes → Option (Pfx × Bytes)
  | [] => none
  | l :: rest =>
    if nbytes l > maxBytes then none
    else if rest.length < nbytes l then none
    else if lastPadZero (padBits l) (rest.take (nbytes l)) then
      some (⟨l, rest.take (nbytes l)⟩, rest.drop (nbytes l))
    else if v.maskPad then
      some (⟨l, maskLast (padBits l) (rest.take (nbytes l))⟩, rest.drop (nbytes l))
    else none

/-- `NlriIter`: parse until the field is used up.  Fuel = number of bytes
    (every prefix consumes at least its length byte). -/
def decPfxsF (v : Variant) (maxBytes : Nat) : Nat → Bytes → Option (List Pfx)
  | _, [] => some []
  | 0, _ :: _ => none
  | f + 1, b :: bs =>
    match decPfx v maxBytes (b :: bs) with
    | none => none
    | some (p, rest) =>
      match decPfxsF v maxBytes f rest with
      | none => none
      | some ps => some (p :: ps)

def decPfxs (v : Variant) (maxBytes : Nat) (bs : Bytes) : Option (List Pfx) :=
  decPfxsF v maxBytes bs.length bs

/-- A path attribute as it is on the wire: flags, type code, value. The
    extended-length flag (0x10) selects the width of the length field. -/
structure Attr where
  flags : Nat
  code : Nat
  value : Bytes
  deriving DecidableEq, Repr

def extBit (flags : Nat) : Bool := flags / 16 % 2 == 1

def encAttr (a : Attr) : Bytes :=
  if extBit a.flags then a.flags :: a.code :: (u16 a.value.length ++ a.value)
  else a.flags :: a.code :: a.value.length :: a.value

def encAttrs : List Attr → Bytes
  | [] => []
  | a :: as => encAttr a ++ encAttrs as

/-- `WireformatPathAttribute::parse`: only the framing can fail (a known
    attribute whose content does not validate becomes `Invalid`, not an error). -/
def decAttr : Bytes → Option (Attr × Bytes)
  | fl :: c :: rest =>
    if extBit fl then
      match rest with
      | hi :: lo :: rest' =>
        if rest'.length < hi * 256 + lo then none
        else some (⟨fl, c, rest'.take (hi * 256 + lo)⟩, rest'.drop (hi * 256 + lo))
      | _ => none
    else
      match rest with
      | l :: rest' =>
        if rest'.length < l then none
        else some (⟨fl, c, rest'.take l⟩, rest'.drop l)
      | _ => none
  | _ => none

def decAttrsF : Nat → Bytes → Option (List Attr)
  | _, [] => some []
  | 0, _ :: _ => none
  | f + 1, b :: bs =>
    match decAttr (b :: bs) with
    | none => none
    | some (a, rest) =>
      match decAttrsF f rest with
      | none => none
      | some as => some (a :: as)

def decAttrs (bs : Bytes) : Option (List Attr) := decAttrsF bs.length bs

/-- A decoded UPDATE: conventional withdrawn routes, attributes, conventional NLRI. -/
structure Upd where
  withdrawn : List Pfx
  attrs : List Attr
  nlri : List Pfx
  deriving DecidableEq, Repr

def isMp (a : Attr) : Bool := a.code == 14 || a.code == 15

def encBody (u : Upd) : Bytes :=
  u16 (encPfxs u.withdrawn).length ++ (encPfxs u.withdrawn ++
    (u16 (encAttrs u.attrs).length ++ (encAttrs u.attrs ++ encPfxs u.nlri)))

def marker : Bytes := List.replicate 16 255

/-- The whole PDU: marker, length, type 2, body. -/
def encode (u : Upd) : Bytes :=
  marker ++ (u16 (19 + (encBody u).length) ++ (2 :: encBody u))

/-- `UpdateMessage::parse` after the header: withdrawn routes, attributes,
    NLRI up to `total` (the length field of the header). -/
def decodeBody (v : Variant) (total : Nat) : Bytes → Option Upd
  | wh :: wl :: r1 =>
    if r1.length < wh * 256 + wl then none else
    match decPfxs v 4 (r1.take (wh * 256 + wl)) with
    | none => none
    | some wd =>
      match r1.drop (wh * 256 + wl) with
      | ah :: al :: r2 =>
        if r2.length < ah * 256 + al then none else
        match decAttrs (r2.take (ah * 256 + al)) with
        | none => none
        | some attrs =>
          -- every MP_REACH / MP_UNREACH must at least hold AFI + SAFI
          if attrs.any (fun a => isMp a && decide (a.value.length < 3)) then none else
          -- "invalid path attributes section"
          if 2 + (wh * 256 + wl) + 2 + (ah * 256 + al) > total - 19 then none else
          if (r2.drop (ah * 256 + al)).length
              < total - 19 - (2 + (wh * 256 + wl) + 2 + (ah * 256 + al)) then none else
          match decPfxs v 4 ((r2.drop (ah * 256 + al)).take
              (total - 19 - (2 + (wh * 256 + wl) + 2 + (ah * 256 + al)))) with
          | none => none
          | some nlri => some ⟨wd, attrs, nlri⟩
      | _ => none
  | _ => none

/-- `UpdateMessage::from_octets` (no ADD-PATH): marker, length >= 19, type 2, body. -/
def decode (v : Variant) (bs : Bytes) : Option Upd :=
  if bs.take 16 ≠ marker then none else
  match bs.drop 16 with
  | lh :: ll :: typ :: body =>
    if lh * 256 + ll < 19 then none else
    if typ ≠ 2 then none else
    decodeBody v (lh * 256 + ll) body
  | _ => none

/-! ### Route events -/

inductive Fam where
  | v4u | v4m | v6u | v6m
  deriving DecidableEq, Repr

def Fam.maxBytes : Fam → Nat
  | .v4u => 4 | .v4m => 4 | .v6u => 16 | .v6m => 16

/-- The `TryFrom<(Nlri, RotondaPaMap)> for RotondaRoute` supported-family list
    (AFI, SAFI) -> family; everything else is dropped. -/
def famOf (afi safi : Nat) : Option Fam :=
  if afi = 1 ∧ safi = 1 then some .v4u
  else if afi = 1 ∧ safi = 2 then some .v4m
  else if afi = 2 ∧ safi = 1 then some .v6u
  else if afi = 2 ∧ safi = 2 then some .v6m
  else none

structure MpReach where
  afi : Nat
  safi : Nat
  nh : Bytes
  rsv : Nat
  nlri : Bytes
  deriving DecidableEq, Repr

structure MpUnreach where
  afi : Nat
  safi : Nat
  nlri : Bytes
  deriving DecidableEq, Repr

def encMpReach (m : MpReach) : Bytes :=
  u16 m.afi ++ (m.safi :: m.nh.length :: (m.nh ++ (m.rsv :: m.nlri)))

def encMpUnreach (m : MpUnreach) : Bytes := u16 m.afi ++ (m.safi :: m.nlri)

/-- `mp_announcements`: AFI, SAFI, `NextHop::skip`, one reserved byte, NLRI. -/
def parseMpReach : Bytes → Option MpReach
  | ah :: al :: safi :: nhl :: rest =>
    if rest.length < nhl then none else
    match rest.drop nhl with
    | rsv :: nlri => some ⟨ah * 256 + al, safi, rest.take nhl, rsv, nlri⟩
    | [] => none
  | _ => none

/-- `mp_withdrawals`: AFI, SAFI, NLRI. -/
def parseMpUnreach : Bytes → Option MpUnreach
  | ah :: al :: safi :: nlri => some ⟨ah * 256 + al, safi, nlri⟩
  | _ => none

inductive Kind where
  | announce | withdraw
  deriving DecidableEq, Repr

/-- One `RotondaRoute` + status: kind, family, prefix, the attribute map it
    carries and that map's 4-octet-AS flag. -/
structure Event where
  kind : Kind
  fam : Fam
  pfx : Pfx
  attrs : List Attr
  as4 : Bool
  deriving DecidableEq, Repr

def ann (as4 : Bool) (attrs : List Attr) (f : Fam) (p : Pfx) : Event := ⟨.announce, f, p, attrs, as4⟩
def wdr (as4 : Bool) (f : Fam) (p : Pfx) : Event := ⟨.withdraw, f, p, [], as4⟩

def firstOf (code : Nat) (attrs : List Attr) : Option Attr := attrs.find? (fun a => a.code == code)

/-- `explode_announcements`. -/
def announcements (v : Variant) (as4 : Bool) (u : Upd) : Option (List Event) :=
  match firstOf 14 u.attrs with
  | none => some (u.nlri.map (ann as4 u.attrs .v4u))
  | some a =>
    match parseMpReach a.value with
    | none => none
    | some m =>
      match famOf m.afi m.safi with
      | none => some (u.nlri.map (ann as4 u.attrs .v4u))
      | some f =>
        match decPfxs v f.maxBytes m.nlri with
        | none => none
        | some ps => some (ps.map (ann as4 u.attrs f) ++ u.nlri.map (ann as4 u.attrs .v4u))

/-- `explode_withdrawals`. -/
def withdrawals (v : Variant) (as4 : Bool) (u : Upd) : Option (List Event) :=
  match firstOf 15 u.attrs with
  | none => some (u.withdrawn.map (wdr as4 .v4u))
  | some a =>
    match parseMpUnreach a.value with
    | none => none
    | some m =>
      match famOf m.afi m.safi with
      | none => some (u.withdrawn.map (wdr as4 .v4u))
      | some f =>
        match decPfxs v f.maxBytes m.nlri with
        | none => none
        | some ps => some (ps.map (wdr as4 f) ++ u.withdrawn.map (wdr as4 .v4u))

/-- `explode_announcements(..)?` then `explode_withdrawals(..)?` composed directly
    (what the engine's `wf` stream does with the two functions): reach followed by unreach. -/
def events (v : Variant) (as4 : Bool) (u : Upd) : Option (List Event) :=
  match announcements v as4 u with
  | none => none
  | some a =>
    match withdrawals v as4 u with
    | none => none
    | some w => some (a ++ w)

/-- Bytes in, route events out, for the direct composition (`wf` / `mal` streams). -/
def run (v : Variant) (as4 : Bool) (bs : Bytes) : Option (List Event) :=
  match decode v bs with
  | none => none
  | some u => events v as4 u

/-! ### The ingress call sites -/

/-- `RotondaRoute::same_nlri`: same address-family variant and same prefix, whatever the
    attributes. -/
def sameNlri (a w : Event) : Bool := decide (a.fam = w.fam ∧ a.pfx = w.pfx)

/-- `unreach.retain(|w| !reach.iter().any(|a| a.same_nlri(w)))` in `explode_update`. -/
def dropOverlap (reach unreach : List Event) : List Event :=
  unreach.filter (fun w => !reach.any (fun a => sameNlri a w))

/-- What `Processor::process_update` (bgp-in), `extract_route_monitoring_routes` (bmp-in) and
    `process_message` (mrt-in) turn one UPDATE into: payloads = reach (status Active)
    followed by unreach (status Withdrawn).  As written the two lists come from
    `explode_announcements(..)?` and `explode_withdrawals(..)?`; repaired they come from
    `explode_update(..)?`, which removes from unreach every NLRI that reach holds. -/
def explodeUpdate (v : Variant) (as4 : Bool) (u : Upd) : Option (List Event) :=
  match announcements v as4 u with
  | none => none
  | some a =>
    match withdrawals v as4 u with
    | none => none
    | some w => some (a ++ (if v.overlapKept then w else dropOverlap a w))

/-- Bytes in, payloads out, through an ingress call site (BGP session; BMP Updating phase). -/
def runCaller (v : Variant) (as4 : Bool) (bs : Bytes) : Option (List Event) :=
  match decode v bs with
  | none => none
  | some u => explodeUpdate v as4 u

/-- End-of-RIB marker (RFC 4724): nothing but, at most, one empty MP_UNREACH. -/
def isEoR (u : Upd) : Bool :=
  u.withdrawn.isEmpty && u.nlri.isEmpty &&
    (u.attrs.isEmpty ||
      match u.attrs with
      | [a] => a.code == 15 && a.value.length == 3
      | _ => false)

/-! ### The BMP Route Monitoring path (Dumping phase) -/

/-- AFI/SAFI pairs routecore 0.5.1 has an NLRI parser for (`afisafi!` table). -/
def knownRc (afi safi : Nat) : Bool :=
  (afi == 1 && (safi == 1 || safi == 2 || safi == 4 || safi == 128 || safi == 132 || safi == 133)) ||
  (afi == 2 && (safi == 1 || safi == 2 || safi == 4 || safi == 128 || safi == 133)) ||
  (afi == 25 && (safi == 65 || safi == 70))

/-- routecore's `UpdateMessage::is_eor()` (is it `Some(_)`?): the PDU is 23 bytes long,
    or the first MP_UNREACH yields no NLRI: its NLRI field is empty, or its family is
    unknown to routecore (the iterator of an unsupported family is always empty).
    What else the UPDATE carries is not looked at. -/
def isEorRc (u : Upd) : Bool :=
  (u.withdrawn.isEmpty && u.attrs.isEmpty && u.nlri.isEmpty) ||
    match firstOf 15 u.attrs with
    | none => false
    | some a =>
      match parseMpUnreach a.value with
      | none => false
      | some m => if knownRc m.afi m.safi then m.nlri.isEmpty else true

/-- One Route Monitoring message in the Dumping phase while no End-of-RIB is pending
    (e.g. the first one after Peer Up): `route_monitoring_preprocessing` runs before
    `extract_route_monitoring_routes`; when `is_eor()` says yes and nothing is pending
    the handler switches to Updating and returns without extracting anything. -/
def runBmpDumping (v : Variant) (as4 : Bool) (bs : Bytes) : Option (List Event) :=
  match decode v bs with
  | none => none
  | some u => if v.eorDrops && isEorRc u then some [] else explodeUpdate v as4 u

/-! ### The MRT update-file path -/

/-- One BGP4MP_MESSAGE (`as4 = false`) / BGP4MP_MESSAGE_AS4 (`as4 = true`) record. -/
def runMrt (v : Variant) (as4 : Bool) (bs : Bytes) : Option (List Event) :=
  runCaller v (v.mrtForcesAs4 || as4) bs

end Rotonda.Codec
