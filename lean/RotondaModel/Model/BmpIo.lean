import RotondaModel.Generated.BmpIo
/-!
# BMP framing and the per-router session loop (C06, C07)

Transliteration of
* `src/units/bmp_tcp_in/io.rs`  `bmp_read` (lines 55-91) and `BmpStream::next` (133-186),
* `src/units/bmp_tcp_in/router_handler.rs` `read_from_router` (151-319): the read loop and the
  unconditional epilogue after it,
* `src/units/bmp_tcp_in/unit.rs` `accept_config` (679-708): the spawned task
  `run(..).await; router_states.remove(..); router_info.remove(..)`.

The byte source is a *script*: bytes, I/O faults (an `io::Error` of some kind returned by one
`poll_read`) and the moment the unit's gate terminates. `tokio::io::AsyncReadExt::read_exact`
is modelled exactly as far as this code can observe it: it fills the buffer or returns the first
error; bytes already read when an error arrives are lost with the dropped buffer; at end of
input it returns `UnexpectedEof` forever; with an empty buffer it returns `Ok` without polling.

Panics are values. The parsers (`routecore` `BmpMsg::from_octets`) are a parameter `valid`.
The fatal/non-fatal table and the constants 5 / 1..5 / 5.. come from `Generated/BmpIo.lean`
(extracted from the source text on every run).
-/
namespace Rotonda.BmpIo

/-- One scripted reader event. -/
inductive Item
  | byte (b : Nat)          -- one byte of data
  | fault (k : Kind)        -- one `poll_read` returns `Err(kind)`
  | term                    -- no data pending and the unit's gate terminates now
  | idle                    -- the connection stays open and silent from here on (never consumed)
  deriving DecidableEq, Repr

abbrev Src := List Item

/-- Result of `read_exact`. -/
inductive RE
  | ok (bs : List Nat)
  | err (k : Kind)
  | terminated
  | pending                 -- waits forever on a silent connection
  deriving DecidableEq, Repr

/-- `rx.read_exact(&mut buf)` with `buf.len() = n`, raced against `gate.process()` as in
    `BmpStream::next`. `acc` holds the bytes read so far, newest first. -/
def readExact : Nat → Src → List Nat → RE × Src
  | 0, s, acc => (.ok acc.reverse, s)
  | _ + 1, [], _ => (.err .unexpectedEof, [])
  | n + 1, .byte b :: s, acc => readExact n s (b :: acc)
  | _ + 1, .fault k :: s, _ => (.err k, s)
  | _ + 1, .term :: s, _ => (.terminated, s)
  | _ + 1, .idle :: s, _ => (.pending, .idle :: s)

/-- Which code is modelled at the defect site `io.rs:77-79`:
    `minLen = 0` is the code as written (no check between computing `len` and `resize(len)`),
    `minLen = n` is `if len < n { return Err(ErrorKind::minLenKind) }` inserted there. -/
structure Variant where
  minLen : Nat
  minLenKind : Kind
  deriving DecidableEq, Repr

def asWritten : Variant := ⟨0, .invalidData⟩
/-- The proposed repair: a BMP common header is 6 bytes, anything shorter is a framing error. -/
def repaired : Variant := ⟨6, .invalidData⟩
/-- The variant the extractor read from the current source text. -/
def sourceVariant : Variant := ⟨srcMinLen, srcMinLenKind⟩

/-- What `BmpMsg::from_octets` (routecore, not modelled) does with a complete frame. `crash` = the
    parser itself panics; the theorems that say "never panics" carry the explicit hypothesis that
    it does not, the engine reports what the real parser does for every frame. -/
inductive Verdict
  | accept | reject | crash
  deriving DecidableEq, Repr

/-- Where a panic comes from. -/
inductive Site
  | slice     -- `&mut msg_buf[5..]` on a buffer shorter than 5 (io.rs:79)
  | parser    -- inside `BmpMsg::from_octets`
  | handler   -- inside `process_msg` (state machine / routecore accessors), not modelled here
  deriving DecidableEq, Repr

/-- Outcome of one `bmp_read`. -/
inductive Outcome
  | frame (bytes : List Nat)   -- `Ok((rx, msg_buf, 0))`
  | ioErr (k : Kind)           -- `Err((rx, err))` from `read_exact` (or from the length guard)
  | parseErr                   -- `Err((rx, io::Error::new(Other, parser message)))`
  | panic (site : Site)
  | terminated                 -- `BmpStream::next` returned `Ok((None, None, 0))`
  | pending                    -- `BmpStream::next` never returns: the session stays alive
  deriving DecidableEq, Repr

def Outcome.isPanic : Outcome → Bool
  | .panic _ => true
  | _ => false

def be32 (a b c d : Nat) : Nat := ((a * 256 + b) * 256 + c) * 256 + d

/-- `u32::from_be_bytes(msg_buf[1..5])` of a header. -/
def declaredLen (hdr : List Nat) : Nat :=
  be32 (hdr.getD lenFrom 0) (hdr.getD (lenFrom + 1) 0) (hdr.getD (lenFrom + 2) 0) (hdr.getD (lenFrom + 3) 0)

/-- `bmp_read` (tracing off). `valid` is `BmpMsg::from_octets(&msg_buf)`. -/
def readFrame (v : Variant) (valid : List Nat → Verdict) (s : Src) : Outcome × Src :=
  match readExact hdrSize s [] with
  | (.err k, s1) => (.ioErr k, s1)
  | (.terminated, s1) => (.terminated, s1)
  | (.pending, s1) => (.pending, s1)
  | (.ok hdr, s1) =>
    let len := declaredLen hdr
    match decide (len < v.minLen), decide (len < sliceStart) with
    | true, _ => (.ioErr v.minLenKind, s1)
    | false, true => (.panic .slice, s1)       -- resize(len) shrinks, `[5..]` is out of range
    | false, false =>
      match readExact (len - sliceStart) s1 [] with
      | (.err k, s2) => (.ioErr k, s2)
      | (.terminated, s2) => (.terminated, s2)
      | (.pending, s2) => (.pending, s2)
      | (.ok body, s2) =>
        match valid (hdr ++ body) with
        | .accept => (.frame (hdr ++ body), s2)
        | .reject => (.parseErr, s2)
        | .crash => (.panic .parser, s2)

/-- How `process_msg` ends for one accepted frame. -/
inductive HRes
  | cont     -- `Ok(())`
  | abort    -- `Err(..)`: `MessageType::Aborted`, the loop breaks
  | crash    -- it panics (the theorems that say "never panics" assume it does not)
  deriving DecidableEq, Repr

/-- What the session's message handler (state machine + gate) does with one accepted frame:
    new state, updates sent through the gate, and how processing ended. `i` is the number of
    frames completely read before this one. -/
structure Handler (σ Out : Type) where
  step : σ → Nat → List Nat → σ × List Out × HRes

/-- One observable event of the read loop. -/
inductive Ev (Out : Type)
  | msg (outs : List Out)      -- a frame was accepted and processed
  | ioErr (k : Kind)           -- `receive_io_error` counted an error of this kind
  | parseErr                   -- `receive_io_error` counted a parser rejection
  | panic (site : Site)
  deriving Repr

/-- Why the loop was left. -/
inductive End
  | fatal (k : Kind)   -- `err.is_fatal()`
  | terminated         -- gate terminated
  | aborted            -- `process_msg` returned `Err`
  | panicked           -- the task unwound: nothing after the loop runs
  | waiting            -- not left at all: the task waits on a silent connection
  | fuel               -- model artefact: never returned for fuel > length (theorem `loop_fuel`)
  deriving DecidableEq, Repr

structure LoopRes (σ Out : Type) where
  evs : List (Ev Out)
  st : σ
  fin : End
  rest : Src
  frames : Nat

/-- `loop { match stream.next().await { … } }` of `read_from_router`. `i` counts completely read
    frames (accepted or rejected by the parser). -/
def loop {σ Out : Type} (v : Variant) (h : Handler σ Out) (valid : Nat → List Nat → Verdict) :
    Nat → Src → σ → Nat → LoopRes σ Out
  | 0, s, st, i => ⟨[], st, .fuel, s, i⟩
  | fuel + 1, s, st, i =>
    match readFrame v (valid i) s with
    | (.terminated, s') => ⟨[], st, .terminated, s', i⟩
    | (.pending, s') => ⟨[], st, .waiting, s', i⟩
    | (.panic site, s') => ⟨[.panic site], st, .panicked, s', i⟩
    | (.ioErr k, s') =>
      match isFatal k with
      | true => ⟨[.ioErr k], st, .fatal k, s', i⟩
      | false => let r := loop v h valid fuel s' st i; { r with evs := .ioErr k :: r.evs }
    | (.parseErr, s') =>
      match isFatal parseErrKind with
      | true => ⟨[.parseErr], st, .fatal parseErrKind, s', i + 1⟩
      | false => let r := loop v h valid fuel s' st (i + 1); { r with evs := .parseErr :: r.evs }
    | (.frame bs, s') =>
      match h.step st i bs with
      | (st', outs, .abort) => ⟨[.msg outs], st', .aborted, s', i + 1⟩
      | (st', _, .crash) => ⟨[.panic .handler], st', .panicked, s', i + 1⟩
      | (st', outs, .cont) =>
        let r := loop v h valid fuel s' st' (i + 1); { r with evs := .msg outs :: r.evs }

/-- Enough fuel for every script (theorem `loop_fuel`): each iteration consumes an item or ends. -/
def runLoop {σ Out : Type} (v : Variant) (h : Handler σ Out) (valid : Nat → List Nat → Verdict)
    (s : Src) (st : σ) : LoopRes σ Out :=
  loop v h valid (s.length + 1) s st 0

/-! ## C06 driver view: counters a harness can read off the real unit -/

def trivialHandler : Handler Unit Unit := ⟨fun _ _ _ => ((), [], .cont)⟩

/-- A handler that counts accepted messages and crashes on the `k`-th (0-based), if `k` is given:
    how the driver replays a session in which the real `process_msg` panicked. -/
def crashingHandler (k : Option Nat) : Handler Nat Unit :=
  ⟨fun n _ _ => (n + 1, [], if k = some n then .crash else .cont)⟩

/-- Same, and additionally leaves the loop after the `a`-th accepted message (how the driver
    replays a tree in which a Termination message ends the session, see C07). -/
def scriptedHandler (k a : Option Nat) : Handler Nat Unit :=
  ⟨fun n _ _ => (n + 1, [], if k = some n then .crash else if a = some n then .abort else .cont)⟩

def countIoErrs {Out : Type} : List (Ev Out) → Nat
  | [] => 0
  | .ioErr _ :: r => countIoErrs r + 1
  | .parseErr :: r => countIoErrs r + 1
  | _ :: r => countIoErrs r

def countMsgs {Out : Type} : List (Ev Out) → Nat
  | [] => 0
  | .msg _ :: r => countMsgs r + 1
  | _ :: r => countMsgs r

end Rotonda.BmpIo
