/-
Model of rotonda's RFC 7854 BMP state machine
(`src/units/bmp_tcp_in/state_machine/{machine.rs,processing.rs,states/*.rs}`)
together with the calls it makes on its status reporter
(`state_machine/status_reporter.rs`, `metrics.rs`).  Import-free.

What is transliterated
* `BmpState::process_msg` (machine.rs:1116): per-phase dispatch + the wrapper
  that reports every `InvalidMessage` as a hard failure.
* `Initiating/Dumping/Updating/Terminated::process_msg` (states/*.rs).
* `peer_up`, `peer_down`, `route_monitoring` (machine.rs:490-827) including the
  retry loop over `generate_alternate_config` (toggle of the four-octet-ASN
  flag), the phase specific `route_monitoring_preprocessing` (End-of-RIB
  bookkeeping) and `terminate`.
* `PeerStates` (machine.rs:1200-): a map per-peer-header ↦ peer state.  The
  map is a `HashMap`; the model keeps insertion order and everything observed
  from it is order-independent (membership, sums, `all`, a *sorted* id list).
* `add_peer_config`'s use of the ingress register (`find_existing_peer` by
  (parent, address, ASN, RIB type), else `register()`): `reg`, `next`.

What is an input token (NOT modelled: routecore's byte-level parsers)
* a per-peer header is an interned number `Hdr`; `K : Hdr → Key` gives the
  register key class (address, ASN, RIB type) of a header;
* for a Route Monitoring message the result of the real parser is supplied
  on the case line (`Rm`): does the PDU parse with the four-octet / two-octet
  session config, what `is_eor()` says, how many routes
  `explode_announcements/withdrawals` produce, the AFI/SAFI of the first
  announcement, whether explode / `announcements_vec()` succeed.

Status reporter calls are emitted as effects (`Eff`); `Metrics.apply`
transliterates `status_reporter.rs`.  Two defect sites are variants.
-/
namespace Rotonda.Bmp

abbrev Hdr := Nat
abbrev Mui := Nat
abbrev Key := Nat
abbrev Afi := Nat

inductive Phase where
  | initiating | dumping | updating | terminated
  deriving DecidableEq, Repr

def Phase.idx : Phase → Nat
  | .initiating => 0 | .dumping => 1 | .updating => 2 | .terminated => 3

/-- `PeerState` (machine.rs:114). `pending` is `pending_eors`: the
    `EoRProperties` key is (afi/safi, post-policy, adj-rib-out) and the last two
    are functions of the header, so per peer the AFI/SAFI alone is the key. -/
structure Peer where
  hdr : Hdr
  eor : Bool
  pending : List Afi
  mui : Mui
  cfg4 : Bool
  deriving DecidableEq, Repr

structure State where
  phase : Phase
  peers : List Peer
  reg : List (Key × Mui)
  next : Mui
  deriving DecidableEq, Repr

/-- What the real parser said about the BGP UPDATE inside a Route Monitoring message. -/
structure Rm where
  p4 : Bool          -- `bgp_update(cfg)` is Ok with four-octet ASNs enabled
  p2 : Bool          -- … with four-octet ASNs disabled
  eor : Option Afi   -- `is_eor()`
  pure : Bool        -- the UPDATE carries no NLRI at all (no announcements, no withdrawals)
  na : Nat           -- `explode_announcements(..).len()`
  nw : Nat           -- `explode_withdrawals(..).len()`
  fa : Afi           -- afi/safi of `announcements_vec().first()` (meaningful when na > 0)
  xok : Bool         -- both explode_* returned Ok
  avok : Bool        -- `announcements_vec()` returned Ok
  deriving DecidableEq, Repr

inductive Msg where
  | init
  | peerUp (h : Hdr) (eor c4 : Bool)
  | peerDown (h : Hdr)
  | routeMon (h : Hdr) (r : Rm)
  | stats (h : Hdr)
  | mirror (h : Hdr)
  | term
  deriving DecidableEq, Repr

/-- `payload::Update` as far as the state machine produces it. A `Bulk` is
    summarised by the ingress id its payloads carry and the number of
    announced / withdrawn routes. -/
inductive Upd where
  | bulk (mui : Mui) (na nw : Nat)
  | withdraw (mui : Mui)
  | withdrawBulk (ids : List Mui)
  deriving DecidableEq, Repr

/-- `MessageType` (processing.rs). -/
inductive Out where
  | invalid | other | routing (u : Upd) | transition
  deriving DecidableEq, Repr

/-- Calls on `BmpStateMachineStatusReporter`. -/
inductive Eff where
  | changeState (p : Phase)
  | peerUp (eor : Bool)
  | peerDown (eor : Option Bool)
  | unknownPeer
  | softFail
  | hardFail
  | pendingStore (n : Nat)
  | routing (nNew nAnn nWd : Nat)
  deriving DecidableEq, Repr

structure Variant where
  /-- `true` = machine.rs:564 as written: `peer_down` asks `is_peer_eor_capable`
      *after* the peer has been removed, so the answer is always `None`. -/
  eorGaugeStale : Bool
  /-- `true` = dumping.rs:231 / updating.rs as written: whatever `is_eor()`
      reports is End-of-RIB, even if the UPDATE also carries routes.
      `false` = only an UPDATE without any NLRI is treated as End-of-RIB. -/
  eorAnyUpdate : Bool
  deriving DecidableEq, Repr

def asWritten : Variant := ⟨true, true⟩
def repaired : Variant := ⟨false, false⟩

structure Res where
  st : State
  out : Out
  effs : List Eff
  deriving DecidableEq, Repr

def init : State := ⟨.initiating, [], [], 2⟩

def lookupKey (k : Key) : List (Key × Mui) → Option Mui
  | [] => none
  | e :: r => if e.1 = k then some e.2 else lookupKey k r

def findPeer (h : Hdr) : List Peer → Option Peer
  | [] => none
  | p :: ps => if p.hdr = h then some p else findPeer h ps

def erasePeer (h : Hdr) (ps : List Peer) : List Peer := ps.filter (fun p => p.hdr != h)

def setPeer (p : Peer) (ps : List Peer) : List Peer :=
  ps.map (fun q => if q.hdr = p.hdr then p else q)

def totalPending : List Peer → Nat
  | [] => 0
  | p :: ps => p.pending.length + totalPending ps

def allPendingEmpty (ps : List Peer) : Bool := ps.all (fun p => p.pending.isEmpty)

/-- `find_existing_peer(..)` else `register()` + `update_info`. Returns the new
    register, the new serial and the ingress id for the key. -/
def regFor (k : Key) (s : State) : List (Key × Mui) × Mui × Mui :=
  match lookupKey k s.reg with
  | some id => (s.reg, s.next, id)
  | none => (s.reg ++ [(k, s.next)], s.next + 1, s.next)

/-- machine.rs:490 `peer_up` + `PeerStates::add_peer_config`. The register is
    consulted *before* the peer table. -/
def peerUp (K : Hdr → Key) (s : State) (h : Hdr) (eor c4 : Bool) : Res :=
  let r := regFor (K h) s
  match findPeer h s.peers with
  | some _ => ⟨{ s with reg := r.1, next := r.2.1 }, .invalid, []⟩
  | none =>
    ⟨{ s with reg := r.1, next := r.2.1, peers := s.peers ++ [⟨h, eor, [], r.2.2, c4⟩] },
     .other, [.peerUp eor]⟩

/-- machine.rs:536 `peer_down`. -/
def peerDown (v : Variant) (s : State) (h : Hdr) : Res :=
  match findPeer h s.peers with
  | some p =>
    ⟨{ s with peers := erasePeer h s.peers }, .routing (.withdraw p.mui),
     [.routing 0 0 0, .peerDown (match v.eorGaugeStale with | true => none | false => some p.eor)]⟩
  | none => ⟨s, .invalid, []⟩

/-- dumping.rs / updating.rs `terminate`. -/
def terminate (s : State) : Res :=
  match s.peers.map (·.mui) with
  | [] => ⟨{ s with phase := .terminated, peers := [] }, .transition, [.changeState .terminated]⟩
  | ids => ⟨{ s with phase := .terminated, peers := [] }, .routing (.withdrawBulk ids), []⟩

/-- The End-of-RIB reading of an UPDATE that the preprocessing acts on. -/
def effEor (v : Variant) (r : Rm) : Option Afi :=
  match v.eorAnyUpdate with
  | true => r.eor
  | false => match r.pure with | true => r.eor | false => none

/-- The tail of `route_monitoring` after the state specific preprocessing:
    extraction, pending-EoR bookkeeping, counters, `Update::Bulk`. -/
def rmExtract (s : State) (p : Peer) (r : Rm) (effs : List Eff) : Res :=
  match r.xok && r.avok with
  | false => ⟨s, .invalid, effs⟩
  | true =>
    match decide (r.na > 0) && p.eor with
    | true =>
      let p' : Peer := { p with pending := match p.pending.contains r.fa with
                                           | true => p.pending | false => p.pending ++ [r.fa] }
      ⟨{ s with peers := setPeer p' s.peers }, .routing (.bulk p.mui r.na r.nw),
       effs ++ [.pendingStore p'.pending.length, .routing r.na r.na r.nw]⟩
    | false => ⟨s, .routing (.bulk p.mui r.na r.nw), effs ++ [.routing r.na r.na r.nw]⟩

/-- The retry loop of `route_monitoring` (machine.rs:707-826): try the peer's
    session config, then `generate_alternate_config` (four-octet flag toggled).
    `none` = both fail, `some retried` otherwise. -/
def parseOutcome (cfg4 : Bool) (r : Rm) : Option Bool :=
  match (match cfg4 with | true => r.p4 | false => r.p2),
        (match cfg4 with | true => r.p2 | false => r.p4) with
  | true, _ => some false
  | false, true => some true
  | false, false => none

/-- `update_peer_config` with the alternate config. -/
def Peer.toggle (p : Peer) : Peer := { p with cfg4 := !p.cfg4 }

/-- The last pending End-of-RIB of the whole table was (or already had been)
    removed: Dumping becomes Updating and *the message is not processed any
    further* (dumping.rs:231-262); Updating only refreshes the gauge. -/
def rmEor (dump : Bool) (s2 : State) (p2 : Peer) (r : Rm) (e1 : List Eff) : Res :=
  match allPendingEmpty s2.peers with
  | false => rmExtract s2 p2 r e1
  | true =>
    match dump with
    | true => ⟨{ s2 with phase := .updating }, .transition,
               e1 ++ [.pendingStore (totalPending s2.peers), .changeState .updating]⟩
    | false => rmExtract s2 p2 r (e1 ++ [.pendingStore (totalPending s2.peers)])

/-- `remove_pending_eor` on the peer. -/
def Peer.dropEor (p : Peer) (afi : Afi) : Peer := { p with pending := p.pending.filter (· != afi) }

/-- `route_monitoring` once the UPDATE has been parsed: the state specific
    preprocessing, then the common tail. -/
def rmAfterParse (v : Variant) (dump : Bool) (s1 : State) (p1 : Peer) (r : Rm) (e1 : List Eff) : Res :=
  match effEor v r with
  | none => rmExtract s1 p1 r e1
  | some afi => rmEor dump { s1 with peers := setPeer (p1.dropEor afi) s1.peers } (p1.dropEor afi) r e1

/-- machine.rs:672 `route_monitoring`; `dump = true` in phase Dumping. -/
def routeMon (v : Variant) (dump : Bool) (s : State) (h : Hdr) (r : Rm) : Res :=
  match findPeer h s.peers with
  | none => ⟨s, .invalid, [.unknownPeer]⟩
  | some p =>
    match parseOutcome p.cfg4 r with
    | none => ⟨s, .invalid, []⟩
    | some false => rmAfterParse v dump s p r []
    | some true =>
      -- parsed only with the alternate config, which is kept from now on
      rmAfterParse v dump { s with peers := setPeer p.toggle s.peers } p.toggle r [.softFail]

/-- `{Initiating,Dumping,Updating,Terminated}::process_msg`. -/
def stepCore (v : Variant) (K : Hdr → Key) (s : State) (m : Msg) : Res :=
  match s.phase with
  | .initiating =>
    match m with
    | .init => ⟨{ s with phase := .dumping }, .transition, [.changeState .dumping]⟩
    | _ => ⟨s, .invalid, []⟩
  | .dumping =>
    match m with
    | .init => ⟨s, .other, []⟩
    | .peerUp h e c =>
      let r := peerUp K s h e c
      ⟨r.st, r.out, r.effs ++ [.pendingStore (totalPending r.st.peers)]⟩
    | .peerDown h => peerDown v s h
    | .routeMon h r => routeMon v true s h r
    | .term => terminate s
    | .stats _ => ⟨s, .other, []⟩
    | .mirror _ => ⟨s, .other, []⟩
  | .updating =>
    match m with
    | .init => ⟨s, .other, []⟩
    | .peerUp h e c => peerUp K s h e c
    | .peerDown h => peerDown v s h
    | .routeMon h r => routeMon v false s h r
    | .term => terminate s
    | .stats _ => ⟨s, .other, []⟩
    | .mirror _ => ⟨s, .other, []⟩
  | .terminated => ⟨s, .invalid, []⟩

/-- `BmpState::process_msg`: every `InvalidMessage` is counted. -/
def step (v : Variant) (K : Hdr → Key) (s : State) (m : Msg) : Res :=
  let r := stepCore v K s m
  match r.out with
  | .invalid => ⟨r.st, r.out, r.effs ++ [.hardFail]⟩
  | _ => r

def run (v : Variant) (K : Hdr → Key) (s : State) : List Msg → State
  | [] => s
  | m :: ms => run v K (step v K s m).st ms

/-! ### Metrics (`RouterBmpMetrics`, status_reporter.rs) -/

structure Metrics where
  created : Bool       -- the per-router entry exists (`router_metrics` creates it lazily)
  state : Phase        -- `bmp_state_machine_state`; a new entry starts as Dumping
  received : Nat
  unknownPeer : Nat
  softFail : Nat
  hardFail : Nat
  ann : Nat
  wd : Nat
  peersUp : Nat
  eorCap : Nat
  dumping : Nat
  underflow : Bool     -- some `fetch_sub` was applied to 0 (the real gauge wraps to usize::MAX)
  deriving DecidableEq, Repr

def Metrics.init : Metrics := ⟨false, .dumping, 0, 0, 0, 0, 0, 0, 0, 0, 0, false⟩

def Metrics.apply (m : Metrics) (e : Eff) : Metrics :=
  let m := { m with created := true }
  match e with
  | .changeState p => { m with state := p }
  | .peerUp eor => { m with peersUp := m.peersUp + 1,
                            eorCap := match eor with | true => m.eorCap + 1 | false => m.eorCap }
  | .peerDown eor =>
    let m1 := { m with peersUp := m.peersUp - 1, underflow := m.underflow || m.peersUp == 0 }
    match eor with
    | some true => { m1 with eorCap := m1.eorCap - 1, underflow := m1.underflow || m1.eorCap == 0 }
    | _ => m1
  | .unknownPeer => { m with unknownPeer := m.unknownPeer + 1 }
  | .softFail => { m with softFail := m.softFail + 1 }
  | .hardFail => { m with hardFail := m.hardFail + 1 }
  | .pendingStore n => { m with dumping := n }
  | .routing n a w => { m with received := m.received + n, ann := m.ann + a, wd := m.wd + w }

def Metrics.applyAll (m : Metrics) (es : List Eff) : Metrics := es.foldl Metrics.apply m

/-- State machine and metrics side by side. -/
structure MState where
  st : State
  mx : Metrics
  deriving DecidableEq, Repr

def MState.init : MState := ⟨Bmp.init, Metrics.init⟩

def mstep (v : Variant) (K : Hdr → Key) (s : MState) (m : Msg) : MState × Out :=
  let r := step v K s.st m
  (⟨r.st, s.mx.applyAll r.effs⟩, r.out)

def mrun (v : Variant) (K : Hdr → Key) (s : MState) : List Msg → MState
  | [] => s
  | m :: ms => mrun v K (mstep v K s m).1 ms

/-- What can happen to one router's metrics entry: a message on the current
    connection, or the connection ends and the same router connects again.
    A reconnect gets a new state machine (`BmpState::new`, phase Initiating) on
    the *same* ingress register and the *same* per-router metrics entry: the
    entry is keyed by the router id, which is the router's ingress id
    (util.rs `format_source_id`), found again by `find_existing_bmp_router`;
    `remove_router_metrics` is only called on the never-taken abort path
    (router_handler.rs:280-284). -/
inductive Ev where
  | msg (m : Msg)
  | reconnect
  deriving DecidableEq, Repr

def MState.ev (v : Variant) (K : Hdr → Key) (s : MState) : Ev → MState
  | .msg m => (mstep v K s m).1
  | .reconnect => ⟨{ s.st with phase := .initiating, peers := [] }, s.mx⟩

def mrunEv (v : Variant) (K : Hdr → Key) (s : MState) : List Ev → MState
  | [] => s
  | e :: es => mrunEv v K (s.ev v K e) es

/-! ### Vocabulary of the C05 statements -/

def isUp (s : State) (h : Hdr) : Bool := (findPeer h s.peers).isSome

/-- The four lifecycle violations of the property. -/
def lifecycleViolation (s : State) (m : Msg) : Bool :=
  match s.phase with
  | .initiating => match m with | .init => false | _ => true
  | .terminated => true
  | _ =>
    match m with
    | .routeMon h _ => !isUp s h
    | .peerDown h => !isUp s h
    | .peerUp h _ _ => isUp s h
    | _ => false

/-- What reaches the downstream units as route data. An `Update::Bulk` without
    payloads carries no route, so it is `nothing`. -/
inductive Down where
  | nothing
  | routes (mui : Mui) (na nw : Nat)
  | withdrawPeer (mui : Mui)
  | withdrawAll (ids : List Mui)
  deriving DecidableEq, Repr

def downstream : Out → Down
  | .routing (.bulk mui na nw) => match na + nw with | 0 => .nothing | _ => .routes mui na nw
  | .routing (.withdraw m) => .withdrawPeer m
  | .routing (.withdrawBulk ids) => match ids with | [] => .nothing | _ => .withdrawAll ids
  | _ => .nothing

/-- The set of peers that are up, with the ingress id each one feeds. -/
def upSet (s : State) : List (Hdr × Mui) := s.peers.map (fun p => (p.hdr, p.mui))

def lookupUp (h : Hdr) : List (Hdr × Mui) → Option Mui
  | [] => none
  | e :: r => if e.1 = h then some e.2 else lookupUp h r

/-- Downstream effect as a function of the message and the up set *only*. -/
def expected (m : Msg) (up : List (Hdr × Mui)) : Down :=
  match m with
  | .routeMon h r =>
    match lookupUp h up with
    | none => .nothing
    | some mui =>
      match (r.p4 || r.p2) && (r.xok && r.avok) with
      | false => .nothing
      | true => match r.na + r.nw with | 0 => .nothing | _ => .routes mui r.na r.nw
  | .peerDown h =>
    match lookupUp h up with
    | none => .nothing
    | some mui => .withdrawPeer mui
  | .term => match up.map (·.2) with | [] => .nothing | ids => .withdrawAll ids
  | _ => .nothing

end Rotonda.Bmp
