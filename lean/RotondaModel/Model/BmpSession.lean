import RotondaModel.Model.BmpIo
/-!
# One BMP session from accept to cleanup (C07)

`Session.run = epilogue ∘ loop`, transliterated from
* `router_handler.rs:186-318` `read_from_router`: the read loop (`Model/BmpIo.lean`), then —
  unconditionally, on every path that leaves the loop *by returning* — `WithdrawBulk(ids_for_parent
  (router))` followed by `UpstreamStatusChange(EndOfStream { router })`;
* `unit.rs:700-707` `accept_config`: `run(..).await; router_states.remove(id); router_info.remove(id)`
  inside the spawned task — statements after an `.await` that unwinds (panic) never run.

What `process_msg` does with an accepted message is a `Handler` (parameter). `peerHandler` is the
part of the BMP state machine that matters for cleanup, transliterated from
`state_machine/machine.rs` (`add_peer_config` 1210-1254, `peer_down` 536-605,
`terminate` in states/dumping.rs 277-300 / updating.rs 121-140) and `ingress.rs`
(`register`, `find_existing_peer`, `ids_for_parent`): which peers are up, which ingress ids the
register holds for this router, which withdrawals the machine itself emits. Route payloads
are not modelled (`data`); the message classification per frame is supplied by the real parser.
-/
namespace Rotonda.BmpSession
open Rotonda.BmpIo

/-- An `Update` leaving the gate, as far as C07 talks about it. -/
inductive Out
  | data                         -- `Update::Single/Bulk/OutputStream/…` (route payloads; not modelled)
  | withdraw (id : Nat)          -- `Update::Withdraw(id, None)` (Peer Down)
  | withdrawBulk (ids : List Nat) -- `Update::WithdrawBulk(ids)`
  | endOfStream (router : Nat)   -- `Update::UpstreamStatusChange(EndOfStream { ingress_id })`
  deriving DecidableEq, Repr

/-- Classification of one accepted BMP message (from the real parser). `p` identifies the
    per-peer header as `PeerStates`' `HashMap` key does, `q` identifies the ingress-register query
    `(parent, address, asn, rib type)` of `find_existing_peer`. -/
inductive Tok
  | init
  | up (p q : Nat)
  | down (p : Nat)
  | term
  | other        -- Route Monitoring, Statistics, Route Mirroring: no effect on cleanup state
  deriving DecidableEq, Repr

inductive Phase | initiating | active | terminated
  deriving DecidableEq, Repr

/-- The cleanup-relevant state of one session. -/
structure PState where
  phase : Phase
  up : List (Nat × Nat)       -- peers that are up: header key ↦ ingress id
  reg : List (Nat × Nat)      -- register entries whose parent is this router: query key ↦ id
  next : Nat                  -- `Register.serial`
  deriving DecidableEq, Repr

def PState.init (next : Nat) : PState := ⟨.initiating, [], [], next⟩

/-- `find_existing_peer(query)` else `register()` + `update_info`. -/
def PState.lookupOrRegister (st : PState) (q : Nat) : Nat × PState :=
  match st.reg.find? (·.1 == q) with
  | some e => (e.2, st)
  | none => (st.next, { st with reg := st.reg ++ [(q, st.next)], next := st.next + 1 })

/-- `ids_for_parent(router)`. -/
def PState.children (st : PState) : List Nat := st.reg.map (·.2)
def PState.upIds (st : PState) : List Nat := st.up.map (·.2)

/-- Peer Up in Dumping/Updating: `add_peer_config` consults the register first, then
    `entry(pph).or_insert_with` (an already-up header is an invalid message, nothing inserted). -/
def stepUp (st : PState) (p q : Nat) : PState × List Out :=
  let r := st.lookupOrRegister q
  match r.2.up.find? (·.1 == p) with
  | some _ => (r.2, [])
  | none => ({ r.2 with up := r.2.up ++ [(p, r.1)] }, [])

/-- Peer Down: `remove_peer`, then `Update::Withdraw(removed.ingress_id, None)`. -/
def stepDown (st : PState) (p : Nat) : PState × List Out :=
  match st.up.find? (·.1 == p) with
  | some e => ({ st with up := st.up.filter (·.1 != p) }, [.withdraw e.2])
  | none => (st, [])

/-- Termination: `WithdrawBulk` of the up peers' ids if any; the Terminated state keeps no peers. -/
def stepTerm (st : PState) : PState × List Out :=
  ({ st with phase := .terminated, up := [] },
    match st.upIds with | [] => [] | ids => [.withdrawBulk ids])

/-- `BmpState::process_msg` restricted to what cleanup depends on. -/
def pstep (st : PState) (t : Tok) : PState × List Out :=
  match st.phase, t with
  | .initiating, .init => ({ st with phase := .active }, [])
  | .initiating, _ => (st, [])                       -- invalid message, state unchanged
  | .terminated, _ => (st, [])                       -- invalid message
  | .active, .init => (st, [])
  | .active, .other => (st, [.data])
  | .active, .up p q => stepUp st p q
  | .active, .down p => stepDown st p
  | .active, .term => stepTerm st

/-- The handler driven by the per-frame classification `toks` (frame index ↦ token).
    `termEnds = false` is the code as written: it never aborts the session — in the real code only
    `MessageType::Aborted` does, which no state produces (`BmpState::_Aborted` is never
    constructed) — in particular **a Termination message does not end the read loop**.
    `termEnds = true` is the proposed repair: leave the loop once the machine is `Terminated`. -/
def peerHandler (termEnds : Bool) (toks : Nat → Tok) : Handler PState Out :=
  ⟨fun st i _ =>
    let r := pstep st (toks i)
    (r.1, r.2, if termEnds && r.1.phase == .terminated then .abort else .cont)⟩

def evOuts {Out : Type} : List (Ev Out) → List Out
  | [] => []
  | .msg outs :: r => outs ++ evOuts r
  | _ :: r => evOuts r

/-- What is observable of one session after its task has finished (or is left waiting). -/
structure RunRes (σ : Type) where
  outs : List Out          -- every update that left the gate, in order
  inList : Bool            -- the router is still in `router_states` / `router_info`
  fin : End
  st : σ

/-- `accept_config`'s task: `read_from_router` (loop + epilogue), then the removal. -/
def run {σ : Type} (v : Variant) (h : Handler σ Out) (children : σ → List Nat) (router : Nat)
    (valid : Nat → List Nat → Verdict) (s : Src) (st : σ) : RunRes σ :=
  let l := runLoop v h valid s st
  match l.fin with
  | .panicked => ⟨evOuts l.evs, true, l.fin, l.st⟩      -- unwound: no epilogue, no removal
  | .waiting => ⟨evOuts l.evs, true, l.fin, l.st⟩       -- still reading: nothing has ended
  | .fuel => ⟨evOuts l.evs, true, l.fin, l.st⟩          -- unreachable (C06_progress)
  | _ => ⟨evOuts l.evs ++ [.withdrawBulk (children l.st), .endOfStream router], false, l.fin, l.st⟩

def Out.isEos : Out → Bool
  | .endOfStream _ => true
  | _ => false

/-! ## The BGP half: `bgp_tcp_in/router_handler.rs` `Processor::process` (215-547) -/

/-- What the routecore session / the gate hands to the processor's `select!` loop. -/
inductive BgpEv
  | negotiated                 -- `Message::SessionNegotiated` (first for this peer)
  | negotiatedDuplicate        -- … for a peer that already has a live session: rejected, break
  | update                     -- `Message::UpdateMessage`
  | notification
  | connectionLost             -- `Message::ConnectionLost`: break
  | channelClosed              -- `rx_sess.recv()` = None: break
  | tickError                  -- `session.tick()` failed: break
  | gateTerminated             -- sends `Command::Disconnect(Shutdown)`; `//break` is commented out
  | reconfiguredUnit           -- unit config changed: Disconnect, break
  deriving DecidableEq, Repr

structure BgpRes where
  outs : List Out
  live : Bool        -- still in `live_sessions`
  ended : Bool       -- `process` returned

/-- The loop: `neg` = `session.negotiated().is_some()`, `live` = this session's key is in
    `live_sessions`. Returns when an event breaks the loop; an exhausted event list means the
    processor is still waiting in `select!`. -/
def bgpLoop (id : Nat) : List BgpEv → Bool → Bool → List Out → BgpRes
  | [], _, live, outs => ⟨outs, live, false⟩
  | e :: r, neg, live, outs =>
    let finish (rejected : Bool) : BgpRes :=
      -- lines 506-544: `if !rejected { if let Some(negotiated) = session.negotiated() { remove; Withdraw } }`
      match rejected, neg with
      | false, true => ⟨outs ++ [.withdraw id], false, true⟩
      | _, _ => ⟨outs, live, true⟩
    match e with
    | .negotiated => bgpLoop id r true true outs
    | .negotiatedDuplicate => finish true
    | .update => if neg then bgpLoop id r neg live (outs ++ [.data]) else finish false
    | .notification => bgpLoop id r neg live outs
    | .gateTerminated => bgpLoop id r neg live outs
    | .connectionLost => finish false
    | .channelClosed => finish false
    | .tickError => finish false
    | .reconfiguredUnit => finish false

def bgpRun (id : Nat) (evs : List BgpEv) : BgpRes := bgpLoop id evs false false []

end Rotonda.BmpSession
