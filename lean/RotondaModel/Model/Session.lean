/-
Session layer of the BMP ingress as far as C02 needs it: which ingress id a monitored peer gets
and which ids a session end withdraws. Import-free.

Transliterated from
* `bmp_tcp_in/state_machine/machine.rs:1237-1283` `PeerStates::add_peer_config`: the peer table is
  keyed by the **full** per-peer header (`HashMap<PerPeerHeader, PeerState>`), but the ingress id is
  looked up in the register by `(parent, remote address, remote AS, rib_type)` only
  (`ingress.rs:134 find_existing_peer`), where `rib_type = pph.rib_type()` is `LocRib` for peer type 3
  and otherwise Adj-RIB-In / Adj-RIB-Out by the O flag (`routecore bmp/message.rs:432-444`); else a
  fresh id is registered and its info stored. `entry(pph).or_insert_with`: a header that is already
  up keeps its entry.
* `machine.rs:536-590 peer_down`: removes the header, emits `Withdraw(its id, None)`.
* `states/{dumping,updating}.rs terminate`: `WithdrawBulk(ids of all up peers)`.
* `router_handler.rs:291-318`: connection end, `WithdrawBulk(ids_for_parent(router id))`.
* `ingress.rs`: `Register { serial, info }`, `register` = fetch-add, `update_info` on the fresh id,
  `ids_for_parent`, `find_existing_peer` (first match in map order; under the invariant of
  `Proofs` the match is unique, so the order is immaterial).
-/
namespace Rotonda.Session

/-- The fields of a BMP per-peer header that make up `PerPeerHeader`'s `Eq`/`Hash`. -/
structure Pph where
  ptype : Nat        -- 0 global, 1 RD, 2 local instance, 3 Loc-RIB instance
  flags : Nat        -- V 0x80, L 0x40 (post-policy), A 0x20, O 0x10 (Adj-RIB-Out)
  dist : Nat
  addr : Nat
  asn : Nat
  bgpId : Nat
  deriving DecidableEq, Repr

/-- `pph.rib_type()`: 2 = LocRib, 1 = AdjRibOut, 0 = AdjRibIn. -/
def Pph.ribType (h : Pph) : Nat :=
  if h.ptype = 3 then 2 else if (h.flags / 16) % 2 = 1 then 1 else 0

/-- `IngressInfo` as far as peers are concerned. -/
structure Info where
  parent : Nat
  addr : Nat
  asn : Nat
  ribType : Nat
  deriving DecidableEq, Repr

structure Register where
  serial : Nat
  info : List (Nat × Info)
  deriving DecidableEq, Repr

def Register.get (r : Register) (id : Nat) : Option Info :=
  (r.info.find? (fun e => e.1 = id)).map (·.2)

/-- `register()` followed by `update_info(new id, info)`. -/
def Register.add (r : Register) (i : Info) : Nat × Register :=
  (r.serial, { serial := r.serial + 1, info := r.info ++ [(r.serial, i)] })

/-- `find_existing_peer`. -/
def Register.findPeer (r : Register) (q : Info) : Option Nat :=
  (r.info.find? (fun e => e.2 = q)).map (·.1)

/-- `ids_for_parent`. -/
def Register.idsForParent (r : Register) (p : Nat) : List Nat :=
  (r.info.filter (fun e => e.2.parent = p)).map (·.1)

/-- One connected router: its ingress id and its `PeerStates` (header ↦ ingress id). -/
structure Router where
  id : Nat
  peers : List (Pph × Nat)
  deriving DecidableEq, Repr

def Router.idOf (rt : Router) (h : Pph) : Option Nat := (rt.peers.find? (fun e => e.1 = h)).map (·.2)

def query (rt : Router) (h : Pph) : Info := ⟨rt.id, h.addr, h.asn, h.ribType⟩

structure World where
  reg : Register
  rt : Router
  deriving DecidableEq, Repr

inductive Op where
  | peerUp (h : Pph)
  | peerDown (h : Pph)
  /-- somebody else (another router, another unit) registers a source -/
  | foreign (i : Info)
  deriving DecidableEq, Repr

/-- `add_peer_config`. -/
def peerUp (w : World) (h : Pph) : World :=
  let (id, reg') := match w.reg.findPeer (query w.rt h) with
    | some id => (id, w.reg)
    | none => w.reg.add (query w.rt h)
  match w.rt.idOf h with
  | some _ => { w with reg := reg' }                       -- `or_insert_with`: the header is already up
  | none => { reg := reg', rt := { w.rt with peers := w.rt.peers ++ [(h, id)] } }

/-- `peer_down`: the `Update::Withdraw` id, if the header was up. -/
def peerDown (w : World) (h : Pph) : World × Option Nat :=
  ({ w with rt := { w.rt with peers := w.rt.peers.filter (fun e => e.1 ≠ h) } }, w.rt.idOf h)

def step (w : World) : Op → World
  | .peerUp h => peerUp w h
  | .peerDown h => (peerDown w h).1
  | .foreign i => { w with reg := (w.reg.add i).2 }

def runOps (w : World) (ops : List Op) : World := ops.foldl step w

/-- A freshly connected router `rid` on a register in which `rid` and everything else so far
    registered is below `serial`. -/
def World.connected (reg : Register) (rid : Nat) : World := ⟨reg, ⟨rid, []⟩⟩

/-- `terminate`: the ids of all up peers. -/
def terminateIds (w : World) : List Nat := w.rt.peers.map (·.2)

/-- The connection-end epilogue. -/
def disconnectIds (w : World) : List Nat := w.reg.idsForParent w.rt.id

end Rotonda.Session
