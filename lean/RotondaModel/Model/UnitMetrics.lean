import RotondaModel.Model.MqttConn
import RotondaModel.Model.ConnMetrics
import RotondaModel.Generated.UnitMetrics
/-!
# UnitMetrics — the metric sources no other area renders (extends C15; Prometheus clause of C19)

Hand transliteration of

* `src/targets/mqtt/status_reporter.rs` — every store / `fetch_add` of `MqttStatusReporter` on `MqttMetrics`
  (`MEv`, `MqttRec.apply`);
* `src/targets/mqtt/metrics.rs` — `MqttMetrics::topic_metrics` (a `FrimMap`: insertion order), `Source::append`
  (`mqttCalls`: five `append_simple`, then one `append_labelled_metric` per topic), `GraphStatus::status_text` / `okay`;
* `src/targets/mqtt/connection.rs:209-292` / `target.rs:323-393` — *which* reporter calls the run loop and the
  event-loop task make: a function (`scan`) of the event history `MqttConn.St.log` of the MqttConn model (imported,
  not edited) plus the table of messages handed in;
* `src/units/filter/status_reporter.rs` / `metrics.rs` — `message_filtered`, `RotoFilterMetrics::append`;
* `src/comms.rs:1139-1195` — `GateMetrics::append`;
* `src/metrics.rs:78-113` — `Collection::register` (sorted by component name, stable) and `Collection::assemble`.

The exposition text is the one of `Model/ConnMetrics.lean` (`Call`, `renderV`, `parse`), imported unchanged: a source
is modelled as the list of `Target::append` calls its `Source::append` makes.

Counters are `usize` atomics in the code and `Nat` here (no wrap-around is modelled: 2^64 events).
-/
namespace Rotonda.UnitMetrics

open Rotonda.ConnMetrics (Str Metric Call Rec PType MUnit)
open Rotonda.MqttConn (Obs QMsg St Step Inp Variants Cfg)

/-! ## Text helpers -/

def digits (n : Nat) : Str := Nat.toDigits 10 n

def simple (m : Metric) (unit : Str) (v : Str) : Call := ⟨m, some unit, [⟨none, none, v⟩]⟩

/-- `util::append_labelled_metric`: one `Target::append` with one `label_value`. -/
def labelled (m : Metric) (unit : Str) (label value : Str) (v : Str) : Call :=
  ⟨m, some unit, [⟨some [(label, value)], none, v⟩]⟩

/-! ## mqtt-out: the status reporter and the metric record -/

/-- The calls on `MqttStatusReporter` that touch `MqttMetrics` (`connecting`, `publishing` only log). -/
inductive MEv where
  | connected
  | disconnected
  | connErr
  | reconnecting
  | publishOk (topic : Str)
  | publishErr
  | inflight (n : Nat)
  deriving DecidableEq, Repr

/-- `MqttMetrics`. `topics` is the `FrimMap` in insertion order. -/
structure MqttRec where
  up : Bool
  lost : Nat
  errs : Nat
  pubErrs : Nat
  inflight : Nat
  topics : List (Str × Nat)
  deriving DecidableEq, Repr

def MqttRec.zero : MqttRec := ⟨false, 0, 0, 0, 0, []⟩

/-- `topic_metrics(topic)` (`entry().or_insert_with(Default)`: appended when new) followed by `fetch_add(1)`. -/
def bumpTopic (t : Str) : List (Str × Nat) → List (Str × Nat)
  | [] => [(t, 1)]
  | (k, n) :: r => if k = t then (k, n + 1) :: r else (k, n) :: bumpTopic t r

def MqttRec.apply (r : MqttRec) : MEv → MqttRec
  | .connected => { r with up := true }
  | .disconnected => { r with up := false }
  | .connErr => { r with errs := r.errs + 1 }
  | .reconnecting => { r with up := false, lost := r.lost + 1 }
  | .publishOk t => { r with topics := bumpTopic t r.topics }
  | .publishErr => { r with pubErrs := r.pubErrs + 1 }
  | .inflight n => { r with inflight := n }

def MqttRec.applyAll (r : MqttRec) (h : List MEv) : MqttRec := h.foldl MqttRec.apply r

def topicCount (t : Str) (ts : List (Str × Nat)) : Nat :=
  match ts.find? (fun p => p.1 = t) with
  | some p => p.2
  | none => 0

/-- The "published" figure of `status_text`: the fold over the topic table. -/
def MqttRec.published (r : MqttRec) : Nat := (r.topics.map (·.2)).sum

/-- `GraphStatus::status_text`. -/
def MqttRec.statusText (r : MqttRec) : Str :=
  match r.up with
  | true => "in-flight: ".toList ++ digits r.inflight ++ "\npublished: ".toList ++ digits r.published
              ++ "\nerrors: ".toList ++ digits r.pubErrs
  | false => "N/A".toList

/-- `GraphStatus::okay`. -/
def MqttRec.okay (r : MqttRec) : Option Bool := some r.up

/-! ### history-level specifications (what each exported value should be) -/

def isPublishOk : MEv → Bool | .publishOk _ => true | _ => false

/-- The last write to `connection_established_state`. -/
def lastUp (b : Bool) : List MEv → Bool
  | [] => b
  | .connected :: h => lastUp true h
  | .disconnected :: h => lastUp false h
  | .reconnecting :: h => lastUp false h
  | _ :: h => lastUp b h

/-- The last `inflight_update`. -/
def lastInflight (n : Nat) : List MEv → Nat
  | [] => n
  | .inflight k :: h => lastInflight k h
  | _ :: h => lastInflight n h

/-! ### the metric constants of `MqttMetrics` -/

def mEstablished : Metric :=
  ⟨"mqtt_target_connection_established".toList,
   "the state of the connection to the MQTT broker: 0=down, 1=up".toList, .gauge, .state⟩
def mLost : Metric :=
  ⟨"mqtt_target_connection_lost_count".toList,
   "the number of times the connection to the MQTT broker was lost".toList, .counter, .total⟩
def mConnErr : Metric :=
  ⟨"mqtt_target_connection_error_count".toList,
   "the number of times an error occurred with the connection to the MQTT broker".toList, .counter, .total⟩
def mPublish : Metric :=
  ⟨"mqtt_target_publish_count".toList,
   "the number of messages requested for publication to the MQTT broker per topic".toList, .counter, .total⟩
def mPubErr : Metric :=
  ⟨"mqtt_target_publish_error_count".toList,
   "the number of messages that could not be queued for publication".toList, .counter, .total⟩
def mInflight : Metric :=
  ⟨"mqtt_target_in_flight_count".toList,
   "the number of messages requested for publication but not yet sent to the MQTT broker per topic".toList,
   .gauge, .total⟩

def topicLabel : Str := "topic".toList

/-- `impl metrics::Source for MqttMetrics`: the `Target::append` calls, in order. -/
def mqttCalls (unit : Str) (r : MqttRec) : List Call :=
  [ simple mEstablished unit (if r.up then ['1'] else ['0']),
    simple mLost unit (digits r.lost),
    simple mConnErr unit (digits r.errs),
    simple mInflight unit (digits r.inflight),
    simple mPubErr unit (digits r.pubErrs) ] ++
  r.topics.map (fun p => labelled mPublish unit topicLabel p.1 (digits p.2))

/-! ## mqtt-out: which reporter calls a run makes

The event history is `MqttConn.St.log`. Two things are not in it and are threaded here:

* the *library's in-flight figure* the event loop reports (`EventLoop::inflight`). The engine's scripted library
  counts, per client, the QoS 1/2 publishes it accepted, minus one per `PubAck` (`Ev.other`), and forgets everything
  on a connection error / refusal (rumqttc's `clean()`); a new client starts at 0. The target only *samples* that
  figure: `inflight_update(event_loop.inflight())` after every return of `poll` (`connection.rs:273`);
* the topic of a message taken from the queue while there was no client (`Obs.void` carries the number only): the
  table `tbl` of all messages handed in.
-/

structure Scan where
  /-- the library's in-flight figure of the client in use -/
  lib : Nat
  /-- `conn_count` of the event-loop task in use -/
  cc : Nat
  /-- the publish the run loop is blocked in, with the qos it was called with -/
  pend : Option (QMsg × Nat)
  /-- reporter calls so far, oldest first -/
  out : List MEv
  deriving DecidableEq, Repr

def Scan.zero : Scan := ⟨0, 0, none, []⟩

/-- Topic templates (`Cfg.tmpl`): the first three are MqttConn's, the others put a quote, a backslash, a newline,
    a brace and a forged label into the topic (C19: what reaches the `topic` label). -/
def templates : List Str :=
  [ "rotonda/{id}".toList, "a/{id}/b".toList, "fixed".toList,
    "q\"{id}\\".toList, "nl\n{id}".toList, "x\",evil=\"{id}".toList, "}{ {id}\\n".toList ]

def topicText (m : QMsg) : Str :=
  Rotonda.OutStream.fillTemplate ('t' :: digits m.topic) (templates.getD m.tmpl [])

def topicOf (tbl : List QMsg) (id : Nat) : Str :=
  match tbl.find? (fun m => m.id = id) with
  | some m => topicText m
  | none => []

def qosCounts (qos : Nat) : Nat := if qos = 0 then 0 else 1

def scanObs (tbl : List QMsg) (s : Scan) : Obs → Scan
  | .publish _ m qos .ok => { s with lib := s.lib + qosCounts qos, out := s.out ++ [.publishOk (topicText m)] }
  | .publish _ _ _ .err => { s with out := s.out ++ [.publishErr] }
  | .publish _ m qos .pending => { s with pend := some (m, qos) }
  | .done id =>
    -- a pending publish returned `Ok`; without one on record (never in a run: `MqttConn.Inv.pend`) the table answers
    let tq : Str × Nat := match s.pend with
      | some (m, qos) => (topicText m, qosCounts qos)
      | none => (topicOf tbl id, 0)
    { s with lib := s.lib + tq.2, pend := none, out := s.out ++ [.publishOk tq.1] }
  | .cancel _ => { s with pend := none, out := s.out ++ [.publishErr] }
  | .disconnect _ => { s with out := s.out ++ [.disconnected] }
  | .void id => { s with out := s.out ++ [.publishOk (topicOf tbl id)] }
  | .opened _ _ => { s with lib := 0, cc := 0 }
  | .enter _ => s
  | .polled _ .accept => { s with cc := s.cc + 1, out := s.out ++ [.connected, .inflight s.lib] }
  | .polled _ .other => { s with lib := s.lib - 1, out := s.out ++ [.inflight (s.lib - 1)] }
  | .polled _ _ =>
    { s with lib := 0,
             out := s.out ++ [.connErr, .inflight 0] ++ (if s.cc > 0 then [.reconnecting] else []) }

def scan (tbl : List QMsg) (log : List Obs) : Scan := log.foldl (scanObs tbl) Scan.zero

/-- The metric record after the event history `log`. -/
def mqttRecOf (tbl : List QMsg) (log : List Obs) : MqttRec := MqttRec.zero.applyAll (scan tbl log).out

/-! ### the table of messages handed in -/

/-- `direct_update` in a burst: message numbers from `n`, the template held when the burst is delivered. -/
def burstMsgs (tmpl : Nat) : Nat → List Inp → List QMsg
  | _, [] => []
  | n, .msg t :: r => ⟨n, t, tmpl⟩ :: burstMsgs tmpl (n + 1) r
  | n, .cmd _ :: r => burstMsgs tmpl n r

def newMsgs (st : St) : Step → List QMsg
  | .burst is => if st.term then [] else burstMsgs st.cur.tmpl st.nextId is
  | _ => []

/-- The MqttConn state with the table of everything handed in. -/
structure MSt where
  st : St
  tbl : List QMsg
  deriving DecidableEq, Repr

def MSt.init (cfgs : List Cfg) : MSt := ⟨MqttConn.init cfgs, []⟩

def MSt.step (v : Variants) (m : MSt) (s : Step) : MSt := ⟨MqttConn.step v m.st s, m.tbl ++ newMsgs m.st s⟩

def MSt.run (v : Variants) (cfgs : List Cfg) (steps : List Step) : MSt := steps.foldl (MSt.step v) (MSt.init cfgs)

def MSt.metrics (m : MSt) : MqttRec := mqttRecOf m.tbl m.st.log

/-- Specification of the `established` gauge on the event history: the last of ConnAck(Success) (up), connection
    error / refusal (down), `disconnect` (down). -/
def brokerUp (b : Bool) : List Obs → Bool
  | [] => b
  | .polled _ .accept :: l => brokerUp true l
  | .polled _ .other :: l => brokerUp b l
  | .polled _ _ :: l => brokerUp false l
  | .disconnect _ :: l => brokerUp false l
  | _ :: l => brokerUp b l

/-- Well-formedness of an event history for the `established` theorem: a client starts polling (`opened`) only
    while the gauge says down (at start-up, or after the previous client's `disconnect`). The driver evaluates it on
    every run; the Props file proves the gauge exact under it. -/
def openedWhileDown (b : Bool) : List Obs → Bool
  | [] => true
  | .opened _ _ :: l => !b && openedWhileDown b l
  | .polled _ .accept :: l => openedWhileDown true l
  | .polled _ .other :: l => openedWhileDown b l
  | .polled _ _ :: l => openedWhileDown false l
  | .disconnect _ :: l => openedWhileDown false l
  | _ :: l => openedWhileDown b l

/-! ### the repair of the lost-connection counter (`lostFix`)

`reconnecting()` is called after every connection error / refusal of an event loop that has been connected at some
time (`conn_count > 0`), also when the connection is already down (a failed re-connect): every failed attempt of an
outage counts as another lost connection. Repaired: a loss is counted only when the gauge said up. -/

def MqttRec.applyV (fix : Bool) (r : MqttRec) : MEv → MqttRec
  | .reconnecting =>
    if fix && !r.up then { r with up := false } else { r with up := false, lost := r.lost + 1 }
  | e => r.apply e

def MqttRec.applyAllV (fix : Bool) (r : MqttRec) (h : List MEv) : MqttRec := h.foldl (MqttRec.applyV fix) r

def mqttRecOfV (fix : Bool) (tbl : List QMsg) (log : List Obs) : MqttRec :=
  MqttRec.zero.applyAllV fix (scan tbl log).out

/-- Specification of the lost-connection counter on the event history: a connection error / refusal while the
    connection is established. -/
def losses (b : Bool) : List Obs → Nat
  | [] => 0
  | .polled _ .accept :: l => losses true l
  | .polled _ .other :: l => losses b l
  | .polled _ _ :: l => (if b then 1 else 0) + losses false l
  | .disconnect _ :: l => losses false l
  | _ :: l => losses b l

/-- Number of connection errors / refusals the event loops saw. -/
def errorPolls : List Obs → Nat
  | [] => 0
  | .polled _ .accept :: l => errorPolls l
  | .polled _ .other :: l => errorPolls l
  | .polled _ _ :: l => errorPolls l + 1
  | _ :: l => errorPolls l

/-! ## filter unit: `RotoFilterStatusReporter::message_filtered`, `RotoFilterMetrics::append` -/

/-- `RotoFilterMetrics`: the per-ingress table (a `FrimMap`, insertion order) and the unit-wide counter. -/
structure FilterRec where
  routers : List (Nat × Nat)
  total : Nat
  deriving DecidableEq, Repr

def FilterRec.zero : FilterRec := ⟨[], 0⟩

def bumpRouter (i : Nat) : List (Nat × Nat) → List (Nat × Nat)
  | [] => [(i, 1)]
  | (k, n) :: r => if k = i then (k, n + 1) :: r else (k, n) :: bumpRouter i r

/-- `message_filtered(ingress_id)`. -/
def FilterRec.filtered (r : FilterRec) (i : Nat) : FilterRec := ⟨bumpRouter i r.routers, r.total + 1⟩

def FilterRec.applyAll (r : FilterRec) (h : List Nat) : FilterRec := h.foldl FilterRec.filtered r

def routerCount (i : Nat) (rs : List (Nat × Nat)) : Nat :=
  match rs.find? (fun p => p.1 = i) with
  | some p => p.2
  | none => 0

/-- `GateMetrics` as far as it is rendered: updates, dropped updates, `Some(set size)` once an update happened. -/
structure GateRec where
  updates : Nat
  dropped : Nat
  setSize : Nat
  updated : Bool
  deriving DecidableEq, Repr

def GateRec.zero : GateRec := ⟨0, 0, 0, false⟩

/-- `GateMetrics::update` for an update that is not `Bulk` and reaches no link (`sent` = some link took it). -/
def GateRec.update (g : GateRec) (sent : Bool) : GateRec :=
  { g with updates := g.updates + 1, dropped := if sent then g.dropped else g.dropped + 1, updated := true }

def mGateUpdates : Metric := ⟨"num_updates".toList, "the number of updates sent through the gate".toList, .counter, .total⟩
def mGateDropped : Metric :=
  ⟨"num_dropped_updates".toList, "the number of updates that could not be sent through the gate".toList, .counter, .total⟩
def mGateSetSize : Metric :=
  ⟨"update_set_size".toList, "the number of set items in the last update".toList, .gauge, .total⟩
def mGateWhen : Metric := ⟨"last_update".toList, "the date and time of the last update".toList, .text, .info⟩
def mGateAgo : Metric :=
  ⟨"since_last_update".toList, "the number of seconds since the last update".toList, .gauge, .second⟩

/-- `impl metrics::Source for GateMetrics`. `ago` is the printed number of seconds since the last update (wall
    clock: an input). The `Text` metric is a call the Prometheus format drops. -/
def gateCalls (unit : Str) (g : GateRec) (ago : Str) : List Call :=
  [ simple mGateUpdates unit (digits g.updates), simple mGateDropped unit (digits g.dropped) ] ++
  (match g.updated with
   | true => [ simple mGateWhen unit ['T'], simple mGateAgo unit ago, simple mGateSetSize unit (digits g.setSize) ]
   | false => [ simple mGateWhen unit "N/A".toList, simple mGateAgo unit ['-', '1'] ])

def mFiltered : Metric :=
  ⟨"roto_filter_num_filtered_messages".toList, "the number of messages filtered out by this unit".toList, .counter, .total⟩

def routerLabel : Str := "router".toList

/-- `impl metrics::Source for RotoFilterMetrics`: the gate's metrics, one labelled value per ingress, the total. -/
def filterCalls (unit : Str) (g : GateRec) (ago : Str) (r : FilterRec) : List Call :=
  gateCalls unit g ago ++
  r.routers.map (fun p => labelled mFiltered unit routerLabel (digits p.1) (digits p.2)) ++
  [ simple mFiltered unit (digits r.total) ]

/-! ## every metric family of the library (extracted table `Generated/UnitMetrics.lean`) -/

open Rotonda.Generated.UnitMetrics (Entry table tokioAppends)

def ptypeOf (s : String) : Option PType :=
  match s.toList with
  | ['C', 'o', 'u', 'n', 't', 'e', 'r'] => some .counter
  | ['G', 'a', 'u', 'g', 'e'] => some .gauge
  | ['H', 'i', 's', 't', 'o', 'g', 'r', 'a', 'm'] => some .histogram
  | ['S', 'u', 'm', 'm', 'a', 'r', 'y'] => some .summary
  | ['T', 'e', 'x', 't'] => some .text
  | _ => none

def munitOf (s : String) : Option MUnit :=
  match s.toList with
  | ['S', 'e', 'c', 'o', 'n', 'd'] => some .second
  | ['M', 'i', 'l', 'l', 'i', 's', 'e', 'c', 'o', 'n', 'd'] => some .millisecond
  | ['M', 'i', 'c', 'r', 'o', 's', 'e', 'c', 'o', 'n', 'd'] => some .microsecond
  | ['B', 'y', 't', 'e'] => some .byte
  | ['T', 'o', 't', 'a', 'l'] => some .total
  | ['S', 't', 'a', 't', 'e'] => some .state
  | ['I', 'n', 'f', 'o'] => some .info
  | _ => none

def entryMetric (e : Entry) : Option Metric :=
  match ptypeOf e.mtype, munitOf e.unit with
  | some t, some u => some ⟨e.name, e.help, t, u⟩
  | _, _ => none

/-- Every `Metric::new` of the library as a `Metric` of the exposition model. -/
def tableMetrics : List Metric := table.filterMap entryMetric

/-- The constants `TokioTaskMetrics::append` names, in call order, as `Metric`s (looked up in the table by the name of
    the constant, among the entries of `src/tokio.rs`). -/
def tokioMetrics : List Metric :=
  tokioAppends.filterMap (fun p =>
    (table.find? (fun e => e.const.toList == p.1.toList && e.file.toList == "src/tokio.rs".toList)).bind entryMetric)

/-- `impl metrics::Source for TokioTaskMetrics` while no task is instrumented (`instrument` has no caller): every
    value is 0. -/
def tokioCalls (unit : Str) : List Call := tokioMetrics.map (fun m => simple m unit ['0'])

/-! ## the whole process: `metrics::Collection` -/

/-- A registered source: the component name it was registered under and the calls its `append` makes for a unit
    name (its current state is inside the closure). -/
structure Source where
  name : Str
  calls : Str → List Call

/-- `Collection::register`: push, then `sort_by` name (a stable sort: equal names keep registration order).
    Insertion into the sorted list after the last entry whose name is not greater. -/
def strLe : Str → Str → Bool
  | [], _ => true
  | _ :: _, [] => false
  | a :: as, b :: bs => if a.toNat < b.toNat then true else if b.toNat < a.toNat then false else strLe as bs

def register (s : Source) : List Source → List Source
  | [] => [s]
  | x :: xs => if strLe x.name s.name then x :: register s xs else s :: x :: xs

def registerAll (ss : List Source) : List Source := ss.foldl (fun acc s => register s acc) []

def mAssemble : Metric :=
  ⟨"metric_assemble_duration".toList, "the time taken in milliseconds to assemble the last metric snapshot".toList,
   .gauge, .millisecond⟩

/-- `Collection::assemble`: every live source in the collection's order, then the assemble duration without a unit
    name (`ms`: wall clock, an input). -/
def assembleCalls (coll : List Source) (ms : Str) : List Call :=
  coll.flatMap (fun s => s.calls s.name) ++ [⟨mAssemble, none, [⟨none, none, ms⟩]⟩]

/-! ## a checksum of the text (the driver and the engine print it instead of the text) -/

/-- FNV-1a, 64 bit, over the UTF-8 bytes. -/
def fnv1a (s : Str) : UInt64 :=
  s.foldl (fun h c => (String.utf8EncodeChar c).foldl (fun h b => (h ^^^ b.toUInt64) * 1099511628211) h)
    14695981039346656037

end Rotonda.UnitMetrics
