/-!
# RIB HTTP query API (C11) — executable model

Transliteration of
* `src/units/rib_unit/http/request.rs` (`handle_prefix_query`, `parse_include_param`,
  `parse_details_param`, `parse_filter_params`, `parse_sort_params`, `extract_filter_kind`),
* `src/units/rib_unit/http/response.rs` (`mk_json_response`, `include_item_in_results`,
  `match_as_path`, `match_community`, `match_peer_as`),
* `src/units/rib_unit/http/types.rs` (`Filters`, `FilterOp`, `FilterKind`),
* `src/http.rs` (`get_param`, `get_all_params`, `MatchedParam::parse`, the `used` marks),
* `src/units/rib_unit/rib.rs` (`Rib::match_prefix`: unicast first, multicast only if the
  unicast answer is completely empty),
on top of an **assumed contract** of the rotonda-store dependency (`Store.matchPrefix`).

Query-side vocabulary (`Prefix`, `covers`, records) is defined here because the shared
`Model/Rib.lean` did not exist when this was written; it follows DESIGN.md §5.

Variants (`Variant`, `true` = repaired / contract, `false` = the code as it is today):
* `community` — `match_community` asks the attribute map for `Vec<Community>`, a type whose
  `FromAttribute::attribute_type()` is `None`, so it never matches;
* `lesszero`  — the store's less-specifics iterator stops before length 0, so a stored default
  route is never reported among the less-specifics;
* `mcast`     — `Rib::match_prefix` hides the multicast store unless the unicast answer is empty;
* `more`      — the store's more-specifics iterator returns wrong prefixes; under `more = false`
  the model does not recompute the set but takes the dependency's answer (`obs`) as an input;
* `lessstop`  — the store's less-specifics iterator walks from the longest covering prefix to the
  shortest and **ends** at the first prefix slot that holds no record (`return … else None` inside
  `LessSpecificPrefixIter::next`); such a slot is left behind by a per-prefix withdrawal of a
  prefix the store never held (`mark_mui_as_withdrawn_for_prefix` creates it). Found through the
  history stream of the engine (builder U, `notes/RibBridge.md`).

Strings are `List Char` so that `decide` can evaluate the model in the kernel.
-/
namespace Rotonda.RibQuery

abbrev Str := List Char

/-! ## Prefixes and stored records -/

inductive Fam | v4 | v6
  deriving DecidableEq, Repr

structure Prefix where
  fam : Fam
  len : Nat
  /-- the top `len` bits as a number -/
  bits : Nat
  deriving DecidableEq, Repr

/-- `p` covers `q`: same family, not longer, and `q`'s top `p.len` bits are `p`'s. -/
def covers (p q : Prefix) : Bool :=
  p.fam == q.fam && decide (p.len ≤ q.len) && (q.bits >>> (q.len - p.len) == p.bits)

inductive Hop
  | asn (n : Nat)
  /-- an AS_SET (or confederation) segment: never equal to a wanted ASN -/
  | other
  deriving DecidableEq, Repr

inductive Community
  | std (asn tag : Nat)
  | large (g l1 l2 : Nat)
  deriving DecidableEq, Repr

inductive Status | active | withdrawn
  deriving DecidableEq, Repr

/-- Opaque attribute summary of a stored route. `id` identifies the blob. -/
structure Attrs where
  id : Nat
  asPath : Option (List Hop)
  communities : List Community
  deriving DecidableEq, Repr

/-- One stored record, keyed by (prefix, ingress id) inside a store. -/
structure Rec where
  pfx : Prefix
  mui : Nat
  status : Status
  attrs : Attrs
  deriving DecidableEq, Repr

/-- One prefix store as rotonda uses it (ASSUMED CONTRACT of rotonda-store): the records and
the ingress ids marked withdrawn store-wide (`mark_mui_as_withdrawn`). -/
structure Store where
  recs : List Rec
  wd : List Nat
  /-- prefixes that have a slot in the store but no record: left behind by a per-prefix
  withdrawal (`mark_mui_as_withdrawn_for_prefix`) of a prefix the store never held -/
  empty : List Prefix := []
  deriving Repr

/-- What a query reports for a record: the status is rewritten to withdrawn when the ingress
id is withdrawn store-wide (`as_records_with_rewritten_status`, `include_withdrawn = true`). -/
def Store.item (s : Store) (r : Rec) : Rec :=
  if s.wd.contains r.mui then { r with status := .withdrawn } else r

def Store.items (s : Store) : List Rec := s.recs.map s.item

structure Rib where
  unicast : Store
  multicast : Store
  deriving Repr

/-- Everything the RIB stores, as reported entries. -/
def Rib.stored (rib : Rib) : List Rec := rib.unicast.items ++ rib.multicast.items

structure Variant where
  community : Bool
  lesszero : Bool
  mcast : Bool
  more : Bool
  lessstop : Bool
  deriving DecidableEq, Repr

def asWritten : Variant := ⟨false, false, false, false, false⟩
def repaired : Variant := ⟨true, true, true, true, true⟩

/-! ## The store's answer (`match_prefix_by_store_direct`, `ExactMatch`, `include_withdrawn`) -/

structure QueryResult where
  pfx : Option Prefix
  pfxMeta : List Rec
  less : Option (List Rec)
  more : Option (List Rec)
  deriving Repr

def strictlyCovers (p q : Prefix) : Bool := p != q && covers p q

/-- The less-specifics walk towards `r` is cut short: a record-less slot that strictly covers the
queried prefix lies between the queried prefix and `r.pfx` (it is longer than `r.pfx`). -/
def Store.cutShort (s : Store) (q : Prefix) (r : Rec) : Bool :=
  s.empty.any fun e => strictlyCovers e q && decide (r.pfx.len < e.len)

/-- `obs`: the prefixes the real store reported as more-specifics (used iff `v.more = false`). -/
def Store.matchPrefix (v : Variant) (s : Store) (q : Prefix) (incLess incMore : Bool)
    (obs : List Prefix) : QueryResult :=
  let exact := s.items.filter (fun r => r.pfx == q)
  { pfx := if exact.isEmpty then none else some q
    pfxMeta := exact
    less :=
      if incLess then
        some (s.items.filter fun r => strictlyCovers r.pfx q && (v.lesszero || r.pfx.len != 0)
          && (v.lessstop || !s.cutShort q r))
      else none
    more :=
      if incMore then
        some (if v.more then s.items.filter fun r => strictlyCovers q r.pfx
              else obs.flatMap fun p => s.items.filter fun r => r.pfx == p)
      else none }

/-- `rib.rs:352-354`. -/
def QueryResult.nothing (r : QueryResult) : Bool :=
  r.pfxMeta.isEmpty && r.less.isNone && r.more.isNone

def optAppend : Option (List Rec) → Option (List Rec) → Option (List Rec)
  | some a, some b => some (a ++ b)
  | some a, none => some a
  | none, b => b

/-- `Rib::match_prefix` (`rib.rs:342-370`). The repaired variant asks both stores and
concatenates. -/
def Rib.matchPrefix (v : Variant) (rib : Rib) (q : Prefix) (incLess incMore : Bool)
    (obsU obsM : List Prefix) : QueryResult :=
  let u := rib.unicast.matchPrefix v q incLess incMore obsU
  let m := rib.multicast.matchPrefix v q incLess incMore obsM
  if v.mcast then
    { pfx := if u.pfx.isSome then u.pfx else m.pfx
      pfxMeta := u.pfxMeta ++ m.pfxMeta
      less := optAppend u.less m.less
      more := optAppend u.more m.more }
  else if u.nothing then
    if !m.nothing then m else u
  else u

/-! ## Query parameters (`src/http.rs`) -/

structure Param where
  name : Str
  value : Str
  deriving DecidableEq, Repr

/-- Split at every character satisfying `p` (like `str::split`): always at least one piece. -/
def splitAt (p : Char → Bool) : Str → List Str
  | [] => [[]]
  | c :: cs =>
    match splitAt p cs with
    | [] => [[]]   -- unreachable
    | w :: ws => if p c then [] :: w :: ws else (c :: w) :: ws

def splitComma (s : Str) : List Str := splitAt (· == ',') s

/-- `MatchedParam::parse`: `name.split(['[', ']'])`, first two pieces. `none` = no match,
`some none` = `Exact`, `some (some family)` = `Family`. -/
def matchName (needle : Str) (name : Str) : Option (Option Str) :=
  match splitAt (fun c => c == '[' || c == ']') name with
  | [k] => if k == needle then some none else none
  | k :: fam :: _ => if k == needle then some (some fam) else none
  | [] => none

/-- Index of the first parameter matching `needle` (`get_param`; it is the one marked used). -/
def firstIdx (needle : Str) : List Param → Nat → Option (Nat × Option Str × Str)
  | [], _ => none
  | p :: ps, i =>
    match matchName needle p.name with
    | some fam => some (i, fam, p.value)
    | none => firstIdx needle ps (i + 1)

/-- All parameters matching `needle` (`get_all_params`; all of them are marked used). -/
def allIdx (needle : Str) : List Param → Nat → List (Nat × Option Str × Str)
  | [], _ => []
  | p :: ps, i =>
    match matchName needle p.name with
    | some fam => (i, fam, p.value) :: allIdx needle ps (i + 1)
    | none => allIdx needle ps (i + 1)

/-! ## Value parsers -/

def digitVal (c : Char) : Option Nat :=
  if '0' ≤ c ∧ c ≤ '9' then some (c.toNat - '0'.toNat) else none

def parseDigits : Str → Nat → Option Nat
  | [], acc => some acc
  | c :: cs, acc =>
    match digitVal c with
    | some d => parseDigits cs (acc * 10 + d)
    | none => none

/-- Rust's `uN::from_str`: optional `+`, at least one decimal digit, value below `bound`. -/
def parseUnsigned (bound : Nat) (s : Str) : Option Nat :=
  let body := match s with
    | '+' :: rest => rest
    | _ => s
  if body.isEmpty then none else
  match parseDigits body 0 with
  | some n => if n < bound then some n else none
  | none => none

/-- `inetnum::asn::Asn::from_str`: strip a case-insensitive `AS` when longer than 2, then `u32`. -/
def parseAsn (s : Str) : Option Nat :=
  let body := match s with
    | a :: b :: c :: rest =>
      if (a == 'a' || a == 'A') && (b == 's' || b == 'S') then c :: rest else s
    | _ => s
  parseUnsigned (2 ^ 32) body

/-- The part of `routecore`'s `Community::from_str` the model covers (assumed, sampled):
`<u16>:<u16>` is a standard community, `<u32>:<u32>:<u32>` a large one, anything else the
generator produces is rejected. Well-known names, hex and extended forms are not modelled. -/
def parseCommunity (s : Str) : Option Community :=
  match splitAt (· == ':') s with
  | [a, t] =>
    match parseUnsigned (2 ^ 16) a, parseUnsigned (2 ^ 16) t with
    | some a, some t => some (.std a t)
    | _, _ => none
  | [g, l1, l2] =>
    match parseUnsigned (2 ^ 32) g, parseUnsigned (2 ^ 32) l1, parseUnsigned (2 ^ 32) l2 with
    | some g, some l1, some l2 => some (.large g l1 l2)
    | _, _, _ => none
  | _ => none

/-! ## Request parsing (`request.rs`) -/

inductive FilterKind
  | asPath (want : List Nat)
  | community (c : Community)
  | peerAs (asn : Nat)
  deriving DecidableEq, Repr

/-- `types.rs::Filters` (`all = false` is `FilterOp::Any`, the default). -/
structure Filters where
  all : Bool
  selects : List FilterKind
  discards : List FilterKind
  deriving DecidableEq, Repr

structure Limits where
  v4 : Nat
  v6 : Nat
  deriving DecidableEq, Repr

def Limits.shortest (l : Limits) (p : Prefix) : Nat :=
  match p.fam with
  | .v4 => l.v4
  | .v6 => l.v6

inductive ErrKind
  | badPrefix | badInclude | limit | badDetails | badFilterFamily | badFilterValue
  | badFilterOp | unknownParams | badFormat
  deriving DecidableEq, Repr

structure Includes where
  less : Bool
  more : Bool
  deriving DecidableEq, Repr

/-- `parse_include_param`, the loop over the comma separated values. -/
def parseIncludeItems : List Str → Includes → Except ErrKind Includes
  | [], inc => .ok inc
  | x :: xs, inc =>
    if x == "lessSpecifics".toList then parseIncludeItems xs { inc with less := true }
    else if x == "moreSpecifics".toList then parseIncludeItems xs { inc with more := true }
    else .error .badInclude

def parseInclude (ps : List Param) (lim : Limits) (q : Prefix) : Except ErrKind Includes :=
  match
    (match firstIdx "include".toList ps 0 with
     | some (_, _, v) => parseIncludeItems (splitComma v) ⟨false, false⟩
     | none => .ok ⟨false, false⟩) with
  | .error e => .error e
  | .ok inc =>
    if inc.more && decide (q.len < lim.shortest q) then .error .limit else .ok inc

def parseDetails (ps : List Param) : Except ErrKind Unit :=
  match firstIdx "details".toList ps 0 with
  | some (_, _, v) =>
    if (splitComma v).all (· == "communities".toList) then .ok () else .error .badDetails
  | none => .ok ()

def parseAsnList : List Str → Option (List Nat)
  | [] => some []
  | x :: xs =>
    match parseAsn x, parseAsnList xs with
    | some a, some as => some (a :: as)
    | _, _ => none

/-- `extract_filter_kind`. -/
def extractFilterKind : Option Str × Str → Except ErrKind FilterKind
  | (some fam, v) =>
    if fam == "as_path".toList then
      match parseAsnList (splitComma v) with
      | some l => .ok (.asPath l)
      | none => .error .badFilterValue
    else if fam == "peer_as".toList then
      match parseAsn v with
      | some a => .ok (.peerAs a)
      | none => .error .badFilterValue
    else if fam == "community".toList then
      match parseCommunity v with
      | some c => .ok (.community c)
      | none => .error .badFilterValue
    else .error .badFilterFamily
  | (none, _) => .error .badFilterFamily

def extractAll : List (Nat × Option Str × Str) → Except ErrKind (List FilterKind)
  | [] => .ok []
  | (_, m) :: rest =>
    match extractFilterKind m with
    | .error e => .error e
    | .ok k =>
      match extractAll rest with
      | .error e => .error e
      | .ok ks => .ok (k :: ks)

def parseFilters (ps : List Param) : Except ErrKind Filters :=
  match extractAll (allIdx "select".toList ps 0) with
  | .error e => .error e
  | .ok selects =>
    match extractAll (allIdx "discard".toList ps 0) with
    | .error e => .error e
    | .ok discards =>
      match firstIdx "filter_op".toList ps 0 with
      | none => .ok ⟨false, selects, discards⟩
      | some (_, _, v) =>
        if v == "any".toList then .ok ⟨false, selects, discards⟩
        else if v == "all".toList then .ok ⟨true, selects, discards⟩
        else .error .badFilterOp

/-- The indices marked used by the time the unused-parameter check runs. -/
def usedIdx (ps : List Param) : List Nat :=
  let first (n : String) := match firstIdx n.toList ps 0 with
    | some (i, _, _) => [i]
    | none => []
  first "include" ++ first "details" ++ (allIdx "select".toList ps 0).map (·.1)
    ++ (allIdx "discard".toList ps 0).map (·.1) ++ first "filter_op" ++ first "sort" ++ first "format"

def unusedFrom (used : List Nat) : List Param → Nat → List Str
  | [], _ => []
  | p :: ps, i => if used.contains i then unusedFrom used ps (i + 1) else p.name :: unusedFrom used ps (i + 1)

inductive Format | json | dump | other
  deriving DecidableEq, Repr

structure Request where
  q : Prefix
  inc : Includes
  filters : Filters
  format : Format
  deriving DecidableEq, Repr

/-- The request as the API receives it: the path's prefix (`none` when `Prefix::from_str`
rejects the text) and the decoded query parameters in order. -/
structure Url where
  pfx : Option Prefix
  params : List Param
  deriving DecidableEq, Repr

/-- `handle_prefix_query` up to (not including) the store query, in the order of the code. -/
def parseRequest (lim : Limits) (url : Url) : Except ErrKind Request :=
  match url.pfx with
  | none => .error .badPrefix
  | some q =>
    match parseInclude url.params lim q with
    | .error e => .error e
    | .ok inc =>
      match parseDetails url.params with
      | .error e => .error e
      | .ok () =>
        match parseFilters url.params with
        | .error e => .error e
        | .ok filters =>
          -- parse_sort_params accepts anything
          let format := match firstIdx "format".toList url.params 0 with
            | none => Format.json
            | some (_, _, v) => if v == "dump".toList then .dump else .other
          if (unusedFrom (usedIdx url.params) url.params 0).isEmpty then
            .ok ⟨q, inc, filters, format⟩
          else .error .unknownParams

/-! ## Filtering (`response.rs`) -/

/-- The ingress register as the API sees it: `get(id)` and the `remote_asn` of the info. -/
abbrev Register := List (Nat × Option Nat)

def Register.get (reg : Register) (id : Nat) : Option (Option Nat) :=
  match reg.find? (fun e => e.1 == id) with
  | some e => some e.2
  | none => none

/-- `match_as_path`: hop by hop, only plain ASN hops can match, same length. -/
def matchHops : List Hop → List Nat → Bool
  | [], [] => true
  | .asn a :: hs, w :: ws => a == w && matchHops hs ws
  | _, _ => false

def matchAsPath (r : Rec) (want : List Nat) : Bool :=
  match r.attrs.asPath with
  | some hops => matchHops hops want
  | none => false

/-- `match_community`. As written it asks for an attribute type that does not exist. -/
def matchCommunity (v : Variant) (r : Rec) (c : Community) : Bool :=
  if v.community then r.attrs.communities.contains c else false

/-- `match_peer_as`: the `remote_asn` of the ingress info, `false` without info. -/
def matchPeerAs (reg : Register) (r : Rec) (asn : Nat) : Bool :=
  match reg.get r.mui with
  | some remote => remote == some asn
  | none => false

def matchesKind (v : Variant) (reg : Register) (r : Rec) : FilterKind → Bool
  | .asPath want => matchAsPath r want
  | .community c => matchCommunity v r c
  | .peerAs a => matchPeerAs reg r a

/-- `include_item_in_results`. -/
def includeItem (v : Variant) (reg : Register) (f : Filters) (r : Rec) : Bool :=
  let noSelects := f.selects.isEmpty
  let noDiscards := f.discards.isEmpty
  if noSelects && noDiscards then true
  else if f.all then
    (noSelects || f.selects.all (matchesKind v reg r)) && (noDiscards || !f.discards.all (matchesKind v reg r))
  else
    (noSelects || f.selects.any (matchesKind v reg r)) && (noDiscards || !f.discards.any (matchesKind v reg r))

/-! ## The response -/

inductive Resp
  | badRequest (kind : ErrKind)
  | dump
  | json (data : List Rec) (less more : Option (List Rec))
  deriving Repr

/-- `mk_json_response`: the three sections, each narrowed by the filters; a section of
`included` exists iff it was requested. -/
def mkJson (v : Variant) (reg : Register) (req : Request) (res : QueryResult) : Resp :=
  let keep := fun l : List Rec => l.filter (includeItem v reg req.filters)
  .json
    (match res.pfx with
     | some _ => keep res.pfxMeta
     | none => [])
    (if req.inc.less then some (keep (res.less.getD [])) else none)
    (if req.inc.more then some (keep (res.more.getD [])) else none)

/-- `PrefixesApi::handle_prefix_query` for a physical RIB. -/
def handle (v : Variant) (rib : Rib) (lim : Limits) (reg : Register) (url : Url)
    (obsU obsM : List Prefix) : Resp :=
  match parseRequest lim url with
  | .error e => .badRequest e
  | .ok req =>
    let res := rib.matchPrefix v req.q req.inc.less req.inc.more obsU obsM
    match req.format with
    | .json => mkJson v reg req res
    | .dump => .dump
    | .other => .badRequest .badFormat

/-- `url::form_urlencoded::parse` restricted to query strings without `%`-escapes:
split at `&`, skip empty pieces, name/value at the first `=`, `+` decodes to a space.
(Driver glue.) -/
def splitFirstEq : Str → Str × Str
  | [] => ([], [])
  | c :: cs => if c == '=' then ([], cs) else let r := splitFirstEq cs; (c :: r.1, r.2)

def parseQuery (s : Str) : List Param :=
  ((splitAt (· == '&') s).filter (fun w => !w.isEmpty)).map fun w =>
    let r := splitFirstEq w
    let plus := fun (t : Str) => t.map fun c => if c == '+' then ' ' else c
    ⟨plus r.1, plus r.2⟩

end Rotonda.RibQuery
