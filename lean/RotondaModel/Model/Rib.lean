/-
Shared RIB vocabulary: prefixes, the rotonda-store contract *as rotonda uses it*,
and the RIB unit's update dispatch (`src/units/rib_unit/{rib.rs,unit.rs}`).
Import-free (core Lean only) so that drivers link.  Used by C01, C02, C03 and meant
to be imported by C09 / C11 / C16.  See `notes/C01.md` for the reading guide.

What is transliterated, and from where
--------------------------------------
* `Store`  = one `rotonda_store::MultiThreadedStore<RotondaPaMap>` (0.4.1).
  - `recs`   : the per-prefix `MultiMap` (`HashMap<mui, MultiMapValue>`), flattened to an
               association list keyed by `(prefix, mui)` with *unique keys* (`Store.WF`).  The
               v4 and the v6 tree are merged here because a `Prefix` carries its family.
  - `known`  : prefixes for which a `StoredPrefix` slot exists, possibly with an empty record
               map: `mark_mui_as_withdrawn_for_prefix` on an unknown prefix returns
               `PrefixNotFound` **and creates the slot** (`non_recursive_retrieve_prefix_mut`
               calls `get_or_init`), so a second identical call succeeds.
  - `wd4/wd6`: the per-tree *global* withdrawn bitmap `withdrawn_muis_bmin` (one per family).
  - `insert` = `MultiMap::upsert_record`: replaces the `(prefix, mui)` record, else adds it.
  - `markWithdrawnForPrefix` = `mark_mui_as_withdrawn_for_prefix`: local status only, keeps
    the attributes, no-op without a record.
  - `markMuiWithdrawn` = `mark_mui_as_withdrawn_v4/_v6`; `markMuiWithdrawnAll` =
    `mark_mui_as_withdrawn` (v4 then v6).  `markMuiActive` exists in the store's API but
    **nothing in rotonda calls it** (that is C03's defect).
  - `matchExact` = `match_prefix_by_store_direct` restricted to the exact-match record set
    (`prefix_meta`): with `include_withdrawn` every record is returned and the status of a
    record whose mui is in the global bitmap is *rewritten* to `Withdrawn` (the `mui` filter is
    ignored on this path); without it, `mui = None` keeps records that are locally `Active`
    and not in the bitmap, `mui = Some m` keeps `m`'s record iff it is locally `Active`
    (`get_record_for_active_mui` does not consult the bitmap).
  Less/more-specific collection is *not* modelled here (C11 adds it; `covers` is provided).
  This is an ASSUMED CONTRACT of a dependency; the C01 engine samples it through the real store.

* `Rib`    = `rib.rs` `Rib { unicast, multicast }` (the `other_fams` map is never written).
  `insertPayload` = `RibUnitRunner::insert_payload` → `Rib::insert` → `insert_prefix`;
  `withdrawForIngress` = `Rib::withdraw_for_ingress`; `query` = `Rib::match_prefix`
  (unicast store first, the multicast store only when the unicast answer is empty).
* `Rib.apply` = `RibUnitRunner::process_update` with no roto filter (`unit.rs:672-754`).
  `Rib.step` adds the one panic site (`rib.rs:326`, an unsupported AFI/SAFI in `Withdraw`).
* `Ingest` = what all three ingress paths do with one BGP UPDATE (`machine.rs:831
  extract_route_monitoring_routes`, bgp `router_handler.rs:560 process_update`, mrt
  `unit.rs:198 process_message`): `explode_announcements` then `explode_withdrawals`
  (`roto_runtime/types.rs:717,736`; either failing aborts before anything is sent), emitted
  as ONE `Update::Bulk` = announcements (Active) followed by withdrawals (Withdrawn).

Attributes are an opaque interned id (`AttrId`) above the codec layer (C04 covers the codec).
-/
namespace Rotonda.Rib

/-! ### Prefixes -/

inductive Fam where
  | v4 | v6
  deriving DecidableEq, Repr

def Fam.width : Fam → Nat
  | .v4 => 32
  | .v6 => 128

/-- `bits` = the top `len` bits of the address, as a number. -/
structure Prefix where
  fam : Fam
  len : Nat
  bits : Nat
  deriving DecidableEq, Repr

def Prefix.wf (p : Prefix) : Bool := p.len ≤ p.fam.width && p.bits < 2 ^ p.len

/-- `p` covers `q`: same family, `p` is not longer, and `q` starts with `p`'s bits. -/
def covers (p q : Prefix) : Bool :=
  p.fam == q.fam && p.len ≤ q.len && (q.bits >>> (q.len - p.len)) == p.bits

abbrev Mui := Nat
abbrev AttrId := Nat

inductive Status where
  | active | withdrawn
  deriving DecidableEq, Repr

/-- One `PublicRecord` of a query answer (ltime is always 0 in rotonda, omitted). -/
structure Rec where
  mui : Mui
  status : Status
  attrs : AttrId
  deriving DecidableEq, Repr

/-! ### Association lists with unique keys (the model of a `HashMap`) -/

def lookup {κ β} [DecidableEq κ] (k : κ) : List (κ × β) → Option β
  | [] => none
  | e :: l => if e.1 = k then some e.2 else lookup k l

/-- `HashMap::insert`: replace in place, else add. -/
def upsert {κ β} [DecidableEq κ] (k : κ) (v : β) : List (κ × β) → List (κ × β)
  | [] => [(k, v)]
  | e :: l => if e.1 = k then (k, v) :: l else e :: upsert k v l

/-- `if let Some(x) = map.get_mut(k) { *x = f(x) }` -/
def modify {κ β} [DecidableEq κ] (k : κ) (f : β → β) : List (κ × β) → List (κ × β)
  | [] => []
  | e :: l => if e.1 = k then (e.1, f e.2) :: l else e :: modify k f l

/-- Set insertion on a list used as a set (a `RoaringBitmap`). -/
def setAdd (m : Nat) (s : List Nat) : List Nat := if m ∈ s then s else m :: s

/-! ### rotonda-store as rotonda uses it -/

abbrev Key := Prefix × Mui
abbrev Val := Status × AttrId

structure Store where
  recs : List (Key × Val) := []
  known : List Prefix := []
  wd4 : List Mui := []
  wd6 : List Mui := []
  deriving DecidableEq, Repr

def Store.empty : Store := {}

/-- The global withdrawn bitmap of the tree of family `f`. -/
def Store.wd (s : Store) : Fam → List Mui
  | .v4 => s.wd4
  | .v6 => s.wd6

/-- The stored (local) record of `(p, m)`. -/
def Store.get (s : Store) (p : Prefix) (m : Mui) : Option Val := lookup (p, m) s.recs

/-- `MultiThreadedStore::insert(prefix, PublicRecord::new(mui, 0, status, meta), None)`. -/
def Store.insert (s : Store) (p : Prefix) (m : Mui) (st : Status) (a : AttrId) : Store :=
  { s with recs := upsert (p, m) (st, a) s.recs
           known := if p ∈ s.known then s.known else p :: s.known }

def setWithdrawn (v : Val) : Val := (.withdrawn, v.2)
def setActive (v : Val) : Val := (.active, v.2)

/-- `mark_mui_as_withdrawn_for_prefix`; the `Bool` is `Ok(())` vs `Err(PrefixNotFound)`. -/
def Store.markWithdrawnForPrefix (s : Store) (p : Prefix) (m : Mui) : Store × Bool :=
  if p ∈ s.known then ({ s with recs := modify (p, m) setWithdrawn s.recs }, true)
  else ({ s with known := p :: s.known }, false)

/-- `mark_mui_as_active_for_prefix` (store API; not called by rotonda as written). -/
def Store.markActiveForPrefix (s : Store) (p : Prefix) (m : Mui) : Store × Bool :=
  if p ∈ s.known then ({ s with recs := modify (p, m) setActive s.recs }, true)
  else ({ s with known := p :: s.known }, false)

/-- `mark_mui_as_withdrawn_v4` / `_v6`. -/
def Store.markMuiWithdrawn (s : Store) (f : Fam) (m : Mui) : Store :=
  match f with
  | .v4 => { s with wd4 := setAdd m s.wd4 }
  | .v6 => { s with wd6 := setAdd m s.wd6 }

/-- `mark_mui_as_withdrawn`: v4 then v6. -/
def Store.markMuiWithdrawnAll (s : Store) (m : Mui) : Store :=
  (s.markMuiWithdrawn .v4 m).markMuiWithdrawn .v6 m

/-- `mark_mui_as_active_v4` / `_v6` (store API; not called by rotonda as written). -/
def Store.markMuiActive (s : Store) (f : Fam) (m : Mui) : Store :=
  match f with
  | .v4 => { s with wd4 := s.wd4.filter (· ≠ m) }
  | .v6 => { s with wd6 := s.wd6.filter (· ≠ m) }

def toRec (e : Key × Val) : Rec := ⟨e.1.2, e.2.1, e.2.2⟩

/-- The raw record map of prefix `p`. -/
def Store.records (s : Store) (p : Prefix) : List Rec :=
  (s.recs.filter (fun e => e.1.1 = p)).map toRec

/-- `as_records_with_rewritten_status(bmin, Withdrawn)` for one record. -/
def rewrite (wd : List Mui) (r : Rec) : Rec :=
  if r.mui ∈ wd then { r with status := .withdrawn } else r

structure MatchOpts where
  includeWithdrawn : Bool := true
  mui : Option Mui := none
  deriving DecidableEq, Repr

/-- The exact-match record set (`QueryResult.prefix_meta`) of `match_prefix`. -/
def Store.matchExact (s : Store) (p : Prefix) (o : MatchOpts) : List Rec :=
  let rs := s.records p
  let wd := s.wd p.fam
  if o.includeWithdrawn then rs.map (rewrite wd)
  else match o.mui with
    | none => rs.filter (fun r => r.status = .active && !(wd.contains r.mui))
    | some m => rs.filter (fun r => r.mui = m && r.status = .active)

/-- What a query with `include_withdrawn` reports for `(p, m)`: the stored record with the
    global marker applied. -/
def Store.entry (s : Store) (p : Prefix) (m : Mui) : Option Val :=
  match s.get p m with
  | none => none
  | some v => some (if m ∈ s.wd p.fam then setWithdrawn v else v)

/-! ### The RIB unit -/

structure Rib where
  unicast : Store := {}
  multicast : Store := {}
  deriving DecidableEq, Repr

def Rib.empty : Rib := {}

/-- `multicast.0` selects the store (`rib.rs:161`). -/
def Rib.store (r : Rib) (mc : Bool) : Store := if mc then r.multicast else r.unicast

def Rib.setStore (r : Rib) (mc : Bool) (s : Store) : Rib :=
  if mc then { r with multicast := s } else { r with unicast := s }

/-- A `RotondaRoute`: its four variants are `prefix.fam × mc`; the `RotondaPaMap` is `attrs`. -/
structure Route where
  pfx : Prefix
  mc : Bool
  attrs : AttrId
  deriving DecidableEq, Repr

/-- `RouteContext`: `Fresh` and `Mrt` carry `(status, provenance)`, `Reprocess` nothing. -/
inductive Ctx where
  | fresh | mrt | reprocess
  deriving DecidableEq, Repr

structure Payload where
  route : Route
  ctx : Ctx := .fresh
  status : Status
  mui : Mui
  deriving DecidableEq, Repr

/-- `AfiSafiType` as far as `withdraw_for_ingress` distinguishes it. -/
inductive AfiSafi where
  | v4u | v6u | v4m | v6m | other
  deriving DecidableEq, Repr

inductive Update where
  | single (p : Payload)
  | bulk (ps : List Payload)
  | withdraw (m : Mui) (af : Option AfiSafi)
  | withdrawBulk (ms : List Mui)
  | endOfStream
  | outputStream
  | queryResult
  deriving DecidableEq, Repr

/-- Defect-site variants (both settings are models of *some* code).
    * `overlapFix = false`: the code as written, all three ingress paths emit the withdrawals of
      an UPDATE after its announcements; `true`: a prefix that is also announced in the same
      UPDATE is dropped from the withdrawal half (RFC 4271 §4.3).
    * `perRecordWithdraw = false`: `withdraw_for_ingress` sets the store's global marker, which
      nothing clears; `true`: it marks every stored record of the ingress id withdrawn instead
      (no global marker), so later announcements are active again. -/
structure Variant where
  overlapFix : Bool := false
  perRecordWithdraw : Bool := false
  deriving DecidableEq, Repr

def asWritten : Variant := {}

/-- `Rib::insert_prefix` (`rib.rs:151-209`); the store's `Err` is only logged/metered. -/
def Rib.insertPrefix (r : Rib) (p : Prefix) (mc : Bool) (m : Mui) (st : Status) (a : AttrId) : Rib :=
  match st with
  | .withdrawn => r.setStore mc ((r.store mc).markWithdrawnForPrefix p m).1
  | .active => r.setStore mc ((r.store mc).insert p m .active a)

/-- `RibUnitRunner::insert_payload` (`unit.rs:977`): `Reprocess` contexts are rejected. -/
def Rib.insertPayload (r : Rib) (pl : Payload) : Rib :=
  match pl.ctx with
  | .reprocess => r
  | _ => r.insertPrefix pl.route.pfx pl.route.mc pl.mui pl.status pl.route.attrs

/-- Mark every stored record of `m` (in the trees selected by `fams`) locally withdrawn. -/
def Store.withdrawRecords (s : Store) (fams : List Fam) (m : Mui) : Store :=
  { s with recs := s.recs.map (fun e => if e.1.2 = m ∧ e.1.1.fam ∈ fams then (e.1, setWithdrawn e.2) else e) }

def Store.withdrawFams (v : Variant) (s : Store) (fams : List Fam) (m : Mui) : Store :=
  if v.perRecordWithdraw then s.withdrawRecords fams m
  else fams.foldl (fun s f => s.markMuiWithdrawn f m) s

/-- `Rib::withdraw_for_ingress` (`rib.rs:211-329`). `other` panics (see `Update.panics`). -/
def Rib.withdrawForIngress (v : Variant) (r : Rib) (m : Mui) : Option AfiSafi → Rib
  | none => { unicast := r.unicast.withdrawFams v [.v4, .v6] m,
              multicast := r.multicast.withdrawFams v [.v4, .v6] m }
  | some .v4u => { r with unicast := r.unicast.withdrawFams v [.v4] m }
  | some .v6u => { r with unicast := r.unicast.withdrawFams v [.v6] m }
  | some .v4m => { r with multicast := r.multicast.withdrawFams v [.v4] m }
  | some .v6m => { r with multicast := r.multicast.withdrawFams v [.v6] m }
  | some .other => r

/-- `panic!("no support to withdraw {:?} yet")` at `rib.rs:326`. -/
def Update.panics : Update → Bool
  | .withdraw _ (some .other) => true
  | _ => false

/-- `RibUnitRunner::process_update` without a roto filter: the new RIB content.
    (Forwarding to the gate is not part of the RIB content; see `Rib.forwards`.) -/
def Rib.apply (v : Variant) (r : Rib) : Update → Rib
  | .single p => r.insertPayload p
  | .bulk ps => ps.foldl Rib.insertPayload r
  | .withdraw m af => r.withdrawForIngress v m af
  | .withdrawBulk ms => ms.foldl (fun r m => r.withdrawForIngress v m none) r
  | .endOfStream => r
  | .outputStream => r
  | .queryResult => r

/-- What `process_update` passes on through its gate: accepted payloads (as `Single` when there
    is exactly one, nothing when there is none), `EndOfStream` and `OutputStream` unchanged;
    `Withdraw`/`WithdrawBulk` are **not** forwarded. -/
def Rib.forwards : Update → List Update
  | .single p => [.single p]
  | .bulk [] => []
  | .bulk [p] => [.single p]
  | .bulk ps => [.bulk ps]
  | .endOfStream => [.endOfStream]
  | .outputStream => [.outputStream]
  | _ => []

inductive Outcome where
  | ok (r : Rib)
  | panic (site : String)
  deriving DecidableEq, Repr

def Rib.step (v : Variant) (r : Rib) (u : Update) : Outcome :=
  if u.panics then .panic "rib.rs:326" else .ok (r.apply v u)

def Rib.applyAll (v : Variant) (r : Rib) (us : List Update) : Rib := us.foldl (Rib.apply v) r

/-- `Rib::match_prefix` (`rib.rs:342-370`), exact-match record set: the multicast store is
    consulted only when the unicast answer is empty. -/
def Rib.query (r : Rib) (p : Prefix) (o : MatchOpts := {}) : List Rec :=
  let u := r.unicast.matchExact p o
  if u.isEmpty then r.multicast.matchExact p o else u

/-- The per-store view used by the refinement proofs. -/
def Rib.entry (r : Rib) (mc : Bool) (p : Prefix) (m : Mui) : Option Val := (r.store mc).entry p m

/-! ### Ingest: one BGP UPDATE → one `Update::Bulk` -/

/-- The SAFI of an NLRI as far as `TryFrom<(Nlri, RotondaPaMap)> for RotondaRoute` cares. -/
inductive Safi where
  | unicast | multicast | unsupported
  deriving DecidableEq, Repr

structure Nlri where
  pfx : Prefix
  safi : Safi
  deriving DecidableEq, Repr

/-- A BGP UPDATE above the codec: it either fails to parse, or yields its attribute blob, its
    announced NLRI (MP_REACH then conventional) and its withdrawn NLRI (MP_UNREACH then
    conventional). -/
inductive Upd where
  | malformed
  | ok (attrs : AttrId) (ann wd : List Nlri)
  deriving DecidableEq, Repr

def Nlri.route (n : Nlri) (a : AttrId) : Option Route :=
  match n.safi with
  | .unicast => some ⟨n.pfx, false, a⟩
  | .multicast => some ⟨n.pfx, true, a⟩
  | .unsupported => none

/-- `explode_announcements` / `explode_withdrawals`: unsupported families are skipped. -/
def explodeList (ns : List Nlri) (a : AttrId) : List Route := ns.filterMap (·.route a)

def mkPayload (ctx : Ctx) (m : Mui) (st : Status) (rt : Route) : Payload :=
  { route := rt, ctx := ctx, status := st, mui := m }

/-- The payload list the ingress paths build for one UPDATE of ingress `m`;
    `none` = a parse error, nothing is sent. Withdrawal payloads carry an empty attribute map (0). -/
def explode (v : Variant) (ctx : Ctx) (m : Mui) : Upd → Option (List Payload)
  | .malformed => none
  | .ok a ann wd =>
    let wd' := if v.overlapFix then wd.filter (fun n => !(ann.contains n)) else wd
    some ((explodeList ann a).map (mkPayload ctx m .active)
          ++ (explodeList wd' 0).map (mkPayload ctx m .withdrawn))

def ingest (v : Variant) (ctx : Ctx) (m : Mui) (u : Upd) : List Update :=
  match explode v ctx m u with
  | none => []
  | some ps => [.bulk ps]

/-! ### Histories -/

/-- What reaches the RIB unit from its sources, one event per message / session event. -/
inductive Ev where
  | upd (m : Mui) (u : Upd)          -- a BGP UPDATE of source `m` (route monitoring, BGP, MRT)
  | down (m : Mui)                   -- `Update::Withdraw(m, None)`: peer down / BGP session end
  | downBulk (ms : List Mui)         -- `Update::WithdrawBulk(ms)`: BMP termination / disconnect
  deriving DecidableEq, Repr

def Ev.updates (v : Variant) : Ev → List Update
  | .upd m u => ingest v .fresh m u
  | .down m => [.withdraw m none]
  | .downBulk ms => [.withdrawBulk ms]

abbrev History := List Ev

def runFrom (v : Variant) (r : Rib) (h : History) : Rib :=
  h.foldl (fun r e => r.applyAll v (e.updates v)) r

def run (v : Variant) (h : History) : Rib := runFrom v Rib.empty h

/-! ### Specifications (what the theorems in `Props/C01..C03` compare the model against) -/

def safiOf (mc : Bool) : Safi := if mc then .multicast else .unicast

/-- The abstract state of one key `(mc, p, m)`: the stored record and whether the global
    withdrawn marker of `m` is set in the tree that holds `p`. -/
structure Abs where
  e : Option Val
  down : Bool
  deriving DecidableEq, Repr

/-- What a query (include_withdrawn) reports for the key. -/
def Abs.entry (s : Abs) : Option Val := s.e.map fun x => if s.down then setWithdrawn x else x

def Rib.abs (r : Rib) (mc : Bool) (p : Prefix) (m : Mui) : Abs :=
  ⟨(r.store mc).get p m, decide (m ∈ (r.store mc).wd p.fam)⟩

/-- One UPDATE of the key's own source, per SAFI table. `overlapFix = false` is the code as written:
    the withdrawal half is applied after the announcement half. -/
def specUpd (v : Variant) (mc : Bool) (p : Prefix) (e : Option Val) : Upd → Option Val
  | .malformed => e
  | .ok a ann wd =>
    let A := decide (⟨p, safiOf mc⟩ ∈ ann)
    let W := decide (⟨p, safiOf mc⟩ ∈ wd)
    if v.overlapFix then (if A then some (.active, a) else if W then e.map setWithdrawn else e)
    else (if W then (if A then some (.withdrawn, a) else e.map setWithdrawn)
          else if A then some (.active, a) else e)

/-- A session-level withdrawal of the key's source. -/
def specDown (v : Variant) (s : Abs) : Abs :=
  if v.perRecordWithdraw then { s with e := s.e.map setWithdrawn } else { s with down := true }

/-- The effect of one event on the abstract state of key `(mc, p, m)`. -/
def specEv (v : Variant) (mc : Bool) (p : Prefix) (m : Mui) (s : Abs) : Ev → Abs
  | .upd m' u => if m' = m then { s with e := specUpd v mc p s.e u } else s
  | .down m' => if m' = m then specDown v s else s
  | .downBulk ms => if m ∈ ms then specDown v s else s

def specRun (v : Variant) (mc : Bool) (p : Prefix) (m : Mui) (h : History) : Abs :=
  h.foldl (specEv v mc p m) ⟨none, false⟩

/-- C01's specification, SAFI-blind and per RFC 4271 §4.3: scan the history; an UPDATE of `m`
    naming `p` in its NLRI sets `(active, attrs)` (even if it also withdraws it); else one naming it
    only in its withdrawn routes sets the status to withdrawn if an entry exists (keeping the
    attributes); malformed UPDATEs and other sources' UPDATEs are skipped. -/
def names (ns : List Nlri) (p : Prefix) : Bool := ns.any fun n => n.pfx = p && n.safi ≠ .unsupported

def lastStep (p : Prefix) (m : Mui) (e : Option Val) : Ev → Option Val
  | .upd m' (.ok a ann wd) =>
    if m' = m then (if names ann p then some (.active, a) else if names wd p then e.map setWithdrawn else e) else e
  | _ => e

def last (h : History) (p : Prefix) (m : Mui) : Option Val := h.foldl (lastStep p m) none

/-- Guards of the partial theorems. -/
def Upd.noOverlap : Upd → Bool
  | .malformed => true
  | .ok _ ann wd => ann.all fun n => !(wd.contains n)

def Ev.isUpd : Ev → Bool
  | .upd .. => true
  | _ => false

def Ev.noOverlap : Ev → Bool
  | .upd _ u => u.noOverlap
  | _ => true

/-- Does the event mention `p` in SAFI table `mc` (announced or withdrawn)? -/
def Ev.mentions (mc : Bool) (p : Prefix) : Ev → Bool
  | .upd _ (.ok _ ann wd) => ann.contains ⟨p, safiOf mc⟩ || wd.contains ⟨p, safiOf mc⟩
  | _ => false

/-- `p` is used with at most one of the two supported SAFIs in the whole history. -/
def singleSafi (h : History) (p : Prefix) : Bool :=
  !(h.any (Ev.mentions false p)) || !(h.any (Ev.mentions true p))

/-! ### Vocabulary of C02 / C03 (session-level events) -/

/-- Is the event a session-level withdrawal of source `m`? -/
def Ev.downs (m : Mui) : Ev → Bool
  | .down m' => m' = m
  | .downBulk ms => ms.contains m
  | .upd .. => false

/-- Does the event announce `p` in SAFI table `mc` on behalf of source `m`? -/
def Ev.announces (mc : Bool) (p : Prefix) (m : Mui) : Ev → Bool
  | .upd m' (.ok _ ann _) => m' = m && ann.contains ⟨p, safiOf mc⟩
  | _ => false

/-- Can the event change what is reported for key `(mc, p, m)` at all? -/
def Ev.touches (mc : Bool) (p : Prefix) (m : Mui) (e : Ev) : Bool :=
  e.downs m || (match e with
    | .upd m' (.ok _ ann wd) => m' = m && (ann.contains ⟨p, safiOf mc⟩ || wd.contains ⟨p, safiOf mc⟩)
    | _ => false)

end Rotonda.Rib
