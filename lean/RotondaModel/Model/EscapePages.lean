import RotondaModel.Generated.Escape
/-
Page assembly for C19: a hand transliteration of the code *around* the extracted templates
(`router_info/response.rs:117-283`, `router_list/response.rs:19-229`): which template is written
when, what is put into which hole. Imports only the generated templates and `Model/Escape.lean`.
-/
namespace Rotonda.Escape
open Generated

structure ErrEntry where
  msg : List Char
  pcap : Option (List Char)
  deriving DecidableEq, Repr

structure InfoInput where
  sysName : List Char
  sysDesc : List Char
  sysExtra : List (List Char)
  /-- `format!("{}{}", base_path, router)`: the request path up to `/flags/` or `/prefixes/`. -/
  base : List Char
  errors : List ErrEntry
  /-- `None`: no peer table (phase without `PeerStates`); `Some n`: `n` rows. -/
  peers : Option Nat
  /-- number of rows whose "flags" block is open (0 or 1: `Focus::Flags(key)` matches one peer) -/
  focusFlags : Nat
  deriving DecidableEq, Repr

/-- `sys_extra.join("|")` -/
def joinBar : List (List Char) → List Char
  | [] => []
  | [a] => a
  | a :: rest => a ++ ['|'] ++ joinBar rest

def errEntry (e : ErrEntry) : List Char :=
  render routerInfo_build_response_body_0 (envOf [])
  ++ render routerInfo_build_response_body_1 (envOf [("err.msg", e.msg)])
  ++ render routerInfo_build_response_body_2 (envOf [])
  ++ (match e.pcap with
      | some p => render routerInfo_build_response_body_3 (envOf [("pcaptext", p)])
      | none => render routerInfo_build_response_body_4 (envOf []))

/-- The `Focus::Flags` block (`response.rs:209-224`). -/
def flagsBlock (base : List Char) : List Char :=
  let env := envOf [("base_http_path", base)]
  render routerInfo_build_response_body_10 env ++ render routerInfo_build_response_body_11 env
  ++ render routerInfo_build_response_body_12 env ++ render routerInfo_build_response_body_13 env
  ++ render routerInfo_build_response_body_14 env ++ render routerInfo_build_response_body_15 env
  ++ render routerInfo_build_response_body_16 env ++ render routerInfo_build_response_body_17 env
  ++ render routerInfo_build_response_body_18 env ++ render routerInfo_build_response_body_19 env
  ++ render routerInfo_build_response_body_20 env ++ render routerInfo_build_response_body_21 env
  ++ render routerInfo_build_response_body_22 env

def peerRow (base : List Char) (focus : Bool) : List Char :=
  render routerInfo_build_response_body_9 (envOf [("&base_http_path", base)])
  ++ (if focus then flagsBlock base else [])

def peerReport (inp : InfoInput) : List Char :=
  match inp.peers with
  | none => []
  | some n =>
    render routerInfo_build_response_body_5 (envOf []) ++ render routerInfo_build_response_body_6 (envOf [])
    ++ (List.range n).flatMap (fun i => peerRow inp.base (decide (i < inp.focusFlags)))
    ++ render routerInfo_build_response_body_28 (envOf [])

def infoPage (inp : InfoInput) : List Char :=
  render routerInfo_build_response_header_0 (envOf [])
  ++ render routerInfo_build_response_body_29 (envOf
      [("sys_name", inp.sysName), ("sys_desc", inp.sysDesc), ("sys_extra", joinBar inp.sysExtra),
       ("error_report", inp.errors.flatMap errEntry), ("peer_report", peerReport inp)])
  ++ render routerInfo_build_response_footer_0 (envOf [])
  ++ render routerInfo_build_response_footer_1 (envOf [])
  ++ render routerInfo_build_response_footer_2 (envOf [])

/-- One row of the router list: `some (sysName, sysDesc)` in the Dumping/Updating phases. -/
def listRow : Option (List Char × List Char) → List Char
  | some (n, d) => render routerList_build_response_body_0 (envOf [("sys_name", n), ("sys_desc", d)])
  | none => render routerList_build_response_body_1 (envOf [])

def listPage (rows : List (Option (List Char × List Char))) : List Char :=
  render routerList_build_response_header_0 (envOf [])
  ++ rows.flatMap listRow
  ++ render routerList_build_response_footer_0 (envOf [])
  ++ render routerList_build_response_footer_1 (envOf [])
  ++ render routerList_build_response_footer_2 (envOf [])
  ++ render routerList_build_response_footer_3 (envOf [])

end Rotonda.Escape
