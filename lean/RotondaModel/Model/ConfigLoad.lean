import RotondaModel.Model.Mgr
import RotondaModel.Model.Http
/-
ConfigLoad: the loader's entry as the operator meets it — a configuration FILE on disk.

`src/config.rs` `Config::from_arg_matches` / `from_config_file` / `finalise`, `ConfigFile::load`,
`ConfigFile::resolve_pos`, `Marked::resolve_config` / `format_mark`; `src/manager.rs`
`Manager::prepare` (roto script, then the "unresolved link" report), `get_queue_size_for_link`;
`src/comms.rs` `Gate::subscribe` (`mpsc::channel(queue_size)`).

The accept / reject decision, the loader state and the actions of a successful load are C13's
`Mgr.step` (Model/Mgr.lean, imported, unchanged).  This file adds what surrounds it on disk (the
file may be missing; `roto_script` absent / missing / not compiling / compiling), the CLASS of the
error text the operator is shown, the position mark of that text, and the `unit:queue-len` option.

Position marks.  `Marked<T>` carries an `index` (byte offset of the value in the document) that
`resolve_config` turns into line and column through `ConfigFile::resolve_pos`.  Links are
deserialised `#[serde(from = "String")]`, so their `index` is always 0; `resolve_pos` as written
(`line_starts` = running sums of the line lengths *without* the newlines; `find(start < pos)` yields
a start *value*, used as a line *number*) answers offset 0 with (number of pieces, total length) and
panics for every offset > 0.  Variant `markW = false` is the proposed repair: a mark without a span
prints no line and column.
-/
namespace Rotonda.ConfigLoad
open Rotonda.Mgr
open Rotonda.Http (Bytes parseUInt)

/-! ### what is on disk around the document -/

inductive Script where
  | absent      -- no `roto_script` key
  | missing     -- the key names a file that does not exist
  | broken      -- the file does not compile
  | good        -- the file compiles (relative to the configuration file's directory, or absolute)
  deriving DecidableEq, Repr

def Script.fails : Script → Bool
  | .missing => true
  | .broken => true
  | _ => false

/-! ### `ConfigFile::resolve_pos` -/

inductive Pos where
  | panic                      -- arithmetic overflow / index out of bounds
  | at (line col : Nat)        -- as printed: `path:line:col`
  deriving DecidableEq, Repr

/-- `line_starts` as written: `[0]`, then the running sum of the piece lengths (newlines not counted) -/
def startsFrom : Nat → List Nat → List Nat
  | _, [] => []
  | acc, l :: ls => (acc + l) :: startsFrom (acc + l) ls

def lineStartsW (lens : List Nat) : List Nat := 0 :: startsFrom 0 lens

/-- `resolve_pos` as written, on `line_starts`:
    `let line = starts.iter().find(|&&s| s < pos).copied().unwrap_or(starts.len()); let line = line - 1;
     let col = starts[line] - pos;` -/
def resolvePosW (starts : List Nat) (pos : Nat) : Pos :=
  let line := match starts.find? (fun s => decide (s < pos)) with
    | some s => s
    | none => starts.length
  if line = 0 then .panic
  else
    match starts[line - 1]? with
    | none => .panic
    | some s => if s < pos then .panic else .at (line - 1) (s - pos)

/-- The proposed `resolve_pos` (1-based line and column of byte offset `pos`; a line of length `l`
    occupies `l + 1` bytes, its newline is its last column), on the line lengths. -/
def resolvePosR : List Nat → Nat → Nat × Nat
  | [], pos => (1, pos + 1)
  | l :: ls, pos =>
    if pos ≤ l then (1, pos + 1)
    else
      let r := resolvePosR ls (pos - l - 1)
      (r.1 + 1, r.2)

/-- byte offset of 1-based (line, col) -/
def offsetOf : List Nat → Nat × Nat → Nat
  | _, (0, c) => c - 1
  | _, (1, c) => c - 1
  | [], (_ + 2, c) => c - 1
  | l :: ls, (n + 2, c) => l + 1 + offsetOf ls (n + 1, c)

/-! ### `unit:queue-len` -/

/-- `usize::MAX` on the 64-bit targets rotonda is built for -/
def usizeMax : Nat := 18446744073709551615
/-- tokio `Semaphore::MAX_PERMITS` = `usize::MAX >> 3` -/
def maxPermits : Nat := 2305843009213693951
/-- `DEF_UPDATE_QUEUE_LEN` -/
def defQueueLen : Nat := 8

/-- `options.parse::<usize>()` -/
def parseQueueLen (opts : Bytes) : Option Nat := parseUInt usizeMax opts

/-- `get_queue_size_for_link`: the option's value, or the default (with a warning) when it does not parse.
    `repaired`: a value a bounded channel cannot have is treated like one that does not parse. -/
def queueLen (repaired : Bool) (opts : Bytes) : Nat × Bool :=
  match parseQueueLen opts with
  | some n => if repaired && !(0 < n && n ≤ maxPermits) then (defQueueLen, true) else (n, false)
  | none => (defQueueLen, true)

/-- `Gate::subscribe` → `tokio::sync::mpsc::channel(queue_size)` does not panic -/
def channelOk (q : Nat) : Bool := 0 < q && q ≤ maxPermits

/-! ### one (re)load of a file -/

structure FLoad where
  fileExists : Bool
  load : Mgr.Load            -- the document (C13's reading); its `roto` flag is recomputed from `script`
  script : Script
  lens : List Nat            -- lengths of the '\n'-separated pieces of the document the loader works on
  opts : List Bytes          -- the `:<options>` texts on link names
  deriving Repr

structure Variant where
  mgr : Mgr.Variant
  markW : Bool               -- marks as written
  queueR : Bool              -- queue lengths repaired
  deriving DecidableEq, Repr

inductive Res where
  | ok (acts : List Action) (warnings : Nat)
  | io                        -- the file cannot be read
  | parse                     -- not TOML: "Cannot parse config file"
  | serde                     -- toml / serde reject the document (toml prints its own position)
  | roto                      -- "Unable to load main Roto script"
  | unresolved (marks : List Pos)   -- one "unresolved link" line per offending link, with its mark
  | panic
  deriving DecidableEq, Repr

def Load.ofFile (l : FLoad) : Mgr.Load := { l.load with roto := l.script.fails }

/-- links of the configuration that name no unit of the file -/
def unresolvedLinks (cfg : Cfg) : List Name := cfg.links.filter fun n => !cfg.unitNames.contains n

/-- the mark of a link (its `index` is 0) -/
def linkMark (lens : List Nat) : Pos := resolvePosW (lineStartsW lens) 0

/-- why a load that `Mgr.step` rejects is rejected, in the order of the code -/
def classifyErr (v : Variant) (l : FLoad) : Res :=
  if l.load.notToml then .parse
  else
    match preprocess v.mgr.unreach l.load.doc with
    | .panic => .panic
    | .ok doc =>
      match deser doc with
      | none => .serde
      | some cfg =>
        if l.script.fails then .roto
        else .unresolved (if v.markW then (unresolvedLinks cfg).map (fun _ => linkMark l.lens) else [])

def warningsOf (v : Variant) (opts : List Bytes) : Nat := (opts.filter fun o => (queueLen v.queueR o).2).length

/-- `ConfigFile::load` → `Config::from_config_file` / `from_arg_matches` → `spawn` -/
def fstep (v : Variant) (s : St) (l : FLoad) : St × Res :=
  if !l.fileExists then (s, .io)
  else
    match step v.mgr s (Load.ofFile l) with
    | (s', .ok acts) => (s', .ok acts (warningsOf v l.opts))
    | (s', .panic) => (s', .panic)
    | (s', .err) => (s', classifyErr v l)

def frun (v : Variant) : St → List FLoad → St × List Res
  | s, [] => (s, [])
  | s, l :: ls =>
    let r := fstep v s l
    let rest := frun v r.1 ls
    (rest.1, r.2 :: rest.2)

/-- a really spawned pipeline whose file-out target (the one queue-fed component) names its source with
    this option: does the upstream unit's gate survive the subscription? -/
inductive Live where
  | runs (defaulted : Bool)
  | gatePanics
  deriving DecidableEq, Repr

def live (v : Variant) (opts : Bytes) : Live :=
  let q := queueLen v.queueR opts
  if channelOk q.1 then .runs q.2 else .gatePanics

end Rotonda.ConfigLoad
