import RotondaModel.Model.Mgr
/-
Model of what a (re)load *does* to the running pipeline (C13, the executed part), core Lean only.

`Model/Mgr.lean` computes which `spawn / reconfigure / terminate` actions `Manager::spawn_internal`
emits. Here the actions are executed on a state of running units:

* rib unit (`src/units/rib_unit/unit.rs`, `RibUnitRunner::run`, arm `GateStatus::Reconfiguring`):
  `query_limits.store(new)`, `filter_name.store(new or default)`, `sources = new_sources` followed by
  `link.connect` for each, `http_processor.set_vrib_upstream(new)`; a changed `http_api_path` and a
  changed `rib_type` are *ignored* with a warning; the `rib: Arc<ArcSwap<Rib>>` is not touched at all.
* bmp-tcp-in unit (`src/units/bmp_tcp_in/unit.rs`, `BmpTcpInRunner::process_until`, same arm):
  `listen`, `filter_name`, `router_id_template`, `tracing_mode` are replaced; the listener is
  re-bound iff `listen` differs; `router_states` / `router_info` (the session table) and the
  per-router `RouterHandler` tasks are not touched (`router_handler.rs:231`: "We don't have any
  settings to reconfigure").
* spawn = `Unit::run` of the file's settings with a fresh `Rib::new_physical()` / empty session
  table; terminate = the task ends (its HTTP processors are dropped, a bmp-tcp-in unit's
  `RouterHandler`s see `Terminated` and close their connections).
* traffic: a router's Route Monitoring message is published through the gate of the bmp-tcp-in unit
  that holds its session and reaches every rib unit whose *current* `sources` list that unit
  (`DirectLink`), where `Rib::insert` upserts the record keyed by (prefix, ingress).

`Gate::clone` (`src/comms.rs`) registers the clone with the root gate through
`NormalGateState::command_sender` — the sender of the command channel the gate was *created* with.
`Reconfigure` replaces the receiving end (`*self.commands.write().await = new_commands`), the old
channel is closed, `command_sender` is never updated: every clone made afterwards fails to attach,
its own command channel closes at once, its `process()` returns `Terminated`. For bmp-tcp-in that
is the `RouterHandler` of every router that connects *after* a reload: accepted, then dropped
(`BmpUnit.stale`).

Every `RouterHandler` owns a gate clone it only publishes through (`self.gate.update_data`); the
clone whose `process()` is polled is a *second* clone made for its `BmpStream`. The root gate
registers both and `notify_clones` sends every `FollowReconfigure` / `FollowSubscribe` /
`ReportLinks` to both with `sender.send(cmd).await` on a channel of `COMMAND_QUEUE_LEN = 16`. The
first clone's queue is never read: three notifications per reload, so during the sixth reload after
a router connected the root gate blocks inside `notify_clones` for good. From then on the unit
takes no command off its queue any more (`BmpUnit.reloads`, `Variant.queueWedge`): later reloads
change nothing in it. (Whether its routers' updates still reach anybody depends on which of the
three notifications blocked; that is not modelled and the harness does not look at it.)

`Gate::process`, arm `GateCommand::Reconfigure` (`src/comms.rs`): `self.updates.replace(new_updates)`
installs the *empty* subscriber set of the new gate; downstream units subscribe again when they
handle their own `Reconfiguring`. An update published in between reaches nobody. Which updates fell
into that window is timing; the harness observes it and passes it in (`Ev.ann … lost`).

Names: 0/1 = the two bmp-tcp-in units the harness uses, 2 = the rib unit; any other name / type is
carried as `Unit.other`.
-/
namespace Rotonda.Reconf
open Rotonda.Mgr

/-- The settings of a rib unit the file provides (`RibUnit`, the fields the reconfigure arm reads). -/
structure RibCfg where
  sources : List Name
  v4 : Nat                 -- query_limits.more_specifics.shortest_prefix_ipv4
  v6 : Nat                 -- query_limits.more_specifics.shortest_prefix_ipv6
  path : Nat               -- http_api_path (interned)
  filter : Option Nat      -- filter_name
  deriving DecidableEq, Repr

/-- The settings of a bmp-tcp-in unit (`BmpTcpIn`) the harness varies. -/
structure BmpCfg where
  listen : Nat             -- the port
  deriving DecidableEq, Repr

inductive Settings where
  | rib (c : RibCfg)
  | bmp (c : BmpCfg)
  | other
  deriving DecidableEq, Repr

/-- One record of the store: `Rib::insert` keys by (prefix, ingress). -/
structure Rec where
  pfx : Nat
  src : Nat                -- the announcing router (one monitored peer per router)
  active : Bool
  deriving DecidableEq, Repr

/-- `Rib::insert`: replace the record with the same key or add it. -/
def upsert (r : Rec) : List Rec → List Rec
  | [] => [r]
  | x :: xs => if x.pfx = r.pfx ∧ x.src = r.src then r :: xs else x :: upsert r xs

/-- A withdrawal marks the record of that key withdrawn; without such a record nothing is stored
    (the unit counts it as a "withdrawal without announcement"). -/
def withdraw (r : Rec) : List Rec → List Rec
  | [] => []
  | x :: xs => if x.pfx = r.pfx ∧ x.src = r.src then r :: xs else x :: withdraw r xs

def applyRec (r : Rec) (st : List Rec) : List Rec := if r.active then upsert r st else withdraw r st

structure RibUnit where
  store : List Rec         -- the `Rib` behind `rib: Arc<ArcSwap<Rib>>`
  cfg : RibCfg             -- effective settings: `sources`, `query_limits`, `filter_name`, and the
                           -- path `http_processor` answers at
  deriving DecidableEq, Repr

structure BmpUnit where
  cfg : BmpCfg
  bound : Nat              -- the port the listener is bound to
  sessions : List Nat      -- routers with an open session (`router_states`)
  stale : Bool             -- the gate's `command_sender` points at a closed channel
  reloads : Nat            -- reconfigures handled while a router was connected
  deriving DecidableEq, Repr

inductive Unit where
  | rib (u : RibUnit)
  | bmp (u : BmpUnit)
  | other (ty : Ty)
  deriving DecidableEq, Repr

def Unit.ty : Unit → Ty
  | .rib _ => 4
  | .bmp _ => 0
  | .other t => t

/-- `pathIgnored = true`: the code as written keeps the old `http_api_path` on reconfigure.
    `cloneStale = true`: the code as written leaves `command_sender` pointing at the old channel.
    `queueWedge = true`: the code as written blocks on the never-read clone queue. -/
structure Variant where
  mgr : Mgr.Variant
  pathIgnored : Bool
  cloneStale : Bool
  queueWedge : Bool
  deriving DecidableEq, Repr

/-- The rib unit's `Reconfiguring` arm. -/
def reconfRib (pathIgnored : Bool) (u : RibUnit) (new : RibCfg) : RibUnit :=
  { store := u.store,
    cfg := { new with path := if pathIgnored then u.cfg.path else new.path } }

/-- The bmp-tcp-in unit's `Reconfiguring` arm (re-bind iff `listen` differs: either way the
    listener ends up on the new port). -/
def BmpUnit.wedged (queueWedge : Bool) (u : BmpUnit) : Bool := queueWedge && decide (6 ≤ u.reloads)

def reconfBmp (cloneStale queueWedge : Bool) (u : BmpUnit) (new : BmpCfg) : BmpUnit :=
  if u.wedged queueWedge then u
  else { cfg := new, bound := new.listen, sessions := u.sessions, stale := u.stale || cloneStale,
         reloads := u.reloads }

/-- one more reload handled with a router connected (three more notifications in the unread queue) -/
def Unit.bump : Unit → Unit
  | .bmp b => .bmp { b with reloads := if b.sessions.isEmpty then b.reloads else b.reloads + 1 }
  | u => u

def reconf (v : Variant) (u : Unit) (s : Settings) : Unit :=
  match u, s with
  | .rib r, .rib c => .rib (reconfRib v.pathIgnored r c)
  | .bmp b, .bmp c => .bmp (reconfBmp v.cloneStale v.queueWedge b c)
  | u, _ => u

/-- `Unit::run` with the file's settings. -/
def fresh (t : Ty) (s : Settings) : Unit :=
  match s with
  | .rib c => .rib ⟨[], c⟩
  | .bmp c => .bmp ⟨c, c.listen, [], false, 0⟩
  | .other => .other t

def lookupS (n : Name) : List (Name × Settings) → Settings
  | [] => .other
  | e :: l => if e.1 = n then e.2 else lookupS n l

/-- remove the unit(s) named `n` -/
def dropU (n : Name) : List (Name × Unit) → List (Name × Unit)
  | [] => []
  | e :: l => if e.1 = n then dropU n l else e :: dropU n l

/-- apply `f` to the unit(s) named `n` -/
def mapU (n : Name) (f : Unit → Unit) : List (Name × Unit) → List (Name × Unit)
  | [] => []
  | e :: l => (if e.1 = n then (e.1, f e.2) else e) :: mapU n f l

/-- Execute one action of `spawn_internal` on the running units. -/
def exec (v : Variant) (settings : List (Name × Settings)) (units : List (Name × Unit)) :
    Action → List (Name × Unit)
  | .spawnU n t => dropU n units ++ [(n, fresh t (lookupS n settings))]
  | .reconfU n => mapU n (fun u => reconf v u (lookupS n settings)) units
  | .termU n => dropU n units
  | _ => units

/-- count the reload once for every unit it reconfigured -/
def bumpAll (acts : List Action) : List (Name × Unit) → List (Name × Unit)
  | [] => []
  | e :: l => (if acts.contains (.reconfU e.1) then (e.1, e.2.bump) else e) :: bumpAll acts l

structure Live where
  mgr : Mgr.St
  units : List (Name × Unit)
  deriving DecidableEq, Repr

def Live.init : Live := ⟨St.init, []⟩

structure LLoad where
  load : Mgr.Load
  settings : List (Name × Settings)
  deriving DecidableEq, Repr

/-- One (re)load of the real pipeline: `Manager::load` + `prepare` + `spawn`. -/
def lstep (v : Variant) (s : Live) (l : LLoad) : Live × Result :=
  let r := Mgr.step v.mgr s.mgr l.load
  match r.2 with
  | .ok acts => (⟨r.1, bumpAll acts (acts.foldl (exec v l.settings) s.units)⟩, .ok acts)
  | res => (⟨r.1, s.units⟩, res)

def lookupU (n : Name) : List (Name × Unit) → Option Unit
  | [] => none
  | e :: l => if e.1 = n then some e.2 else lookupU n l

/-! ### Traffic -/

/-- The bmp-tcp-in unit holding router `r`'s session. -/
def sessionUnit (r : Nat) : List (Name × Unit) → Option Name
  | [] => none
  | (n, .bmp b) :: l => if b.sessions.contains r then some n else sessionUnit r l
  | _ :: l => sessionUnit r l

/-- Deliver records published through the gate of unit `b` to every rib unit that lists `b`. -/
def deliver (b : Name) (recs : List Rec) (units : List (Name × Unit)) : List (Name × Unit) :=
  units.map (fun e =>
    match e.2 with
    | .rib u => if u.cfg.sources.contains b then (e.1, .rib { u with store := recs.foldl (fun st r => applyRec r st) u.store }) else e
    | _ => e)

inductive Ev where
  | load (l : LLoad)
  /-- router `r` connects to TCP port `port` -/
  | connect (r : Nat) (port : Nat)
  /-- router `r` announces (`active = true`) / withdraws prefixes; `lost`: the prefixes whose
      update was published while the gate had no subscriber (observed, see the header) -/
  | route (r : Nat) (active : Bool) (pfxs : List Nat) (lost : List Nat)
  deriving DecidableEq, Repr

def connectTo (r port : Nat) : List (Name × Unit) → List (Name × Unit)
  | [] => []
  | (n, .bmp b) :: l =>
    if b.bound = port then
      -- a stale gate: the connection is accepted, the router's handler terminates at once
      (if b.stale then (n, .bmp b) :: l else (n, .bmp { b with sessions := b.sessions ++ [r] }) :: l)
    else (n, .bmp b) :: connectTo r port l
  | e :: l => e :: connectTo r port l

def estep (v : Variant) (s : Live) : Ev → Live × Option Result
  | .load l => let r := lstep v s l; (r.1, some r.2)
  | .connect r port => ({ s with units := connectTo r port s.units }, none)
  | .route r active pfxs lost =>
    match sessionUnit r s.units with
    | none => (s, none)
    | some b =>
      let recs := (pfxs.filter (fun p => !lost.contains p)).map (fun p => Rec.mk p r active)
      ({ s with units := deliver b recs s.units }, none)

def erun (v : Variant) : Live → List Ev → Live
  | s, [] => s
  | s, e :: es => erun v (estep v s e).1 es

/-- Every state along a run (the harness observes after each event). -/
def etrace (v : Variant) : Live → List Ev → List (Live × Option Result)
  | _, [] => []
  | s, e :: es => let r := estep v s e; r :: etrace v r.1 es

/-! ### Query wiring of virtual RIBs (C13, strengthened)

A virtual RIB (`rib_type = "Virtual"` written by hand, or `GeneratedVirtual(k)`: the units
`<rib>-vRIB-<k>` that `ConfigFile::new` generates from `filter_names = [..]`) has no store. Its HTTP
processor answers a prefix query by `vrib_upstream.trigger(MatchPrefix …)` (`rib_unit/http/request.rs`):
the trigger is sent into the *command channel* of the gate the `Link` was created for, and the request
then waits for the `QueryResult` the physical RIB publishes.

Every load creates a fresh gate — a fresh command channel — for every unit of the file
(`manager.rs` `load_link` / `GATES`), and every `Link` of the new configuration holds the sender of
such a fresh channel. A spawned unit runs on the fresh gate. A kept unit's running gate takes the
receiving end of the fresh channel over (`comms.rs`, `GateCommand::Reconfigure`:
`*self.commands.write().await = new_commands`); the channel it served before is dropped. So the
command channel a running unit serves has a *generation*: the number of the successful load that
created it. `Link::trigger` ignores a send error: a trigger into a channel nobody serves any more is
lost and the query waits forever.

The rib unit's `Reconfiguring` arm does `http_processor.set_vrib_upstream(new_vrib_upstream)`
unconditionally — for every `rib_type` (`adopt = true` below; `adopt = false` is the shape of a
unit that keeps the link it was started with). A virtual RIB itself is carried in `Live.units` as a
rib unit with an empty store (`sources` = the unit to its west, never a bmp-tcp-in unit, so `deliver`
never stores anything in it); the path it answers below obeys `reconfRib` like any rib unit's.
-/

/-- A virtual RIB's query link. -/
structure VLink where
  up : Name                -- the unit `vrib_upstream` names
  gen : Nat                -- generation of the command channel the link sends into
  deriving DecidableEq, Repr

structure Wire where
  gen : Nat                          -- number of successful loads so far
  gates : List (Name × Nat)          -- running unit ↦ generation of the command channel it serves
  links : List (Name × VLink)        -- running virtual RIB ↦ its query link
  deriving DecidableEq, Repr

def Wire.init : Wire := ⟨0, [], []⟩

def lookupG (n : Name) : List (Name × Nat) → Option Nat
  | [] => none
  | e :: l => if e.1 = n then some e.2 else lookupG n l

def lookupL (n : Name) : List (Name × VLink) → Option VLink
  | [] => none
  | e :: l => if e.1 = n then some e.2 else lookupL n l

/-- `vrib_upstream` of unit `n` in the pre-processed document (serde reads the key for `type = "rib"` only). -/
def upOf (d : RawDoc) (n : Name) : Option Name :=
  match d.units.find? (fun c => c.name == n && c.ty == some 4) with
  | some c => c.upstream
  | none => none

/-- The link a unit holds after it was started / reconfigured with the file's settings by load `g`. -/
def linkOf (ups : Name → Option Name) (g : Nat) (n : Name) : List (Name × VLink) :=
  match ups n with
  | some u => [(n, ⟨u, g⟩)]
  | none => []

/-- One action of `spawn_internal`, seen from the wiring (`g` = the number of this load). -/
def wexec (adopt : Bool) (ups : Name → Option Name) (g : Nat) (w : Wire) : Action → Wire
  | .spawnU n _ => { w with gates := (n, g) :: w.gates.filter (fun e => e.1 ≠ n),
                            links := linkOf ups g n ++ w.links.filter (fun e => e.1 ≠ n) }
  | .reconfU n => { w with gates := (n, g) :: w.gates.filter (fun e => e.1 ≠ n),
                           links := if adopt then linkOf ups g n ++ w.links.filter (fun e => e.1 ≠ n) else w.links }
  | .termU n => { w with gates := w.gates.filter (fun e => e.1 ≠ n), links := w.links.filter (fun e => e.1 ≠ n) }
  | _ => w

/-- A prefix query to virtual RIB `n` is answered iff its link sends into the command channel its
    upstream unit currently serves. -/
def Wire.answers (w : Wire) (n : Name) : Bool :=
  match lookupL n w.links with
  | some l => lookupG l.up w.gates == some l.gen
  | none => false

structure LiveW where
  live : Live
  wire : Wire
  deriving DecidableEq, Repr

def LiveW.init : LiveW := ⟨Live.init, Wire.init⟩

def upsOfLoad (v : Variant) (l : LLoad) : Name → Option Name :=
  match preprocess v.mgr.unreach l.load.doc with
  | .ok d => upOf d
  | .panic => fun _ => none

/-- One (re)load, with the wiring. A failed load touches neither. -/
def wstep (adopt : Bool) (v : Variant) (s : LiveW) (l : LLoad) : LiveW × Result :=
  let r := lstep v s.live l
  match r.2 with
  | .ok acts =>
    (⟨r.1, acts.foldl (wexec adopt (upsOfLoad v l) (s.wire.gen + 1)) { s.wire with gen := s.wire.gen + 1 }⟩, .ok acts)
  | res => (⟨r.1, s.wire⟩, res)

def westep (adopt : Bool) (v : Variant) (s : LiveW) : Ev → LiveW × Option Result
  | .load l => let r := wstep adopt v s l; (r.1, some r.2)
  | e => let r := estep v s.live e; (⟨r.1, s.wire⟩, r.2)

def wrun (adopt : Bool) (v : Variant) : LiveW → List Ev → LiveW
  | s, [] => s
  | s, e :: es => wrun adopt v (westep adopt v s e).1 es

end Rotonda.Reconf
