/-
HttpRegistry: `http::Resources` under churn — processors registering and going away while requests are served,
one of them possibly IN FLIGHT inside its processor (import-free).

`src/http.rs`  `Resources::register` (rebuild the list from the entries whose `Weak` still upgrades, then put the
new one first if it is a sub-resource, last otherwise; swap the list in) and `Resources::process_request` (load
the list once; the first processor that upgrades and answers wins).  Nothing is remembered between requests.
A component that goes away leaves a dangling `Weak` in the list until the next registration prunes it.
Paths are numbers (the harness names them `/c/p<n>`); path 0 is `/status`, answered by the server itself.
-/
namespace Rotonda.HttpRegistry

structure Entry where
  id : Nat
  alive : Bool           -- the `Weak` still upgrades
  sub : Bool             -- registered as a sub-resource
  claims : List Nat      -- the paths its processor answers (`Some`); every other path: `None`
  deriving DecidableEq, Repr

abbrev Reg := List Entry

/-- `Weak::strong_count() > 0` / `upgrade()` succeeds: the owning component still holds the processor, or the
    request in flight sits inside it (it holds the upgraded `Arc` until it is answered) -/
def live (held : Option Nat) (e : Entry) : Bool := e.alive || held == some e.id

/-- `Resources::register` -/
def register (held : Option Nat) (r : Reg) (e : Entry) : Reg :=
  if e.sub then e :: r.filter (live held) else r.filter (live held) ++ [e]

/-- the component owning processor `id` terminates: its `Arc` is dropped -/
def dropProc (r : Reg) (id : Nat) : Reg :=
  r.map fun e => if e.id = id then { e with alive := false } else e

inductive Ans where
  | proc (id : Nat)      -- 200, produced by that processor
  | notFound             -- 404: nobody answered
  | fixed                -- `/status`: the server itself
  deriving DecidableEq, Repr

def serves (held : Option Nat) (p : Nat) (e : Entry) : Bool := live held e && e.claims.contains p

/-- `handle_request` for a GET of path `p` against the list as loaded at dispatch -/
def dispatch (held : Option Nat) (r : Reg) (p : Nat) : Ans :=
  if p = 0 then .fixed
  else match r.find? (serves held p) with
    | some e => .proc e.id
    | none => .notFound

inductive Ev where
  | reg (id : Nat) (sub : Bool) (claims : List Nat)
  | drop (id : Nat)
  | req (p : Nat)          -- a request, dispatched and answered
  | begin (p : Nat)        -- a request is dispatched and stays inside its processor …
  | finish                 -- … until here, when it is answered
  deriving DecidableEq, Repr

/-- the registry after an event: requests do not touch it -/
def regStep (held : Option Nat) (r : Reg) : Ev → Reg
  | .reg id sub claims => register held r { id := id, alive := true, sub := sub, claims := claims }
  | .drop id => dropProc r id
  | _ => r

/-- the processor a pending answer comes from -/
def holder : Option Ans → Option Nat
  | some (.proc id) => some id
  | _ => none

structure St where
  reg : Reg
  inflight : Option Ans    -- the answer the request in flight will get
  deriving DecidableEq, Repr

/-- one event: the new state and the answers that go out -/
def step (s : St) : Ev → St × List Ans
  | .req p => (s, [dispatch (holder s.inflight) s.reg p])
  | .begin p => (match s.inflight with
                 | some _ => s                        -- the harness holds one request at a time
                 | none => { s with inflight := some (dispatch none s.reg p) }, [])
  | .finish => (match s.inflight with
                | some a => ({ s with inflight := none }, [a])
                | none => (s, []))
  | ev => ({ s with reg := regStep (holder s.inflight) s.reg ev }, [])

def run : St → List Ev → List Ans
  | _, [] => []
  | s, ev :: evs => (step s ev).2 ++ run (step s ev).1 evs

/-- a history on a fresh `Resources`; a request still in flight at the end is answered then -/
def answers (h : List Ev) : List Ans := run ⟨[], none⟩ (h ++ [.finish])

end Rotonda.HttpRegistry
