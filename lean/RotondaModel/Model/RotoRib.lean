import RotondaModel.Model.Roto
import RotondaModel.Model.Rib
/-!
# Bridge RotoRib — roto filters composed with the RIB (C10 end to end, composed with C01–C03)

Imports `Model/Roto.lean` (C10: predicates, the evaluator `run`, the verdict handlers `handleMsg`
and `ribFilter` with their drain loops) and `Model/Rib.lean` (C01–C03: the store contract,
`Rib.insertPayload`, `Rib.apply`, `ingest`, `run`, `Rib.query`) and edits neither.

Own transliterations (everything else is a call into the two models):

* `ribUnit`      `RibUnitRunner::process_update` (`rib_unit/unit.rs:701-757`) **with** a compiled
                 `rib-in-pre` function: `Single`/`Bulk` go through `filter_payload` (`:761-906`,
                 = `Roto.ribFilter` with `insert := Rib.insertPayload`; *every* payload of the
                 update is offered to the filter, announcements and withdrawals alike, and the
                 filter is called on `p.rx_value` only: it sees neither the status nor the
                 provenance of the payload); `Withdraw`/`WithdrawBulk` are applied unfiltered and
                 not forwarded; `OutputStream` and `EndOfStream` are passed on untouched.
* `ingressUnit`  the UPDATE arm of bgp-in's `Processor::process` (`bgp_tcp_in/router_handler.rs:330-418`,
                 = `Roto.handleMsg`) whose unfiltered step is C01's `ingest` (one `Bulk`:
                 announcements, then withdrawals carrying the empty attribute map).
* `filterUnit`   the separate `filter` unit (`units/filter/unit.rs:210-283`): `EndOfStream` is passed
                 on, `Single`/`Bulk` reach `filter_payload`, which is `todo!()` (a panic in the
                 caller's task), every other update (`Withdraw`, `WithdrawBulk`, `OutputStream`,
                 `QueryResult`) is reported as an input mismatch and **dropped**.
* `routeIn`, `bgpIn`  what the predicates see of a stored route / of an UPDATE, through a decoding
                 `dec : AttrId → Option Roto.Upd` of the interned attribute ids (`none` = the empty
                 attribute map, which is what every withdrawal payload carries: id 0 in `Rib.explode`).

Specification side: `sieve` — the history with exactly the UPDATEs the ingress filter accepts and,
inside each, exactly the announcements / withdrawals the `rib-in-pre` filter accepts. It is a
`flatMap` of a per-event function of (filter, event) alone.
-/
namespace Rotonda.RotoRib
open Rotonda
open Rotonda.Roto (Verdict Output Osm Down)
open Rotonda.Rib (Rib Mui AttrId Payload Route Ev History)

/-! ## What the predicates see -/

/-- decoding of the interned attribute ids (C04 covers the codec; C10 the predicates on the decoded form) -/
abbrev Dec := AttrId → Option Roto.Upd

def famNum : Rotonda.Rib.Fam → Nat
  | .v4 => 4
  | .v6 => 6

/-- `Rib.Prefix` keeps the top `len` bits, `Roto.Pfx` the address as a number. -/
def toPfx (p : Rotonda.Rib.Prefix) : Roto.Pfx := ⟨famNum p.fam, p.bits <<< (p.fam.width - p.len), p.len⟩

/-- `rib-in-pre(route: Route)` is called with `p.rx_value` alone (`unit.rs:798-801`). -/
def routeIn (dec : Dec) (rt : Route) : Roto.RouteIn := ⟨toPfx rt.pfx, dec rt.attrs⟩

def emptyUpd : Roto.Upd := ⟨none, [], []⟩

/-- `bgp-in(msg: BgpMsg, prov: Provenance)`: the whole UPDATE and the session's peer ASN. -/
def bgpIn (dec : Dec) (asnOf : Mui → Nat) (x : Mui × Rotonda.Rib.Upd) : Roto.BgpIn :=
  match x.2 with
  | .malformed => ⟨emptyUpd, asnOf x.1⟩
  | .ok a _ _ => ⟨(dec a).getD emptyUpd, asnOf x.1⟩

/-! ## The pipeline -/

abbrev IFilter := Mui × Rotonda.Rib.Upd → Verdict × List Output
abbrev RFilter := Route → Verdict × List Output

structure Cfg where
  rv : Rotonda.Rib.Variant := {}
  /-- C10 defect sites `pd_bgp`, `pd_rib` (drain loops keep `Output::PeerDown`) -/
  keepPdBgp : Bool := false
  keepPdRib : Bool := false
  /-- the ingress unit's compiled filter function, `none` = no `roto_function` -/
  ing : Option IFilter := none
  /-- the RIB unit's `roto_function_pre` -/
  pre : Option RFilter := none

/-- what arrives at a unit's `direct_update` -/
inductive In where
  | os (ms : List Osm)
  | upd (u : Rotonda.Rib.Update)
  deriving DecidableEq, Repr

/-- what leaves the RIB unit's gate -/
inductive Out where
  | os (ms : List Osm)
  | single (p : Payload)
  | bulk (ps : List Payload)
  | eos
  deriving DecidableEq, Repr

def toIn : Down Rotonda.Rib.Update → In
  | .os ms => .os ms
  | .fwd u => .upd u

def toOut : Down (Roto.RibFwd Payload) → Out
  | .os ms => .os ms
  | .fwd (.single p) => .single p
  | .fwd (.bulk ps) => .bulk ps

/-- the filter as `filter_payload` applies it: to the route of the payload -/
def Cfg.preP (c : Cfg) : Option (Payload → Verdict × List Output) := c.pre.map fun f pl => f pl.route

def filterPayload (c : Cfg) (r : Rib) (ps : List Payload) : Rib × List Out :=
  let x := Roto.ribFilter c.keepPdRib c.preP Rib.insertPayload r ps
  (x.1, x.2.map toOut)

/-- `RibUnitRunner::process_update` with `roto_function_pre = c.pre`. -/
def ribUnit (c : Cfg) (r : Rib) : In → Rib × List Out
  | .os ms => (r, [.os ms])
  | .upd (.single p) => filterPayload c r [p]
  | .upd (.bulk ps) => filterPayload c r ps
  | .upd .endOfStream => (r, [.eos])
  | .upd u => (r.apply c.rv u, [])

def ribUnitAll (c : Cfg) : Rib → List In → Rib × List Out
  | r, [] => (r, [])
  | r, i :: is =>
    let a := ribUnit c r i
    let b := ribUnitAll c a.1 is
    (b.1, a.2 ++ b.2)

/-- bgp-in: an UPDATE that fails to parse never reaches the filter (the session FSM rejects it);
    a parsed one goes through the verdict handler around C01's `ingest`. -/
def ingressUnit (c : Cfg) (m : Mui) (u : Rotonda.Rib.Upd) : List In :=
  match u with
  | .malformed => []
  | _ => (Roto.handleMsg (fun _ => Roto.drainSkipPd c.keepPdBgp) c.ing
            (fun (s : Unit) (x : Mui × Rotonda.Rib.Upd) => (s, Rotonda.Rib.ingest c.rv .fresh x.1 x.2)) () (m, u)).2.map toIn

/-- Session-level events reach the RIB unit as `Withdraw` / `WithdrawBulk`; they are not messages of a
    bgp-in session (the BGP session end is not filtered). -/
def evIns (c : Cfg) : Ev → List In
  | .upd m u => ingressUnit c m u
  | .down m => [.upd (.withdraw m none)]
  | .downBulk ms => [.upd (.withdrawBulk ms)]

def pipeFrom (c : Cfg) (r : Rib) (h : History) : Rib × List Out := ribUnitAll c r (h.flatMap (evIns c))

/-- ingress unit ∘ RIB unit over a whole history: the final RIB and everything that left the RIB unit's gate -/
def pipe (c : Cfg) (h : History) : Rib × List Out := pipeFrom c Rib.empty h

/-- the payloads offered to `rib-in-pre`, in call order -/
def In.payloads : In → List Payload
  | .upd (.single p) => [p]
  | .upd (.bulk ps) => ps
  | _ => []

def preCalls (c : Cfg) (h : History) : List Payload := (h.flatMap (evIns c)).flatMap In.payloads

/-! ## The two filters wired to `Roto.run` -/

def cfgOf (rv : Rotonda.Rib.Variant) (rov : Roto.Variant) (dec : Dec) (asnOf : Mui → Nat)
    (ing pre : Option Roto.Program) : Cfg :=
  { rv := rv, keepPdBgp := rov.pdBgp, keepPdRib := rov.pdRib,
    ing := ing.map fun p x => Roto.bgpFilter p (bgpIn dec asnOf x),
    pre := pre.map fun p rt => Roto.ribInPre p (routeIn dec rt) }

/-! ## Specification: the sieved history -/

def Cfg.accI (c : Cfg) (m : Mui) (u : Rotonda.Rib.Upd) : Bool := (Roto.filterResult c.ing (m, u)).1 = .accept
def Cfg.accR (c : Cfg) (rt : Route) : Bool := (Roto.filterResult c.pre rt).1 = .accept

/-- is NLRI `n`, announced with attributes `a` (0 for a withdrawal), let through by `rib-in-pre`?
    NLRI of an unsupported family never become a route; they are kept (they are skipped later anyway). -/
def Cfg.keepN (c : Cfg) (a : AttrId) (n : Rotonda.Rib.Nlri) : Bool :=
  match n.route a with
  | none => true
  | some rt => c.accR rt

def Cfg.sieveUpd (c : Cfg) : Rotonda.Rib.Upd → Rotonda.Rib.Upd
  | .malformed => .malformed
  | .ok a ann wd =>
    .ok a (ann.filter (c.keepN a))
      ((if c.rv.overlapFix then wd.filter (fun n => !(ann.contains n)) else wd).filter (c.keepN 0))

def Cfg.sieveEv (c : Cfg) : Ev → List Ev
  | .upd m u => if c.accI m u then [.upd m (c.sieveUpd u)] else []
  | e => [e]

/-- the history with exactly the UPDATEs, announcements and withdrawals the filters accept -/
def Cfg.sieve (c : Cfg) (h : History) : History := h.flatMap c.sieveEv

/-- does the event carry an announcement of `(mc, p)` by `m` that both filters accept? -/
def Cfg.announcesAcc (c : Cfg) (mc : Bool) (p : Rotonda.Rib.Prefix) (m : Mui) : Ev → Bool
  | .upd m' (.ok a ann wd) =>
    m' = m && ann.contains ⟨p, Rotonda.Rib.safiOf mc⟩ && c.accI m' (.ok a ann wd) && c.accR ⟨p, mc, a⟩
  | _ => false

/-! ## The separate `filter` unit (`units/filter/unit.rs`) -/

inductive FOut where
  | fwd (is : List In)
  | panic (site : String)
  deriving DecidableEq, Repr

def fuConv : Down (Roto.RibFwd Payload) → In
  | .os ms => .os ms
  | .fwd (.single q) => .upd (.single q)
  | .fwd (.bulk qs) => .upd (.bulk qs)

/-- `asWritten = true`: the code that exists. `false`: a filter unit that does what the RIB unit's
    `filter_payload` does minus the insert, and passes everything else on. -/
def filterUnit (asWritten : Bool) (keepPd : Bool) (f : Option (Payload → Verdict × List Output)) : In → FOut
  | .upd .endOfStream => .fwd [.upd .endOfStream]
  | .upd (.single p) =>
    if asWritten then .panic "filter/unit.rs:239 todo!()"
    else .fwd ((Roto.ribFilter keepPd f (fun (s : Unit) _ => s) () [p]).2.map fuConv)
  | .upd (.bulk ps) =>
    if asWritten then .panic "filter/unit.rs:239 todo!()"
    else .fwd ((Roto.ribFilter keepPd f (fun (s : Unit) _ => s) () ps).2.map fuConv)
  | i => if asWritten then .fwd [] else .fwd [i]

inductive Outcome where
  | ok (r : Rib) (outs : List Out)
  | panic (site : String)
  deriving DecidableEq, Repr

/-- ingress (no filter of its own) → `filter` unit with `c.pre` → RIB unit without a filter -/
def fuPipeIns (asWritten : Bool) (c : Cfg) : Rib → List Out → List In → Outcome
  | r, o, [] => .ok r o
  | r, o, i :: is =>
    match filterUnit asWritten c.keepPdRib c.preP i with
    | .panic s => .panic s
    | .fwd js =>
      let x := ribUnitAll { c with pre := none } r js
      fuPipeIns asWritten c x.1 (o ++ x.2) is

def fuPipe (asWritten : Bool) (c : Cfg) (h : History) : Outcome :=
  fuPipeIns asWritten c Rib.empty [] (h.flatMap (evIns { c with ing := none }))

end Rotonda.RotoRib
