import RotondaModel.Model.RibQuery
/-!
# VribQuery — the virtual-RIB query path and the `sort=` machinery of the RIB query API

Executable transliteration (core Lean + the import-free `Model/RibQuery.lean`) of two parts of
rotonda's RIB HTTP API that `Model/RibQuery.lean` leaves out:

**Part A — a query answered by a virtual RIB** (`rib_unit/http/request.rs::handle_prefix_query`,
arm `RibType::GeneratedVirtual | Virtual`; `rib_unit/unit.rs`: `run` arm `GateStatus::Triggered`,
`process_update` arm `Update::QueryResult`, `reprocess_query_results`, `reprocess_record_set`,
`reprocess_rib_value`). The request is parsed like a physical RIB's; then the processor stores a
oneshot sender under a fresh id, sends `TriggerData::MatchPrefix` to the physical RIB's gate and
waits. The physical RIB's unit task answers the trigger with `match_prefix` and publishes
`Update::QueryResult` through its gate, i.e. it calls `direct_update` of the first virtual RIB
*inline*; every virtual RIB re-filters the result record by record (`reprocess_rib_value`) and
either hands it to its waiting request or publishes it to the next virtual RIB.
As written `reprocess_rib_value` is `todo!()`: a result with at least one record panics — in the
physical RIB's task, which ends. `Pipe.alive` is that task. With the task gone the physical RIB's
own processor is dropped (its endpoint answers 404) and no trigger is ever served again (a later
virtual-RIB query waits forever: `Link::trigger` ignores the send error). Second mechanism: the
waiting request is gone (client disconnected, future dropped) when the result arrives:
`tx.send(res).unwrap()` panics in the same task.
The store's answer is an *input* here (`Upstream`): what `match_prefix` returns is C11's model.

**Part B — `sort=<json pointers>`** (`rib_unit/http/response.rs`: `sort_results`,
`cmp_json_values`, their call site in `prefixes_as_json`), with `serde_json::Value::pointer` and the
insertion sort `slice::sort_by` uses for slices of at most 20 elements.
-/
namespace Rotonda.VribQuery

open Rotonda.RibQuery (Str splitAt splitComma parseDigits)

/-! ## JSON values (`serde_json::Value`) -/

/-- `serde_json::Number`: `PosInt(u64)`, `NegInt(i64 < 0)` as `-(n+1)`, `Float` restricted to the
multiples of one half (`flt k` is `k/2`; conversions of integers are exact below 2^53 — the
engine stays below). No NaN / infinities exist in a `Number`. -/
inductive Num
  | pos (n : Nat)
  | neg (n : Nat)
  | flt (halves : Int)
  deriving DecidableEq, Repr

/-- An object is its key list and its value list (same length, keys distinct). -/
inductive J
  | null
  | bool (b : Bool)
  | num (n : Num)
  | str (s : Str)
  | arr (xs : List J)
  | obj (keys : List Str) (vals : List J)
  deriving Repr

mutual
def J.beq : J → J → Bool
  | .null, .null => true
  | .bool a, .bool b => a == b
  | .num a, .num b => a == b
  | .str a, .str b => a == b
  | .arr a, .arr b => J.beqList a b
  | .obj ka a, .obj kb b => ka == kb && J.beqList a b
  | _, _ => false
def J.beqList : List J → List J → Bool
  | [], [] => true
  | x :: xs, y :: ys => J.beq x y && J.beqList xs ys
  | _, _ => false
end

instance : BEq J := ⟨J.beq⟩

/-! ## `cmp_json_values` -/

def Num.isF64 : Num → Bool
  | .flt _ => true
  | _ => false

/-- `Number::as_i64` (`is_i64` is `isSome`). -/
def Num.asI64 : Num → Option Int
  | .pos n => if n < 2 ^ 63 then some (n : Int) else none
  | .neg n => some (-((n : Int) + 1))
  | .flt _ => none

/-- `Number::as_u64`. -/
def Num.asU64 : Num → Option Nat
  | .pos n => some n
  | _ => none

/-- `Number::as_f64` in halves (always `Some`). -/
def Num.asF64 : Num → Int
  | .pos n => 2 * (n : Int)
  | .neg n => -(2 * ((n : Int) + 1))
  | .flt k => k

def cmpInt (a b : Int) : Ordering := if a < b then .lt else if b < a then .gt else .eq
def cmpNat (a b : Nat) : Ordering := if a < b then .lt else if b < a then .gt else .eq

/-- `Option<T>::cmp`: `None < Some`. -/
def cmpOpt {α} (c : α → α → Ordering) : Option α → Option α → Ordering
  | none, none => .eq
  | none, some _ => .lt
  | some _, none => .gt
  | some a, some b => c a b

/-- The `(Number, Number)` arm: the branch is chosen by the *left* operand only. -/
def cmpNum (a b : Num) : Ordering :=
  if a.isF64 then cmpInt a.asF64 b.asF64
  else if a.asI64.isSome then cmpOpt cmpInt a.asI64 b.asI64
  else cmpOpt cmpNat a.asU64 b.asU64

/-- `String::cmp`: bytewise on UTF-8, which is code-point order. -/
def cmpStr : Str → Str → Ordering
  | [], [] => .eq
  | [], _ :: _ => .lt
  | _ :: _, [] => .gt
  | a :: as, b :: bs =>
    if a.toNat < b.toNat then .lt else if b.toNat < a.toNat then .gt else cmpStr as bs

def cmpBool : Bool → Bool → Ordering
  | false, true => .lt
  | true, false => .gt
  | _, _ => .eq

mutual
/-- `PrefixesApi::cmp_json_values`. Objects and mixed types: equal values are `Equal`, any two
different ones are `Less` — in both directions. -/
def cmpJson : J → J → Ordering
  | .null, .null => .eq
  | .bool a, .bool b => if a == b then .eq else cmpBool a b
  | .num a, .num b => if a == b then .eq else cmpNum a b
  | .str a, .str b => if a == b then .eq else cmpStr a b
  | .arr a, .arr b => cmpArr a b
  | .obj ka a, .obj kb b => if ka == kb && J.beqList a b then .eq else .lt
  | _, _ => .lt
/-- The lexicographic loop of the `(Array, Array)` arm. (`lhs == rhs` of the outer call is
subsumed: equal arrays run through the loop to `Equal`.) -/
def cmpArr : List J → List J → Ordering
  | [], [] => .eq
  | [], _ :: _ => .lt
  | _ :: _, [] => .gt
  | x :: xs, y :: ys =>
    match cmpJson x y with
    | .lt => .lt
    | .gt => .gt
    | .eq => cmpArr xs ys
end

/-! ## `serde_json::Value::pointer` -/

/-- `str::replace` of the two-character pattern `p1 p2` (`p1 ≠ p2`) by `r`, left to right,
non-overlapping. `pending` = a `p1` has been read and not yet emitted. -/
def repl2go (p1 p2 r : Char) : Bool → Str → Str
  | false, [] => []
  | true, [] => [p1]
  | false, c :: cs => if c == p1 then repl2go p1 p2 r true cs else c :: repl2go p1 p2 r false cs
  | true, c :: cs =>
    if c == p2 then r :: repl2go p1 p2 r false cs
    else if c == p1 then p1 :: repl2go p1 p2 r true cs
    else p1 :: c :: repl2go p1 p2 r false cs

def repl2 (p1 p2 r : Char) (s : Str) : Str := repl2go p1 p2 r false s

/-- `x.replace("~1", "/").replace("~0", "~")`. -/
def unescape (s : Str) : Str := repl2 '~' '0' '~' (repl2 '~' '1' '/' s)

/-- `parse_index`: no `+`, no leading zero, then `usize::from_str`. -/
def parseIndex (s : Str) : Option Nat :=
  match s with
  | [] => none
  | '+' :: _ => none
  | '0' :: _ :: _ => none
  | _ => match parseDigits s 0 with
    | some n => if n < 2 ^ 64 then some n else none
    | none => none

def lookup : List Str → List J → Str → Option J
  | k :: ks, v :: vs, tok => if k == tok then some v else lookup ks vs tok
  | _, _, _ => none

def stepTok (target : J) (tok : Str) : Option J :=
  match target with
  | .obj ks vs => lookup ks vs tok
  | .arr xs => match parseIndex tok with
    | some i => xs[i]?
    | none => none
  | _ => none

def walk : J → List Str → Option J
  | v, [] => some v
  | v, t :: ts => match stepTok v t with
    | some w => walk w ts
    | none => none

def pointer (v : J) (p : Str) : Option J :=
  match p with
  | [] => some v
  | c :: rest => if c == '/' then walk v ((splitAt (· == '/') rest).map unescape) else none

/-! ## `sort_results` -/

/-- The comparator closure: keys in order; a key missing on both sides ends the comparison as
`Equal` (the next key is *not* consulted), `missing < present`, equal values try the next key. -/
def cmpKeys : List Str → J → J → Ordering
  | [], _, _ => .eq
  | k :: ks, a, b =>
    match pointer a k, pointer b k with
    | none, none => .eq
    | none, some _ => .lt
    | some _, none => .gt
    | some l, some r =>
      match cmpJson l r with
      | .lt => .lt
      | .gt => .gt
      | .eq => cmpKeys ks a b

/-- `insert_tail` on the reversed sorted prefix: the new element moves left past every element it
is `Less` than and stops at the first one it is not. -/
def insRev {α} (lt : α → α → Bool) (x : α) : List α → List α
  | [] => [x]
  | y :: ys => if lt x y then y :: insRev lt x ys else x :: y :: ys

/-- `insertion_sort_shift_left(v, 1, is_less)`: what `slice::sort_by` runs for `len ≤ 20`
(and what every stable sort returns when `lt` is a strict weak order). -/
def isort {α} (lt : α → α → Bool) (xs : List α) : List α :=
  (xs.foldl (fun acc x => insRev lt x acc) []).reverse

def keysOf (sort : Str) : List Str := splitComma sort

def isLess (keys : List Str) (a b : J) : Bool := cmpKeys keys a b == .lt

/-- `PrefixesApi::sort_results(sort_cfg, slice)`. -/
def sortResults (sort : Option Str) (xs : List J) : List J :=
  match sort with
  | none => xs
  | some s => isort (isLess (keysOf s)) xs

/-- Where `sort_results` is applied. `false` = as written: inside `prefixes_as_json`, to the
results of *one stored record* (`Some(record.meta.clone()).iter()…collect()`: zero or one
element). `true` = repaired: to each finished section. -/
structure SortVariant where
  scope : Bool
  deriving DecidableEq, Repr

/-- One section of the answer. `base` = the entries of the section that passed the filters, one
per stored record, in the order the store handed the records over. -/
def sortSection (v : SortVariant) (sort : Option Str) (base : List J) : List J :=
  if v.scope then sortResults sort base
  else base.flatMap fun e => sortResults sort [e]

/-- The same on entries tagged with their position in `base` (what the driver prints). -/
def sortSectionIdx (v : SortVariant) (sort : Option Str) (base : List J) : List Nat :=
  let tagged := base.zipIdx
  let lt := fun (a b : J × Nat) => match sort with
    | none => false
    | some s => isLess (keysOf s) a.1 b.1
  if v.scope then (isort lt tagged).map (·.2)
  else (tagged.flatMap fun e => isort lt [e]).map (·.2)

/-! ## The rendering parameters at HTTP level (`handle_prefix_query`) -/

inductive SortResp
  | badRequest
  | dump
  /-- the three sections as permutations of the unsorted answer -/
  | json (data : List Nat) (less more : Option (List Nat))
  deriving DecidableEq, Repr

/-- The value of the first `sort` parameter (`parse_sort_params`). -/
def sortParam (ps : List RibQuery.Param) : Option Str :=
  match RibQuery.firstIdx "sort".toList ps 0 with
  | some (_, _, v) => some v
  | none => none

/-- A query whose string carries rendering parameters, given the answer (`d`, `l`, `m`) the same
query gives without them. `parseRequest` is C11's (`include`, `details`, filters, `sort`, `format`,
unknown names such as `sort_by` / `sort_order`). -/
def handleSorted (v : SortVariant) (lim : RibQuery.Limits) (url : RibQuery.Url)
    (d : List J) (l m : Option (List J)) : SortResp :=
  match RibQuery.parseRequest lim url with
  | .error _ => .badRequest
  | .ok req =>
    match req.format with
    | .dump => .dump
    | .other => .badRequest
    | .json =>
      let s := sortParam url.params
      .json (sortSectionIdx v s d)
        (if req.inc.less then some (sortSectionIdx v s (l.getD [])) else none)
        (if req.inc.more then some (sortSectionIdx v s (m.getD [])) else none)

/-! ## The repaired comparator (`proposed_fixes/vribquery-sort-sections-total-order.diff`)

Total preorder: values of different JSON types by type rank, numbers by value, strings bytewise,
arrays lexicographically then by length, objects lexicographically over their members in key
order then by size. Selected by the driver flag `cmp=total`. -/

def rank : J → Nat
  | .null => 0 | .bool _ => 1 | .num _ => 2 | .str _ => 3 | .arr _ => 4 | .obj _ _ => 5

mutual
def cmpJsonT : J → J → Ordering
  | .null, .null => .eq
  | .bool a, .bool b => cmpBool a b
  | .num a, .num b => cmpInt a.asF64 b.asF64
  | .str a, .str b => cmpStr a b
  | .arr a, .arr b => cmpArrT a b
  | .obj ka a, .obj kb b => cmpObjT ka a kb b
  | a, b => cmpNat (rank a) (rank b)
def cmpArrT : List J → List J → Ordering
  | [], [] => .eq
  | [], _ :: _ => .lt
  | _ :: _, [] => .gt
  | x :: xs, y :: ys =>
    match cmpJsonT x y with
    | .lt => .lt
    | .gt => .gt
    | .eq => cmpArrT xs ys
/-- members in key order (the objects of the model keep their keys sorted) -/
def cmpObjT : List Str → List J → List Str → List J → Ordering
  | k :: ks, v :: vs, k' :: ks', v' :: vs' =>
    match cmpStr k k' with
    | .lt => .lt
    | .gt => .gt
    | .eq =>
      match cmpJsonT v v' with
      | .lt => .lt
      | .gt => .gt
      | .eq => cmpObjT ks vs ks' vs'
  | [], _, [], _ => .eq
  | [], _, _ :: _, _ => .lt
  | _ :: _, _, [], _ => .gt
  | _ :: _, [], _ :: _, _ => .eq
  | _ :: _, _ :: _, _ :: _, [] => .eq
end

def cmpKeysT : List Str → J → J → Ordering
  | [], _, _ => .eq
  | k :: ks, a, b =>
    match pointer a k, pointer b k with
    | none, none => .eq
    | none, some _ => .lt
    | some _, none => .gt
    | some l, some r =>
      match cmpJsonT l r with
      | .lt => .lt
      | .gt => .gt
      | .eq => cmpKeysT ks a b

def isLessT (keys : List Str) (a b : J) : Bool := cmpKeysT keys a b == .lt

def sortSectionIdxT (v : SortVariant) (sort : Option Str) (base : List J) : List Nat :=
  let tagged := base.zipIdx
  let lt := fun (a b : J × Nat) => match sort with
    | none => false
    | some s => isLessT (keysOf s) a.1 b.1
  if v.scope then (isort lt tagged).map (·.2)
  else (tagged.flatMap fun e => isort lt [e]).map (·.2)

def handleSortedT (v : SortVariant) (lim : RibQuery.Limits) (url : RibQuery.Url)
    (d : List J) (l m : Option (List J)) : SortResp :=
  match RibQuery.parseRequest lim url with
  | .error _ => .badRequest
  | .ok req =>
    match req.format with
    | .dump => .dump
    | .other => .badRequest
    | .json =>
      let s := sortParam url.params
      .json (sortSectionIdxT v s d)
        (if req.inc.less then some (sortSectionIdxT v s (l.getD [])) else none)
        (if req.inc.more then some (sortSectionIdxT v s (m.getD [])) else none)

/-! ## The per-ingress listing (`handle_ingress_id_query`, `Rib::match_ingress_id`) -/

inductive ListResp
  | badRequest
  /-- (prefix, attribute id) of every listed route -/
  | ok (routes : List (RibQuery.Prefix × Nat))
  deriving DecidableEq, Repr

/-- `contract = false`: the prefixes the store's per-ingress iterator yields are taken as observed
(`iter_records_for_mui_*` is the more-specifics iterator of rotonda-store started at the root,
the one behind C11's more-specifics findings). `true`: every stored prefix is iterated. -/
structure ListVariant where
  contract : Bool
  deriving DecidableEq, Repr

/-- `GET <api path><text>` with a path of exactly three `/`-separated pieces: `text` must be a
`u32` (`IngressId`); a virtual RIB refuses; a physical one lists the *unicast* store's records of
that ingress id that are not withdrawn (`include_withdrawals = false`). -/
def handleListing (lv : ListVariant) (physical : Bool) (rib : RibQuery.Rib) (text : Str)
    (obs : List RibQuery.Prefix) : ListResp :=
  match RibQuery.parseUnsigned (2 ^ 32) text with
  | none => .badRequest
  | some id =>
    if !physical then .badRequest
    else
      let mine := rib.unicast.items.filter fun r => r.mui == id && r.status == .active
      .ok ((if lv.contract then mine else obs.flatMap fun p => mine.filter fun r => r.pfx == p).map
        fun r => (r.pfx, r.attrs.id))

/-! ## Part A: a pipeline with virtual RIBs -/

/-- What the physical RIB's `match_prefix` returns for the query (an input: C11's model). Only
the sizes matter on this path: `reprocess_*` looks at no field of a record. -/
structure Upstream where
  data : Nat
  less : Option Nat
  more : Option Nat
  deriving DecidableEq, Repr

/-- Number of records `reprocess_query_results` hands to `reprocess_rib_value`. -/
def Upstream.records (u : Upstream) : Nat := u.data + u.less.getD 0 + u.more.getD 0

structure VVariant where
  /-- `reprocess_rib_value` returns (`true`) instead of `todo!()` -/
  reprocess : Bool
  /-- a result whose requester is gone is dropped (`true`) instead of `tx.send(..).unwrap()` -/
  clientgone : Bool
  deriving DecidableEq, Repr

def vAsWritten : VVariant := ⟨false, false⟩
def vRepaired : VVariant := ⟨true, true⟩

inductive Endpoint
  | physical
  /-- a virtual RIB, `depth` virtual RIBs away from the physical one (1 = directly downstream) -/
  | virtual (depth : Nat)
  | status
  deriving DecidableEq, Repr

inductive What
  /-- a prefix query that passes the parameter checks -/
  | query (up : Upstream)
  /-- … whose client goes away before the result is delivered -/
  | queryGone (up : Upstream)
  /-- a request the parameter checks refuse (unknown parameter, per-ingress path on a virtual RIB, limit) -/
  | refused
  deriving DecidableEq, Repr

structure VReq where
  ep : Endpoint
  what : What
  deriving DecidableEq, Repr

inductive Panic
  | reprocessTodo
  | resultSendUnwrap
  deriving DecidableEq, Repr

inductive VAnswer
  | ok (up : Upstream)
  | ok200
  | badRequest
  | notFound
  /-- the request is never answered -/
  | hangs
  deriving DecidableEq, Repr

structure VObs where
  answer : VAnswer
  panic : Option Panic
  deriving DecidableEq, Repr

/-- The running pipeline as far as queries can tell: does the physical RIB's unit task run? -/
structure Pipe where
  alive : Bool
  deriving DecidableEq, Repr

/-- The result travels through `depth` virtual RIBs; each one re-filters every record.
`none` = `todo!()` reached. As written any record does it, at the first virtual RIB. -/
def reprocess (v : VVariant) (up : Upstream) : Nat → Option Upstream
  | 0 => some up
  | d + 1 => if v.reprocess || up.records == 0 then reprocess v up d else none

/-- One request against the pipeline. -/
def vstep (v : VVariant) (p : Pipe) (r : VReq) : Pipe × VObs :=
  match r.ep, r.what with
  | .status, _ => (p, ⟨.ok200, none⟩)
  | .physical, .refused => (p, ⟨if p.alive then .badRequest else .notFound, none⟩)
  | .physical, .query up => (p, ⟨if p.alive then .ok up else .notFound, none⟩)
  | .physical, .queryGone up => (p, ⟨if p.alive then .ok up else .notFound, none⟩)
  | .virtual _, .refused => (p, ⟨.badRequest, none⟩)
  | .virtual d, .query up =>
    if !p.alive then (p, ⟨.hangs, none⟩)
    else match reprocess v up d with
      | some res => (p, ⟨.ok res, none⟩)
      | none => (⟨false⟩, ⟨.hangs, some .reprocessTodo⟩)
  | .virtual d, .queryGone up =>
    if !p.alive then (p, ⟨.hangs, none⟩)
    else match reprocess v up d with
      | some _ => if v.clientgone then (p, ⟨.hangs, none⟩) else (⟨false⟩, ⟨.hangs, some .resultSendUnwrap⟩)
      | none => (⟨false⟩, ⟨.hangs, some .reprocessTodo⟩)

def vrun (v : VVariant) : Pipe → List VReq → Pipe × List VObs
  | p, [] => (p, [])
  | p, r :: rs =>
    let s := vstep v p r
    let t := vrun v s.1 rs
    (t.1, s.2 :: t.2)

end Rotonda.VribQuery
