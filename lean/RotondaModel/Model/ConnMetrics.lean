import RotondaModel.Model.Bmp
/-!
Model of the unit-level metrics of the BMP unit and of the gate, for C15 (and the Prometheus clause of C19).
Imports only `Model/Bmp.lean` (the state machine that decides what a message does), so the driver links.

What is transliterated
* `bmp_tcp_in/status_reporter.rs` + `bmp_tcp_in/metrics.rs`: every `fetch_add` on `BmpTcpInMetrics`
  (`listener_bound_count`, `connection_accepted_count`, `connection_lost_count`) and on the per-router
  `RouterMetrics` (`num_bmp_messages_received[7]`, `num_bmp_messages_processed`, `num_invalid_bmp_messages`,
  `num_receive_io_errors`), the registry `routers : FrimMap<RouterId, RouterMetrics>` with its lazy
  `router_metrics()` (creates the entry) and `remove_router()` (called by `router_connection_lost`)
  — `Eff`, `Metrics.apply`.
* `comms.rs` `GateMetrics::update` (`num_updates`, `num_dropped_updates`, `update_set_size`, `update`) and the part
  of `Gate::update_data` that decides `sent_at_least_once` (some link in `updates`, i.e. not suspended, took the
  update: queue receiver open / direct target alive) — `Eff.gateUpdate`, `anySent`.
* `router_handler.rs` `read_from_router` / `process_msg` and the accept loop of `unit.rs`: which reporter calls and
  gate updates one event causes and when the read loop ends (fatal read error, Termination) — `World.effs`.
* `metrics.rs` `Target::append`, `append_simple`, `Records::value/label_value/suffixed_*` for
  `OutputFormat::Prometheus` — second half of this file (`render`), with a parser of the exposition format.

What is an input token
* the router id of a connection (`format_source_id(template, _, ingress id)`: a function of the remote address
  and the configured template) is a number `Rid` given with the `accept` event;
* for the *abstract* events the outcome of `BmpState::process_msg` is part of the event (`Outcome`); the
  *concrete* events (`CEv`) carry a `Bmp.Msg` token and the outcome is computed by `Bmp.step`.
Unreachable code not modelled: `MessageType::Aborted` (`BmpState::_Aborted` is never constructed; that path would
count the connection as lost twice and then panic on the emptied state machine slot).
-/
namespace Rotonda.ConnMetrics

/-! ## Reporter calls and the metric record -/

/-- RFC 7854 message types = index into `num_bmp_messages_received`. -/
inductive MType where
  | routeMon | stats | peerDown | peerUp | init | term | mirror
  deriving DecidableEq, Repr

def MType.idx : MType → Nat
  | .routeMon => 0 | .stats => 1 | .peerDown => 2 | .peerUp => 3 | .init => 4 | .term => 5 | .mirror => 6

def MType.all : List MType := [.routeMon, .stats, .peerDown, .peerUp, .init, .term, .mirror]

abbrev Rid := Nat

/-- Calls on `BmpTcpInStatusReporter` and `GateMetrics::update`. -/
inductive Eff where
  | listening                                     -- `listener_listening`
  | accepted                                      -- `listener_connection_accepted`
  | received (r : Rid) (t : MType)                -- `message_received`
  | processed (r : Rid)                           -- `message_processed`
  | invalid (r : Rid)                             -- `message_processing_failure`
  | ioError (r : Rid)                             -- `receive_io_error`
  | lost (r : Rid)                                -- `router_connection_lost`
  | gateUpdate (sent : Bool) (bulk : Option Nat)  -- `GateMetrics::update(update, _, sent_at_least_once)`
  deriving DecidableEq, Repr

/-- `RouterMetrics`. -/
structure RouterMetrics where
  recv : MType → Nat
  processed : Nat
  invalid : Nat
  ioErrors : Nat

def RouterMetrics.zero : RouterMetrics := ⟨fun _ => 0, 0, 0, 0⟩

/-- `GateMetrics`; `updated` = the `update` cell holds a time. -/
structure GateMetrics where
  numUpdates : Nat
  dropped : Nat
  setSize : Nat
  updated : Bool
  deriving DecidableEq, Repr

def GateMetrics.zero : GateMetrics := ⟨0, 0, 0, false⟩

/-- `GateMetrics::update`. -/
def GateMetrics.update (g : GateMetrics) (sent : Bool) (bulk : Option Nat) : GateMetrics :=
  { numUpdates := g.numUpdates + 1,
    dropped := match sent with | true => g.dropped | false => g.dropped + 1,
    setSize := match bulk with | some n => n | none => g.setSize,
    updated := true }

/-- `BmpTcpInMetrics` (with the gate's metrics it holds). -/
structure Metrics where
  bound : Nat
  accepted : Nat
  lost : Nat
  routers : Rid → Option RouterMetrics
  gate : GateMetrics

def Metrics.zero : Metrics := ⟨0, 0, 0, fun _ => none, GateMetrics.zero⟩

/-- `router_metrics(id)`: `entry(id).or_insert_with(Default::default)`, then one `fetch_add`. -/
def Metrics.touch (m : Metrics) (r : Rid) (f : RouterMetrics → RouterMetrics) : Metrics :=
  { m with routers := fun r' => if r' = r then some (f ((m.routers r).getD RouterMetrics.zero)) else m.routers r' }

def bumpRecv (t : MType) (x : RouterMetrics) : RouterMetrics :=
  { x with recv := fun t' => if t' = t then x.recv t' + 1 else x.recv t' }

/-- status_reporter.rs, one call. -/
def Metrics.apply (m : Metrics) : Eff → Metrics
  | .listening => { m with bound := m.bound + 1 }
  | .accepted => { m with accepted := m.accepted + 1 }
  | .received r t => m.touch r (bumpRecv t)
  | .processed r => m.touch r (fun x => { x with processed := x.processed + 1 })
  | .invalid r => m.touch r (fun x => { x with invalid := x.invalid + 1 })
  | .ioError r => m.touch r (fun x => { x with ioErrors := x.ioErrors + 1 })
  | .lost r => { m with lost := m.lost + 1, routers := fun r' => if r' = r then none else m.routers r' }
  | .gateUpdate sent bulk => { m with gate := m.gate.update sent bulk }

def Metrics.applyAll (m : Metrics) (es : List Eff) : Metrics := es.foldl Metrics.apply m

/-- The exported value of a per-router counter: nothing is exported for a router without an entry. -/
def Metrics.val (m : Metrics) (r : Rid) (f : RouterMetrics → Nat) : Nat := ((m.routers r).map f).getD 0

/-- `GraphStatus::status_text`: `accepted - lost` (a `usize` subtraction). -/
def Metrics.clients (m : Metrics) : Nat := m.accepted - m.lost

/-! ## The unit: live connections, the gate's links, what one event does -/

/-- A subscription slot of the gate. `inUpd` / `inSusp` = the slot is in the gate's `updates` / `suspended` map
    (both maps are shared by the gate and its clones); `flag` = the `suspended` field of the `Link` itself
    (`Link::suspend` sends nothing when it is already set); `alive` = an update can be handed over (queue
    receiver not closed / direct target not dropped). -/
structure Link where
  slot : Nat
  flag : Bool
  inUpd : Bool
  inSusp : Bool
  alive : Bool
  deriving DecidableEq, Repr

/-- `sent_at_least_once` of `Gate::update_data`: it walks `updates` only. -/
def anySent (ls : List Link) : Bool := ls.any (fun l => l.inUpd && l.alive)

/-- What `process_msg` did with a parsed message (`MessageType`). -/
inductive Verdict where
  | invalid                       -- `InvalidMessage`
  | routing (bulk : Option Nat)   -- `RoutingUpdate`: `Some n` = `Update::Bulk` of `n` payloads
  | other                         -- `StateTransition` / `Other`
  deriving DecidableEq, Repr

structure Outcome where
  verdict : Verdict
  /-- the state machine is `Terminated` afterwards: `read_from_router` leaves its loop -/
  ends : Bool
  deriving DecidableEq, Repr

structure Conn where
  cid : Nat
  rid : Rid
  deriving DecidableEq, Repr

inductive Ev where
  | accept (c : Nat) (r : Rid)                 -- the accept loop accepted a connection
  | msg (c : Nat) (t : MType) (o : Outcome)    -- a complete, parsable message was read
  | unparsed (c : Nat)                         -- a complete frame that `Message::from_octets` rejects
  | fault (c : Nat) (fatal : Bool)             -- a read error (`is_fatal`); end of input is a fatal one
  | sub (slot : Nat) (suspended : Bool)        -- `Link::connect(suspended)`
  | suspend (slot : Nat)
  | unsuspend (slot : Nat)
  | unsub (slot : Nat)                         -- `Link::disconnect`
  | kill (slot : Nat)                          -- queue link closed / direct target dropped
  deriving DecidableEq, Repr

structure World where
  conns : List Conn
  links : List Link
  mx : Metrics

/-- After `BmpTcpIn::run` bound its listener. -/
def World.init : World := ⟨[], [], Metrics.zero.apply .listening⟩

def findConn (c : Nat) : List Conn → Option Conn
  | [] => none
  | x :: xs => if x.cid = c then some x else findConn c xs

def dropConn (c : Nat) (cs : List Conn) : List Conn := cs.filter (fun x => x.cid != c)

/-- The end of `read_from_router`: `router_connection_lost`, then `WithdrawBulk` and
    `UpstreamStatusChange(EndOfStream)` through the gate. -/
def lostEffs (r : Rid) (sent : Bool) : List Eff := [.lost r, .gateUpdate sent none, .gateUpdate sent none]

def verdictEffs (r : Rid) (sent : Bool) : Verdict → List Eff
  | .invalid => [.invalid r]
  | .routing b => [.gateUpdate sent b]
  | .other => []

def setLink (slot : Nat) (f : Link → Link) (ls : List Link) : List Link :=
  ls.map (fun l => if l.slot = slot then f l else l)

/-- Reporter calls and gate updates caused by one event, in order. Events that name a connection that is not
    live, or a slot that does not exist, cannot happen and do nothing. -/
def World.effs (w : World) : Ev → List Eff
  | .accept c _ => match findConn c w.conns with | some _ => [] | none => [.accepted]
  | .msg c t o =>
    match findConn c w.conns with
    | none => []
    | some x =>
      let s := anySent w.links
      [.received x.rid t, .processed x.rid] ++ verdictEffs x.rid s o.verdict ++
        (match o.ends with | true => lostEffs x.rid s | false => [])
  | .unparsed c => match findConn c w.conns with | none => [] | some x => [.ioError x.rid]
  | .fault c fatal =>
    match findConn c w.conns with
    | none => []
    | some x => .ioError x.rid :: (match fatal with | true => lostEffs x.rid (anySent w.links) | false => [])
  | _ => []

def World.conns' (w : World) : Ev → List Conn
  | .accept c r => match findConn c w.conns with | some _ => w.conns | none => w.conns ++ [⟨c, r⟩]
  | .msg c _ o => match o.ends with | true => dropConn c w.conns | false => w.conns
  | .fault c true => dropConn c w.conns
  | _ => w.conns

/-- `Gate::subscribe`, `suspension`, `unsubscribe` as the root gate handles them, and `FollowSubscribe` as every
    gate clone that reads its command queue handles it: `self.updates.insert(slot, …)` whatever the subscription's
    `suspended` flag says. Every live connection has such a clone (the one inside its `BmpStream`), and clones share
    `updates` with the root, so a link that subscribes *suspended* while a router is connected ends up in both maps. -/
def World.links' (w : World) : Ev → List Link
  | .sub slot susp =>
    if w.links.any (fun l => l.slot == slot) then w.links
    else w.links ++ [⟨slot, susp, !susp || !w.conns.isEmpty, susp, true⟩]
  | .suspend slot =>
    setLink slot (fun l => match l.flag with
      | true => l
      | false => (match l.inUpd with
        | true => { l with flag := true, inUpd := false, inSusp := true }
        | false => { l with flag := true })) w.links
  | .unsuspend slot =>
    setLink slot (fun l => match l.inSusp with
      | true => { l with flag := false, inSusp := false, inUpd := true }
      | false => { l with flag := false }) w.links
  | .unsub slot => w.links.filter (fun l => l.slot != slot)
  | .kill slot => setLink slot (fun l => { l with alive := false }) w.links
  | _ => w.links

def World.step (w : World) (e : Ev) : World := ⟨w.conns' e, w.links' e, w.mx.applyAll (w.effs e)⟩

def World.run (w : World) : List Ev → World
  | [] => w
  | e :: es => (w.step e).run es

/-- All reporter calls of a history, in order. -/
def World.trace (w : World) : List Ev → List Eff
  | [] => []
  | e :: es => w.effs e ++ (w.step e).trace es

/-! ## Concrete events: the outcome of a message is what the BMP state machine model says -/

def typeOf : Bmp.Msg → MType
  | .init => .init
  | .peerUp .. => .peerUp
  | .peerDown _ => .peerDown
  | .routeMon .. => .routeMon
  | .stats _ => .stats
  | .mirror _ => .mirror
  | .term => .term

def verdictOf : Bmp.Out → Verdict
  | .invalid => .invalid
  | .routing (.bulk _ na nw) => .routing (some (na + nw))
  | .routing _ => .routing none
  | .other => .other
  | .transition => .other

def outcomeOf (r : Bmp.Res) : Outcome := ⟨verdictOf r.out, r.st.phase == .terminated⟩

inductive CEv where
  | msg (c : Nat) (m : Bmp.Msg)
  | ev (e : Ev)           -- anything but a message
  deriving DecidableEq, Repr

/-- The unit together with the state machine of every live connection. -/
structure CWorld where
  w : World
  sms : List (Nat × Bmp.State)

def CWorld.init : CWorld := ⟨World.init, []⟩

def smOf (c : Nat) : List (Nat × Bmp.State) → Bmp.State
  | [] => Bmp.init
  | x :: xs => if x.1 = c then x.2 else smOf c xs

def setSm (c : Nat) (s : Bmp.State) (l : List (Nat × Bmp.State)) : List (Nat × Bmp.State) :=
  (c, s) :: l.filter (fun x => x.1 != c)

/-- The abstract event a concrete one amounts to. -/
def CWorld.resolve (v : Bmp.Variant) (K : Bmp.Hdr → Bmp.Key) (cw : CWorld) : CEv → Ev
  | .msg c m => .msg c (typeOf m) (outcomeOf (Bmp.step v K (smOf c cw.sms) m))
  | .ev e => e

def CWorld.step (v : Bmp.Variant) (K : Bmp.Hdr → Bmp.Key) (cw : CWorld) (e : CEv) : CWorld :=
  let w' := cw.w.step (cw.resolve v K e)
  match e with
  | .msg c m =>
    (match findConn c cw.w.conns with
     | none => ⟨w', cw.sms⟩
     | some _ => ⟨w', setSm c (Bmp.step v K (smOf c cw.sms) m).st cw.sms⟩)
  | .ev (.accept c _) =>
    (match findConn c cw.w.conns with
     | some _ => ⟨w', cw.sms⟩
     | none => ⟨w', setSm c Bmp.init cw.sms⟩)     -- `router_connected`: a new `BmpState`
  | .ev _ => ⟨w', cw.sms⟩

def CWorld.run (v : Bmp.Variant) (K : Bmp.Hdr → Bmp.Key) (cw : CWorld) : List CEv → CWorld
  | [] => cw
  | e :: es => (cw.step v K e).run v K es

/-- The abstract history a concrete one amounts to. -/
def CWorld.resolveAll (v : Bmp.Variant) (K : Bmp.Hdr → Bmp.Key) (cw : CWorld) : List CEv → List Ev
  | [] => []
  | e :: es => cw.resolve v K e :: (cw.step v K e).resolveAll v K es

/-! ## The Prometheus exposition written by `metrics::Target` (`OutputFormat::Prometheus`)

Strings are `List Char`. `esc = false` is the code as written: label values (the unit name and whatever the
caller passes) are written between the quotes as they are. `esc = true` is the repair: `\`, `"` and newline are
written as `\\`, `\"`, `\n`, as the exposition format requires. -/

abbrev Str := List Char

/-- `MetricType` with its `Display`. -/
inductive PType where
  | counter | gauge | histogram | summary | text
  deriving DecidableEq, Repr

def PType.str : PType → Str
  | .counter => ['c', 'o', 'u', 'n', 't', 'e', 'r']
  | .gauge => ['g', 'a', 'u', 'g', 'e']
  | .histogram => ['h', 'i', 's', 't', 'o', 'g', 'r', 'a', 'm']
  | .summary => ['s', 'u', 'm', 'm', 'a', 'r', 'y']
  | .text => ['t', 'e', 'x', 't']

/-- `MetricUnit` with its `Display`. -/
inductive MUnit where
  | second | millisecond | microsecond | byte | total | state | info
  deriving DecidableEq, Repr

def MUnit.str : MUnit → Str
  | .second => ['s', 'e', 'c', 'o', 'n', 'd', 's']
  | .millisecond => ['m', 'i', 'l', 'l', 'i', 's', 'e', 'c', 'o', 'n', 'd', 's']
  | .microsecond => ['m', 'i', 'c', 'r', 'o', 's', 'e', 'c', 'o', 'n', 'd', 's']
  | .byte => ['b', 'y', 't', 'e', 's']
  | .total => ['t', 'o', 't', 'a', 'l']
  | .state => ['s', 't', 'a', 't', 'e']
  | .info => ['i', 'n', 'f', 'o']

/-- `Metric`. -/
structure Metric where
  name : Str
  help : Str
  mtype : PType
  unit : MUnit
  deriving DecidableEq, Repr

/-- One `Records::value` / `suffixed_value` (`labels = none`) or `label_value` / `suffixed_label_value` call.
    `value` is the `Display` output of the value. -/
structure Rec where
  labels : Option (List (Str × Str))
  suffix : Option Str
  value : Str
  deriving DecidableEq, Repr

/-- One `Target::append(metric, unit_name, |records| …)`. -/
structure Call where
  metric : Metric
  unitName : Option Str
  recs : List Rec
  deriving DecidableEq, Repr

/-- `PROMETHEUS_PREFIX`. -/
def promPrefix : Str := ['r', 'o', 't', 'o', 'n', 'd', 'a']

/-- `append_metric_name`: `rotonda_<name>_<unit>[_<suffix>]`. -/
def fullName (m : Metric) (suffix : Option Str) : Str :=
  promPrefix ++ '_' :: m.name ++ '_' :: m.unit.str ++ (match suffix with | some s => '_' :: s | none => [])

def escLabelC (c : Char) : Str :=
  if c = '\\' then ['\\', '\\'] else if c = '"' then ['\\', '"'] else if c = '\n' then ['\\', 'n'] else [c]

def escLabel (esc : Bool) (v : Str) : Str := match esc with | true => v.flatMap escLabelC | false => v

/-- The lines of an exposition, as data (label values are the strings the caller supplied). -/
inductive Line where
  | help (name doc : Str)
  | type (name : Str) (t : PType)
  /-- `labels = none`: no braces at all -/
  | sample (name : Str) (labels : Option (List (Str × Str))) (value : Str)
  deriving DecidableEq, Repr

def componentLabel : Str := ['c', 'o', 'm', 'p', 'o', 'n', 'e', 'n', 't']

def renderPair (esc : Bool) (p : Str × Str) : Str := p.1 ++ '=' :: '"' :: escLabel esc p.2 ++ ['"']

/-- `name="value"` pairs separated by commas (the `comma` flag of `suffixed_label_value`). -/
def renderPairs (esc : Bool) : List (Str × Str) → Str
  | [] => []
  | [p] => renderPair esc p
  | p :: q :: ps => renderPair esc p ++ ',' :: renderPairs esc (q :: ps)

def helpKw : Str := ['#', ' ', 'H', 'E', 'L', 'P', ' ']
def typeKw : Str := ['#', ' ', 'T', 'Y', 'P', 'E', ' ']

def renderLine (esc : Bool) : Line → Str
  | .help n d => helpKw ++ n ++ ' ' :: d ++ ['\n']
  | .type n t => typeKw ++ n ++ ' ' :: t.str ++ ['\n']
  | .sample n none v => n ++ ' ' :: v ++ ['\n']
  | .sample n (some ls) v => n ++ '{' :: renderPairs esc ls ++ '}' :: ' ' :: v ++ ['\n']

/-- The sample line one record call writes. `value` with a unit name writes `{component="…"}`, without one no
    braces; `label_value` always writes braces, the component first. -/
def recLine (m : Metric) (unit : Option Str) (r : Rec) : Line :=
  .sample (fullName m r.suffix)
    (match r.labels, unit with
     | none, none => none
     | none, some u => some [(componentLabel, u)]
     | some ls, none => some ls
     | some ls, some u => some ((componentLabel, u) :: ls))
    r.value

/-- `Target::append`: nothing for a type the format does not support (`Text`), else `# HELP`, `# TYPE`, then
    whatever the closure appends. -/
def callLines (c : Call) : List Line :=
  match c.metric.mtype with
  | .text => []
  | t => .help (fullName c.metric none) c.metric.help :: .type (fullName c.metric none) t ::
           c.recs.map (recLine c.metric c.unitName)

def linesOf (cs : List Call) : List Line := cs.flatMap callLines

/-- `Target::into_string` after the given `append` calls. -/
def render (esc : Bool) (cs : List Call) : Str := (linesOf cs).flatMap (renderLine esc)

/-! ### The repair of the repeated `# HELP` / `# TYPE` lines (`group = true`)

`Target` as written emits the two header lines on every `append`, and the sources call `append` once per router
(and once per message type) for one metric. The repair keeps one block per metric name, in the order in which the
names first appear: the header of the first `append` of that name, then the samples of every `append` of that
name in call order. -/

/-- The distinct elements in order of first appearance. -/
def firstNames : List Str → List Str
  | [] => []
  | x :: xs => x :: (firstNames xs).filter (fun y => y != x)

/-- The calls the format supports (`supports_type`). -/
def liveCalls (cs : List Call) : List Call := cs.filter (fun c => c.metric.mtype != .text)

def headName (c : Call) : Str := fullName c.metric none

def blockOf (live : List Call) (n : Str) : List Line :=
  match live.find? (fun c => headName c == n) with
  | none => []
  | some c => .help n c.metric.help :: .type n c.metric.mtype ::
      (live.filter (fun c => headName c == n)).flatMap (fun c => c.recs.map (recLine c.metric c.unitName))

def groupLines (cs : List Call) : List Line :=
  (firstNames ((liveCalls cs).map headName)).flatMap (blockOf (liveCalls cs))

/-- The lines of the exposition for either variant. -/
def linesOfV (group : Bool) (cs : List Call) : List Line :=
  match group with | true => groupLines cs | false => linesOf cs

def renderV (esc group : Bool) (cs : List Call) : Str := (linesOfV group cs).flatMap (renderLine esc)

/-! ### A parser of the text exposition format (the grammar the output is checked against)

```
exposition := line*
line       := "# HELP " name " " doc "\n" | "# TYPE " name " " type "\n" | name [ "{" [ pair ("," pair)* ] "}" ] " " number "\n"
pair       := lname "=\"" ( [^"\\\n] | "\\\\" | "\\\"" | "\\n" )* "\""
name       := [a-zA-Z_:][a-zA-Z0-9_:]*      lname := [a-zA-Z_][a-zA-Z0-9_]*
doc        := ( [^\\\n] | "\\\\" | "\\n" )*    type := counter | gauge | histogram | summary | untyped
number     := ["-"] digit+
```
The parser returns the lines as data, label values decoded. -/

def isLNameStart (c : Char) : Bool := c.isAlpha || c == '_'
def isLNameChar (c : Char) : Bool := isLNameStart c || c.isDigit
def isNameStart (c : Char) : Bool := isLNameStart c || c == ':'
def isNameChar (c : Char) : Bool := isNameStart c || c.isDigit

def isName (s : Str) : Bool := match s with | [] => false | c :: r => isNameStart c && r.all isNameChar
def isLName (s : Str) : Bool := match s with | [] => false | c :: r => isLNameStart c && r.all isLNameChar

def isDigits (s : Str) : Bool := match s with | [] => false | _ => s.all Char.isDigit
def isNumber (s : Str) : Bool := match s with | '-' :: r => isDigits r | _ => isDigits s

def docOK : Str → Bool
  | [] => true
  | '\\' :: c :: r => (c == '\\' || c == 'n') && docOK r
  | c :: r => c != '\\' && c != '\n' && docOK r

def stripPrefix : Str → Str → Option Str
  | [], s => some s
  | _ :: _, [] => none
  | a :: p, b :: s => if a = b then stripPrefix p s else none

/-- The characters of a quoted label value up to the closing quote, decoded, and what follows the quote. -/
def parseLVal : Str → Option (Str × Str)
  | [] => none
  | c :: r =>
    if c = '"' then some ([], r)
    else if c = '\n' then none
    else if c = '\\' then
      match r with
      | [] => none
      | d :: r' =>
        if d = '\\' ∨ d = '"' then (parseLVal r').map (fun p => (d :: p.1, p.2))
        else if d = 'n' then (parseLVal r').map (fun p => ('\n' :: p.1, p.2))
        else none
    else (parseLVal r).map (fun p => (c :: p.1, p.2))

/-- One `lname="value"`. -/
def parsePair (s : Str) : Option ((Str × Str) × Str) :=
  let n := s.takeWhile isLNameChar
  match isLName n, s.dropWhile isLNameChar with
  | true, '=' :: '"' :: r => (parseLVal r).map (fun p => ((n, p.1), p.2))
  | _, _ => none

/-- After the first pair: `("," pair)* "}"`. -/
def parseMorePairs : Nat → Str → Option (List (Str × Str) × Str)
  | _, '}' :: r => some ([], r)
  | fuel + 1, ',' :: r =>
    match parsePair r with
    | none => none
    | some (p, r') => (parseMorePairs fuel r').map (fun q => (p :: q.1, q.2))
  | _, _ => none

/-- After `{`. -/
def parseLabels (fuel : Nat) (s : Str) : Option (List (Str × Str) × Str) :=
  match s with
  | '}' :: r => some ([], r)
  | _ =>
    match parsePair s with
    | none => none
    | some (p, r') => (parseMorePairs fuel r').map (fun q => (p :: q.1, q.2))

def parseType (s : Str) : Option PType :=
  if s = PType.counter.str then some .counter
  else if s = PType.gauge.str then some .gauge
  else if s = PType.histogram.str then some .histogram
  else if s = PType.summary.str then some .summary
  else none

def notNl (c : Char) : Bool := c != '\n'

/-- ` <number>\n` at the end of a sample line. -/
def parseValue (s : Str) : Option (Str × Str) :=
  match s with
  | ' ' :: r =>
    let v := r.takeWhile notNl
    (match isNumber v, r.dropWhile notNl with
     | true, '\n' :: rest => some (v, rest)
     | _, _ => none)
  | _ => none

/-- One line including its newline; returns the rest of the input. -/
def parseLine (s : Str) : Option (Line × Str) :=
  match stripPrefix helpKw s with
  | some r =>
    let n := r.takeWhile isNameChar
    (match isName n, r.dropWhile isNameChar with
     | true, ' ' :: r' =>
       let d := r'.takeWhile notNl
       (match docOK d, r'.dropWhile notNl with
        | true, '\n' :: rest => some (.help n d, rest)
        | _, _ => none)
     | _, _ => none)
  | none =>
  match stripPrefix typeKw s with
  | some r =>
    let n := r.takeWhile isNameChar
    (match isName n, r.dropWhile isNameChar with
     | true, ' ' :: r' =>
       (match parseType (r'.takeWhile notNl), r'.dropWhile notNl with
        | some t, '\n' :: rest => some (.type n t, rest)
        | _, _ => none)
     | _, _ => none)
  | none =>
    let n := s.takeWhile isNameChar
    match isName n, s.dropWhile isNameChar with
    | true, '{' :: r =>
      (match parseLabels r.length r with
       | none => none
       | some (ls, r') => (parseValue r').map (fun p => (.sample n (some ls) p.1, p.2)))
    | true, r => (parseValue r).map (fun p => (.sample n none p.1, p.2))
    | _, _ => none

def parseLines : Nat → Str → Option (List Line)
  | _, [] => some []
  | 0, _ :: _ => none
  | fuel + 1, s =>
    match parseLine s with
    | none => none
    | some (l, rest) => (parseLines fuel rest).map (l :: ·)

/-- The whole exposition (every line takes at least one character, so the length is enough fuel). -/
def parse (s : Str) : Option (List Line) := parseLines s.length s

/-- Exposition-level rule of the format: at most one `# HELP` and one `# TYPE` line per metric name. -/
def helpNames (ls : List Line) : List Str := ls.filterMap (fun | .help n _ => some n | _ => none)
def typeNames (ls : List Line) : List Str := ls.filterMap (fun | .type n _ => some n | _ => none)
def UniqueMeta (ls : List Line) : Prop := (helpNames ls).Nodup ∧ (typeNames ls).Nodup

/-! ### Well-formed lines: what the *programmer-chosen* parts must satisfy (metric names, label names, the help text,
the printed number). Label **values** are unconstrained. -/

def Line.wf : Line → Bool
  | .help n d => isName n && docOK d && d.all notNl
  | .type n t => isName n && t != .text
  | .sample n ls v => isName n && isNumber v &&
      (match ls with | none => true | some l => l.all (fun p => isLName p.1))

/-- A call whose metric name (with unit and each suffix) is a metric name, whose help text needs no escaping, whose
    label names are label names and whose values print as integers. Unit name and label values: anything. -/
def Call.wf (c : Call) : Bool :=
  isName (fullName c.metric none) && docOK c.metric.help && c.metric.help.all notNl &&
  c.recs.all (fun r => isName (fullName c.metric r.suffix) && isNumber r.value &&
    (match r.labels with | none => true | some l => l.all (fun p => isLName p.1)))

/-- A string that needs no escaping inside a quoted label value. -/
def clean (v : Str) : Bool := v.all (fun c => c != '\\' && c != '"' && c != '\n')

/-- No unit name and no label value of the calls needs escaping. -/
def Call.clean (c : Call) : Bool :=
  (match c.unitName with | none => true | some u => ConnMetrics.clean u) &&
  c.recs.all (fun r => match r.labels with | none => true | some l => l.all (fun p => ConnMetrics.clean p.2))

end Rotonda.ConnMetrics
