/-!
# C10 — Roto filters: predicates, an evaluator for the generated grammar, verdict handlers

Import-free executable model.

* **(a) predicates** — what the methods registered by
  `src/roto_runtime/runtime.rs::create_runtime` compute, as functions of an
  abstract decoded message (`Upd`: AS_PATH hop list, standard communities, set
  of attribute type codes; plus prefix, BMP message kind, per-peer-header ASN,
  provenance peer ASN).
* **(b) `run : Program → View → Verdict × List Output`** — an interpreter for
  exactly the grammar the harness generator prints (let-bound constants, nested
  `if/else`, `&&`/`||`/`not`, output calls, `accept`/`reject`, early return).
* **(c) the three verdict handlers**, transliterated from
  `bgp_tcp_in/router_handler.rs` (UPDATE arm of `Processor::process`),
  `bmp_tcp_in/router_handler.rs::process_msg` and
  `rib_unit/unit.rs::filter_payload`, parametric in the unfiltered processing
  step (`process` / `insert`), including the output-drain loops.

`Variant` selects "code as written" (`false`) or "repaired" (`true`) per defect site.
-/
namespace Rotonda.Roto

inductive Verdict where
  | accept | reject
  deriving DecidableEq, Repr

/-- One AS_PATH hop as routecore yields it: an ASN out of an AS_SEQUENCE, or a
    whole non-sequence segment (AS_SET, confed …), which never equals an ASN. -/
inductive Hop where
  | asn (a : Nat)
  | seg (members : List Nat)
  deriving DecidableEq, Repr

/-- `fam` is 4 or 6, `addr` the address as a number. -/
structure Pfx where
  fam : Nat
  addr : Nat
  len : Nat
  deriving DecidableEq, Repr

/-- The decoded path attributes of one UPDATE. -/
structure Upd where
  /-- `none`: no AS_PATH attribute -/
  aspath : Option (List Hop)
  /-- standard communities (u32); `[]`: no COMMUNITIES attribute -/
  comms : List Nat
  /-- type codes of all path attributes present -/
  attrs : List Nat
  deriving DecidableEq, Repr

inductive BmpKind where
  | initiation | peerUp | peerDown | routeMon | stats | termination
  deriving DecidableEq, Repr

/-- Defect-site switches: `false` = code as written, `true` = repaired. -/
structure Variant where
  /-- bgp-in drain loop forwards `Output::PeerDown` -/
  pdBgp : Bool
  /-- bmp-in drain loop forwards `Output::PeerDown` for every message kind -/
  pdBmp : Bool
  /-- rib-in-pre drain loop forwards `Output::PeerDown` -/
  pdRib : Bool
  /-- BMP predicates parse the UPDATE with the AS width of the per-peer header -/
  asWidth : Bool
  deriving DecidableEq, Repr

def asWritten : Variant := ⟨false, false, false, false⟩
def repaired : Variant := ⟨true, true, true, true⟩

/-! ## Inputs of the three filters -/

/-- `bgp-in(msg: BgpMsg, prov: Provenance)` -/
structure BgpIn where
  upd : Upd
  peerAsn : Nat
  deriving DecidableEq, Repr

/-- `bmp-in(msg: BmpMsg, prov: Provenance)`. `upd`/`legacy` only matter for Route Monitoring.
    `legacy`: the encapsulated UPDATE carries 2-octet AS numbers (per-peer-header A flag). -/
structure BmpIn where
  kind : BmpKind
  /-- ASN in the per-peer header; `none` for Initiation/Termination -/
  pphAsn : Option Nat
  legacy : Bool
  upd : Option Upd
  /-- `prov.peer_asn()` as passed by the caller -/
  provAsn : Nat
  deriving DecidableEq, Repr

/-- `rib-in-pre(route: Route)`: one exploded NLRI. `upd = none`: a withdrawal (empty attribute map). -/
structure RouteIn where
  pfx : Pfx
  upd : Option Upd
  deriving DecidableEq, Repr

/-- What the registered methods can see of an input. -/
structure View where
  /-- the UPDATE the attribute predicates inspect; `none`: nothing parseable, every attribute predicate is false -/
  upd : Option Upd
  pfx : Option Pfx
  peerAsn : Nat
  pphAsn : Option Nat
  isRouteMon : Bool
  isPeerDown : Bool
  deriving DecidableEq, Repr

def BgpIn.view (i : BgpIn) : View :=
  { upd := some i.upd, pfx := none, peerAsn := i.peerAsn, pphAsn := none, isRouteMon := false, isPeerDown := false }

def RouteIn.view (i : RouteIn) : View :=
  { upd := i.upd, pfx := some i.pfx, peerAsn := 0, pphAsn := none, isRouteMon := false, isPeerDown := false }

/-- `rm.bgp_update(&SessionConfig::modern())` on an UPDATE whose AS_PATH was encoded with
    2-octet ASNs still succeeds and still iterates the attributes (type codes, communities),
    but `aspath()` reads the AS_PATH value with 4-octet ASNs: one AS_SEQUENCE of n ≥ 1 hops
    has 2n value bytes where the reader wants 4n, so the path is unreadable and both AS-path
    predicates answer `false` (observed on routecore 0.5.1 by the engine). An empty or absent
    AS_PATH reads the same in both widths. (Paths with several segments can re-align into
    garbage ASNs; the generator does not produce them for 2-octet peers.) -/
def Upd.misread (u : Upd) : Upd :=
  { u with aspath := match u.aspath with
                     | some (_ :: _) => none
                     | a => a }

/-- runtime.rs:419-523: every BMP attribute predicate first does
    `if let BmpMsg::RouteMonitoring(rm) = msg { rm.bgp_update(&SessionConfig::modern()) … } else { return false }`. -/
def BmpIn.view (v : Variant) (i : BmpIn) : View :=
  { upd := if i.kind = .routeMon then
             i.upd.map fun u => if i.legacy && !v.asWidth then u.misread else u
           else none,
    pfx := none, peerAsn := i.provAsn, pphAsn := i.pphAsn,
    isRouteMon := i.kind = .routeMon, isPeerDown := i.kind = .peerDown }

/-! ## (a) predicates -/

/-- runtime.rs:991 `aspath.hops().any(|h| h == to_match.into())` -/
def Upd.aspathContains (u : Upd) (a : Nat) : Bool :=
  match u.aspath with
  | none => false
  | some hs => hs.contains (Hop.asn a)

/-- runtime.rs:1002 `aspath.origin() == Some(to_match.into())`, origin = right-most hop -/
def Upd.originIs (u : Upd) (a : Nat) : Bool :=
  match u.aspath with
  | none => false
  | some hs => hs.getLast? == some (Hop.asn a)

def Upd.hasComm (u : Upd) (c : Nat) : Bool := u.comms.contains c
def Upd.hasAttr (u : Upd) (t : Nat) : Bool := u.attrs.contains t

inductive Const where
  | asn (n : Nat) | comm (n : Nat) | pfx (p : Pfx) | u8 (n : Nat)
  deriving DecidableEq, Repr

/-- a literal, or the i-th `let`-bound constant -/
inductive Arg where
  | lit (c : Const) | var (i : Nat)
  deriving DecidableEq, Repr

def Arg.get (env : List Const) : Arg → Const
  | .lit c => c
  | .var i => env.getD i (.u8 0)

inductive Pred where
  | aspathContains (a : Arg) | originIs (a : Arg) | hasComm (c : Arg) | hasAttr (t : Arg)
  | peerAsnIs (a : Arg) | isIbgp (a : Arg) | isRouteMon | isPeerDown | prefixIs (p : Arg)
  deriving DecidableEq, Repr

def Pred.eval (env : List Const) (v : View) : Pred → Bool
  | .aspathContains a => match a.get env, v.upd with | .asn n, some u => u.aspathContains n | _, _ => false
  | .originIs a => match a.get env, v.upd with | .asn n, some u => u.originIs n | _, _ => false
  | .hasComm c => match c.get env, v.upd with | .comm n, some u => u.hasComm n | _, _ => false
  | .hasAttr t => match t.get env, v.upd with | .u8 n, some u => u.hasAttr n | _, _ => false
  | .peerAsnIs a => match a.get env with | .asn n => v.peerAsn == n | _ => false
  | .isIbgp a => match a.get env, v.pphAsn with | .asn n, some m => n == m | _, _ => false
  | .isRouteMon => v.isRouteMon
  | .isPeerDown => v.isPeerDown
  | .prefixIs p => match p.get env, v.pfx with | .pfx q, some r => r == q | _, _ => false

/-! ## (b) the evaluator -/

inductive Cond where
  | tt | ff
  | pred (p : Pred)
  | not (c : Cond)
  | and (a b : Cond)
  | or (a b : Cond)
  deriving DecidableEq, Repr

def Cond.eval (env : List Const) (v : View) : Cond → Bool
  | .tt => true
  | .ff => false
  | .pred p => p.eval env v
  | .not c => !(c.eval env v)
  | .and a b => a.eval env v && b.eval env v
  | .or a b => a.eval env v || b.eval env v

/-- the entries of `RotoOutputStream` (types.rs `enum Output`), payloads included -/
inductive Output where
  | prefix (p : Pfx) | asn (n : Nat) | origin (n : Nat) | community (n : Nat)
  | peerDown | custom (id v : Nat) | entry
  deriving DecidableEq, Repr

inductive OutCall where
  | logPrefix (p : Arg) | logAsn (a : Arg) | logOrigin (a : Arg) | logComm (c : Arg)
  | logPeerDown | logCustom (id v : Nat) | writeEntry
  deriving DecidableEq, Repr

def OutCall.eval (env : List Const) : OutCall → Output
  | .logPrefix p => match p.get env with | .pfx q => .prefix q | _ => .prefix ⟨4, 0, 0⟩
  | .logAsn a => match a.get env with | .asn n => .asn n | _ => .asn 0
  | .logOrigin a => match a.get env with | .asn n => .origin n | _ => .origin 0
  | .logComm c => match c.get env with | .comm n => .community n | _ => .community 0
  | .logPeerDown => .peerDown
  | .logCustom i v => .custom i v
  | .writeEntry => .entry

/-- Filter bodies. `blk b k` is "statement `b`, then `k`": if `b` returns a verdict the
    filter ends there (early return), if it falls through (`fall`) `k` runs. -/
inductive Prog where
  | ret (v : Verdict)
  | fall
  | out (o : OutCall) (k : Prog)
  | ite (c : Cond) (t e : Prog)
  | blk (b k : Prog)
  deriving DecidableEq, Repr

def Prog.exec (env : List Const) (v : View) : Prog → List Output × Option Verdict
  | .ret x => ([], some x)
  | .fall => ([], none)
  | .out o k => let r := k.exec env v; (o.eval env :: r.1, r.2)
  | .ite c t e => if c.eval env v then t.exec env v else e.exec env v
  | .blk b k =>
    match b.exec env v with
    | (o, some x) => (o, some x)
    | (o, none) => let r := k.exec env v; (o ++ r.1, r.2)

/-- every path through the body ends in `accept`/`reject` (what roto's type checker demands) -/
def Prog.closed : Prog → Bool
  | .ret _ => true
  | .fall => false
  | .out _ k => k.closed
  | .ite _ t e => t.closed && e.closed
  | .blk b k => b.closed || k.closed

structure Program where
  lets : List Const
  body : Prog
  deriving DecidableEq, Repr

/-- verdict and output stream of one call of the compiled filter function -/
def run (p : Program) (v : View) : Verdict × List Output :=
  let r := p.body.exec p.lets v
  (r.2.getD .accept, r.1)

/-! ## (c) the verdict handlers -/

/-- `OutputStreamMessage` as built by the drain loops: the topic, plus the payload of `custom` -/
inductive Osm where
  | prefix | community | asn | origin | peerDown | custom (id v : Nat) | entry
  deriving DecidableEq, Repr

def Output.toOsm : Output → Osm
  | .prefix _ => .prefix
  | .asn _ => .asn
  | .origin _ => .origin
  | .community _ => .community
  | .peerDown => .peerDown
  | .custom i v => .custom i v
  | .entry => .entry

/-- What a unit hands to its gate: an `Update::OutputStream`, or a routing update. -/
inductive Down (F : Type) where
  | os (msgs : List Osm)
  | fwd (f : F)
  deriving DecidableEq, Repr

/-- bgp router_handler.rs:347-392 and rib unit.rs:812-855: `Output::PeerDown => continue`;
    `keepPd = true` is the repaired loop. -/
def drainSkipPd (keepPd : Bool) (outs : List Output) : List Osm :=
  outs.filterMap fun o => if o = .peerDown ∧ keepPd = false then none else some o.toOsm

/-- bmp router_handler.rs:381-426: `PeerDown` only becomes a message when the BMP
    message is a Peer Down Notification, else `continue`. -/
def drainBmp (keepPd : Bool) (msgIsPeerDown : Bool) (outs : List Output) : List Osm :=
  outs.filterMap fun o =>
    if o = .peerDown ∧ msgIsPeerDown = false ∧ keepPd = false then none else some o.toOsm

/-- `self.roto_function.as_ref().map(|f| f.call(..))` with `None` read as "accept, no output"
    (the handlers match `Some(Accept) | None` in one arm; without a function the stream stays empty). -/
def filterResult {M : Type} (filter : Option (M → Verdict × List Output)) (m : M) : Verdict × List Output :=
  match filter with
  | none => (.accept, [])
  | some f => f m

/-- `if !output_stream.is_empty() { …drain…; gate.update_data(Update::OutputStream(osms)) }` -/
def osOf {F : Type} (drained : List Osm) (outs : List Output) : List (Down F) :=
  if outs.isEmpty then [] else [.os drained]

/-- The per-message handlers of bgp-in and bmp-in. `filter = none`: no `roto_function`.
    `process` is the unfiltered processing (`process_update` / `bmp_state.process_msg` + gate). -/
def handleMsg {σ M F : Type} (drain : M → List Output → List Osm)
    (filter : Option (M → Verdict × List Output)) (process : σ → M → σ × List F)
    (s : σ) (m : M) : σ × List (Down F) :=
  let r := filterResult filter m
  let os : List (Down F) := osOf (drain m r.2) r.2
  match r.1 with
  | .accept => let p := process s m; (p.1, os ++ p.2.map .fwd)
  | .reject => (s, os)

def handleMsgs {σ M F : Type} (drain : M → List Output → List Osm)
    (filter : Option (M → Verdict × List Output)) (process : σ → M → σ × List F) :
    σ → List M → σ × List (Down F)
  | s, [] => (s, [])
  | s, m :: ms =>
    let r := handleMsg drain filter process s m
    let r' := handleMsgs drain filter process r.1 ms
    (r'.1, r.2 ++ r'.2)

/-- what the RIB unit forwards after a `Bulk`/`Single` (unit.rs:881-893) -/
inductive RibFwd (P : Type) where
  | single (p : P) | bulk (ps : List P)
  deriving DecidableEq, Repr

def ribForward {P : Type} : List P → List (Down (RibFwd P))
  | [] => []
  | [p] => [.fwd (.single p)]
  | ps => [.fwd (.bulk ps)]

/-- unit.rs:783-857, the loop over the payloads: state, accepted payloads so far, emitted output streams -/
def ribLoop {σ P : Type} (keepPd : Bool) (filter : Option (P → Verdict × List Output))
    (insert : σ → P → σ) : σ → List P → σ × List P × List (Down (RibFwd P))
  | s, [] => (s, [], [])
  | s, p :: ps =>
    let r := filterResult filter p
    let s1 := match r.1 with | .accept => insert s p | .reject => s
    let acc := match r.1 with | .accept => [p] | .reject => []
    let os : List (Down (RibFwd P)) := osOf (drainSkipPd keepPd r.2) r.2
    let rest := ribLoop keepPd filter insert s1 ps
    (rest.1, acc ++ rest.2.1, os ++ rest.2.2)

/-- `RibUnitRunner::filter_payload` -/
def ribFilter {σ P : Type} (keepPd : Bool) (filter : Option (P → Verdict × List Output))
    (insert : σ → P → σ) (s : σ) (ps : List P) : σ × List (Down (RibFwd P)) :=
  let r := ribLoop keepPd filter insert s ps
  (r.1, r.2.2 ++ ribForward r.2.1)

/-- the `OutputStream` messages that reached the gate, flattened, in order -/
def emitted {F : Type} : List (Down F) → List Osm
  | [] => []
  | .os ms :: r => ms ++ emitted r
  | .fwd _ :: r => emitted r

/-- the routing updates that reached the gate, in order -/
def forwarded {F : Type} : List (Down F) → List F
  | [] => []
  | .os _ :: r => forwarded r
  | .fwd f :: r => f :: forwarded r

/-! ## The three filters wired to `run` -/

def bgpFilter (p : Program) : BgpIn → Verdict × List Output := fun i => run p i.view
def bmpFilter (v : Variant) (p : Program) : BmpIn → Verdict × List Output := fun i => run p (i.view v)
def ribInPre (p : Program) : RouteIn → Verdict × List Output := fun i => run p i.view

def bgpHandle {σ F : Type} (v : Variant) (p : Option Program) (process : σ → BgpIn → σ × List F) :=
  handleMsg (fun _ => drainSkipPd v.pdBgp) (p.map bgpFilter) process

def bmpHandle {σ F : Type} (v : Variant) (p : Option Program) (process : σ → BmpIn → σ × List F) :=
  handleMsg (fun (m : BmpIn) => drainBmp v.pdBmp (m.kind = .peerDown)) (p.map (bmpFilter v)) process

def ribHandle {σ : Type} (v : Variant) (p : Option Program) (insert : σ → RouteIn → σ) :=
  ribFilter v.pdRib (p.map ribInPre) insert

end Rotonda.Roto
