/-!
# ReconfUnits — what the running components do with a `Reconfigure` (C13: "keep running with their state
# and adopt changed settings"), for the component types `Model/Reconf.lean` does not execute

What is transliterated, and from where
--------------------------------------
## `Bgp` — bgp-tcp-in (`src/units/bgp_tcp_in/{unit,router_handler,peer_config}.rs`)
* `Key`, `Key.lt`, `pick`, `get` = `PeerConfigs::get` (`peer_config.rs:92`): first key, in `BTreeMap` order, that
  contains the address (copied from `Model/BgpIn.lean`, which this file does not import so that it stays
  import-free). `getExact` = `PeerConfigs::get_exact` = `BTreeMap::get` (keys are unique: `Cfg.wf`).
* `Unit` = `BgpTcpInRunner`: `cfg` = the `ArcSwap<BgpTcpIn>`, `bound` = the address the listener is bound to,
  `live` = the running `Processor::process` tasks of negotiated sessions (= the keys of `live_sessions`),
  `next` = `Register.serial`. `Sess.ucfg` = `Processor.unit_cfg`, a *copy of the unit's configuration made when
  the connection was accepted* (`accept_config(.., &arc_self.bgp.load().clone(), ..)`) that is never refreshed;
  `Sess.key` = `CombinedConfig.remote_prefix_or_exact` (the key matched at accept); `Sess.op` = what the
  session's OPEN announced (`Session::send_open`: local AS, BGP id, hold time, one MP capability per
  `protocols` entry, one ADD-PATH capability per `addpath` entry — all from the `CombinedConfig` made at accept).
* `conn` = the accept loop (`unit.rs:305-351`) + OPEN handling: a connection to an address the listener is not
  bound to is refused by the OS; no config for the address ⇒ dropped, no id taken; else `register()`; AS not
  accepted ⇒ NOTIFICATION; `(addr, AS)` already live ⇒ rejected; else a session under the *current* `cfg`.
* `reconf` = `GateStatus::Reconfiguring { new_config }`:
  - unit (`unit.rs:378-405`): `rebind = listen differs`; `self.bgp.store(new)`; on `rebind` the accept loop is left,
    the listener dropped and a new one bound to the new address (`bound := new.listen`);
  - every live session gets its own copy through its gate clone (`router_handler.rs:258-323`), `fate`:
    `new_unit != self.unit_cfg` (`PartialEq for BgpTcpIn`: `listen`, `my_asn`, `my_bgp_id` — *not* peers, *not*
    `filter_name`) ⇒ `Disconnect(Reconfiguration); break` (`endMain`); else
    `new_unit.peer_configs.get_exact(&peer_addr_cfg)` (by the **key matched at accept**, not by the remote
    address): `None` ⇒ `Disconnect(Deconfigured); break` (`endDeconf`); `Some(np)`: compared with
    `self.unit_cfg.peer_configs.get_exact(..).expect("must exist")` (`Fate.panic` if absent) by
    `PartialEq for PeerConfig`, which compares **`remote_asn` and `hold_time` only** (`peer_config.rs:150`:
    `name`, `protocols`, `addpath` are ignored): different ⇒ `Disconnect(Reconfiguration)` without `break`, the
    session's next `tick` sends the NOTIFICATION and drops the connection, the loop ends (`endPeer`); equal ⇒ noop.
    Every end runs the epilogue: `live_sessions.remove`, `Update::Withdraw(id, None)`.
  Sites: `bgpeq` (repaired: `protocols`/`addpath` compared too), `bgpmatch` (repaired: the session looks its
  entry up with `get(remote address)` and treats another key as a changed peer config), `bgplisten` (repaired:
  `listen` is not part of the session's comparison).
## `FileOut` — file-out (`src/targets/file/target.rs`)
* `St.cfg` = `FileRunner.config` (`format`, `filename`), the file created at start; `alive` = `run` has not
  returned; `log` = the lines written, in order, each with the file and format it was written with.
* `emit r` = an `Update::OutputStream` record taken from the link's queue: one line in `cfg.format` appended to
  the open file (`target.rs:150-205`); `pass` = any other update: nothing.
* `reload c` = what `Manager::spawn_internal` does to a kept file-out target and its kept upstream unit:
  `TargetCommand::Reconfigure { new_config: File { c, sources: link to the unit's new gate } }` — the arm is
  `warn!("Reconfiguration for FileOut component not yet implemented")`, the new config **and the new link** are
  dropped — and `GateAgent::reconfigure` of the upstream gate, whose `Reconfigure` arm replaces the subscriber
  map (`comms.rs:545`): the old link's queue closes, `sources.query()` answers `Err(Gone)`, the loop `break`s,
  the file is flushed and `run` returns `Ok(())` (`target.rs:142-148,222`): `alive := false`. Both orders of the
  two commands end in the same state. Site `fileout` (repaired: the target adopts `format`/`filename`,
  appends to the new file, re-subscribes through the new link, and waits for a command instead of leaving
  when its link reports `Gone`).
## `Filter` — filter unit (`src/units/filter/unit.rs:152-207`)
* `St.name` = the runner's `ArcSwap<FilterName>` (stored on `Reconfiguring` when different; read nowhere:
  `filter_payload` is `todo!()`), `sources` = the direct links held by the run loop, each pointing at the gate
  its upstream unit serves after this load (`gen` = number of loads; every load makes a new gate per unit and
  `GateAgent::reconfigure` moves the running unit onto it, dropping the old subscriber map).
* `reload c`: `filter_name.store`, `sources = new_sources` (the old links are dropped), every new link
  `connect`ed as a direct-update target. `eos u t`: upstream `u` publishes `UpstreamStatusChange(EndOfStream)`
  on the gate it serves; `process_update` passes it on iff the filter holds a link of that gate.
## `NullOut` — null-out (`src/targets/null.rs:48-58`)
* `reload srcs`: `self.sources = new_sources` (then `suspend`, a no-op on links that were never connected);
  `report` = `TargetCommand::ReportLinks`: `report.set_sources(&self.sources)` (nothing for an empty list).
## `Mrt` — mrt-file-in (`src/units/mrt_file_in/{unit,api}.rs`)
* `init c`: `MrtFileIn::run` queues every path of `filename` (`unit.rs:119-121`) and builds the queue endpoint
  `/mrt/<name>/queue` with `update_path` **copied into the `api::Processor`** (`unit.rs:123-130`); the queue
  consumer processes one file after the other (`unit.rs:473-512`): `processed` = the files read, in order, each
  as (directory it was read from, name) — static files of `filename` have directory `none`.
* `api n` = `GET …/queue?file=<n>`: no `update_path` ⇒ 400; else the file `<update_path>/<n>` is queued and
  processed (`api.rs:62-135`). `St.apidir` = the directory the endpoint resolves names in.
* `reload c` = `GateStatus::Reconfiguring { new_config: Unit::MrtFileIn(..) }` (`unit.rs:574-598`): the arm's
  body is commented out — the new `filename` is not queued, `update_path` stays what the endpoint was built
  with. Site `mrt` (repaired: files newly listed in `filename` are queued, the endpoint resolves names in the
  new `update_path`; files already listed are not read again).
## `BmpIn` — bmp-tcp-in, every setting (`src/units/bmp_tcp_in/{unit,router_handler,io}.rs`, `http/*`)
* `Cfg` = all five fields of `BmpTcpIn`: `listen`, `http_api_path`, `router_id_template`, `filter_name`,
  `tracing_mode` (0 Off, 1 IfRequested, 2 On). `St.cfg` = what the runner holds: `self.listen`, the three
  `ArcSwap`s shared with every `RouterHandler` and with the router list page, and `self.http_api_path`.
* `reload c` = `process_until`, arm `Reconfiguring` (`unit.rs:518-550`): `rebind = listen differs`; **then**
  `self.listen`, `filter_name.store`, `router_id_template.store`, `tracing_mode.store` — all four before the early
  return that triggers the re-bind; `http_api_path: _http_api_path` is bound and dropped: the list page stays
  registered where `BmpTcpIn::run` put it and `setup_router_specific_api_endpoint` keeps using
  `self.http_api_path`. Site `bmppath` (repaired: list page and every router page move to the new path).
  Sessions (`router_states`) are not touched; their handlers get `Reconfiguring` through their gate clone and
  do nothing with it ("We don't have any settings to reconfigure", `router_handler.rs:235-239`).
* `conn slot`: accepted only on the bound address; `find_or_register_bmp_router` (a fresh id per address: the
  engine uses one address per connection; id 1 is the unit's own), `router_connected` formats the router id
  with the template in force (`Router.tmpl`), the router page is registered under `self.http_api_path`
  (`Router.page`), and the handler starts reading: `BmpStream::next` creates `bmp_read(rx, **tracing_mode.load())`
  — **the mode is loaded when the read is started, not when the message arrives** (`io.rs:152`): `Router.readMode`.
* `init k t` = router `k` sends an Initiation message whose version byte carries trace id `t` in its high half
  (`io.rs:65-73`). Read with `readMode`: Off leaves the byte alone (`t > 0` ⇒ routecore rejects the version,
  `ErrorKind::Other`, not fatal: the message is dropped), otherwise the id is taken and the byte cleaned. Then
  `read_from_router` (`router_handler.rs:248-270`) with the mode **in force**: On and no id ⇒
  `next_tracing_id()`; traced iff id > 0 or On. `status_reporter.message_received` counts it under the router's
  id so far (`seen`), `check_update_router_id` re-formats the id with the template in force. The next read is
  started with the mode in force. Site `bmptrace` (repaired: the mode is loaded when the header has arrived).
* `close k`: the handler's task removes the router (tables, page, the metrics of its current id).
`filter_name` is stored and read nowhere (the call is in a commented-out block; the roto function is looked up
once, by the fixed name `bmp-in`): it is adopted in the only sense there is.
Theorems: `Props/ReconfUnits.lean`. Import-free so that the driver links.
-/
namespace Rotonda.ReconfUnits

inductive Site where
  | asWritten | repaired
  deriving DecidableEq, Repr

structure Variant where
  bgpeq : Site := .asWritten
  bgpmatch : Site := .asWritten
  bgplisten : Site := .asWritten
  fileout : Site := .asWritten
  mrt : Site := .asWritten
  bmppath : Site := .asWritten
  bmptrace : Site := .asWritten
  deriving DecidableEq, Repr

def asWritten : Variant := {}
def repaired : Variant := ⟨.repaired, .repaired, .repaired, .repaired, .repaired, .repaired, .repaired⟩

/-! ## bgp-tcp-in -/
namespace Bgp

abbrev Addr := Nat

inductive Key where
  | exact (a : Addr)
  | pfx (len bits : Nat)
  deriving DecidableEq, Repr

def Key.contains : Key → Addr → Bool
  | .exact a, x => a == x
  | .pfx l b, x => x >>> (32 - l) == b

def pfxAddr (l b : Nat) : Nat := b <<< (32 - l)

/-- `Ord for PrefixOrExact` (derived) over `Ord for Prefix` (inetnum), strict. -/
def Key.lt : Key → Key → Bool
  | .exact a, .exact b => a < b
  | .exact _, .pfx .. => true
  | .pfx .., .exact _ => false
  | .pfx l1 b1, .pfx l2 b2 =>
    let a1 := pfxAddr l1 b1
    let a2 := pfxAddr l2 b2
    if l1 = l2 then a1 < a2
    else
      let m := min l1 l2
      if a1 >>> (32 - m) == a2 >>> (32 - m) then l2 < l1 else a1 < a2

inductive Asns where
  | one (n : Nat)
  | many (l : List Nat)
  deriving DecidableEq, Repr

def Asns.accepts : Asns → Nat → Bool
  | .one n, x => n == x
  | .many [], _ => true
  | .many l, x => l.contains x

/-- `PeerConfig` (`name`, `remote_asn`, `hold_time`, `protocols`, `addpath`); lists of families are abstract ids. -/
structure Peer where
  key : Key
  asns : Asns
  hold : Nat
  protos : Nat
  addpath : Nat
  name : Nat
  deriving DecidableEq, Repr

def pick (best : Option Peer) (e : Peer) : Option Peer :=
  match best with
  | none => some e
  | some b => if e.key.lt b.key then some e else some b

/-- `PeerConfigs::get`. -/
def get (l : List Peer) (a : Addr) : Option Peer :=
  (l.filter (·.key.contains a)).foldl pick none

/-- `PeerConfigs::get_exact`. -/
def getExact (l : List Peer) (k : Key) : Option Peer :=
  l.find? (fun p => p.key == k)

/-- `BgpTcpIn` (`filter_name` is read nowhere in the unit). -/
structure Cfg where
  listen : Nat
  asn : Nat
  bgpid : Nat
  peers : List Peer
  deriving DecidableEq, Repr

/-- keys of a `BTreeMap` are unique -/
def Cfg.wf (c : Cfg) : Prop := (c.peers.map (·.key)).Nodup

/-- What a session's OPEN announces. -/
structure OpenP where
  asn : Nat
  bgpid : Nat
  hold : Nat
  protos : Nat
  addpath : Nat
  deriving DecidableEq, Repr

def openOf (c : Cfg) (p : Peer) : OpenP := ⟨c.asn, c.bgpid, p.hold, p.protos, p.addpath⟩

structure Sess where
  conn : Nat
  addr : Addr
  ras : Nat
  id : Nat
  key : Key
  ucfg : Cfg
  op : OpenP
  deriving DecidableEq, Repr

structure Unit where
  cfg : Cfg
  bound : Nat
  live : List Sess := []
  next : Nat := 1
  nconn : Nat := 0
  deriving DecidableEq, Repr

def init (c : Cfg) : Unit := { cfg := c, bound := c.listen }

inductive Fate where
  | keep | endMain | endPeer | endDeconf | panic
  deriving DecidableEq, Repr

inductive Out where
  | refused | nocfg | badas | rejected
  | neg (id : Nat) (op : OpenP)
  | nc
  | sent (id : Nat)
  | ended (id : Nat)
  | reconf (ended : List (Nat × Fate))
  deriving DecidableEq, Repr

/-- `PartialEq for BgpTcpIn`. -/
def mainEq (v : Variant) (a b : Cfg) : Bool :=
  (v.bgplisten == .repaired || a.listen == b.listen) && a.asn == b.asn && a.bgpid == b.bgpid

/-- `PartialEq for PeerConfig`. -/
def peerEq (v : Variant) (p q : Peer) : Bool :=
  p.asns == q.asns && p.hold == q.hold &&
    (v.bgpeq == .asWritten || (p.protos == q.protos && p.addpath == q.addpath))

/-- the peer-config half of the session's decision, once the new entry `np` has been found -/
def fatePeer (v : Variant) (s : Sess) (np : Peer) : Fate :=
  match getExact s.ucfg.peers s.key with
  | none => .panic
  | some cur => if peerEq v np cur then .keep else .endPeer

/-- `Processor::process`, arm `GateStatus::Reconfiguring`. -/
def fate (v : Variant) (s : Sess) (new : Cfg) : Fate :=
  if mainEq v new s.ucfg then
    match v.bgpmatch with
    | .asWritten =>
      match getExact new.peers s.key with
      | none => .endDeconf
      | some np => fatePeer v s np
    | .repaired =>
      match get new.peers s.addr with
      | none => .endDeconf
      | some np => if np.key == s.key then fatePeer v s np else .endPeer
  else .endMain

def kept (v : Variant) (new : Cfg) (l : List Sess) : List Sess := l.filter (fun s => fate v s new == .keep)
def endedBy (v : Variant) (new : Cfg) (l : List Sess) : List (Nat × Fate) :=
  (l.filter (fun s => fate v s new != .keep)).map (fun s => (s.id, fate v s new))

def reconf (v : Variant) (u : Unit) (new : Cfg) : Unit × Out :=
  ({ u with cfg := new, bound := new.listen, live := kept v new u.live }, .reconf (endedBy v new u.live))

def conn (u : Unit) (port : Nat) (a : Addr) (ras : Nat) : Unit × Out :=
  let u1 := { u with nconn := u.nconn + 1 }
  if port ≠ u.bound then (u1, .refused)
  else
    match get u.cfg.peers a with
    | none => (u1, .nocfg)
    | some p =>
      let u2 := { u1 with next := u.next + 1 }
      if !p.asns.accepts ras then (u2, .badas)
      else if u.live.any (fun s => s.addr == a && s.ras == ras) then (u2, .rejected)
      else
        let s : Sess := ⟨u.nconn, a, ras, u.next, p.key, u.cfg, openOf u.cfg p⟩
        ({ u2 with live := u.live ++ [s] }, .neg u.next (openOf u.cfg p))

def upd (u : Unit) (k : Nat) : Unit × Out :=
  match u.live.find? (·.conn == k) with
  | some s => (u, .sent s.id)
  | none => (u, .nc)

def fin (u : Unit) (k : Nat) : Unit × Out :=
  match u.live.find? (·.conn == k) with
  | some s => ({ u with live := u.live.filter (·.conn != k) }, .ended s.id)
  | none => (u, .nc)

inductive Ev where
  | conn (port : Nat) (a : Addr) (ras : Nat)
  | upd (k : Nat)
  | fin (k : Nat)
  | reconf (c : Cfg)
  deriving DecidableEq, Repr

def step (v : Variant) (u : Unit) : Ev → Unit × Out
  | .conn p a r => conn u p a r
  | .upd k => upd u k
  | .fin k => fin u k
  | .reconf c => reconf v u c

def run (v : Variant) (u : Unit) : List Ev → Unit
  | [] => u
  | e :: es => run v (step v u e).1 es

/-- the same with the outputs, for the driver -/
def runOut (v : Variant) (u : Unit) : List Ev → List (Out × Unit)
  | [] => []
  | e :: es => let r := step v u e; (r.2, r.1) :: runOut v r.1 es

end Bgp

/-! ## file-out -/
namespace FileOut

inductive Fmt where
  | csv | json | jsonMin
  deriving DecidableEq, Repr

structure Cfg where
  fmt : Fmt
  file : Nat
  deriving DecidableEq, Repr

structure Line where
  file : Nat
  fmt : Fmt
  r : Nat
  deriving DecidableEq, Repr

structure St where
  cfg : Cfg
  alive : Bool := true
  log : List Line := []
  deriving DecidableEq, Repr

def init (c : Cfg) : St := { cfg := c }

inductive Ev where
  | emit (r : Nat)
  | pass
  | reload (targetFirst : Bool) (c : Cfg)
  deriving DecidableEq, Repr

def step (v : Variant) (s : St) : Ev → St
  | .emit r => if s.alive then { s with log := s.log ++ [⟨s.cfg.file, s.cfg.fmt, r⟩] } else s
  | .pass => s
  | .reload _ c =>
    match v.fileout with
    | .asWritten => { s with alive := false }
    | .repaired => if s.alive then { s with cfg := c } else s

def run (v : Variant) (s : St) : List Ev → St
  | [] => s
  | e :: es => run v (step v s e) es

/-- alive-flags after every event, for the driver -/
def trace (v : Variant) (s : St) : List Ev → List Bool
  | [] => []
  | e :: es => (step v s e).alive :: trace v (step v s e) es

/-- Reference semantics of the clause (and of C17 across reloads): every record once, in order, in the file
    and format of the configuration in force when it was emitted. -/
def spec (c : Cfg) : List Ev → List Line
  | [] => []
  | .emit r :: es => ⟨c.file, c.fmt, r⟩ :: spec c es
  | .pass :: es => spec c es
  | .reload _ c' :: es => spec c' es

def isReload : Ev → Bool
  | .reload .. => true
  | _ => false

/-- the configuration in force after a history, by the reference semantics -/
def cfgAfter (c : Cfg) : List Ev → Cfg
  | [] => c
  | .reload _ c' :: es => cfgAfter c' es
  | _ :: es => cfgAfter c es

end FileOut

/-! ## filter -/
namespace Filter

structure Cfg where
  name : Nat
  sources : List Nat
  deriving DecidableEq, Repr

structure St where
  name : Nat
  sources : List (Nat × Nat)   -- (upstream unit, generation of the gate the link points at)
  gen : Nat := 0
  out : List Nat := []         -- end-of-stream notices passed on (their ingress ids), in order
  deriving DecidableEq, Repr

def init (c : Cfg) : St := { name := c.name, sources := c.sources.map (·, 0) }

inductive Ev where
  | eos (u : Nat) (tag : Nat)
  | reload (c : Cfg)
  deriving DecidableEq, Repr

def step (s : St) : Ev → St
  | .eos u t => if s.sources.contains (u, s.gen) then { s with out := s.out ++ [t] } else s
  | .reload c => { s with name := c.name, gen := s.gen + 1, sources := c.sources.map (·, s.gen + 1) }

def run (s : St) : List Ev → St
  | [] => s
  | e :: es => run (step s e) es

def trace (s : St) : List Ev → List St
  | [] => []
  | e :: es => step s e :: trace (step s e) es

/-- Reference semantics: a notice is passed on iff its upstream is a source of the configuration in force. -/
def spec (c : Cfg) : List Ev → List Nat
  | [] => []
  | .eos u t :: es => if c.sources.contains u then t :: spec c es else spec c es
  | .reload c' :: es => spec c' es

def cfgAfter (c : Cfg) : List Ev → Cfg
  | [] => c
  | .reload c' :: es => cfgAfter c' es
  | _ :: es => cfgAfter c es

end Filter

/-! ## null-out -/
namespace NullOut

structure St where
  sources : List (Nat × Nat)   -- (upstream unit, generation of its gate)
  gen : Nat := 0
  deriving DecidableEq, Repr

def init (srcs : List Nat) : St := { sources := srcs.map (·, 0) }

inductive Ev where
  | report
  | reload (srcs : List Nat)
  deriving DecidableEq, Repr

def step (s : St) : Ev → St
  | .report => s
  | .reload srcs => { sources := srcs.map (·, s.gen + 1), gen := s.gen + 1 }

def run (s : St) : List Ev → St
  | [] => s
  | e :: es => run (step s e) es

def trace (s : St) : List Ev → List St
  | [] => []
  | e :: es => step s e :: trace (step s e) es

/-- the sources of the last load (or of the start configuration) -/
def lastSources (srcs : List Nat) : List Ev → List Nat
  | [] => srcs
  | .reload s' :: es => lastSources s' es
  | .report :: es => lastSources srcs es

def loads : List Ev → Nat
  | [] => 0
  | .reload _ :: es => loads es + 1
  | .report :: es => loads es

end NullOut

/-! ## mrt-file-in -/
namespace Mrt

structure Cfg where
  files : List Nat          -- `filename` (one or many), as ids of static files
  updir : Option Nat        -- `update_path`
  deriving DecidableEq, Repr

structure St where
  cfg : Cfg                             -- `MrtInRunner.config`
  apidir : Option Nat                   -- `api::Processor.update_path`
  processed : List (Option Nat × Nat) := []
  deriving DecidableEq, Repr

def init (c : Cfg) : St := { cfg := c, apidir := c.updir, processed := c.files.map (none, ·) }

inductive Ev where
  | api (name : Nat)
  | reload (c : Cfg)
  deriving DecidableEq, Repr

inductive Out where
  | ok (dir name : Nat)     -- 200, that file was read
  | refused                 -- 400: no update_path configured
  | reloaded (newly : List Nat)
  deriving DecidableEq, Repr

def step (v : Variant) (s : St) : Ev → St × Out
  | .api n =>
    match s.apidir with
    | none => (s, .refused)
    | some d => ({ s with processed := s.processed ++ [(some d, n)] }, .ok d n)
  | .reload c =>
    match v.mrt with
    | .asWritten => (s, .reloaded [])
    | .repaired =>
      let newly := c.files.filter (fun f => !s.cfg.files.contains f)
      ({ cfg := c, apidir := c.updir, processed := s.processed ++ newly.map (none, ·) }, .reloaded newly)

def run (v : Variant) (s : St) : List Ev → St
  | [] => s
  | e :: es => run v (step v s e).1 es

def outs (v : Variant) (s : St) : List Ev → List Out
  | [] => []
  | e :: es => (step v s e).2 :: outs v (step v s e).1 es

/-- Reference semantics: a queue request is resolved in the `update_path` in force; a file newly listed in
    `filename` is read once when it appears. -/
def spec (c : Cfg) : List Ev → List (Option Nat × Nat)
  | [] => []
  | .api n :: es => (match c.updir with | none => [] | some d => [(some d, n)]) ++ spec c es
  | .reload c' :: es => (c'.files.filter (fun f => !c.files.contains f)).map (none, ·) ++ spec c' es

def isReload : Ev → Bool
  | .reload _ => true
  | _ => false

end Mrt

/-! ## bmp-tcp-in (all settings) -/
namespace BmpIn

structure Cfg where
  listen : Nat
  path : Nat
  tmpl : Nat
  filter : Nat
  mode : Nat
  deriving DecidableEq, Repr

structure Router where
  conn : Nat
  id : Nat
  page : Nat       -- the path its `RouterInfoApi` was registered under
  tmpl : Nat       -- the template its current router id was formatted with
  readMode : Nat   -- the tracing mode its in-flight `bmp_read` was started with
  deriving DecidableEq, Repr

structure St where
  cfg : Cfg
  bound : Nat
  routers : List Router := []
  next : Nat := 2
  nconn : Nat := 0
  tnext : Nat := 0
  seen : List (Nat × Nat) := []   -- (router, template) labels under which messages were counted
  deriving DecidableEq, Repr

def init (c : Cfg) : St := { cfg := c, bound := c.listen }

inductive Ev where
  | conn (slot : Nat)
  | init (k t : Nat)
  | close (k : Nat)
  | reload (c : Cfg)
  deriving DecidableEq, Repr

inductive Out where
  | refused
  | ok (id : Nat)
  | nc
  | msg (processed : Bool) (trace : Option Nat)
  | closed
  | reloaded
  deriving DecidableEq, Repr

/-- `bmp_read`: the trace id taken from the version byte, or `none` if the message is rejected. -/
def readPhase (readMode t : Nat) : Option Nat :=
  if readMode = 0 then (if t = 0 then some 0 else none) else some t

/-- `read_from_router` after a message was read with trace id `tid`, under the mode in force. -/
def handlePhase (mode tid tnext : Nat) : Out × Nat :=
  let tid' := if tid = 0 ∧ mode = 2 then tnext else tid
  let tnext' := if tid = 0 ∧ mode = 2 then (tnext + 1) % 256 else tnext
  (.msg true (if tid' > 0 ∨ mode = 2 then some tid' else none), tnext')

def conn (s : St) (slot : Nat) : St × Out :=
  let s1 := { s with nconn := s.nconn + 1 }
  if slot ≠ s.bound then (s1, .refused)
  else
    ({ s1 with next := s.next + 1,
               routers := s.routers ++ [⟨s.nconn, s.next, s.cfg.path, s.cfg.tmpl, s.cfg.mode⟩] }, .ok s.next)

def insertLabel (l : List (Nat × Nat)) (x : Nat × Nat) : List (Nat × Nat) := if l.contains x then l else l ++ [x]

/-- the mode the message of router `r` is read with -/
def readModeOf (v : Variant) (r : Router) (mode : Nat) : Nat :=
  match v.bmptrace with
  | .asWritten => r.readMode
  | .repaired => mode

def initMsg (v : Variant) (s : St) (k t : Nat) : St × Out :=
  match s.routers.find? (·.conn == k) with
  | none => (s, .nc)
  | some r =>
    match readPhase (readModeOf v r s.cfg.mode) t with
    | none =>
      ({ s with routers := s.routers.map (fun x => if x.conn == k then { x with readMode := s.cfg.mode } else x) },
        .msg false none)
    | some tid =>
      let h := handlePhase s.cfg.mode tid s.tnext
      ({ s with tnext := h.2, seen := insertLabel s.seen (r.id, r.tmpl),
                routers := s.routers.map (fun x =>
                  if x.conn == k then { x with readMode := s.cfg.mode, tmpl := s.cfg.tmpl } else x) }, h.1)

def close (s : St) (k : Nat) : St × Out :=
  match s.routers.find? (·.conn == k) with
  | none => (s, .nc)
  | some r => ({ s with routers := s.routers.filter (·.conn != k), seen := s.seen.filter (· != (r.id, r.tmpl)) }, .closed)

def reload (v : Variant) (s : St) (c : Cfg) : St × Out :=
  match v.bmppath with
  | .asWritten => ({ s with cfg := { c with path := s.cfg.path }, bound := c.listen }, .reloaded)
  | .repaired =>
    ({ s with cfg := c, bound := c.listen, routers := s.routers.map (fun r => { r with page := c.path }) }, .reloaded)

def step (v : Variant) (s : St) : Ev → St × Out
  | .conn slot => conn s slot
  | .init k t => initMsg v s k t
  | .close k => close s k
  | .reload c => reload v s c

def run (v : Variant) (s : St) : List Ev → St
  | [] => s
  | e :: es => run v (step v s e).1 es

def runOut (v : Variant) (s : St) : List Ev → List (Out × St)
  | [] => []
  | e :: es => let r := step v s e; (r.2, r.1) :: runOut v r.1 es

/-- The configuration that takes the settings selected by the five flags from `b`, the others from `a`:
    one reload that changes exactly that subset of settings. -/
def mix (a b : Cfg) (l p t f m : Bool) : Cfg :=
  ⟨if l then b.listen else a.listen, if p then b.path else a.path, if t then b.tmpl else a.tmpl,
   if f then b.filter else a.filter, if m then b.mode else a.mode⟩

/-- the configuration of the last reload (reference) -/
def lastCfg (c : Cfg) : List Ev → Cfg
  | [] => c
  | .reload c' :: es => lastCfg c' es
  | _ :: es => lastCfg c es

/-- Reference: what an Initiation message with trace id `t` gives under tracing mode `mode`. -/
def refMsg (mode t tnext : Nat) : Out × Nat :=
  match readPhase mode t with
  | none => (.msg false none, tnext)
  | some tid => handlePhase mode tid tnext

end BmpIn

end Rotonda.ReconfUnits
