import RotondaModel.Model.Mrt
import RotondaModel.Model.Rib
/-!
# PipeMrt — the bridge *MRT import ∘ RIB*

`Model/Mrt.lean` (C16) models `mrt-file-in` up to the `Update`s that leave the unit's gate;
`Model/Rib.lean` (C01/C02/C03) models what the RIB unit does with `Update`s. This file composes the
two without editing either, so that C16 can be stated where the property speaks: **the RIB
afterwards**.

* `annotate` turns the gate output of the MRT model (`List Mrt.Upd`) into the `Rib.Update`s the RIB
  unit receives: `Update::Single(Payload::new(route, RouteContext::for_mrt_dump(provenance)))` per dump
  entry (`unit.rs:390-398`), one `Update::Bulk` of `RouteContext::Mrt` payloads per UPDATE —
  announcements `Active`, then the kept withdrawals `Withdrawn` (`unit.rs:218-270`) —, and
  `Update::Withdraw(id, None)` per effective state change (`unit.rs:180`). `Mrt.Upd.bulk` does not
  carry the attribute set of its UPDATE (C16 did not need it); `annotate` takes it from the file: the
  k-th `Bulk` of a file belongs to the k-th UPDATE record of the file (`msgAttrs`), because
  `Mrt.msgLoop` emits exactly one `Bulk` per UPDATE record it reaches, in order.
* Prefix numbers of the MRT model are interpreted by `ι : PfxInterp`; theorems need `ι` injective
  per family (`PfxInterp.OK`). Everything MRT carries here is unicast (`mc = false`).
* `processFile` wraps `Mrt.processFile` with one more defect-site variant, `dumpreg`: the peer index
  loop registers a fresh ingress id per entry without a lookup (`asWritten`, `unit.rs:344-356`:
  `ingresses.register()` + `update_info`) / looks the peer up first like `process_message` does
  (`repaired`: `find_or_register_peer`). With `asWritten` it *is* `Mrt.processFile`.
* `importFile` / `importQueue`: the register and the RIB after a file / a queue of files
  (`Mrt.runQueue`'s control flow: as written a panic kills the consumer).

Import-free apart from the two models, so that the driver links. Theorems: `Props/PipeMrt.lean`.
-/
namespace Rotonda.PipeMrt

open Rotonda

/-- Interpretation of the MRT model's prefix numbers: `(v6?, number) ↦ prefix`. -/
abbrev PfxInterp := Bool → Nat → Rib.Prefix

def famOf (v6 : Bool) : Rib.Fam := if v6 then .v6 else .v4

/-- A concrete interpretation: the number is the host route with those bits. -/
def ιNum : PfxInterp := fun v6 n => ⟨famOf v6, (famOf v6).width, n⟩

/-- What the theorems need of an interpretation. -/
structure PfxInterp.OK (ι : PfxInterp) : Prop where
  fam : ∀ v6 n, (ι v6 n).fam = famOf v6
  inj : ∀ v6 n n', ι v6 n = ι v6 n' → n = n'

/-- One MRT route as the RIB unit receives it: unicast, `RouteContext::Mrt`, provenance `id`. -/
def payload (ι : PfxInterp) (id : Nat) (st : Rib.Status) (v6 : Bool) (a : Nat) (n : Nat) : Rib.Payload :=
  { route := ⟨ι v6 n, false, a⟩, ctx := .mrt, status := st, mui := id }

/-- The payload list of one UPDATE: announcements (`Active`, the UPDATE's attributes), then the
    withdrawals that `process_message` kept (`Withdrawn`; their attribute map is ignored by the RIB). -/
def bulkPayloads (ι : PfxInterp) (id : Nat) (v6 : Bool) (ann wd : List Nat) (a : Nat) : List Rib.Payload :=
  ann.map (payload ι id .active v6 a) ++ wd.map (payload ι id .withdrawn v6 0)

/-- Attribute sets of the UPDATE records of a file, in file order. -/
def msgAttrs : List Mrt.Rec → List Nat
  | [] => []
  | .msg _ (.update _ _ _ a) :: rest => a :: msgAttrs rest
  | _ :: rest => msgAttrs rest

/-- Gate output of the MRT model → the `Update`s the RIB unit receives; the k-th `Bulk` gets the
    k-th attribute set of `as`. -/
def annotate (ι : PfxInterp) : List Mrt.Upd → List Nat → List Rib.Update
  | [], _ => []
  | .single v6 pfx id a :: us, as => .single (payload ι id .active v6 a pfx) :: annotate ι us as
  | .bulk id v6 ann wd :: us, as => .bulk (bulkPayloads ι id v6 ann wd (as.headD 0)) :: annotate ι us as.tail
  | .withdraw id :: us, as => .withdraw id none :: annotate ι us as

/-- `find_or_register_peer` per peer index entry (the `dumpreg` repair). -/
def findOrRegisterAll (r : Mrt.Reg) (parent : Nat) : List Mrt.Peer → Mrt.Reg × List Nat
  | [] => (r, [])
  | p :: ps =>
    let x : Mrt.Reg × Nat := match r.find (some parent) p with
      | some id => (r, id)
      | none => r.register parent p
    let y := findOrRegisterAll x.1 parent ps
    (y.1, x.2 :: y.2)

/-- Defect-site variants of the composition: C16's three, the peer index loop, C01/C03's RIB sites.
    (`rib.overlapFix` has no effect here: the overlap site of the MRT path is `mrt.ov`.) -/
structure Variant where
  mrt : Mrt.Variant
  dumpreg : Mrt.Site
  rib : Rib.Variant
  deriving DecidableEq, Repr

def asWritten : Variant := ⟨Mrt.asWritten, .asWritten, Rib.asWritten⟩
def repaired : Variant := ⟨Mrt.repaired, .repaired, { overlapFix := true, perRecordWithdraw := true }⟩

/-- `process_file` with the `dumpreg` site. -/
def processFile (v : Variant) (parent : Nat) (reg : Mrt.Reg) (f : Mrt.File) : Mrt.Res :=
  match v.dumpreg with
  | .asWritten => Mrt.processFile v.mrt parent reg f
  | .repaired =>
    if !f.comp.readable then ⟨reg, [], .err⟩
    else
      match f.recs with
      | .peerIndex ps :: rest =>
        let rm := findOrRegisterAll reg parent ps
        match Mrt.dumpLoop rm.2 rest with
        | (o, true) => ⟨rm.1, o, .panic⟩
        | (o, false) =>
          let r := Mrt.msgLoop v.mrt parent rm.1 f.recs
          ⟨r.reg, o ++ r.out, r.status⟩
      | _ => Mrt.msgLoop v.mrt parent reg f.recs

/-- The ingress register and the RIB downstream of the unit. -/
structure State where
  reg : Mrt.Reg
  rib : Rib.Rib
  deriving DecidableEq, Repr

/-- What the RIB unit receives while the unit imports `f`. -/
def fileUpdates (ι : PfxInterp) (v : Variant) (parent : Nat) (reg : Mrt.Reg) (f : Mrt.File) : List Rib.Update :=
  annotate ι (processFile v parent reg f).out (msgAttrs f.recs)

def fileStatus (v : Variant) (parent : Nat) (s : State) (f : Mrt.File) : Mrt.Status :=
  (processFile v parent s.reg f).status

/-- Register and RIB after the unit has imported `f` (whatever became of it: everything that left the
    gate before an error or a panic has been applied, nothing is rolled back). -/
def importFile (ι : PfxInterp) (v : Variant) (parent : Nat) (s : State) (f : Mrt.File) : State :=
  ⟨(processFile v parent s.reg f).reg, s.rib.applyAll v.rib (fileUpdates ι v parent s.reg f)⟩

structure QRes where
  st : State
  resps : List Bool          -- per queued file: did the enqueuer get its answer
  deriving DecidableEq, Repr

/-- The queue: files one after another; as written a panic inside `process_file` kills the consumer. -/
def importQueue (ι : PfxInterp) (v : Variant) (parent : Nat) : State → List Mrt.File → QRes
  | s, [] => ⟨s, []⟩
  | s, f :: fs =>
    match fileStatus v parent s f, v.mrt.iso with
    | .panic, .asWritten => ⟨importFile ι v parent s f, (f :: fs).map fun _ => false⟩
    | _, _ =>
      let q := importQueue ι v parent (importFile ι v parent s f) fs
      ⟨q.st, true :: q.resps⟩

/-- The state a fresh unit starts from in the engine: unit id 1, next serial 2, empty RIB. -/
def State.init : State := ⟨⟨2, []⟩, Rib.Rib.empty⟩

/-! ## The gate output as a C01 history -/

def nlri (ι : PfxInterp) (v6 : Bool) (n : Nat) : Rib.Nlri := ⟨ι v6 n, .unicast⟩

/-- The gate output read as a history in C01's vocabulary: a dump entry is an UPDATE of its peer's id
    announcing one prefix, a `Bulk` is its UPDATE (withdrawals as kept by `process_message`), a
    `Withdraw` is a session-level withdrawal. -/
def histOf (ι : PfxInterp) : List Mrt.Upd → List Nat → Rib.History
  | [], _ => []
  | .single v6 pfx id a :: us, as => .upd id (.ok a [nlri ι v6 pfx] []) :: histOf ι us as
  | .bulk id v6 ann wd :: us, as => .upd id (.ok (as.headD 0) (ann.map (nlri ι v6)) (wd.map (nlri ι v6))) :: histOf ι us as.tail
  | .withdraw id :: us, as => .down id :: histOf ι us as

/-- The RIB variant under which `histOf` is replayed: the MRT path's overlap site has already acted
    (`Mrt.keptWd`), so C01's own overlap filter is off. -/
def ribVariant (v : Variant) : Rib.Variant := { v.rib with overlapFix := false }

/-! ## An update file as a C01 history, by peer -/

/-- The events an update file denotes, with one ingress id per peer (`idOf`), a state change being
    effective only for a peer that is known at that point (`known`: registered before the file, or seen
    in an earlier UPDATE of it). `sc` = the state-change site is repaired. -/
def fileEvents (ι : PfxInterp) (v : Mrt.Variant) (idOf : Mrt.Peer → Nat) (known : Mrt.Peer → Bool) : List Mrt.Rec → Rib.History
  | [] => []
  | .msg q (.update v6 ann wd a) :: rest =>
    .upd (idOf q) (.ok a (ann.map (nlri ι v6)) ((Mrt.keptWd v ann wd).map (nlri ι v6)))
      :: fileEvents ι v idOf (fun x => decide (x = q) || known x) rest
  | .stateChange q old new :: rest =>
    (if old = Mrt.established ∧ new = Mrt.idle ∧ v.sc = .repaired ∧ known q = true then [Rib.Ev.down (idOf q)] else [])
      ++ fileEvents ι v idOf known rest
  | _ :: rest => fileEvents ι v idOf known rest

/-- "The id the register answers for the peer" (0 if none). -/
def idIn (r : Mrt.Reg) (parent : Nat) (q : Mrt.Peer) : Nat := (r.find (some parent) q).getD 0

def knownIn (r : Mrt.Reg) (parent : Nat) (q : Mrt.Peer) : Bool := (r.find (some parent) q).isSome

/-- The ids registered for peer `q` under this unit. -/
def idsOf (r : Mrt.Reg) (parent : Nat) (q : Mrt.Peer) : List Nat :=
  (r.infos.filter fun e => e.2.1 = parent ∧ e.2.2 = q).map (·.1)

/-- No identity `(parent, peer)` is registered twice. -/
def NoDupIdent (r : Mrt.Reg) : Prop := (r.infos.map (·.2)).Nodup

end Rotonda.PipeMrt
