import RotondaModel.Model.Http
/-
HttpServer: the production HTTP server of rotonda as a client on a TCP connection sees it.

`src/http.rs` `Server::run` / `single_listener` hand every accepted connection (`HttpAccept`,
`HttpStream`) to hyper 0.14's HTTP/1 server with the per-connection service
`service_fn(|req| Server::handle_request(req, ..))`.  This file is the connection-level state machine:

  bytes on the connection ─ request framing (httparse 1.10 + hyper `Server::parse` + `http::Uri`)
    ─▶ `Http.handle` (Model/Http.lean, imported, unchanged: `handle_request` incl. `encode_response`)
    ─▶ response framing (status line version, `connection: keep-alive`, HEAD, keep-alive / close)

hyper, httparse and the `http` crate are dependencies: their framing contract is *transliterated from
reading* (trusted base) and sampled by the `httpserver` correspondence engine against the real listener.
Scope of the transliteration: request line and header grammar of httparse (`skip_empty_lines`,
`parse_token`, `parse_uri`, `parse_version`, `parse_headers_iter_uninit` with the default config),
hyper's post-processing (URI length 414, method charset of the `http` crate, `Transfer-Encoding` /
`Content-Length` / `Connection` / `Expect` rules, 100-header and buffer limits 431, keep-alive per
version), `http::Uri` for origin-form, `*`, authority-form and `http(s)://` absolute-form with a plain
authority (anything else: `unsupported`, never generated), body draining under the assumption that a
request body arrives in the same read as its head.

`Variant.aeGzip` selects the reading of `Accept-Encoding`: as written (`Http.encode`: the substring
`gzip` anywhere in the first header value) or repaired (RFC 9110 §12.5.3 codings and weights).
-/
namespace Rotonda.HttpServer
open Rotonda.Http

/-! ### character classes -/

/-- httparse `TOKEN_MAP` (method and header-name characters) -/
def isTchar (b : Nat) : Bool :=
  (48 ≤ b && b ≤ 57) || (65 ≤ b && b ≤ 90) || (97 ≤ b && b ≤ 122) ||
  b == 33 || b == 35 || b == 36 || b == 37 || b == 38 || b == 39 || b == 42 || b == 43 ||
  b == 45 || b == 46 || b == 94 || b == 95 || b == 96 || b == 124 || b == 126

/-- `http::Method` `METHOD_CHARS`: tchar without `# $ % & '` -/
def isMethodChar (b : Nat) : Bool :=
  isTchar b && !(b == 35 || b == 36 || b == 37 || b == 38 || b == 39)

/-- httparse `URI_MAP` -/
def isUriByte (b : Nat) : Bool := (33 ≤ b && b ≤ 126) || 128 ≤ b

/-- httparse `HEADER_VALUE_MAP` -/
def isValueByte (b : Nat) : Bool := b == 9 || (32 ≤ b && b ≤ 126) || 128 ≤ b

def isOws (b : Nat) : Bool := b == 32 || b == 9

/-- `http::uri::PathAndQuery::from_shared`, bytes allowed in the path -/
def pathByteOk (b : Nat) : Bool :=
  b == 33 || (36 ≤ b && b ≤ 59) || b == 61 || (64 ≤ b && b ≤ 95) || (97 ≤ b && b ≤ 122) ||
  b == 124 || b == 126 || b == 34 || b == 123 || b == 125

/-- … and in the query -/
def queryByteOk (b : Nat) : Bool :=
  b == 33 || (36 ≤ b && b ≤ 59) || b == 61 || (63 ≤ b && b ≤ 126)

def lower (b : Nat) : Nat := if 65 ≤ b && b ≤ 90 then b + 32 else b

/-- `eq_ignore_ascii_case` -/
def eqIgnoreCase (a b : Bytes) : Bool := a.map lower == b.map lower

/-! ### constants -/

/-- `"GET"` -/
def sGET : Bytes := [71, 69, 84]
/-- `"HEAD"` -/
def sHEAD : Bytes := [72, 69, 65, 68]
/-- `"HTTP/1.0"` -/
def sHttp10 : Bytes := [72, 84, 84, 80, 47, 49, 46, 48]
/-- `"HTTP/1.1"` -/
def sHttp11 : Bytes := [72, 84, 84, 80, 47, 49, 46, 49]
/-- `"HTTP/1."` -/
def sHttp1dot : Bytes := [72, 84, 84, 80, 47, 49, 46]
/-- `"http://"` -/
def sSchemeHttp : Bytes := [104, 116, 116, 112, 58, 47, 47]
/-- `"https://"` -/
def sSchemeHttps : Bytes := [104, 116, 116, 112, 115, 58, 47, 47]
/-- `"chunked"` -/
def sChunked : Bytes := [99, 104, 117, 110, 107, 101, 100]
/-- `"close"` -/
def sClose : Bytes := [99, 108, 111, 115, 101]
/-- `"keep-alive"` -/
def sKeepAlive : Bytes := [107, 101, 101, 112, 45, 97, 108, 105, 118, 101]
/-- `"100-continue"` -/
def sContinue : Bytes := [49, 48, 48, 45, 99, 111, 110, 116, 105, 110, 117, 101]
/-- `"connection"` -/
def hConnection : Bytes := [99, 111, 110, 110, 101, 99, 116, 105, 111, 110]
/-- `"content-length"` -/
def hContentLength : Bytes := [99, 111, 110, 116, 101, 110, 116, 45, 108, 101, 110, 103, 116, 104]
/-- `"transfer-encoding"` -/
def hTransferEncoding : Bytes := [116, 114, 97, 110, 115, 102, 101, 114, 45, 101, 110, 99, 111, 100, 105, 110, 103]
/-- `"expect"` -/
def hExpect : Bytes := [101, 120, 112, 101, 99, 116]
/-- `"accept-encoding"` -/
def hAcceptEncoding : Bytes := [97, 99, 99, 101, 112, 116, 45, 101, 110, 99, 111, 100, 105, 110, 103]
/-- the HTTP/2 connection preface `PRI * HTTP/2.0\r\n\r\nSM\r\n\r\n` -/
def h2Preface : Bytes :=
  [80, 82, 73, 32, 42, 32, 72, 84, 84, 80, 47, 50, 46, 48, 13, 10, 13, 10, 83, 77, 13, 10, 13, 10]

/-- hyper `DEFAULT_MAX_BUFFER_SIZE` = 8192 + 4096 * 100 -/
def maxBuf : Nat := 417792
/-- hyper `MAX_URI_LEN` = `u16::MAX - 1` -/
def maxUriLen : Nat := 65534
/-- hyper `MAX_HEADERS` -/
def maxHeaders : Nat := 100
/-- `u64::MAX` -/
def u64Max : Nat := 18446744073709551615

/-! ### httparse: the request head -/

/-- result of a parsing step on a buffer -/
inductive P (α : Type) where
  | more                          -- the buffer ends before the item is complete
  | bad (code : Nat)              -- hyper answers `code` by itself and closes the connection
  | ok (a : α) (rest : Bytes)
  deriving Repr

/-- httparse `skip_empty_lines` -/
def skipEmptyLines : Bytes → P Unit
  | [] => .more
  | b :: r =>
    if b = 13 then
      match r with
      | [] => .more
      | c :: r' => if c = 10 then skipEmptyLines r' else .bad 400
    else if b = 10 then skipEmptyLines r
    else .ok () (b :: r)

/-- token characters up to a space (`parse_token` after its first byte); accumulator keeps it tail recursive -/
def takeTokenAux (acc : Bytes) : Bytes → P Bytes
  | [] => .more
  | b :: r =>
    if b = 32 then .ok acc.reverse r
    else if isTchar b then takeTokenAux (b :: acc) r
    else .bad 400

/-- httparse `parse_method` (the `GET ` / `POST ` fast paths agree with `parse_token`) -/
def parseMethod : Bytes → P Bytes
  | [] => .more
  | b :: r => if isTchar b then takeTokenAux [] (b :: r) else .bad 400

/-- the longest prefix of URI bytes -/
def spanUriAux (acc : Bytes) : Bytes → Bytes × Bytes
  | [] => (acc.reverse, [])
  | b :: r => if isUriByte b then spanUriAux (b :: acc) r else (acc.reverse, b :: r)

/-- `str::from_utf8(..).is_ok()` -/
def validUtf8 (s : Bytes) : Bool := s.all (· < 128) || utf8Lossy s == s

/-- httparse `parse_uri`: URI bytes, then a space; not empty; valid UTF-8 -/
def parseUri (s : Bytes) : P Bytes :=
  match spanUriAux [] s with
  | (_, []) => .more
  | (u, c :: r) =>
    if c = 32 then
      if u.isEmpty then .bad 400 else if validUtf8 u then .ok u r else .bad 400
    else .bad 400

/-- httparse `parse_version`: `true` = HTTP/1.1 -/
def parseVersion (s : Bytes) : P Bool :=
  if 8 ≤ s.length then
    if s.take 8 = sHttp10 then .ok false (s.drop 8)
    else if s.take 8 = sHttp11 then .ok true (s.drop 8)
    else .bad 400
  else if s.isPrefixOf sHttp1dot then .more
  else .bad 400

/-- httparse `newline!` -/
def parseNewline : Bytes → P Unit
  | [] => .more
  | b :: r =>
    if b = 13 then
      match r with
      | [] => .more
      | c :: r' => if c = 10 then .ok () r' else .bad 400
    else if b = 10 then .ok () r
    else .bad 400

structure Hdr where
  name : Bytes
  value : Bytes
  deriving DecidableEq, Repr

/-- header-name characters up to the colon -/
def takeNameAux (acc : Bytes) : Bytes → P Bytes
  | [] => .more
  | b :: r =>
    if b = 58 then .ok acc.reverse r
    else if isTchar b then takeNameAux (b :: acc) r
    else .bad 400

def skipOws : Bytes → Bytes
  | [] => []
  | b :: r => if isOws b then skipOws r else b :: r

/-- header-value bytes up to LF or CR LF -/
def takeValueAux (acc : Bytes) : Bytes → P Bytes
  | [] => .more
  | b :: r =>
    if b = 13 then
      match r with
      | [] => .more
      | c :: r' => if c = 10 then .ok acc.reverse r' else .bad 400
    else if b = 10 then .ok acc.reverse r
    else if isValueByte b then takeValueAux (b :: acc) r
    else .bad 400

/-- trailing SP / HT of a value are trimmed -/
def trimEnd (v : Bytes) : Bytes := (v.reverse.dropWhile isOws).reverse

/-- httparse `parse_headers_iter_uninit` (default config) into an array of `maxHeaders` slots;
    `n` = headers stored so far; the fuel is the buffer length (every header takes at least a byte) -/
def parseHeaders : Nat → Nat → Bytes → P (List Hdr)
  | 0, _, _ => .more
  | fuel + 1, n, s =>
    match s with
    | [] => .more
    | b :: r =>
      if b = 13 then
        match r with
        | [] => .more
        | c :: r' => if c = 10 then .ok [] r' else .bad 400
      else if b = 10 then .ok [] r
      else if !isTchar b then .bad 400
      else
        match takeNameAux [] (b :: r) with
        | .more => .more
        | .bad c => .bad c
        | .ok name r1 =>
          match takeValueAux [] (skipOws r1) with
          | .more => .more
          | .bad c => .bad c
          | .ok v r2 =>
            if maxHeaders ≤ n then .bad 431
            else
              match parseHeaders fuel (n + 1) r2 with
              | .more => .more
              | .bad c => .bad c
              | .ok hs r3 => .ok ({ name := name, value := trimEnd v } :: hs) r3

structure RawHead where
  method : Bytes
  target : Bytes
  v11 : Bool
  headers : List Hdr
  deriving DecidableEq, Repr

/-- httparse `Request::parse` -/
def parseHead (s : Bytes) : P RawHead :=
  match skipEmptyLines s with
  | .more => .more
  | .bad c => .bad c
  | .ok () s1 =>
    match parseMethod s1 with
    | .more => .more
    | .bad c => .bad c
    | .ok m s2 =>
      match parseUri s2 with
      | .more => .more
      | .bad c => .bad c
      | .ok u s3 =>
        match parseVersion s3 with
        | .more => .more
        | .bad c => .bad c
        | .ok v s4 =>
          match parseNewline s4 with
          | .more => .more
          | .bad c => .bad c
          | .ok () s5 =>
            match parseHeaders (s5.length + 1) 0 s5 with
            | .more => .more
            | .bad c => .bad c
            | .ok hs s6 => .ok { method := m, target := u, v11 := v, headers := hs } s6

/-! ### `http::Uri` -/

/-- the query up to a `#` -/
def scanQuery : Bytes → Option Bytes
  | [] => some []
  | b :: r =>
    if b = 35 then some []
    else if queryByteOk b then (scanQuery r).map (b :: ·)
    else none

/-- `PathAndQuery::from_shared`: path up to `?` / `#`, query up to `#` -/
def scanPath : Bytes → Option (Bytes × Option Bytes)
  | [] => some ([], none)
  | b :: r =>
    if b = 63 then (scanQuery r).map fun q => ([], some q)
    else if b = 35 then some ([], none)
    else if pathByteOk b then (scanPath r).map fun pq => (b :: pq.1, pq.2)
    else none

inductive Target where
  | ok (path : Bytes) (query : Option Bytes)
  | bad                    -- `Uri` parse error: 400
  | unsupported            -- a request-target form outside the transliterated part of `http::Uri`
  deriving DecidableEq, Repr

/-- letters, digits, `-`, `.` -/
def isHostByte (b : Nat) : Bool :=
  (48 ≤ b && b ≤ 57) || (65 ≤ b && b ≤ 90) || (97 ≤ b && b ≤ 122) || b == 45 || b == 46

/-- `host[:digits]` with a plain host -/
def plainAuthority (a : Bytes) : Bool :=
  let host := a.takeWhile isHostByte
  let rest := a.dropWhile isHostByte
  !host.isEmpty && (rest.isEmpty || (rest.head? == some 58 && !(rest.drop 1).isEmpty && (rest.drop 1).all isDigit))

def isAuthEnd (b : Nat) : Bool := b == 47 || b == 63 || b == 35

/-- `PathAndQuery::path()`: an empty path reads `/` -/
def pqPath (p : Bytes) : Bytes := if p.isEmpty then [47] else p

/-- `Uri::from_shared` + `Uri::path()` / `query()` -/
def parseTarget (t : Bytes) : Target :=
  if t = [42] then .ok [42] none
  else if t.head? = some 47 then
    match scanPath t with
    | some (p, q) => .ok (pqPath p) q
    | none => .bad
  else
    let n := if eqIgnoreCase (t.take 7) sSchemeHttp then 7
             else if eqIgnoreCase (t.take 8) sSchemeHttps then 8 else 0
    if n = 0 then
      -- no scheme: the whole target must be an authority; `path()` is then empty
      if plainAuthority t then .ok [] none
      else if plainAuthority (t.takeWhile (fun b => !isAuthEnd b)) then .bad    -- something after the authority: `InvalidFormat`
      else .unsupported
    else
      let s := t.drop n
      let auth := s.takeWhile (fun b => !isAuthEnd b)
      let rest := s.dropWhile (fun b => !isAuthEnd b)
      if auth.isEmpty then .bad
      else if !plainAuthority auth then .unsupported
      else
        match scanPath rest with
        | some (p, q) => .ok (pqPath p) q
        | none => .bad

/-! ### hyper `Server::parse`: what the head means -/

inductive BodyKind where
  | none
  | len (n : Nat)
  | chunked
  deriving DecidableEq, Repr

structure Msg where
  method : Bytes
  path : Bytes
  query : Option Bytes
  v11 : Bool
  keepAlive : Bool
  body : BodyKind
  expect : Bool
  acceptEnc : Option Bytes
  deriving DecidableEq, Repr

inductive Interp where
  | ok (m : Msg)
  | bad (code : Nat)
  | unsupported
  deriving DecidableEq, Repr

def trimStart (v : Bytes) : Bytes := v.dropWhile isOws
def trimOws (v : Bytes) : Bytes := trimEnd (trimStart v)

/-- hyper `connection_has(value, needle)` -/
def connectionHas (value needle : Bytes) : Bool :=
  toStrOk value && (splitOn 44 value).any fun t => eqIgnoreCase (trimOws t) needle

/-- hyper `is_chunked_`: the last comma-separated coding is `chunked` -/
def isChunkedLast (value : Bytes) : Bool :=
  toStrOk value &&
  match (splitOn 44 value).getLast? with
  | some t => eqIgnoreCase (trimOws t) sChunked
  | none => false

/-- hyper `from_digits`: ASCII digits only, not empty, fits `u64` -/
def fromDigits (v : Bytes) : Option Nat :=
  if v.isEmpty || !v.all isDigit then none
  else
    let n := v.foldl (fun a d => a * 10 + (d - 48)) 0
    if n ≤ u64Max then some n else none

/-- the header loop's state -/
structure HState where
  keepAlive : Bool
  decoder : BodyKind
  conLen : Option Nat
  isTe : Bool
  isTeChunked : Bool
  expect : Bool
  deriving DecidableEq, Repr

/-- one header of hyper's loop; `none` = parse error with that status -/
def headerStep (v11 : Bool) (st : HState) (h : Hdr) : Except Nat HState :=
  let name := h.name.map lower
  if name = hTransferEncoding then
    if !v11 then .error 400
    else if isChunkedLast h.value then .ok { st with isTe := true, isTeChunked := true, decoder := .chunked }
    else .ok { st with isTe := true, isTeChunked := false }
  else if name = hContentLength then
    if st.isTe then .ok st
    else
      match fromDigits h.value with
      | none => .error 400
      | some len =>
        match st.conLen with
        | some prev => if prev = len then .ok st else .error 400
        | none =>
          if len ≤ u64Max - 2 then .ok { st with decoder := (if len = 0 then .none else .len len), conLen := some len }
          else .error 431
  else if name = hConnection then
    if st.keepAlive then .ok { st with keepAlive := !connectionHas h.value sClose }
    else .ok { st with keepAlive := connectionHas h.value sKeepAlive }
  else if name = hExpect then
    .ok { st with expect := eqIgnoreCase h.value sContinue }
  else .ok st

def headerLoop (v11 : Bool) : HState → List Hdr → Except Nat HState
  | st, [] => .ok st
  | st, h :: hs =>
    match headerStep v11 st h with
    | .error c => .error c
    | .ok st' => headerLoop v11 st' hs

/-- `HeaderMap::get("Accept-Encoding")`: the first value under that (case-insensitive) name -/
def firstHeader (name : Bytes) : List Hdr → Option Bytes
  | [] => none
  | h :: hs => if h.name.map lower = name then some h.value else firstHeader name hs

/-- hyper `Server::parse` after httparse -/
def interpret (h : RawHead) : Interp :=
  if maxUriLen < h.target.length then .bad 414
  else if !h.method.all isMethodChar then .bad 400
  else
    match parseTarget h.target with
    | .bad => .bad 400
    | .unsupported => .unsupported
    | .ok path query =>
      if h.headers.any (fun x => 65536 ≤ x.name.length) then .bad 431
      else
        match headerLoop h.v11 { keepAlive := h.v11, decoder := .none, conLen := none, isTe := false, isTeChunked := false, expect := false } h.headers with
        | .error c => .bad c
        | .ok st =>
          if st.isTe && !st.isTeChunked then .bad 400
          else .ok { method := h.method, path := path, query := query, v11 := h.v11, keepAlive := st.keepAlive,
                     body := st.decoder, expect := st.expect, acceptEnc := firstHeader hAcceptEncoding h.headers }

/-! ### request bodies (never read by the handlers): drained or not -/

/-- chunk-size line of the plain grammar `1*HEXDIG CR LF` -/
def chunkSizeAux (acc : Nat) (seen : Bool) : Bytes → Option (Nat × Bytes)
  | [] => none
  | b :: r =>
    match hexVal b with
    | some d => chunkSizeAux (acc * 16 + d) true r
    | none =>
      if seen && b = 13 then
        match r with
        | c :: r' => if c = 10 then some (acc, r') else none
        | [] => none
      else none

/-- a chunked body of the plain grammar (`size CRLF data CRLF`)* `0 CRLF CRLF`, all in the buffer:
    number of data chunks and the bytes after the body -/
def chunkedBody : Nat → Bytes → Option (Nat × Bytes)
  | 0, _ => none
  | fuel + 1, s =>
    match chunkSizeAux 0 false s with
    | none => none
    | some (n, r) =>
      if n = 0 then
        match r with
        | 13 :: 10 :: r' => some (0, r')
        | _ => none
      else if r.length < n + 2 then none
      else if (r.drop n).take 2 = [13, 10] then
        (chunkedBody fuel (r.drop (n + 2))).map fun kr => (kr.1 + 1, kr.2)
      else none

/-- What is left in the buffer after hyper dealt with the unread request body, or `none` when the
    connection is given up after the response (`poll_drain_or_close_read`): one eager decode step while
    the request is in flight (none under `Expect: 100-continue`), one more after the handler is done;
    a sized body in the buffer takes one step, a chunked one a step per data chunk plus one. -/
def drainBody (m : Msg) (rest : Bytes) : Option Bytes :=
  match m.body with
  | .none => some rest
  | .len n => if n ≤ rest.length then some (rest.drop n) else none
  | .chunked =>
    match chunkedBody (rest.length + 1) rest with
    | some (k, r) => if k + 1 ≤ (if m.expect then 1 else 2) then some r else none
    | none => none

/-! ### `encode_response`'s reading of Accept-Encoding, repaired (RFC 9110 §12.5.3) -/

/-- a valid `qvalue` greater than zero: `1[.000]` or `0.ddd` with a non-zero digit -/
def qNonzero (q : Bytes) : Bool :=
  match q with
  | 49 :: rest => rest.isEmpty || (rest.head? == some 46 && rest.length ≤ 4 && (rest.drop 1).all (· == 48))
  | 48 :: rest => rest.head? == some 46 && rest.length ≤ 4 && (rest.drop 1).all isDigit && (rest.drop 1).any (· != 48)
  | _ => false

/-- weight of one element's parameters: every `q=` parameter is judged, the last one decides; none: 1 -/
def paramsWeight : Bool → List Bytes → Bool
  | w, [] => w
  | w, p :: ps =>
    let p := trimOws p
    if (p.take 2).map lower = [113, 61] then paramsWeight (qNonzero (trimOws (p.drop 2))) ps
    else paramsWeight w ps

/-- (coding, weight > 0) of one list element -/
def aeElement (el : Bytes) : Bytes × Bool :=
  match splitOn 59 el with
  | [] => ([], true)
  | c :: ps => (trimOws c, paramsWeight true ps)

/-- RFC 9110 reading (the proposed repair): an explicit `gzip` element decides (acceptable when one of
    them has a non-zero weight), otherwise the last `*` element; unreadable or absent: not acceptable -/
def acceptsGzipRfc : Option Bytes → Bool
  | none => false
  | some h =>
    if !toStrOk h then false
    else
      let els := (splitOn 44 h).map aeElement
      let gz := els.filter fun e => eqIgnoreCase e.1 sGzip
      if !gz.isEmpty then gz.any (·.2)
      else
        match (els.filter fun e => e.1 = [42]).getLast? with
        | some e => e.2
        | none => false

/-! ### the connection -/

structure Variant where
  http : Http.Variant
  /-- `true` = as written (substring `gzip`), `false` = repaired (`acceptsGzipRfc`) -/
  aeGzip : Bool
  deriving DecidableEq, Repr

structure Cfg where
  v : Variant
  d : Deps
  reg : Registry

def toReq (m : Msg) : Req :=
  { method := if m.method = sGET then .get else .other, path := m.path, query := m.query, acceptEnc := m.acceptEnc }

/-- `Server::handle_request` behind the service function -/
def answer (c : Cfg) (m : Msg) : Outcome :=
  if c.v.aeGzip then handle c.v.http c.d c.reg (toReq m)
  else
    match handle c.v.http c.d { c.reg with compress := false } (toReq m) with
    | .ok r => .ok { r with gzip := c.reg.compress && m.method = sGET && acceptsGzipRfc m.acceptEnc }
    | .panic s => .panic s

/-- a response as framed by hyper -/
structure WResp where
  v11 : Bool            -- status line says HTTP/1.1 (else HTTP/1.0)
  status : Nat
  gzip : Bool           -- `content-encoding: gzip`
  connKA : Bool         -- `connection: keep-alive` (only towards an HTTP/1.0 client that asked for it)
  headOnly : Bool       -- no body bytes follow the head (HEAD)
  reason : Bool         -- the body is not empty
  deriving DecidableEq, Repr

inductive Out where
  | resp (r : WResp)
  | err (v11 : Bool) (code : Nat)   -- hyper's own answer to a head it rejects (empty body), then close
  | h2                              -- the HTTP/2 preface: the connection goes on in HTTP/2
  | dropped (s : Site)              -- the handler panicked: the connection is dropped without an answer
  | unsupported
  deriving DecidableEq, Repr

def frame (m : Msg) (r : Resp) : WResp :=
  { v11 := m.v11, status := r.status, gzip := r.gzip, connKA := !m.v11 && m.keepAlive,
    headOnly := m.method == sHEAD, reason := r.reason }

def dropLeadingNewlines : Bytes → Bytes
  | [] => []
  | b :: r => if b = 13 || b = 10 then dropLeadingNewlines r else b :: r

/-- hyper gives up on a head (431) when its buffer holds `maxBuf` bytes or more and the head is still
    undecided — but it only looks between reads, and a read fills whatever capacity the buffer has grown
    to (`BytesMut::reserve` doubles: below `4 * maxBuf`). So: a head decided within the first `maxBuf`
    bytes is judged as it is; one still undecided after `4 * maxBuf` bytes is `431`; in between the
    outcome depends on read sizes (`none`; heads of 430 kB and of 1 MB were seen to pass). -/
def headWindow (buf : Bytes) : Option (P RawHead) :=
  if buf.length ≤ maxBuf then some (parseHead buf)
  else
    match parseHead (buf.take maxBuf) with
    | .more =>
      if 4 * maxBuf ≤ buf.length then
        match parseHead (buf.take (4 * maxBuf)) with
        | .more => some (.bad 431)
        | _ => none
      else none
    | .bad c => some (.bad c)
    | .ok h rest => some (.ok h (buf.drop (maxBuf - rest.length)))

/-- hyper `Conn::on_parse_error`: a head that does not parse is answered with the status of the error and the
    connection ends — unless what is in the buffer (leading line ends dropped) is the HTTP/2 preface -/
def onParseError (lastV11 : Bool) (code : Nat) (buf : Bytes) : Out :=
  if h2Preface.isPrefixOf (dropLeadingNewlines buf) then .h2 else .err lastV11 code

/-- One connection: every byte the client ever sends ↦ what the server sends back until it closes.
    `lastV11`: version of the last request read (the version of hyper's own error answers). -/
def serveAux (c : Cfg) : Nat → Bool → Bytes → List Out
  | 0, _, _ => []
  | fuel + 1, lastV11, buf =>
    match headWindow buf with
    | none => [.unsupported]
    | some .more => []                         -- nothing more, or half a head, when the client is done
    | some (.bad code) => [onParseError lastV11 code buf]
    | some (.ok h rest) =>
      match interpret h with
      | .bad code => [onParseError lastV11 code buf]
      | .unsupported => [.unsupported]
      | .ok m =>
        match answer c m with
        | .panic s => [.dropped s]
        | .ok r =>
          match (if m.keepAlive then drainBody m rest else none) with
          | none => [.resp (frame m r)]
          | some rest' => .resp (frame m r) :: serveAux c fuel m.v11 rest'

def serve (c : Cfg) (stream : Bytes) : List Out := serveAux c (stream.length + 1) true stream

end Rotonda.HttpServer
