import RotondaModel.Model.HttpServer
import RotondaModel.Proofs.HttpServerWire
import RotondaModel.Proofs.HttpServer
import RotondaModel.Props.HttpRegistry
/-!
Property theorems of the HttpServer area: property C12 ("every HTTP request gets a well-formed response;
bad ones get 4xx, not a crash") on the PRODUCTION server, i.e. for what a client sees on a TCP connection.

`serve c stream` is everything the server sends on a connection on which the client sends `stream`
(Model/HttpServer.lean: httparse / hyper / `http::Uri` framing, `Http.handle`, hyper's response framing).
-/
namespace Rotonda.HttpServer
open Rotonda.Http

/-! ### One response per request, in request order, for every request sequence -/

/-- **Prefix law (any number of requests).** If the client's bytes start with the serialisations of
    requests `rs` that each get an answer and keep the connection (`outcome = (w, true)`), then the
    server's bytes start with exactly those answers, one per request, in request order, and what follows
    is what a connection yields on which only the remaining bytes `t` arrive. -/
theorem HS_one_response_per_request_in_order (c : Cfg) (rs : List (RawHead × WResp)) (t : Bytes)
    (hrs : ∀ p ∈ rs, HeadWF p.1 ∧ (serHead p.1).length ≤ maxBuf ∧ outcome c p.1 = some (p.2, true)) :
    ∃ k, serve c ((rs.map fun p => serHead p.1).flatten ++ t)
      = (rs.map fun p => Out.resp p.2) ++ serveAux c (k + 1) (lastV rs true) t := by
  have hl := flatten_ser_length rs (fun p hp => (hrs p hp).1)
  refine ⟨((rs.map fun p => serHead p.1).flatten ++ t).length - rs.length, ?_⟩
  unfold serve
  rw [serveAux_prefix c rs t hrs _ true (by simp only [List.length_append] at *; omega)]
  congr 2
  simp only [List.length_append] at *; omega

/-- **Pipeline, then a request that ends the connection, then anything.** Every request is answered
    once, in order; nothing that follows the closing request is ever answered. -/
theorem HS_pipeline_then_close (c : Cfg) (rs : List (RawHead × WResp)) (z : RawHead) (wz : WResp) (junk : Bytes)
    (hrs : ∀ p ∈ rs, HeadWF p.1 ∧ (serHead p.1).length ≤ maxBuf ∧ outcome c p.1 = some (p.2, true))
    (hz : HeadWF z ∧ (serHead z).length ≤ maxBuf ∧ outcome c z = some (wz, false)) :
    serve c ((rs.map fun p => serHead p.1).flatten ++ (serHead z ++ junk))
      = (rs.map fun p => Out.resp p.2) ++ [.resp wz] := by
  obtain ⟨k, hk⟩ := HS_one_response_per_request_in_order c rs (serHead z ++ junk) hrs
  rw [hk, serveAux_outcome c z hz.1 hz.2.1 k _ junk wz false hz.2.2]; simp

/-- **Keep-alive, then the client leaves** (possibly in the middle of a further head): exactly one
    answer per complete request. -/
theorem HS_pipeline_then_leave (c : Cfg) (rs : List (RawHead × WResp)) (t : Bytes)
    (hrs : ∀ p ∈ rs, HeadWF p.1 ∧ (serHead p.1).length ≤ maxBuf ∧ outcome c p.1 = some (p.2, true))
    (hl : t.length ≤ maxBuf) (ht : parseHead t = .more) :
    serve c ((rs.map fun p => serHead p.1).flatten ++ t) = rs.map fun p => Out.resp p.2 := by
  obtain ⟨k, hk⟩ := HS_one_response_per_request_in_order c rs t hrs
  rw [hk, serveAux_more c k _ t hl ht]; simp

/-- **A malformed request** (one hyper's parser rejects with `code`) after any number of good ones:
    the good ones are answered in order, the malformed one gets hyper's `code` (400 / 414 / 431) —
    or, if the bytes are the HTTP/2 preface, the switch to HTTP/2 — and the connection ends: whatever
    the rest of the bytes is, nothing else is sent. -/
theorem HS_malformed_answered_and_closed (c : Cfg) (rs : List (RawHead × WResp)) (b : Bytes) (code : Nat)
    (hrs : ∀ p ∈ rs, HeadWF p.1 ∧ (serHead p.1).length ≤ maxBuf ∧ outcome c p.1 = some (p.2, true))
    (hl : b.length ≤ maxBuf) (hb : parseHead b = .bad code) :
    serve c ((rs.map fun p => serHead p.1).flatten ++ b)
      = (rs.map fun p => Out.resp p.2) ++ [onParseError (lastV rs true) code b] := by
  obtain ⟨k, hk⟩ := HS_one_response_per_request_in_order c rs b hrs
  rw [hk, serveAux_bad c k _ b code hl hb]

/-- bytes that do not start like a request (not a token character, not a line end) are a 400 -/
theorem HS_garbage_400 (b : Nat) (r : Bytes) (h1 : isTchar b = false) (h2 : b ≠ 13) (h3 : b ≠ 10) :
    parseHead (b :: r) = .bad 400 := by
  unfold parseHead
  rw [skipEmptyLines.eq_def]
  simp [h2, h3, parseMethod, h1]

/-- which requests certainly flow: an HTTP/1.1 request without `Transfer-Encoding`, `Content-Length`,
    `Connection`, `Expect` headers has no body and keeps the connection … -/
theorem HS_plain_request_flows (c : Cfg) (h : RawHead) (ok : HeadOk h)
    (hp : ∀ x ∈ h.headers, isFraming x.name = false) (h11 : h.v11 = true)
    (p : Bytes) (q : Option Bytes) (ht : parseTarget h.target = .ok p q) (r : Resp)
    (ha : answer c { method := h.method, path := p, query := q, v11 := true, keepAlive := true, body := .none,
                     expect := false, acceptEnc := firstHeader hAcceptEncoding h.headers } = .ok r) :
    outcome c h = some ({ v11 := true, status := r.status, gzip := r.gzip, connKA := false,
                          headOnly := h.method == sHEAD, reason := r.reason }, true) := by
  unfold outcome
  rw [interpret_plain h ok hp p q ht]
  simp only [h11, ha, if_true]
  simp [frame]

/-- … and the same request with `Connection: close` as its last header is answered and ends it. -/
theorem HS_closing_request_ends (c : Cfg) (h : RawHead) (ok : HeadOk h) (pl : List Hdr) (cl : Hdr)
    (hh : h.headers = pl ++ [cl]) (hp : ∀ x ∈ pl, isFraming x.name = false)
    (hc : cl.name.map lower = hConnection) (hv : connectionHas cl.value sClose = true) (h11 : h.v11 = true)
    (p : Bytes) (q : Option Bytes) (ht : parseTarget h.target = .ok p q) (r : Resp)
    (ha : answer c { method := h.method, path := p, query := q, v11 := true, keepAlive := false, body := .none,
                     expect := false, acceptEnc := firstHeader hAcceptEncoding h.headers } = .ok r) :
    outcome c h = some ({ v11 := true, status := r.status, gzip := r.gzip, connKA := false,
                          headOnly := h.method == sHEAD, reason := r.reason }, false) := by
  unfold outcome
  rw [interpret_closing h ok pl cl hh hp hc hv h11 p q ht]
  simp only [ha, if_true]
  simp [frame]

/-! ### Every response on any connection obeys C12's laws -/

/-- **Any bytes at all.** Whatever the client sends, every response on the connection is the framed
    answer of `handle_request` to a request hyper accepted: its status is the one C12 demands
    (`specStatus`: 405 non-GET, 200 fixed paths, 404 nobody responsible, else 400 iff malformed for the
    first responsible processor), one of 200 / 400 / 404 / 405, a 400 carries a reason, and the status
    line speaks the request's HTTP version. -/
theorem HS_every_response_lawful (c : Cfg) (stream : Bytes) (w : WResp) (hw : Out.resp w ∈ serve c stream) :
    ∃ m : Msg, w.status = specStatus c.d c.reg (toReq m) ∧ (w.status = 400 → w.reason = true)
      ∧ (w.status = 200 ∨ w.status = 400 ∨ w.status = 404 ∨ w.status = 405)
      ∧ w.v11 = m.v11 ∧ (m.method ≠ sGET → w.status = 405 ∧ w.gzip = false) := by
  obtain ⟨h, m, r, _, ha, hf⟩ := serveAux_resp_mem c w _ _ _ hw
  have hs := answer_status c m r ha
  subst hf
  refine ⟨m, hs.1, hs.2, ?_, rfl, ?_⟩
  · have := specStatus_mem c.d c.reg (toReq m)
    simp only [frame]; rw [hs.1]; exact this
  · intro hm
    rw [answer_non_get c m hm] at ha
    cases ha; simp [frame, r405]

/-- **No request can make the server drop a connection** once the four handler sites of C12 are
    repaired (they are in this tree): no byte stream yields a dropped connection. -/
theorem HS_no_drop_repaired (c : Cfg) (hv : c.v.http = Http.repaired) (stream : Bytes) (s : Site) :
    Out.dropped s ∉ serve c stream := by
  intro hm
  obtain ⟨m, hp⟩ := serveAux_dropped_mem c s _ _ _ hm
  obtain ⟨r, hr⟩ := answer_no_panic c m hv
  rw [hr] at hp; cases hp

/-! ### gzip only when the client accepts it -/

/-- The clause at full strength: a gzip-encoded response only to a request whose (first)
    `Accept-Encoding` makes gzip acceptable (RFC 9110 §12.5.3, `acceptsGzipRfc`). -/
def HS_gzip_only_if_accepted_full (v : Variant) : Prop :=
  ∀ (d : Deps) (reg : Registry) (h : RawHead) (m : Msg) (r : Resp),
    interpret h = .ok m → answer { v := v, d := d, reg := reg } m = .ok r → r.gzip = true →
      acceptsGzipRfc m.acceptEnc = true

/-- **As written: what the code does.** gzip iff GET, `compress_responses`, and the first
    `Accept-Encoding` value is readable and *contains the substring* `gzip`. -/
theorem HS_gzip_as_written (c : Cfg) (hv : c.v.aeGzip = true) (stream : Bytes) (w : WResp)
    (hw : Out.resp w ∈ serve c stream) :
    ∃ m : Msg, w.gzip = true ↔ (m.method = sGET ∧ c.reg.compress = true ∧ acceptsGzip m.acceptEnc = true) := by
  obtain ⟨h, m, r, _, ha, hf⟩ := serveAux_resp_mem c w _ _ _ hw
  subst hf
  exact ⟨m, answer_gzip_as_written c m r hv ha⟩

/-- `Accept-Encoding: gzip;q=0` -/
def aeGzipQ0 : Bytes := [103, 122, 105, 112, 59, 113, 61, 48]
/-- `Accept-Encoding: xgzipx` -/
def aeXgzipx : Bytes := [120, 103, 122, 105, 112, 120]

/-- `GET /status HTTP/1.1␍␊Accept-Encoding: ` value `␍␊␍␊` -/
def witnessAe (ae : Bytes) : Bytes :=
  [71, 69, 84, 32, 47, 115, 116, 97, 116, 117, 115, 32, 72, 84, 84, 80, 47, 49, 46, 49, 13, 10,
   65, 99, 99, 101, 112, 116, 45, 69, 110, 99, 111, 100, 105, 110, 103, 58, 32] ++ ae ++ [13, 10, 13, 10]

def noDeps : Deps := { pfx := fun _ => .err, asn := fun _ => .err, community := fun _ => .err, fs := fun _ => .missing }
def asWrittenV : Variant := { http := Http.repaired, aeGzip := true }
def repairedV : Variant := { http := Http.repaired, aeGzip := false }

/-- **Counterexample (code as written), through the listener:** the client rules gzip out
    (`gzip;q=0`) and gets a gzip-encoded 200; likewise when `gzip` is only a substring of another token. -/
theorem HS_gzip_q0_counterexample :
    serve { v := asWrittenV, d := noDeps, reg := ⟨true, []⟩ } (witnessAe aeGzipQ0)
      = [.resp { v11 := true, status := 200, gzip := true, connKA := false, headOnly := false, reason := true }]
    ∧ acceptsGzipRfc (some aeGzipQ0) = false
    ∧ serve { v := asWrittenV, d := noDeps, reg := ⟨true, []⟩ } (witnessAe aeXgzipx)
      = [.resp { v11 := true, status := 200, gzip := true, connKA := false, headOnly := false, reason := true }]
    ∧ acceptsGzipRfc (some aeXgzipx) = false := by
  decide

theorem HS_gzip_only_if_accepted_counterexample : ¬ HS_gzip_only_if_accepted_full asWrittenV := by
  intro h
  have := h noDeps ⟨true, []⟩
    { method := sGET, target := sStatus, v11 := true, headers := [⟨hAcceptEncoding, aeGzipQ0⟩] }
    { method := sGET, path := sStatus, query := none, v11 := true, keepAlive := true, body := .none, expect := false,
      acceptEnc := some aeGzipQ0 }
    ⟨200, true, true⟩ (by decide) (by decide) rfl
  revert this; decide

/-- **Partial (code as written):** the clause holds for every request whose header does not contain
    the substring `gzip` outside an acceptable `gzip` element. -/
theorem HS_gzip_only_if_accepted_partial (d : Deps) (reg : Registry) (v : Variant) (hv : v.aeGzip = true)
    (m : Msg) (r : Resp)
    (guard : acceptsGzip m.acceptEnc = true → acceptsGzipRfc m.acceptEnc = true)
    (ha : answer { v := v, d := d, reg := reg } m = .ok r) (hg : r.gzip = true) :
    acceptsGzipRfc m.acceptEnc = true :=
  guard ((answer_gzip_as_written _ m r hv ha).1 hg).2.2

/-- **Repaired: the clause at full strength**, and exactly: gzip iff GET, `compress_responses` and gzip
    acceptable. -/
theorem HS_gzip_only_if_accepted_repaired (h : Http.Variant) :
    HS_gzip_only_if_accepted_full { http := h, aeGzip := false } := by
  intro d reg _ m r _ ha hg
  exact ((answer_gzip_repaired _ m r rfl ha).1 hg).2.2

theorem HS_gzip_repaired (c : Cfg) (hv : c.v.aeGzip = false) (stream : Bytes) (w : WResp)
    (hw : Out.resp w ∈ serve c stream) :
    ∃ m : Msg, w.gzip = true ↔ (m.method = sGET ∧ c.reg.compress = true ∧ acceptsGzipRfc m.acceptEnc = true) := by
  obtain ⟨h, m, r, _, ha, hf⟩ := serveAux_resp_mem c w _ _ _ hw
  subst hf
  exact ⟨m, answer_gzip_repaired c m r hv ha⟩

/-- the repaired server answers the witnesses unencoded, and still encodes for `gzip`, `gzip;q=0.5`, `*` -/
theorem HS_gzip_repaired_witnesses :
    serve { v := repairedV, d := noDeps, reg := ⟨true, []⟩ } (witnessAe aeGzipQ0)
      = [.resp { v11 := true, status := 200, gzip := false, connKA := false, headOnly := false, reason := true }]
    ∧ serve { v := repairedV, d := noDeps, reg := ⟨true, []⟩ } (witnessAe aeXgzipx)
      = [.resp { v11 := true, status := 200, gzip := false, connKA := false, headOnly := false, reason := true }]
    ∧ acceptsGzipRfc (some sGzip) = true
    ∧ acceptsGzipRfc (some (sGzip ++ [59, 113, 61, 48, 46, 53])) = true
    ∧ acceptsGzipRfc (some [42]) = true
    ∧ acceptsGzipRfc (some [42, 59, 113, 61, 48]) = false
    ∧ acceptsGzipRfc (some [105, 100, 101, 110, 116, 105, 116, 121]) = false
    ∧ acceptsGzipRfc none = false := by
  decide

/-! ### The body on the wire decodes to the handler's body -/

/-- gzip as a dependency: compressing and decompressing give the bytes back (flate2; sampled by the
    engine, which gunzips every encoded body) -/
structure Codec where
  gz : Bytes → Bytes
  gunz : Bytes → Option Bytes
  sound : ∀ b, gunz (gz b) = some b

/-- the bytes after the response head: nothing for HEAD, else the (encoded) body;
    `contentLength` is what the `content-length` header says -/
def wireBody (k : Codec) (body : Bytes) (w : WResp) : Bytes :=
  if w.headOnly then [] else if w.gzip then k.gz body else body
def contentLength (k : Codec) (body : Bytes) (w : WResp) : Nat :=
  (if w.gzip then k.gz body else body).length
/-- what a client that honours `content-encoding` reads -/
def decodeWire (k : Codec) (w : WResp) (wire : Bytes) : Option Bytes :=
  if w.gzip then k.gunz wire else some wire

/-- Unless the request was a HEAD, the `content-length` bytes after the head decode to exactly the body
    the handler produced. -/
theorem HS_body_decodes (k : Codec) (body : Bytes) (w : WResp) (hh : w.headOnly = false) :
    (wireBody k body w).length = contentLength k body w ∧ decodeWire k w (wireBody k body w) = some body := by
  unfold wireBody contentLength decodeWire
  cases hg : w.gzip <;> simp [hh, k.sound]

/-! ### Non-vacuity -/

/-- `GET /status HTTP/1.1` + `Host: x` -/
def exStatus : RawHead := { method := sGET, target := sStatus, v11 := true, headers := [⟨[72, 111, 115, 116], [120]⟩] }
/-- `POST /nothing HTTP/1.1` (no headers) -/
def exPost : RawHead := { method := [80, 79, 83, 84], target := [47, 110], v11 := true, headers := [] }
/-- `GET /metrics HTTP/1.1` + `Connection: close` -/
def exClose : RawHead := { method := sGET, target := sMetrics, v11 := true,
                           headers := [⟨[67, 111, 110, 110, 101, 99, 116, 105, 111, 110], sClose⟩] }
def exCfg : Cfg := { v := asWrittenV, d := noDeps, reg := ⟨true, [.tracer, .graph false]⟩ }
def w200 : WResp := { v11 := true, status := 200, gzip := false, connKA := false, headOnly := false, reason := true }
def w405 : WResp := { w200 with status := 405 }

theorem exStatus_wf : HeadWF exStatus := by
  refine ⟨by decide, by decide, by decide, by decide, ?_, by decide⟩
  intro x hx
  have : x = ⟨[72, 111, 115, 116], [120]⟩ := by simpa [exStatus] using hx
  subst this
  exact ⟨by decide, by decide, by decide, by decide, by decide⟩

theorem exPost_wf : HeadWF exPost :=
  ⟨by decide, by decide, by decide, by decide, by intro x hx; simp [exPost] at hx, by decide⟩

theorem exClose_wf : HeadWF exClose := by
  refine ⟨by decide, by decide, by decide, by decide, ?_, by decide⟩
  intro x hx
  have : x = ⟨[67, 111, 110, 110, 101, 99, 116, 105, 111, 110], sClose⟩ := by simpa [exClose] using hx
  subst this
  exact ⟨by decide, by decide, by decide, by decide, by decide⟩

/-- the hypotheses of `HS_pipeline_then_close` hold for a concrete pipeline (GET, POST, GET … close,
    then garbage), and its conclusion is what evaluating the model gives -/
example :
    serve exCfg ((([(exStatus, w200), (exPost, w405), (exStatus, w200)].map fun p => serHead p.1).flatten)
        ++ (serHead exClose ++ [0, 1, 2]))
      = [.resp w200, .resp w405, .resp w200, .resp w200] := by
  have := HS_pipeline_then_close exCfg [(exStatus, w200), (exPost, w405), (exStatus, w200)] exClose w200 [0, 1, 2]
    (by
      intro p hp
      simp only [List.mem_cons, List.mem_nil_iff, or_false] at hp
      rcases hp with rfl | rfl | rfl
      · exact ⟨exStatus_wf, by decide, by decide⟩
      · exact ⟨exPost_wf, by decide, by decide⟩
      · exact ⟨exStatus_wf, by decide, by decide⟩)
    ⟨exClose_wf, by decide, by decide⟩
  simpa using this

/-- … and directly, with a malformed request in third place: two answers, hyper's 400, nothing more -/
example :
    serve exCfg (serHead exStatus ++ serHead exPost ++ [71, 123, 84, 32, 47, 13, 10, 13, 10] ++ serHead exStatus)
      = [.resp w200, .resp w405, .err true 400] := by decide

example : parseHead [60, 104, 116, 109, 108, 62] = .bad 400 := HS_garbage_400 60 _ (by decide) (by decide) (by decide)

example : Out.resp w405 ∈ serve exCfg (serHead exPost) ∧ exPost.method ≠ sGET := by decide

example : ∃ k : Codec, ∀ b, k.gunz (k.gz b) = some b := ⟨⟨fun b => 31 :: b, fun b => b.tail?, fun _ => rfl⟩, fun _ => rfl⟩

end Rotonda.HttpServer
