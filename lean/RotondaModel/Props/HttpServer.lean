import RotondaModel.Model.HttpServer
import RotondaModel.Proofs.HttpServer
/-! Property theorems of the HttpServer area (production HTTP server; attached to C12). -/
namespace Rotonda.HttpServer
open Rotonda.Http

/-- `Accept-Encoding: gzip;q=0` -/
def aeGzipQ0 : Bytes := [103, 122, 105, 112, 59, 113, 61, 48]

/-- `GET /status HTTP/1.1␍␊Accept-Encoding: gzip;q=0␍␊␍␊` -/
def witnessQ0 : Bytes :=
  [71, 69, 84, 32, 47, 115, 116, 97, 116, 117, 115, 32, 72, 84, 84, 80, 47, 49, 46, 49, 13, 10,
   65, 99, 99, 101, 112, 116, 45, 69, 110, 99, 111, 100, 105, 110, 103, 58, 32] ++ aeGzipQ0 ++ [13, 10, 13, 10]

def noDeps : Deps := { pfx := fun _ => .err, asn := fun _ => .err, community := fun _ => .err, fs := fun _ => .missing }

/-- As written the server gzip-encodes the answer to a client that rules gzip out (`gzip;q=0`). -/
theorem HS_gzip_q0_counterexample :
    serve { v := { http := Http.repaired, aeGzip := true }, d := noDeps, reg := ⟨true, []⟩ } witnessQ0
      = [.resp { v11 := true, status := 200, gzip := true, connKA := false, headOnly := false, reason := true }] := by
  decide

/-- Repaired, the same request is answered unencoded. -/
theorem HS_gzip_q0_repaired :
    serve { v := { http := Http.repaired, aeGzip := false }, d := noDeps, reg := ⟨true, []⟩ } witnessQ0
      = [.resp { v11 := true, status := 200, gzip := false, connKA := false, headOnly := false, reason := true }] := by
  decide

end Rotonda.HttpServer
