import RotondaModel.Proofs.Roto
/-!
# C10 — A Roto filter's verdict is honoured and its predicates mean what they say

Statements only (plus top-level proofs and non-vacuity examples). Model: `Model/Roto.lean`.

* predicate laws: what each registered predicate answers, for every input and argument;
* verdict clauses for the three handlers, for every filter function `f` (in particular
  `run prog ∘ view` for every program), every unfiltered processing step and every state;
* output clause: everything the script pushed reaches the gate once, in call order, for
  every verdict — **false of the code as written** (`log_peer_down` is dropped in the rib
  unit, in the BGP handler, and in the BMP handler for non-Peer-Down messages):
  counterexamples, guarded partial theorems, and the full theorems for the repaired variants;
* BMP predicates read the UPDATE as the peer encoded it — **false of the code as written**
  for 2-octet peers (`SessionConfig::modern()`): counterexample, partial, repaired.
-/
namespace Rotonda.Roto

/-! ## Predicates (a) -/

theorem C10_pred_aspathContains (env : List Const) (v : View) (u : Upd) (x : Arg) (a : Nat)
    (hv : v.upd = some u) (hx : x.get env = .asn a) :
    (Pred.aspathContains x).eval env v = true ↔ ∃ hs, u.aspath = some hs ∧ Hop.asn a ∈ hs := by
  simp only [Pred.eval, hv, hx, Upd.aspathContains]
  cases u.aspath <;> simp

/-- origin = the right-most hop, and it has to be a plain ASN -/
theorem C10_pred_origin (env : List Const) (v : View) (u : Upd) (x : Arg) (a : Nat)
    (hv : v.upd = some u) (hx : x.get env = .asn a) :
    (Pred.originIs x).eval env v = true ↔ ∃ hs, u.aspath = some hs ∧ hs.getLast? = some (Hop.asn a) := by
  simp only [Pred.eval, hv, hx, Upd.originIs]
  cases u.aspath <;> simp

theorem C10_pred_community (env : List Const) (v : View) (u : Upd) (x : Arg) (c : Nat)
    (hv : v.upd = some u) (hx : x.get env = .comm c) :
    (Pred.hasComm x).eval env v = true ↔ c ∈ u.comms := by
  simp [Pred.eval, hv, hx, Upd.hasComm]

theorem C10_pred_hasAttribute (env : List Const) (v : View) (u : Upd) (x : Arg) (t : Nat)
    (hv : v.upd = some u) (hx : x.get env = .u8 t) :
    (Pred.hasAttr x).eval env v = true ↔ t ∈ u.attrs := by
  simp [Pred.eval, hv, hx, Upd.hasAttr]

theorem C10_pred_prefix (env : List Const) (i : RouteIn) (x : Arg) (q : Pfx) (hx : x.get env = .pfx q) :
    (Pred.prefixIs x).eval env i.view = true ↔ i.pfx = q := by
  simp [Pred.eval, hx, RouteIn.view]

theorem C10_pred_peerAsn_bgp (env : List Const) (i : BgpIn) (x : Arg) (a : Nat) (hx : x.get env = .asn a) :
    (Pred.peerAsnIs x).eval env i.view = true ↔ i.peerAsn = a := by
  simp [Pred.eval, hx, BgpIn.view]

theorem C10_pred_msgType (env : List Const) (v : Variant) (i : BmpIn) :
    ((Pred.isRouteMon).eval env (i.view v) = true ↔ i.kind = .routeMon) ∧
    ((Pred.isPeerDown).eval env (i.view v) = true ↔ i.kind = .peerDown) := by
  simp [Pred.eval, BmpIn.view]

/-- `is_ibgp(asn)`: the per-peer header's ASN equals `asn`; false without a per-peer header -/
theorem C10_pred_isIbgp (env : List Const) (v : Variant) (i : BmpIn) (x : Arg) (a : Nat) (hx : x.get env = .asn a) :
    (Pred.isIbgp x).eval env (i.view v) = true ↔ i.pphAsn = some a := by
  simp only [Pred.eval, hx, BmpIn.view]
  cases i.pphAsn with
  | none => simp
  | some m => simp only [beq_iff_eq, Option.some.injEq]; exact eq_comm

/-- bgp-in and rib-in-pre (announcements) inspect the UPDATE itself -/
theorem C10_view_bgp (i : BgpIn) : i.view.upd = some i.upd := rfl
theorem C10_view_route (i : RouteIn) : i.view.upd = i.upd := rfl

/-- no UPDATE to look at (BMP message that is not Route Monitoring, withdrawn route):
    every attribute predicate is false -/
theorem C10_pred_no_update (env : List Const) (v : View) (x : Arg) (hv : v.upd = none) :
    (Pred.aspathContains x).eval env v = false ∧ (Pred.originIs x).eval env v = false ∧
    (Pred.hasComm x).eval env v = false ∧ (Pred.hasAttr x).eval env v = false := by
  simp only [Pred.eval, hv]
  cases x.get env <;> simp

theorem C10_view_bmp_other (v : Variant) (i : BmpIn) (h : i.kind ≠ .routeMon) : (i.view v).upd = none := by
  simp [BmpIn.view, h]

/-- Full statement: on Route Monitoring the BMP predicates inspect the UPDATE as the peer encoded it. -/
def C10_bmp_predicates_full (v : Variant) : Prop :=
  ∀ (i : BmpIn) (u : Upd), i.kind = .routeMon → i.upd = some u → (i.view v).upd = some u

theorem C10_bmp_predicates_repaired (v : Variant) (h : v.asWidth = true) : C10_bmp_predicates_full v := by
  intro i u hk hu
  simp [BmpIn.view, hk, hu, h]

/-- as written: holds for 4-octet peers, and for an absent or empty AS_PATH -/
theorem C10_bmp_predicates_partial (v : Variant) (i : BmpIn) (u : Upd) (hk : i.kind = .routeMon)
    (hu : i.upd = some u) (hg : i.legacy = false ∨ u.aspath = none ∨ u.aspath = some []) :
    (i.view v).upd = some u := by
  simp only [BmpIn.view, hk, hu, if_true, Option.map_some]
  have hm : (u.aspath = none ∨ u.aspath = some []) → u.misread = u := by
    intro h
    cases u with
    | mk a c t =>
      simp only at h
      rcases h with h | h <;> subst h <;> rfl
  rcases hg with h | h | h
  · simp [h]
  · split
    · rw [hm (Or.inl h)]
    · rfl
  · split
    · rw [hm (Or.inr h)]
    · rfl

/-- the witness the engine replays first: path `65000 200` from a 2-octet peer -/
def widthWitness : BmpIn :=
  { kind := .routeMon, pphAsn := some 200, legacy := true,
    upd := some { aspath := some [.asn 65000, .asn 200], comms := [], attrs := [1, 2, 3] }, provAsn := 0 }

theorem C10_bmp_predicates_counterexample : ¬ C10_bmp_predicates_full asWritten := by
  intro h
  have := h widthWitness _ rfl rfl
  revert this
  decide

/-- … and the verdict of `if msg.aspath_contains(AS200) { accept } else { reject }` flips -/
theorem C10_bmp_predicates_counterexample_verdict :
    let p : Program := ⟨[], .ite (.pred (.aspathContains (.lit (.asn 200)))) (.ret .accept) (.ret .reject)⟩
    (bmpFilter asWritten p widthWitness).1 = .reject ∧ (bmpFilter repaired p widthWitness).1 = .accept := by
  decide

example : C10_bmp_predicates_full repaired := C10_bmp_predicates_repaired _ rfl
example : (widthWitness.view repaired).upd = widthWitness.upd := by decide

/-! ## The evaluator (b) -/

/-- a body in which every path ends in `accept`/`reject` always yields a verdict: `run` never falls back -/
theorem C10_closed_returns (p : Program) (v : View) (h : p.body.closed = true) :
    ∃ x, (p.body.exec p.lets v).2 = some x ∧ (run p v).1 = x := by
  have := closed_exec p.lets v p.body h
  cases hx : (p.body.exec p.lets v).2 with
  | none => simp [hx] at this
  | some x => exact ⟨x, rfl, by simp [run, hx]⟩

example : run ⟨[.asn 65000], .blk (.ite (.pred (.aspathContains (.var 0))) (.out (.logAsn (.var 0)) (.ret .reject)) .fall)
      (.out .logPeerDown (.ret .accept))⟩ (BgpIn.view ⟨⟨some [.asn 1, .asn 65000], [], [1, 2]⟩, 1⟩)
    = (.reject, [.asn 65000]) := by decide

/-! ## Verdict clauses (c): bgp-in and bmp-in, one message -/

/-- a rejected message changes nothing and no routing update is forwarded -/
theorem C10_reject_noop {σ M F : Type} (drain : M → List Output → List Osm)
    (f : M → Verdict × List Output) (process : σ → M → σ × List F) (s : σ) (m : M)
    (h : (f m).1 = .reject) :
    (handleMsg drain (some f) process s m).1 = s ∧
    forwarded (handleMsg drain (some f) process s m).2 = [] := by
  have hr : (filterResult (some f) m).1 = .reject := h
  exact ⟨by rw [state_handleMsg, hr], by rw [forwarded_handleMsg, hr]⟩

/-- an accepted message is processed exactly as without a filter -/
theorem C10_accept_same {σ M F : Type} (drain : M → List Output → List Osm)
    (f : M → Verdict × List Output) (process : σ → M → σ × List F) (s : σ) (m : M)
    (h : (f m).1 = .accept) :
    (handleMsg drain (some f) process s m).1 = (handleMsg drain none process s m).1 ∧
    forwarded (handleMsg drain (some f) process s m).2 = forwarded (handleMsg drain none process s m).2 := by
  have hr : (filterResult (some f) m).1 = .accept := h
  have h0 : (filterResult (none : Option (M → Verdict × List Output)) m).1 = .accept := rfl
  exact ⟨by rw [state_handleMsg, state_handleMsg, hr, h0], by rw [forwarded_handleMsg, forwarded_handleMsg, hr, h0]⟩

/-- a missing filter accepts everything, and emits nothing of its own -/
theorem C10_none_accepts {σ M F : Type} (drain : M → List Output → List Osm)
    (process : σ → M → σ × List F) (s : σ) (m : M) :
    handleMsg drain none process s m = ((process s m).1, (process s m).2.map .fwd) := by
  simp [handleMsg, filterResult, osOf]

/-- over a whole session the filter is exactly a sieve: state and forwarded routing updates are
    those of the unfiltered handler fed only the accepted messages -/
theorem C10_session_sieve {σ M F : Type} (drain : M → List Output → List Osm)
    (filter : Option (M → Verdict × List Output)) (process : σ → M → σ × List F) (s : σ) (ms : List M) :
    (handleMsgs drain filter process s ms).1 = (handleMsgs drain none process s (accepted filter ms)).1 ∧
    forwarded (handleMsgs drain filter process s ms).2 =
      forwarded (handleMsgs drain none process s (accepted filter ms)).2 :=
  handleMsgs_sieve drain filter process s ms

example : handleMsg (σ := Nat) (M := Nat) (F := Nat) (fun _ => drainSkipPd false)
    (some fun m => (if m = 0 then .reject else .accept, [.asn m])) (fun s m => (s + m, [m])) 10 0 = (10, [.os [.asn]]) := by
  decide

/-! ## Verdict clauses (c): rib-in-pre -/

/-- the RIB ends up as if only the accepted routes had been inserted, and exactly those are forwarded
    (as `Single`/`Bulk`, in order); in particular a rejected route changes nothing -/
theorem C10_rib_sieve {σ P : Type} (k : Bool) (filter : Option (P → Verdict × List Output))
    (insert : σ → P → σ) (s : σ) (ps : List P) :
    (ribFilter k filter insert s ps).1 = (accepted filter ps).foldl insert s ∧
    forwarded (ribFilter k filter insert s ps).2 = forwarded (ribForward (accepted filter ps)) := by
  refine ⟨ribLoop_state k filter insert s ps, ?_⟩
  simp only [ribFilter]
  rw [forwarded_append, ribLoop_forwarded, ribLoop_accepted]
  rfl

theorem C10_rib_reject_noop {σ P : Type} (k : Bool) (f : P → Verdict × List Output)
    (insert : σ → P → σ) (s : σ) (ps : List P) (h : ∀ p ∈ ps, (f p).1 = .reject) :
    (ribFilter k (some f) insert s ps).1 = s ∧ forwarded (ribFilter k (some f) insert s ps).2 = [] := by
  have ha : accepted (some f) ps = [] := by
    simp only [accepted, filterResult, List.filter_eq_nil_iff]
    intro p hp; simp [h p hp]
  have := C10_rib_sieve k (some f) insert s ps
  rw [ha] at this
  exact this

theorem C10_rib_accept_same {σ P : Type} (k : Bool) (f : P → Verdict × List Output)
    (insert : σ → P → σ) (s : σ) (ps : List P) (h : ∀ p ∈ ps, (f p).1 = .accept) :
    (ribFilter k (some f) insert s ps).1 = (ribFilter k none insert s ps).1 ∧
    forwarded (ribFilter k (some f) insert s ps).2 = forwarded (ribFilter k none insert s ps).2 := by
  have ha : accepted (some f) ps = ps := by
    simp only [accepted, filterResult, List.filter_eq_self]
    intro p hp; simp [h p hp]
  have h0 : accepted (none : Option (P → Verdict × List Output)) ps = ps := by
    simp [accepted, filterResult]
  have a := C10_rib_sieve k (some f) insert s ps
  have b := C10_rib_sieve k none insert s ps
  rw [ha] at a; rw [h0] at b
  exact ⟨a.1.trans b.1.symm, a.2.trans b.2.symm⟩

theorem C10_rib_none_accepts {σ P : Type} (k : Bool) (insert : σ → P → σ) (s : σ) (ps : List P) :
    ribFilter k none insert s ps = (ps.foldl insert s, ribForward ps) := by
  have h0 : accepted (none : Option (P → Verdict × List Output)) ps = ps := by
    simp [accepted, filterResult]
  have hs := ribLoop_state k none insert s ps
  have ha := ribLoop_accepted k none insert s ps
  have he : ∀ (s : σ) (ps : List P),
      (ribLoop k (none : Option (P → Verdict × List Output)) insert s ps).2.2 = [] := by
    intro s ps
    induction ps generalizing s with
    | nil => rfl
    | cons p ps ih => simp [ribLoop, filterResult, osOf, ih]
  have he := he s ps
  rw [h0] at hs ha
  simp [ribFilter, hs, ha, he]

example : ribFilter (σ := List Nat) (P := Nat) false (some fun p => (if p % 2 = 0 then .accept else .reject, [.peerDown, .asn p]))
    (fun s p => s ++ [p]) [] [1, 2, 3, 4] =
    ([2, 4], [.os [.asn], .os [.asn], .os [.asn], .os [.asn], .fwd (.bulk [2, 4])]) := by decide

/-! ## Output clause: every output call is emitted downstream exactly once, in call order, whatever the verdict -/

/-- Full statement for a per-message handler with drain loop `drain`. -/
def C10_outputs_full (σ M F : Type) (drain : M → List Output → List Osm) : Prop :=
  ∀ (f : M → Verdict × List Output) (process : σ → M → σ × List F) (s : σ) (m : M),
    emitted (handleMsg drain (some f) process s m).2 = (f m).2.map Output.toOsm

/-- Full statement for the RIB unit. -/
def C10_outputs_rib_full (σ P : Type) (keepPd : Bool) : Prop :=
  ∀ (f : P → Verdict × List Output) (insert : σ → P → σ) (s : σ) (ps : List P),
    emitted (ribFilter keepPd (some f) insert s ps).2 = (allOutputs (some f) ps).map Output.toOsm

theorem C10_outputs_bgp_repaired (σ M F : Type) : C10_outputs_full σ M F (fun _ => drainSkipPd true) := by
  intro f process s m
  rw [emitted_handleMsg _ (fun _ => drainSkipPd_nil true), drainSkipPd_keep]; rfl

theorem C10_outputs_bmp_repaired (σ F : Type) :
    C10_outputs_full σ BmpIn F (fun m => drainBmp true (m.kind = .peerDown)) := by
  intro f process s m
  rw [emitted_handleMsg _ (fun m => drainBmp_nil true _), drainBmp_keep]; rfl

theorem C10_outputs_rib_repaired (σ P : Type) : C10_outputs_rib_full σ P true := by
  intro f insert s ps
  simp only [ribFilter]
  rw [emitted_append, ribLoop_emitted, emitted_ribForward, List.append_nil, allOutputs, List.map_flatMap]
  congr 1; funext p; exact drainSkipPd_keep _

/-- as written, bgp-in and rib-in-pre: holds whenever the script did not call `log_peer_down` -/
theorem C10_outputs_partial {σ M F : Type} (k : Bool) (f : M → Verdict × List Output)
    (process : σ → M → σ × List F) (s : σ) (m : M) (h : Output.peerDown ∉ (f m).2) :
    emitted (handleMsg (fun _ => drainSkipPd k) (some f) process s m).2 = (f m).2.map Output.toOsm := by
  rw [emitted_handleMsg _ (fun _ => drainSkipPd_nil k)]
  exact drainSkipPd_nopd k _ h

/-- as written, bmp-in: holds for Peer Down Notifications, and whenever `log_peer_down` was not called -/
theorem C10_outputs_bmp_partial {σ F : Type} (k : Bool) (f : BmpIn → Verdict × List Output)
    (process : σ → BmpIn → σ × List F) (s : σ) (m : BmpIn)
    (h : m.kind = .peerDown ∨ Output.peerDown ∉ (f m).2) :
    emitted (handleMsg (fun (m : BmpIn) => drainBmp k (m.kind = .peerDown)) (some f) process s m).2
      = (f m).2.map Output.toOsm := by
  rw [emitted_handleMsg _ (fun m => drainBmp_nil k _)]
  rcases h with h | h
  · simp only [filterResult, h, decide_true]; exact drainBmp_isPd k _
  · exact drainBmp_nopd k _ _ h

theorem C10_outputs_rib_partial {σ P : Type} (k : Bool) (f : P → Verdict × List Output)
    (insert : σ → P → σ) (s : σ) (ps : List P) (h : ∀ p ∈ ps, Output.peerDown ∉ (f p).2) :
    emitted (ribFilter k (some f) insert s ps).2 = (allOutputs (some f) ps).map Output.toOsm := by
  simp only [ribFilter]
  rw [emitted_append, ribLoop_emitted, emitted_ribForward, List.append_nil, allOutputs, List.map_flatMap]
  induction ps with
  | nil => rfl
  | cons p ps ih =>
    simp only [List.flatMap_cons]
    rw [ih (fun q hq => h q (List.mem_cons_of_mem _ hq))]
    congr 1
    exact drainSkipPd_nopd k _ (h p List.mem_cons_self)

/-- what the as-written loops emit instead: the outputs with every `PeerDown` removed -/
theorem C10_outputs_asWritten {σ M F : Type} (f : M → Verdict × List Output)
    (process : σ → M → σ × List F) (s : σ) (m : M) :
    emitted (handleMsg (fun _ => drainSkipPd false) (some f) process s m).2 =
      ((f m).2.filter (· ≠ .peerDown)).map Output.toOsm := by
  rw [emitted_handleMsg _ (fun _ => drainSkipPd_nil false)]
  exact drainSkipPd_asWritten _

/-- the witness script: `output.log_peer_down(); output.log_custom(1, 2); accept` -/
def pdWitness : Program := ⟨[], .out .logPeerDown (.out (.logCustom 1 2) (.ret .accept))⟩

theorem C10_outputs_bgp_counterexample : ¬ C10_outputs_full Unit BgpIn Unit (fun _ => drainSkipPd false) := by
  intro h
  have := h (bgpFilter pdWitness) (fun s _ => (s, [])) () ⟨⟨none, [], []⟩, 1⟩
  revert this
  decide

theorem C10_outputs_bmp_counterexample :
    ¬ C10_outputs_full Unit BmpIn Unit (fun m => drainBmp false (m.kind = .peerDown)) := by
  intro h
  have := h (bmpFilter asWritten pdWitness) (fun s _ => (s, [])) () ⟨.initiation, none, false, none, 0⟩
  revert this
  decide

theorem C10_outputs_rib_counterexample : ¬ C10_outputs_rib_full Unit RouteIn false := by
  intro h
  have := h (ribInPre pdWitness) (fun s _ => s) () [⟨⟨4, 167772160, 8⟩, none⟩]
  revert this
  decide

/-- sessions: the flattened output streams are the outputs of all calls, in order (repaired loops) -/
theorem C10_outputs_session_repaired {σ M F : Type} (filter : Option (M → Verdict × List Output))
    (process : σ → M → σ × List F) (s : σ) (ms : List M) :
    emitted (handleMsgs (fun _ => drainSkipPd true) filter process s ms).2 =
      (allOutputs filter ms).map Output.toOsm := by
  rw [handleMsgs_emitted _ (fun _ => drainSkipPd_nil true), allOutputs, List.map_flatMap]
  congr 1; funext m; exact drainSkipPd_keep _

/-! ## The handlers wired to `run` (what the engine's H cases compute) -/

/-- bgp-in with program `p`: verdict clauses and output clause in terms of `run p` -/
theorem C10_bgp_run {σ F : Type} (v : Variant) (p : Program) (process : σ → BgpIn → σ × List F) (s : σ) (i : BgpIn) :
    ((run p i.view).1 = .reject →
        (bgpHandle v (some p) process s i).1 = s ∧ forwarded (bgpHandle v (some p) process s i).2 = []) ∧
    ((run p i.view).1 = .accept →
        (bgpHandle v (some p) process s i).1 = (bgpHandle v none process s i).1 ∧
        forwarded (bgpHandle v (some p) process s i).2 = forwarded (bgpHandle v none process s i).2) ∧
    ((v.pdBgp = true ∨ Output.peerDown ∉ (run p i.view).2) →
        emitted (bgpHandle v (some p) process s i).2 = (run p i.view).2.map Output.toOsm) := by
  refine ⟨fun h => C10_reject_noop _ (bgpFilter p) process s i h,
          fun h => C10_accept_same _ (bgpFilter p) process s i h, ?_⟩
  intro h
  rcases h with h | h
  · simp only [bgpHandle, Option.map_some, h]
    exact C10_outputs_bgp_repaired σ BgpIn F (bgpFilter p) process s i
  · exact C10_outputs_partial v.pdBgp (bgpFilter p) process s i h

theorem C10_bmp_run {σ F : Type} (v : Variant) (p : Program) (process : σ → BmpIn → σ × List F) (s : σ) (i : BmpIn) :
    ((run p (i.view v)).1 = .reject →
        (bmpHandle v (some p) process s i).1 = s ∧ forwarded (bmpHandle v (some p) process s i).2 = []) ∧
    ((run p (i.view v)).1 = .accept →
        (bmpHandle v (some p) process s i).1 = (bmpHandle v none process s i).1 ∧
        forwarded (bmpHandle v (some p) process s i).2 = forwarded (bmpHandle v none process s i).2) ∧
    ((v.pdBmp = true ∨ i.kind = .peerDown ∨ Output.peerDown ∉ (run p (i.view v)).2) →
        emitted (bmpHandle v (some p) process s i).2 = (run p (i.view v)).2.map Output.toOsm) := by
  refine ⟨fun h => C10_reject_noop _ (bmpFilter v p) process s i h,
          fun h => C10_accept_same _ (bmpFilter v p) process s i h, ?_⟩
  intro h
  rcases h with h | h
  · simp only [bmpHandle, Option.map_some, h]
    exact C10_outputs_bmp_repaired σ F (bmpFilter v p) process s i
  · exact C10_outputs_bmp_partial v.pdBmp (bmpFilter v p) process s i h

theorem C10_rib_run {σ : Type} (v : Variant) (p : Program) (insert : σ → RouteIn → σ) (s : σ) (rs : List RouteIn) :
    (ribHandle v (some p) insert s rs).1 = ((rs.filter fun r => (run p r.view).1 = .accept).foldl insert s) ∧
    forwarded (ribHandle v (some p) insert s rs).2 =
      forwarded (ribForward (rs.filter fun r => (run p r.view).1 = .accept)) ∧
    ((v.pdRib = true ∨ ∀ r ∈ rs, Output.peerDown ∉ (run p r.view).2) →
        emitted (ribHandle v (some p) insert s rs).2 = (rs.flatMap fun r => (run p r.view).2).map Output.toOsm) := by
  have h := C10_rib_sieve v.pdRib (some (ribInPre p)) insert s rs
  refine ⟨h.1, h.2, ?_⟩
  intro hg
  rcases hg with hg | hg
  · simp only [ribHandle, Option.map_some, hg]
    exact C10_outputs_rib_repaired σ RouteIn (ribInPre p) insert s rs
  · exact C10_outputs_rib_partial v.pdRib (ribInPre p) insert s rs hg

end Rotonda.Roto
