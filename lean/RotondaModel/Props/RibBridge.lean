import RotondaModel.Proofs.RibBridge
import RotondaModel.Props.C01
import RotondaModel.Props.C03
import RotondaModel.Props.C09
import RotondaModel.Props.C11
/-!
# RibBridge — one RIB vocabulary: refinement between the three RIB models, and end-to-end corollaries

The shared model `Model/Rib.lean` (C01/C02/C03) is related to the two models that were written
independently of it, by the abstraction maps of `Model/RibBridge.lean`:

Query side (`Model/RibQuery.lean`, C11), `ribToQ ι : Rib → RibQuery.Rib`
* `Bridge_query_eq_matchPrefix`   `Rib.query` *is* C11's `Rib::match_prefix` exact-match answer on the
                                  abstracted state (code as written, no includes) — same list.
* `Bridge_query_includes`, `Bridge_query_merged`  what C11's `match_prefix` answers instead when an include is
                                  requested (unicast table only) / with the C11 `mcast` repair (both tables).
* `Bridge_http_data`              the HTTP `data` section on the abstraction of any shared-model state
                                  = `exactAnswer` (a shared-model term) narrowed by the filters — list equality,
                                  every C11 variant, every request.
* `Bridge_stored`, `Bridge_less`, `Bridge_more`  everything C11 calls "stored" is an entry of the shared model
                                  and conversely; hence lessSpecifics / moreSpecifics over the abstraction are
                                  exactly the shared model's entries of strictly covering / covered prefixes
                                  (`Rib.covers`) that pass the filters.
* `Bridge_raw_abstraction`        the literal abstraction (raw statuses + one store-wide marker set) reports the
                                  same entries in every state reachable by a history.
End to end (history → HTTP):
* `Bridge_C01_http`               for UPDATE-only histories: `data` = { (m, st, a) | `last h p m = some (st, a)` }
                                  filtered — C01's specification seen through C11's handler, under C01's guards,
                                  C11's community guard and the one cross-table guard that remains.
* `Bridge_spec_http_merged`       every history (session-level withdrawals included), every `Rib.Variant`, C11
                                  `mcast` repaired: `data` = the per-table specification folds, no guard.
* `Bridge_spec_http`              every history, every variant pair, prefix not used with multicast.
* `Bridge_C03_http`               C03's flap defect as an HTTP answer (announce, session down, announce again).
Concurrent side (`Model/RibConc.lean`, C09), `ribToSeq enc`, `opOf enc`
* `Bridge_seqOp_simulates`        one `Rib.apply` step = one `seqOp` step under the simulation relation `Sim`.
* `Bridge_seqRun`                 `seqRun` of a writer's update list shows, per (prefix, ingress id), what
                                  `Rib.apply` folded over the same updates reports.
* `Bridge_ribToSeq_view`, `Bridge_seqOp_commutes`  the state abstraction map preserves views and commutes
                                  with updates (view-wise).
* `Bridge_C09_final`              C09 composed: in any interleaving, a finished writer's entries are what the
                                  shared model reports after that writer's updates alone.
* `Bridge_C09_history`            … = the per-key specification fold of that writer's own history (C01 refinement).
-/
namespace Rotonda.Bridge

open Rotonda

/-! ## `Rib.query` and C11's `match_prefix` -/

/-- **Refinement, query side.** `Rib.query` on the shared model is the exact-match record set
    (`prefix_meta`) of C11's `Rib::match_prefix` on the abstracted state — as written, no includes. -/
theorem Bridge_query_eq_matchPrefix (vq : RibQuery.Variant) (hv : vq.mcast = false) (ι : AttrInterp)
    (r : Rib.Rib) (p : Rib.Prefix) (obsU obsM : List RibQuery.Prefix) :
    ((ribToQ ι r).matchPrefix vq (qPfx p) false false obsU obsM).pfxMeta = (r.query p {}).map (qRec ι p) :=
  pfxMeta_ribToQ vq hv ι r p obsU obsM

/-- As written, with an include requested C11's answer is the unicast table's alone: here the two
    models differ exactly when the unicast table holds nothing for `p` and the multicast one does
    (`Rib.query` models the call without includes only). -/
theorem Bridge_query_includes (vq : RibQuery.Variant) (hv : vq.mcast = false) (ι : AttrInterp)
    (r : Rib.Rib) (p : Rib.Prefix) (l m : Bool) (hlm : (l || m) = true) (obsU obsM : List RibQuery.Prefix) :
    ((ribToQ ι r).matchPrefix vq (qPfx p) l m obsU obsM).pfxMeta = (r.unicast.matchExact p {}).map (qRec ι p) :=
  pfxMeta_ribToQ_includes vq hv ι r p l m hlm obsU obsM

theorem Bridge_query_merged (vq : RibQuery.Variant) (hv : vq.mcast = true) (ι : AttrInterp)
    (r : Rib.Rib) (p : Rib.Prefix) (l m : Bool) (obsU obsM : List RibQuery.Prefix) :
    ((ribToQ ι r).matchPrefix vq (qPfx p) l m obsU obsM).pfxMeta = (queryMerged r p).map (qRec ι p) :=
  pfxMeta_ribToQ_merged vq hv ι r p l m obsU obsM

def p24 : Rib.Prefix := ⟨.v4, 24, 655617⟩
def h24 : Rib.History :=
  [.upd 2 (.ok 3 [⟨p24, .unicast⟩] []), .upd 3 (.ok 5 [⟨p24, .multicast⟩] []), .down 2]

example : ((ribToQ idAttrs (Rib.run Rib.asWritten h24)).matchPrefix RibQuery.asWritten (qPfx p24) false false [] []).pfxMeta
    = [⟨qPfx p24, 2, .withdrawn, idAttrs 3⟩] := by decide

/-- **The `data` section in shared-model terms.** For every state of the shared model, every C11
    variant and every request for prefix `p` that parses: the `data` section of the HTTP answer on the
    abstracted state is `exactAnswer` (which tables `match_prefix` combines) narrowed by the filters. -/
theorem Bridge_http_data (vq : RibQuery.Variant) (ι : AttrInterp) (r : Rib.Rib) (p : Rib.Prefix)
    (lim : RibQuery.Limits) (reg : RibQuery.Register) (url : RibQuery.Url) (obsU obsM : List RibQuery.Prefix)
    (req : RibQuery.Request) (hreq : RibQuery.parseRequest lim url = .ok req) (hfmt : req.format = .json)
    (hq : req.q = qPfx p) :
    (RibQuery.handle vq (ribToQ ι r) lim reg url obsU obsM).data
      = ((exactAnswer vq req.inc r p).map (qRec ι p)).filter (RibQuery.includeItem vq reg req.filters) := by
  rw [RibQuery.handle_json vq _ lim reg url obsU obsM req hreq hfmt,
    data_mkJson vq reg req _ (rib_pfx_none vq _ _ _ _ obsU obsM), hq, pfxMeta_exactAnswer]

/-! ## Stored entries; less- and more-specifics -/

/-- C11's "stored entries" of the abstracted state are exactly the shared model's reported entries. -/
theorem Bridge_stored (ι : AttrInterp) (r : Rib.Rib) (hr : r.WF) (x : RibQuery.Rec) :
    x ∈ (ribToQ ι r).stored ↔
      ∃ mc p m st a, r.entry mc p m = some (st, a) ∧ x = ⟨qPfx p, m, qStatus st, ι a⟩ :=
  mem_stored_ribToQ ι r hr x

/-- `lessSpecifics` over the abstraction, in shared-model terms (`Rib.entry`, `Rib.covers`).
    The shared model has no less-specifics *query*; the abstraction carries every stored entry, so
    C11's characterisation transfers. Guards: C11's, on the abstracted state. -/
theorem Bridge_less (vq : RibQuery.Variant) (ι : AttrInterp) (r : Rib.Rib) (hr : r.WF) (p : Rib.Prefix)
    (lim : RibQuery.Limits) (reg : RibQuery.Register) (url : RibQuery.Url) (obsU obsM : List RibQuery.Prefix)
    (req : RibQuery.Request) (hreq : RibQuery.parseRequest lim url = .ok req) (hfmt : req.format = .json)
    (hq : req.q = qPfx p) (g : RibQuery.Guards vq (ribToQ ι r) req obsU obsM) (x : RibQuery.Rec) :
    x ∈ (RibQuery.handle vq (ribToQ ι r) lim reg url obsU obsM).less.getD [] ↔
      req.inc.less = true ∧ ∃ mc p' m st a, r.entry mc p' m = some (st, a) ∧ p' ≠ p ∧ Rib.covers p' p = true ∧
        x = ⟨qPfx p', m, qStatus st, ι a⟩ ∧ RibQuery.Spec.passes reg req.filters x := by
  rw [(RibQuery.C11_less vq _ lim reg url obsU obsM req hreq hfmt g).2 x, Bridge_stored ι r hr, hq]
  constructor
  · rintro ⟨hl, ⟨mc, p', m, st, a, he, rfl⟩, ⟨hne, hc⟩, hp⟩
    refine ⟨hl, mc, p', m, st, a, he, fun e => hne (by rw [e]), ?_, rfl, hp⟩
    rw [← covers_qPfx]; exact hc
  · rintro ⟨hl, mc, p', m, st, a, he, hne, hc, rfl, hp⟩
    refine ⟨hl, ⟨mc, p', m, st, a, he, rfl⟩, ⟨fun e => hne (qPfx_inj e), ?_⟩, hp⟩
    show RibQuery.covers (qPfx p') (qPfx p) = true
    rw [covers_qPfx]; exact hc

/-- `moreSpecifics` over the abstraction, in shared-model terms. -/
theorem Bridge_more (vq : RibQuery.Variant) (ι : AttrInterp) (r : Rib.Rib) (hr : r.WF) (p : Rib.Prefix)
    (lim : RibQuery.Limits) (reg : RibQuery.Register) (url : RibQuery.Url) (obsU obsM : List RibQuery.Prefix)
    (req : RibQuery.Request) (hreq : RibQuery.parseRequest lim url = .ok req) (hfmt : req.format = .json)
    (hq : req.q = qPfx p) (g : RibQuery.Guards vq (ribToQ ι r) req obsU obsM) (x : RibQuery.Rec) :
    x ∈ (RibQuery.handle vq (ribToQ ι r) lim reg url obsU obsM).more.getD [] ↔
      req.inc.more = true ∧ ∃ mc p' m st a, r.entry mc p' m = some (st, a) ∧ p' ≠ p ∧ Rib.covers p p' = true ∧
        x = ⟨qPfx p', m, qStatus st, ι a⟩ ∧ RibQuery.Spec.passes reg req.filters x := by
  rw [(RibQuery.C11_more vq _ lim reg url obsU obsM req hreq hfmt g).2 x, Bridge_stored ι r hr, hq]
  constructor
  · rintro ⟨hl, ⟨mc, p', m, st, a, he, rfl⟩, ⟨hne, hc⟩, hp⟩
    refine ⟨hl, mc, p', m, st, a, he, fun e => hne (by rw [e]), ?_, rfl, hp⟩
    rw [← covers_qPfx]; exact hc
  · rintro ⟨hl, mc, p', m, st, a, he, hne, hc, rfl, hp⟩
    refine ⟨hl, ⟨mc, p', m, st, a, he, rfl⟩, ⟨fun e => hne (qPfx_inj e), ?_⟩, hp⟩
    show RibQuery.covers (qPfx p) (qPfx p') = true
    rw [covers_qPfx]; exact hc

/-- The literal abstraction (raw statuses, one store-wide marker set per store, as C11's engine
    writes its populations) reports the same entries as `ribToQ` in every state a history reaches. -/
theorem Bridge_raw_abstraction (v : Rib.Variant) (h : Rib.History) (ι : AttrInterp) :
    (ribToQraw ι (Rib.run v h)).unicast.items = (ribToQ ι (Rib.run v h)).unicast.items ∧
    (ribToQraw ι (Rib.run v h)).multicast.items = (ribToQ ι (Rib.run v h)).multicast.items :=
  ⟨items_storeToQraw ι _ (run_wdUniform v h).1, items_storeToQraw ι _ (run_wdUniform v h).2⟩

example : (ribToQraw idAttrs (Rib.run Rib.asWritten h24)).unicast.wd = [2] ∧
    (ribToQ idAttrs (Rib.run Rib.asWritten h24)).stored
      = [⟨qPfx p24, 2, .withdrawn, idAttrs 3⟩, ⟨qPfx p24, 3, .active, idAttrs 5⟩] := by decide

/-! ## End to end: history → HTTP answer -/

/-- **C01 through C11.** For every UPDATE-only history `h` (C01's `run`, any `Rib.Variant` `v`), the
    HTTP `data` section for prefix `p` (C11's handler, any variant `vq`, on the abstraction of `run v h`)
    is exactly `{ (m, st, a) | last h p m = some (st, a) }` narrowed by the documented filters.
    Guards, each naming a defect site of one of the two models:
    * `hov`  C01: overlap repaired, or no UPDATE announces and withdraws one NLRI;
    * `hs`   C01: `p` is used with one of unicast / multicast only;
    * `hc`   C11: community filters repaired, or none used;
    * `hm`   the composition: C11 `mcast` repaired, or no include requested, or `p` not used with
             multicast (as written an include switches the multicast fallback off). -/
theorem Bridge_C01_http (v : Rib.Variant) (vq : RibQuery.Variant) (ι : AttrInterp) (h : Rib.History)
    (hu : h.all Rib.Ev.isUpd = true) (hov : v.overlapFix = true ∨ h.all Rib.Ev.noOverlap = true)
    (p : Rib.Prefix) (hs : Rib.singleSafi h p = true)
    (lim : RibQuery.Limits) (reg : RibQuery.Register) (url : RibQuery.Url) (obsU obsM : List RibQuery.Prefix)
    (req : RibQuery.Request) (hreq : RibQuery.parseRequest lim url = .ok req) (hfmt : req.format = .json)
    (hq : req.q = qPfx p)
    (hc : vq.community = true ∨ RibQuery.NoCommunityFilter req.filters)
    (hm : vq.mcast = true ∨ (req.inc.less = false ∧ req.inc.more = false) ∨ h.any (Rib.Ev.mentions true p) = false)
    (x : RibQuery.Rec) :
    x ∈ (httpOfHistory v vq ι h lim reg url obsU obsM).data ↔
      ∃ m st a, Rib.last h p m = some (st, a) ∧ x = ⟨qPfx p, m, qStatus st, ι a⟩ ∧
        RibQuery.Spec.passes reg req.filters x := by
  unfold httpOfHistory
  rw [Bridge_http_data vq ι _ p lim reg url obsU obsM req hreq hfmt hq, mem_map_filter]
  have key : ∀ m st a, (⟨m, st, a⟩ : Rib.Rec) ∈ exactAnswer vq req.inc (Rib.run v h) p ↔ Rib.last h p m = some (st, a) := by
    intro m st a
    have tab : ∀ mc : Bool, h.any (Rib.Ev.mentions (!mc) p) = false →
        ((⟨m, st, a⟩ : Rib.Rec) ∈ ((Rib.run v h).store mc).matchExact p {} ↔ Rib.last h p m = some (st, a)) := by
      intro mc hno
      rw [mem_table_iff_spec, spec_entry_eq_last v h hu hov mc p hno]
    unfold exactAnswer
    by_cases hv : vq.mcast = true
    · simp only [hv, if_true, queryMerged, List.mem_append]
      simp only [Rib.singleSafi, Bool.or_eq_true, Bool.not_eq_true'] at hs
      rcases hs with hs | hs
      · -- `p` never used with unicast
        have hnil := table_nil_of_unmentioned v h false p hs
        simp only [Rib.Rib.store, Bool.false_eq_true, if_false] at hnil
        rw [hnil]
        simpa [Rib.Rib.store] using tab true (by simpa using hs)
      · have hnil := table_nil_of_unmentioned v h true p hs
        simp only [Rib.Rib.store, if_true] at hnil
        rw [hnil]
        simpa [Rib.Rib.store] using tab false (by simpa using hs)
    · have hv' : vq.mcast = false := by simpa using hv
      simp only [hv', Bool.false_eq_true, if_false]
      by_cases hlm : (req.inc.less || req.inc.more) = true
      · simp only [hlm, if_true]
        have hno : h.any (Rib.Ev.mentions true p) = false := by
          rcases hm with hm | hm | hm
          · exact absurd hm hv
          · rw [hm.1, hm.2] at hlm; simp at hlm
          · exact hm
        simpa [Rib.Rib.store] using tab false (by simpa using hno)
      · simp only [hlm, Bool.false_eq_true, if_false]
        exact Rib.C01_guarded v h hu hov p hs m st a
  constructor
  · rintro ⟨m, st, a, hmem, hx, hf⟩
    exact ⟨m, st, a, (key m st a).mp hmem, hx, (RibQuery.includeItem_iff vq reg req.filters x hc).mp hf⟩
  · rintro ⟨m, st, a, hl, hx, hp⟩
    exact ⟨m, st, a, (key m st a).mpr hl, hx, (RibQuery.includeItem_iff vq reg req.filters x hc).mpr hp⟩

-- the hypotheses are satisfiable by a non-trivial history and request, and the conclusion is not empty
def hEx : Rib.History :=
  [.upd 2 (.ok 3 [⟨p24, .unicast⟩] []), .upd 3 (.ok 4 [⟨p24, .unicast⟩] []),
   .upd 2 (.ok 0 [] [⟨p24, .unicast⟩]), .upd 2 .malformed, .upd 3 (.ok 6 [⟨p24, .unicast⟩] [])]
def urlEx : RibQuery.Url := ⟨some (qPfx p24), RibQuery.parseQuery "include=lessSpecifics&discard[peer_as]=65002".toList⟩

example : hEx.all Rib.Ev.isUpd = true ∧ hEx.all Rib.Ev.noOverlap = true ∧ Rib.singleSafi hEx p24 = true ∧
    hEx.any (Rib.Ev.mentions true p24) = false ∧
    (∃ req, RibQuery.parseRequest ⟨8, 19⟩ urlEx = .ok req ∧ req.format = .json ∧ req.q = qPfx p24 ∧
      RibQuery.NoCommunityFilter req.filters) ∧
    (httpOfHistory Rib.asWritten RibQuery.asWritten idAttrs hEx ⟨8, 19⟩ [(2, some 65001), (3, some 65002)] urlEx [] []).data
      = [⟨qPfx p24, 2, .withdrawn, idAttrs 3⟩] :=
  ⟨by decide, by decide, by decide, by decide,
   ⟨_, rfl, rfl, rfl, by intro k hk; simp at hk; subst hk; rfl⟩, by decide⟩

/-- **Every history, C11 `mcast` repaired, no guard on the history**: session-level withdrawals
    (`Withdraw`, `WithdrawBulk`) included, every `Rib.Variant`: `data` is exactly the entries the per-table
    specification folds `specRun` (C01's refinement target, C02/C03's vocabulary) report for `p`. -/
theorem Bridge_spec_http_merged (v : Rib.Variant) (vq : RibQuery.Variant) (hv : vq.mcast = true) (ι : AttrInterp)
    (h : Rib.History) (p : Rib.Prefix)
    (lim : RibQuery.Limits) (reg : RibQuery.Register) (url : RibQuery.Url) (obsU obsM : List RibQuery.Prefix)
    (req : RibQuery.Request) (hreq : RibQuery.parseRequest lim url = .ok req) (hfmt : req.format = .json)
    (hq : req.q = qPfx p) (hc : vq.community = true ∨ RibQuery.NoCommunityFilter req.filters)
    (x : RibQuery.Rec) :
    x ∈ (httpOfHistory v vq ι h lim reg url obsU obsM).data ↔
      ∃ mc m st a, (Rib.specRun v mc p m h).entry = some (st, a) ∧ x = ⟨qPfx p, m, qStatus st, ι a⟩ ∧
        RibQuery.Spec.passes reg req.filters x := by
  unfold httpOfHistory
  rw [Bridge_http_data vq ι _ p lim reg url obsU obsM req hreq hfmt hq, mem_map_filter]
  have hU := fun m st a => mem_table_iff_spec v h false p m st a
  have hM := fun m st a => mem_table_iff_spec v h true p m st a
  simp only [Rib.Rib.store, Bool.false_eq_true, if_false, if_true] at hU hM
  simp only [exactAnswer, hv, if_true, queryMerged, List.mem_append, hU, hM,
    RibQuery.includeItem_iff vq reg req.filters x hc]
  constructor
  · rintro ⟨m, st, a, h1 | h1, hx, hp⟩
    · exact ⟨false, m, st, a, h1, hx, hp⟩
    · exact ⟨true, m, st, a, h1, hx, hp⟩
  · rintro ⟨mc, m, st, a, h1, hx, hp⟩
    cases mc
    · exact ⟨m, st, a, Or.inl h1, hx, hp⟩
    · exact ⟨m, st, a, Or.inr h1, hx, hp⟩

/-- **Every history, every variant pair**, for a prefix that is not used with multicast: `data` is
    the unicast table's specification fold, filtered. -/
theorem Bridge_spec_http (v : Rib.Variant) (vq : RibQuery.Variant) (ι : AttrInterp) (h : Rib.History)
    (p : Rib.Prefix) (hno : h.any (Rib.Ev.mentions true p) = false)
    (lim : RibQuery.Limits) (reg : RibQuery.Register) (url : RibQuery.Url) (obsU obsM : List RibQuery.Prefix)
    (req : RibQuery.Request) (hreq : RibQuery.parseRequest lim url = .ok req) (hfmt : req.format = .json)
    (hq : req.q = qPfx p) (hc : vq.community = true ∨ RibQuery.NoCommunityFilter req.filters)
    (x : RibQuery.Rec) :
    x ∈ (httpOfHistory v vq ι h lim reg url obsU obsM).data ↔
      ∃ m st a, (Rib.specRun v false p m h).entry = some (st, a) ∧ x = ⟨qPfx p, m, qStatus st, ι a⟩ ∧
        RibQuery.Spec.passes reg req.filters x := by
  unfold httpOfHistory
  rw [Bridge_http_data vq ι _ p lim reg url obsU obsM req hreq hfmt hq, mem_map_filter,
    exactAnswer_of_unmentioned vq req.inc v h p hno]
  have hU := fun m st a => mem_table_iff_spec v h false p m st a
  simp only [Rib.Rib.store, Bool.false_eq_true, if_false] at hU
  simp only [hU, RibQuery.includeItem_iff vq reg req.filters x hc]

/-- **C03 through C11.** The code as written: a source announces `p` (unicast), its session goes
    down, it announces `p` again with attributes `a`, and nothing touches the key afterwards. An
    unfiltered `GET /prefixes/p` then reports the entry — as `withdrawn` (C03's finding, here as an
    HTTP answer); with no earlier session-level withdrawal of that source it is reported `active`. -/
theorem Bridge_C03_http (vq : RibQuery.Variant) (ι : AttrInterp) (h1 h2 : Rib.History) (p : Rib.Prefix)
    (m : Rib.Mui) (a : Rib.AttrId) (ann wd : List Rib.Nlri)
    (hA : (⟨p, .unicast⟩ : Rib.Nlri) ∈ ann) (hW : (⟨p, .unicast⟩ : Rib.Nlri) ∉ wd)
    (h2u : h2.all (fun e => !(e.touches false p m)) = true)
    (hno : (h1 ++ .upd m (.ok a ann wd) :: h2).any (Rib.Ev.mentions true p) = false)
    (lim : RibQuery.Limits) (reg : RibQuery.Register) (url : RibQuery.Url) (obsU obsM : List RibQuery.Prefix)
    (req : RibQuery.Request) (hreq : RibQuery.parseRequest lim url = .ok req) (hfmt : req.format = .json)
    (hq : req.q = qPfx p) (hnf : req.filters.selects = [] ∧ req.filters.discards = []) :
    (⟨qPfx p, m, qStatus (if h1.any (Rib.Ev.downs m) then .withdrawn else .active), ι a⟩ : RibQuery.Rec)
      ∈ (httpOfHistory Rib.asWritten vq ι (h1 ++ .upd m (.ok a ann wd) :: h2) lim reg url obsU obsM).data := by
  have hc : vq.community = true ∨ RibQuery.NoCommunityFilter req.filters := by
    right; intro k hk; simp [hnf.1, hnf.2] at hk
  rw [Bridge_spec_http Rib.asWritten vq ι _ p hno lim reg url obsU obsM req hreq hfmt hq hc]
  refine ⟨m, _, a, ?_, rfl, ?_⟩
  · have := Rib.C03_flap_exact h1 h2 false p m a ann wd (by simpa [Rib.safiOf] using hA)
      (by simpa [Rib.safiOf] using hW) h2u
    rw [Rib.Rib.entry_eq_abs, Rib.abs_run] at this
    exact this
  · simp [RibQuery.Spec.passes, hnf.1, hnf.2]

example : (httpOfHistory Rib.asWritten RibQuery.asWritten idAttrs
      [.upd 2 (.ok 5 [⟨p24, .unicast⟩] []), .down 2, .upd 2 (.ok 7 [⟨p24, .unicast⟩] [])]
      ⟨8, 19⟩ [] ⟨some (qPfx p24), []⟩ [] []).data = [⟨qPfx p24, 2, .withdrawn, idAttrs 7⟩] := by decide

/-! ## `Rib.apply` and C09's sequential RIB -/

/-- **Refinement, update side**: one `Update` applied to the shared model = the corresponding `Op`
    applied to RibConc's sequential RIB, under the simulation relation (`Sim`: same record per
    (table, prefix, ingress id), same marker sets per tree). Global-marker variants only:
    RibConc has no counterpart of C03's `perRecordWithdraw` repair. -/
theorem Bridge_seqOp_simulates (enc : Bool → Rib.Prefix → Nat) (henc : EncOK enc) (v : Rib.Variant)
    (hv : v.perRecordWithdraw = false) (r : Rib.Rib) (hr : r.WF) (s : RibConc.SeqRib) (h : Sim enc r s)
    (u : Rib.Update) :
    Sim enc (r.apply v u) (match opOf enc u with | some op => RibConc.seqOp s op | none => s) :=
  sim_apply henc v hv r hr s h u

/-- **`seqRun` of a writer's update list = the per-(prefix, ingress id) fragment of `Rib.apply`
    folded over the same updates** (all seven `Update` variants; the three that do not write the
    RIB are dropped by `toProg`). -/
theorem Bridge_seqRun (enc : Bool → Rib.Prefix → Nat) (henc : EncOK enc) (v : Rib.Variant)
    (hv : v.perRecordWithdraw = false) (us : List Rib.Update) (mc : Bool) (p : Rib.Prefix) (m : Rib.Mui) :
    (RibConc.seqRun (toProg enc us)).view (enc mc p) m = ((Rib.Rib.empty.applyAll v us).entry mc p m).map cVal :=
  (sim_applyAll henc v hv us Rib.Rib.empty Rib.Rib.WF_empty ⟨[], []⟩ (sim_empty enc)).view henc mc p m

example : EncOK encStd := encStd_ok

example : let us : List Rib.Update :=
      [.bulk [⟨⟨p24, false, 5⟩, .fresh, .active, 2⟩, ⟨⟨p24, true, 6⟩, .fresh, .active, 2⟩],
       .single ⟨⟨p24, false, 0⟩, .fresh, .withdrawn, 2⟩, .withdraw 2 (some .v4m), .endOfStream]
    (RibConc.seqRun (toProg encStd us)).view (encStd false p24) 2 = some (true, 5) ∧
    (RibConc.seqRun (toProg encStd us)).view (encStd true p24) 2 = some (true, 6) ∧
    (Rib.Rib.empty.applyAll Rib.asWritten us).entry true p24 2 = some (.withdrawn, 6) := by decide

/-- The state abstraction map preserves what a query sees of every key. -/
theorem Bridge_ribToSeq_view (enc : Bool → Rib.Prefix → Nat) (henc : EncOK enc) (r : Rib.Rib)
    (mc : Bool) (p : Rib.Prefix) (m : Rib.Mui) :
    (ribToSeq enc r).view (enc mc p) m = (r.entry mc p m).map cVal :=
  (sim_ribToSeq henc r).view henc mc p m

/-- The state abstraction map commutes with updates, view-wise: abstracting after `Rib.apply` and
    applying `seqOp` after abstracting show the same for every key. -/
theorem Bridge_seqOp_commutes (enc : Bool → Rib.Prefix → Nat) (henc : EncOK enc) (v : Rib.Variant)
    (hv : v.perRecordWithdraw = false) (r : Rib.Rib) (hr : r.WF) (u : Rib.Update) (op : RibConc.Op)
    (hop : opOf enc u = some op) (mc : Bool) (p : Rib.Prefix) (m : Rib.Mui) :
    (RibConc.seqOp (ribToSeq enc r) op).view (enc mc p) m = (ribToSeq enc (r.apply v u)).view (enc mc p) m := by
  have h := sim_apply henc v hv r hr _ (sim_ribToSeq henc r) u
  rw [hop] at h
  rw [h.view henc, Bridge_ribToSeq_view enc henc]

theorem getD_map_toProg (enc : Bool → Rib.Prefix → Nat) (uss : List (List Rib.Update)) (i : Nat) :
    (uss.map (toProg enc)).getD i [] = toProg enc (uss.getD i []) := by
  simp only [List.getD_eq_getElem?_getD, List.getElem?_map]
  cases uss[i]? <;> rfl

/-- **C09 composed with the shared model.** Writers given by their `Update` lists (disjoint ingress
    ids, `Owned`), any number of them, any schedule, either C09 variant: once the owner of ingress id
    `m` has finished, what a query sees of `(table, prefix, m)` in the concurrent system is what the
    shared sequential model reports after applying that writer's updates alone to an empty RIB. -/
theorem Bridge_C09_final (enc : Bool → Rib.Prefix → Nat) (henc : EncOK enc) (v : Rib.Variant)
    (hv : v.perRecordWithdraw = false) (own : Nat → Nat) (vc : RibConc.Variant)
    (uss : List (List Rib.Update)) (sched : List Nat)
    (hown : RibConc.Owned own vc (uss.map (toProg enc))) (i : Nat) (th : RibConc.Thread)
    (hi : (RibConc.run (RibConc.init vc (uss.map (toProg enc))) sched).threads[i]? = some th)
    (hfin : th.finished = true) (mc : Bool) (p : Rib.Prefix) (m : Rib.Mui) (hm : own m = i) :
    (RibConc.run (RibConc.init vc (uss.map (toProg enc))) sched).view (enc mc p) m
      = ((Rib.Rib.empty.applyAll v (uss.getD i [])).entry mc p m).map cVal := by
  rw [RibConc.C09_last_write_final own vc _ sched hown i th hi hfin (enc mc p) m hm, getD_map_toProg,
    Bridge_seqRun enc henc v hv]

theorem applyAll_flatMap (v : Rib.Variant) (h : Rib.History) :
    Rib.Rib.empty.applyAll v (h.flatMap (Rib.Ev.updates v)) = Rib.run v h := by
  simp only [Rib.Rib.applyAll, Rib.run, Rib.runFrom, List.foldl_flatMap]

/-- **C09 ∘ C01.** Each writer `i` delivers its own history `hs[i]` (UPDATEs and session-level
    withdrawals of its own ingress ids). In any interleaving, once writer `i` has finished, the entry of
    each of its keys is the per-key specification fold (`specRun`, C01's refinement target) of *its own*
    history: nobody else's traffic, and no interleaving, shows. -/
theorem Bridge_C09_history (enc : Bool → Rib.Prefix → Nat) (henc : EncOK enc) (v : Rib.Variant)
    (hv : v.perRecordWithdraw = false) (own : Nat → Nat) (vc : RibConc.Variant)
    (hs : List Rib.History) (sched : List Nat)
    (hown : RibConc.Owned own vc ((hs.map fun h => h.flatMap (Rib.Ev.updates v)).map (toProg enc)))
    (i : Nat) (th : RibConc.Thread)
    (hi : (RibConc.run (RibConc.init vc ((hs.map fun h => h.flatMap (Rib.Ev.updates v)).map (toProg enc))) sched).threads[i]?
      = some th)
    (hfin : th.finished = true) (mc : Bool) (p : Rib.Prefix) (m : Rib.Mui) (hm : own m = i) :
    (RibConc.run (RibConc.init vc ((hs.map fun h => h.flatMap (Rib.Ev.updates v)).map (toProg enc))) sched).view (enc mc p) m
      = ((Rib.specRun v mc p m (hs.getD i [])).entry).map cVal := by
  rw [Bridge_C09_final enc henc v hv own vc _ sched hown i th hi hfin mc p m hm]
  have : (hs.map fun h => h.flatMap (Rib.Ev.updates v)).getD i [] = (hs.getD i []).flatMap (Rib.Ev.updates v) := by
    simp only [List.getD_eq_getElem?_getD, List.getElem?_map]
    cases hs[i]? <;> rfl
  rw [this, applyAll_flatMap, Rib.Rib.entry_eq_abs, Rib.abs_run]

-- a two-writer instance sharing a prefix, one of them ending its session: `Owned` holds, both finish
def hsEx : List Rib.History :=
  [[.upd 0 (.ok 5 [⟨p24, .unicast⟩] []), .down 0], [.upd 1 (.ok 6 [⟨p24, .unicast⟩] [])]]
def progsEx : List (List RibConc.Op) :=
  (hsEx.map fun h => h.flatMap (Rib.Ev.updates Rib.asWritten)).map (toProg encStd)

example : progsEx = [[.bulk [.ann (encStd false p24) 0 5], .withdraw 0 none], [.bulk [.ann (encStd false p24) 1 6]]] := by
  decide

example : let s := RibConc.run (RibConc.init RibConc.asWritten progsEx) [0, 1, 0, 0, 0, 0, 0, 0, 0, 0]
    s.threads.all RibConc.Thread.finished = true ∧
    s.view (encStd false p24) 0 = some (true, 5) ∧ s.view (encStd false p24) 1 = some (false, 6) := by decide

end Rotonda.Bridge
