import RotondaModel.Proofs.Gate
/-!
# C08 — a connected link receives every gate update exactly once and in order

Theorems about the LTS of `Model/Gate.lean`, for **every** execution (any list of enabled
steps from `init cap`, any length, any number of publishers/links/commands, any channel
capacity).  `hist s` is what has been pushed into link `s`'s channel (queue link) or handed to
its `direct_update` (direct link); `received s` is the prefix the link has taken out.
-/
namespace Rotonda.Gate

/-- Clause 1 (exactly once, in each publisher's order): in every reachable state, for every slot
    and publisher, the sequence numbers pushed to the link are strictly increasing. -/
theorem C08_exactly_once_in_order (cap : Nat) (tr : List Step) (st : St) (h : run (init cap) tr = some st)
    (s : Slot) (p : Pub) : (seqsOf p (st.chans s).hist).Pairwise (· < ·) :=
  (invB_run h (invB_init cap)).sorted s p

/-- ... and so is what the link has received so far. -/
theorem C08_received_in_order (cap : Nat) (tr : List Step) (st : St) (h : run (init cap) tr = some st)
    (s : Slot) (p : Pub) : (seqsOf p (st.chans s).received).Pairwise (· < ·) := by
  have := C08_exactly_once_in_order cap tr st h s p
  refine List.Pairwise.sublist ?_ this
  exact ((List.take_sublist _ _).filter _).map _

/-- No update is received twice. -/
theorem C08_no_duplicates (cap : Nat) (tr : List Step) (st : St) (h : run (init cap) tr = some st)
    (s : Slot) (p : Pub) : (seqsOf p (st.chans s).received).Nodup :=
  (C08_received_in_order cap tr st h s p).imp (fun hlt => Nat.ne_of_lt hlt)

/-- Nothing is received that the publisher has not published. -/
theorem C08_no_invention (cap : Nat) (tr : List Step) (st : St) (h : run (init cap) tr = some st)
    (s : Slot) (p : Pub) (q : Nat) (hm : (p, q) ∈ (st.chans s).received) : q ≤ (st.pubs p).seq :=
  (invB_run h (invB_init cap)).le_seq s p q ((List.take_sublist _ _).subset hm)

/-- A connected, not unsubscribed, not suspended link is in the map that `update_data` snapshots. -/
theorem C08_live_in_updates (cap : Nat) (tr : List Step) (st : St) (h : run (init cap) tr = some st)
    (s : Slot) (hl : st.live s) : s ∈ st.updates :=
  (invL_run h (invL_init cap)).live_mem s hl

/-- Clause 2 (completeness).  Let link `s` be live (the gate answered its `Subscribe`; the gate has
    handled neither an `Unsubscribe` nor a `Suspension{true}` for it) when publisher `p` starts an
    `update_data` call (`pubBegin`, the update gets sequence number `(st₂.pubs p).seq`).  Whatever
    happens in between (any steps `mid` of anybody, including unsubscribing or suspending `s`),
    when that call returns (`pubEnd`) the update has been pushed to `s` -- unless the link itself
    closed/dropped its receiving end. -/
theorem C08_complete (cap : Nat) (pre mid : List Step) (st₁ st₂ st₃ st₄ : St) (p : Pub) (s : Slot)
    (h₁ : run (init cap) pre = some st₁) (hl : st₁.live s)
    (hb : step st₁ (.pubBegin p) = some st₂)
    (hm : run st₂ mid = some st₃) (hmid : ∀ x ∈ mid, x ≠ .pubEnd p)
    (he : step st₃ (.pubEnd p) = some st₄)
    (ho : (st₄.chans s).open_ = true) :
    (p, (st₂.pubs p).seq) ∈ (st₄.chans s).hist := by
  have hmem : s ∈ st₁.updates := C08_live_in_updates cap pre st₁ h₁ s hl
  have i2 : InvB st₂ := invB_step hb (invB_run h₁ (invB_init cap))
  have i3 : InvB st₃ := invB_run hm i2
  -- the snapshot taken at pubBegin
  have hsnap2 : (st₂.pubs p).snap = st₁.updates ∧ (st₂.pubs p).sending.isSome = true := by
    simp only [step] at hb
    split at hb
    · cases hb; simp
    · cases hb
  obtain ⟨hseq, hsnap, _⟩ := keep_run hm hsnap2.2 hmid
  -- pubEnd is enabled only when the snapshot has been served completely
  simp only [step] at he
  split at he
  · rename_i hR
    cases he
    obtain ⟨_, _, _, h4⟩ := i3.sendR p [] hR
    have hs3 : s ∈ (st₃.pubs p).snap := by rw [hsnap, hsnap2.1]; exact hmem
    rcases h4 s hs3 (by simp) with g | g
    · rw [hseq] at g; exact g
    · simp only at ho; rw [g] at ho; cases ho
  · cases he

/-- The link's own view of "connected": the gate answered its `Subscribe`, the link has not called
    `disconnect()` and has never asked for suspension (neither `connect(suspended = true)` nor
    `suspend()`).  Then the slot is live at the gate: the gate only unsubscribes or suspends a slot
    because its link asked for it. -/
theorem C08_link_view_live (cap : Nat) (tr : List Step) (st : St) (h : run (init cap) tr = some st) (s : Slot)
    (ha : (st.chans s).acked = true) (hd : (st.chans s).disc = false) (hs : (st.chans s).suspSent = false) :
    st.live s := by
  have w := invW_run h (invW_init cap)
  refine ⟨ha, ?_, ?_⟩
  · cases e : (st.chans s).unsubbed
    · rfl
    · have := w.unsub_disc s e; rw [hd] at this; cases this
  · cases e : (st.chans s).susp
    · rfl
    · have := w.susp_sent s e; rw [hs] at this; cases this

/-- Clause 2 in the property's own words: from the moment the connection is established until the link
    disconnects or suspends, every update whose `update_data` call starts in that window is pushed to the
    link by the time the call returns (unless the link closed its receiving end). -/
theorem C08_complete_link_view (cap : Nat) (pre mid : List Step) (st₁ st₂ st₃ st₄ : St) (p : Pub) (s : Slot)
    (h₁ : run (init cap) pre = some st₁)
    (ha : (st₁.chans s).acked = true) (hd : (st₁.chans s).disc = false) (hss : (st₁.chans s).suspSent = false)
    (hb : step st₁ (.pubBegin p) = some st₂)
    (hm : run st₂ mid = some st₃) (hmid : ∀ x ∈ mid, x ≠ .pubEnd p)
    (he : step st₃ (.pubEnd p) = some st₄)
    (ho : (st₄.chans s).open_ = true) :
    (p, (st₂.pubs p).seq) ∈ (st₄.chans s).hist :=
  C08_complete cap pre mid st₁ st₂ st₃ st₄ p s h₁ (C08_link_view_live cap pre st₁ h₁ s ha hd hss) hb hm hmid he ho

/-- What has been pushed is received once the link has drained its queue. -/
theorem C08_drained (ch : Chan) (h : ch.nrecv = ch.hist.length) : ch.received = ch.hist := by
  simp [Chan.received, h]

/-- Clause 3a (termination reaches every registered clone): handling `Terminate` queues `Terminate`
    for every registered clone whose receiver exists, and the root's `process()` returns
    `Err(Terminated)`. -/
theorem C08_terminate_notifies (st st' : St) (q : List Cmd) (hq : st.rootq = .terminate :: q)
    (hs : step st .rootProc = some st') :
    st'.rootTerminated = true ∧
    ∀ c, (st.pubs c).attached = true → (st.pubs c).alive = true → Cmd.terminate ∈ (st'.pubs c).cmdq := by
  simp only [step, hq] at hs
  split at hs
  · cases hs
  · cases hs
    refine ⟨by simp [rootHandle], ?_⟩
    intro c ha hal
    simp only [rootHandle]
    rw [notify_cmdq]; simp [ha, hal]

/-- Clause 3b: in every reachable state after the root handled `Terminate`, every registered live
    clone has either observed the termination or still has `Terminate` in its queue ... -/
theorem C08_terminate_pending (cap : Nat) (tr : List Step) (st : St) (h : run (init cap) tr = some st)
    (ht : st.rootTerminated = true) (c : Pub) (hc : c ≠ 0)
    (ha : (st.pubs c).attached = true) (hal : (st.pubs c).alive = true) :
    Cmd.terminate ∈ (st.pubs c).cmdq ∨ (st.pubs c).terminated = true := by
  have inv : InvT st := invT_run h (invT_init cap)
  exact inv.term ht c hc ha hal

/-- ... and it reaches `Err(Terminated)` by its own `process()` calls alone, after at most as many
    commands as are queued. -/
theorem C08_terminate_observed (st : St) (c : Pub) (hc : c ≠ 0)
    (hal : (st.pubs c).alive = true) (hnt : (st.pubs c).terminated = false)
    (hm : Cmd.terminate ∈ (st.pubs c).cmdq) :
    ∃ n st', n ≤ (st.pubs c).cmdq.length ∧ run st (List.replicate n (.cloneProc c)) = some st' ∧
      (st'.pubs c).terminated = true :=
  clone_reaches_terminate hc _ st rfl hal hnt hm

/-- Clause 3c: once the root gate has been dropped *every* clone (registered or not) reaches
    `Err(Terminated)` by its own `process()` calls alone. -/
theorem C08_dropped_observed (st : St) (c : Pub) (hc : c ≠ 0)
    (hal : (st.pubs c).alive = true) (hnt : (st.pubs c).terminated = false) (hd : st.rootDropped = true) :
    ∃ tr st', tr.length ≤ (st.pubs c).cmdq.length + 1 ∧ (∀ x ∈ tr, x = .cloneProc c ∨ x = .cloneClosed c) ∧
      run st tr = some st' ∧ (st'.pubs c).terminated = true :=
  clone_reaches_closed hc _ st rfl hal hnt hd

/-- Clause 3d (links): when no gate object is left (root and all clones dropped), a connected queue
    link that has drained its queue gets `Err(Gone)` from `query()`. -/
theorem C08_link_gone (st : St) (s : Slot)
    (hg : ∀ p, p < st.npubs → (st.pubs p).alive = false)
    (hk : (st.chans s).kind = .queue) (ha : (st.chans s).acked = true) (ho : (st.chans s).open_ = true)
    (hd : (st.chans s).nrecv = (st.chans s).hist.length) :
    ∃ st', step st (.linkGone s) = some st' ∧ (st'.chans s).sawGone = true := by
  have hheld : senderHeld st s = false := by
    simp only [senderHeld, Bool.and_eq_false_imp, List.any_eq_true, List.mem_range]
    rintro ⟨p, hp, hal⟩
    rw [hg p hp] at hal; cases hal
  refine ⟨_, by simp only [step, hk, ha, ho, hd, hheld]; rfl, by simp⟩

/-! ### Non-vacuity: concrete executions satisfying the hypotheses -/

/-- one queue link, root publisher + a clone, two updates each, interleaved with the link's recv -/
def demo : List Step :=
  [.linkSubscribe 0 .queue false, .rootProc, .rootRespond, .cloneNew 1, .rootProc,
   .pubBegin 0, .pubBegin 1, .pubDeliver 1 0, .pubDeliver 0 0, .linkRecv 0, .pubEnd 1, .pubEnd 0,
   .pubBegin 1, .pubDeliver 1 0, .linkRecv 0, .linkRecv 0, .pubEnd 1]

example : ((run (init 2) demo).map fun st => (st.chans 0).received) = some [(1, 1), (0, 1), (1, 2)] := by decide
example : ((run (init 2) demo).map fun st => seqsOf 1 (st.chans 0).received) = some [1, 2] := by decide

/-- hypotheses of `C08_complete` are satisfiable, with an unsubscribe processed in the middle -/
example : ∃ st₁ st₂ st₃ st₄,
    run (init 1) [.linkSubscribe 0 .queue false, .rootProc, .rootRespond] = some st₁ ∧ st₁.live 0 ∧
    step st₁ (.pubBegin 0) = some st₂ ∧
    run st₂ [.linkSuspend 0 true, .rootProc, .pubDeliver 0 0] = some st₃ ∧
    step st₃ (.pubEnd 0) = some st₄ ∧ (st₄.chans 0).open_ = true ∧ (st₄.chans 0).hist = [(0, 1)] := by
  refine ⟨_, _, _, _, rfl, ?_, rfl, rfl, rfl, ?_, ?_⟩
  · simp [St.live, run, step, init, St.send, rootHandle, upd, ins, notify]
  · decide
  · decide

/-- the guard "the link did not close its end" excludes something real: a closed link misses it -/
example : ((run (init 1) [.linkSubscribe 0 .queue false, .rootProc, .rootRespond, .pubBegin 0, .linkClose 0,
    .pubDeliver 0 0, .pubEnd 0]).map fun st => (st.chans 0).hist) = some [] := by decide

/-- the model keeps the stale-`FollowSubscribe` behaviour of the code: a clone that handles
    `FollowSubscribe` after the link suspended puts the slot back into `updates`, so a suspended link
    still receives updates (not forbidden by C08, which only speaks about connected, unsuspended links) -/
example : ((run (init 2) [.cloneNew 1, .rootProc, .linkSubscribe 0 .queue false, .rootProc, .rootRespond,
    .linkSuspend 0 true, .rootProc, .cloneProc 1, .pubBegin 0, .pubDeliver 0 0, .pubEnd 0]).map
      fun st => (st.updates, st.suspended, (st.chans 0).hist)) = some ([0], [0], [(0, 1)]) := by decide

/-- termination: clone registered, terminate handled, clone observes it -/
example : ((run (init 1) [.cloneNew 1, .rootProc, .agentTerminate, .rootProc, .cloneProc 1]).map
    fun st => (st.rootTerminated, (st.pubs 1).terminated)) = some (true, true) := by decide

/-- termination of an unregistered clone needs the root gate to be dropped -/
example : ((run (init 1) [.agentTerminate, .cloneNew 1, .rootProc, .rootDrop, .cloneClosed 1]).map
    fun st => (st.rootTerminated, (st.pubs 1).attached, (st.pubs 1).terminated)) = some (true, false, true) := by decide

end Rotonda.Gate
