import RotondaModel.Proofs.UnitMetrics
/-!
# UnitMetrics — the metric sources no other area renders (extends C15; Prometheus clause of C19)

Statements over `Model/UnitMetrics.lean`. Every theorem is for all records / call sequences / event histories /
scripts, of any length.

mqtt-out, reporter layer (`MqttRec.apply` = `targets/mqtt/status_reporter.rs`, any start record `r`, any calls `h`)
* `mqtt_counters_exact`     lost / connection errors / publish errors = start + number of `reconnecting` /
                            `connection_error` / `publish_error` calls
* `mqtt_topic_exact`        the per-topic publish count = start + number of `publish_ok` calls for that topic
* `mqtt_published_total`    the per-topic counts sum to the number of `publish_ok` calls (the `published` figure)
* `mqtt_topics_nodup`, `mqtt_topics_grow` no topic is listed twice; listed topics keep their place
* `mqtt_counters_monotone`  no counter ever decreases
* `mqtt_gauges_last_write`  `established` / `in_flight` = the last value written
* `mqtt_status_agrees`      `okay` and `status_text` are functions of the same fields
mqtt-out, run layer (`scan`: which calls a run makes; every variant, configuration table, script)
* `mqtt_run_published`, `mqtt_run_publish_errors`  the exported totals are MqttConn's ledger: accepted + taken without
                            a client; failed + timed out
* `mqtt_run_connection_errors` connection errors = error / refusal polls in the history, lost ≤ errors
* `mqtt_run_established`    the `established` gauge = last of ConnAck(Success) / error / disconnect (guard: a client
                            starts polling only while the gauge is down; evaluated by the driver on every run)
* `mqtt_inflight_is_sample`, `mqtt_inflight_only_at_polls`, `mqtt_inflight_bounded`, `mqtt_inflight_returns_to_zero`,
  `mqtt_inflight_zero_after_error`, `mqtt_inflight_lags_counterexample`   the in-flight gauge
exposition of a source (C15 "the text parses", C19 label values)
* `mqtt_calls_wf`, `mqtt_text_roundtrip`, `mqtt_text_values`, `mqtt_text_unique_iff`
* `filter_calls_wf`, `filter_text_roundtrip`, `filter_text_unique_iff`
filter unit
* `filter_exact`, `filter_total_is_sum`, `filter_monotone`
whole process
* `assemble_is_concatenation`, `assemble_parses`, `assemble_unique_iff`, `assemble_same_type_twice`,
  `register_sorted`, `register_perm`, `assemble_consistent_meta`
-/
namespace Rotonda.UnitMetrics

open Rotonda.ConnMetrics (Str Metric Call Rec PType MUnit Line linesOf linesOfV renderV render callLines recLine fullName
  componentLabel isName isNumber isLName docOK notNl liveCalls headName UniqueMeta parse groupLines)
open Rotonda.MqttConn (Obs QMsg St Step Inp Variants Cfg)

/-! ## mqtt-out: the reporter layer -/

/-- **Exact accounting of the counters**: from any record, after any sequence of reporter calls. -/
theorem mqtt_counters_exact (r : MqttRec) (h : List MEv) :
    (r.applyAll h).lost = r.lost + h.count .reconnecting ∧
    (r.applyAll h).errs = r.errs + h.count .connErr ∧
    (r.applyAll h).pubErrs = r.pubErrs + h.count .publishErr := by
  induction h generalizing r with
  | nil => simp [applyAll_nil]
  | cons e h ih =>
    rw [applyAll_cons]
    obtain ⟨a, b, c⟩ := ih (r.apply e)
    rw [a, b, c]
    cases e <;> simp [MqttRec.apply, List.count_cons] <;> omega

example : (MqttRec.zero.applyAll [.connected, .connErr, .reconnecting, .publishErr, .connErr]).errs = 2 := by decide

/-- **Exact accounting per topic.** -/
theorem mqtt_topic_exact (t : Str) (r : MqttRec) (h : List MEv) :
    topicCount t (r.applyAll h).topics = topicCount t r.topics + h.count (.publishOk t) := by
  induction h generalizing r with
  | nil => simp [applyAll_nil]
  | cons e h ih =>
    rw [applyAll_cons, ih]
    cases e with
    | publishOk u =>
      by_cases hu : u = t
      · subst hu; simp [MqttRec.apply, topicCount_bump_same]; omega
      · have : (MEv.publishOk u == MEv.publishOk t) = false := by simp [hu]
        simp [MqttRec.apply, topicCount_bump_other t u hu, List.count_cons, this]
    | _ => simp [MqttRec.apply, List.count_cons]

example : topicCount ['a'] (MqttRec.zero.applyAll [.publishOk ['a'], .publishOk ['b'], .publishOk ['a']]).topics = 2 := by
  decide

/-- **The per-topic counts sum to the total**: the `published` figure (the fold `status_text` shows) is the number of
    `publish_ok` calls. -/
theorem mqtt_published_total (r : MqttRec) (h : List MEv) :
    (r.applyAll h).published = r.published + (h.filter isPublishOk).length := by
  induction h generalizing r with
  | nil => simp [applyAll_nil]
  | cons e h ih =>
    rw [applyAll_cons, ih]
    cases e <;> simp [MqttRec.apply, MqttRec.published, isPublishOk, sum_bump, List.filter_cons] <;> omega

example : (MqttRec.zero.applyAll [.publishOk ['a'], .publishOk ['b'], .publishOk ['a']]).published = 3 := by decide

/-- No topic is ever listed twice (each label set appears once in the exposition). -/
theorem mqtt_topics_nodup (r : MqttRec) (h : List MEv) (hr : (r.topics.map (·.1)).Nodup) :
    ((r.applyAll h).topics.map (·.1)).Nodup := by
  induction h generalizing r with
  | nil => simpa [applyAll_nil] using hr
  | cons e h ih =>
    rw [applyAll_cons]
    apply ih
    cases e <;> simp [MqttRec.apply, hr, nodup_bump]

example : (MqttRec.zero.topics.map (·.1)).Nodup := by decide

/-- Listed topics keep their place: the topic column only grows at the end (`FrimMap` insertion order). -/
theorem mqtt_topics_grow (r : MqttRec) (h : List MEv) :
    ∃ d, (r.applyAll h).topics.map (·.1) = r.topics.map (·.1) ++ d := by
  induction h generalizing r with
  | nil => exact ⟨[], by simp [applyAll_nil]⟩
  | cons e h ih =>
    rw [applyAll_cons]
    obtain ⟨d, hd⟩ := ih (r.apply e)
    cases e with
    | publishOk t =>
      rw [hd]
      simp only [MqttRec.apply, keys_bump]
      split
      · exact ⟨d, rfl⟩
      · exact ⟨t :: d, by simp⟩
    | _ => exact ⟨d, by simpa [MqttRec.apply] using hd⟩

/-- **Counters never decrease.** -/
theorem mqtt_counters_monotone (r : MqttRec) (h : List MEv) (t : Str) :
    r.lost ≤ (r.applyAll h).lost ∧ r.errs ≤ (r.applyAll h).errs ∧ r.pubErrs ≤ (r.applyAll h).pubErrs ∧
    topicCount t r.topics ≤ topicCount t (r.applyAll h).topics ∧ r.published ≤ (r.applyAll h).published := by
  obtain ⟨a, b, c⟩ := mqtt_counters_exact r h
  have d := mqtt_topic_exact t r h
  have e := mqtt_published_total r h
  omega

/-- **The gauges are the last value written**: `established` by `connected` / `disconnected` / `reconnecting`,
    `in_flight` by `inflight_update`. -/
theorem mqtt_gauges_last_write (r : MqttRec) (h : List MEv) :
    (r.applyAll h).up = lastUp r.up h ∧ (r.applyAll h).inflight = lastInflight r.inflight h := by
  induction h generalizing r with
  | nil => simp [applyAll_nil, lastUp, lastInflight]
  | cons e h ih =>
    rw [applyAll_cons]
    obtain ⟨a, b⟩ := ih (r.apply e)
    rw [a, b]
    cases e <;> simp [MqttRec.apply, lastUp, lastInflight]

example : (MqttRec.zero.applyAll [.connected, .inflight 3, .reconnecting, .inflight 1]).inflight = 1 := by decide

/-- `/status/graph`: `okay` is the `established` gauge, the text shows the in-flight gauge, the sum of the per-topic
    counts and the publish errors, or `N/A` while down. -/
theorem mqtt_status_agrees (r : MqttRec) :
    r.okay = some r.up ∧
    (r.up = false → r.statusText = "N/A".toList) ∧
    (r.up = true → r.statusText = "in-flight: ".toList ++ digits r.inflight ++ "\npublished: ".toList
        ++ digits ((r.topics.map (·.2)).sum) ++ "\nerrors: ".toList ++ digits r.pubErrs) := by
  refine ⟨rfl, ?_, ?_⟩ <;> intro h <;> simp [MqttRec.statusText, h, MqttRec.published]

/-! ## mqtt-out: the run layer -/

open Rotonda.MqttConn (accepted voided failed)

theorem foldl_MSt_st (v : Variants) (m : MSt) (steps : List Step) :
    (steps.foldl (MSt.step v) m).st = steps.foldl (MqttConn.step v) m.st := by
  induction steps generalizing m with
  | nil => rfl
  | cons s ss ih => simp only [List.foldl_cons]; rw [ih]; rfl

/-- The run with the table of handed-in messages is the MqttConn run. -/
theorem MSt_run_st (v : Variants) (cfgs : List Cfg) (steps : List Step) :
    (MSt.run v cfgs steps).st = MqttConn.run v cfgs steps := foldl_MSt_st v _ steps

theorem lastUp_append (b : Bool) (a d : List MEv) : lastUp b (a ++ d) = lastUp (lastUp b a) d := by
  induction a generalizing b with
  | nil => rfl
  | cons e a ih => cases e <;> simp [lastUp, ih]

theorem lastInflight_append (n : Nat) (a d : List MEv) :
    lastInflight n (a ++ d) = lastInflight (lastInflight n a) d := by
  induction a generalizing n with
  | nil => rfl
  | cons e a ih => cases e <;> simp [lastInflight, ih]

theorem ledger_cons (o : Obs) (l : List Obs) :
    (accepted (o :: l)).length = (accepted [o]).length + (accepted l).length ∧
    (voided (o :: l)).length = (voided [o]).length + (voided l).length ∧
    (failed (o :: l)).length = (failed [o]).length + (failed l).length ∧
    errorPolls (o :: l) = errorPolls [o] + errorPolls l := by
  cases o with
  | publish cn m q out => cases out <;> simp [accepted, voided, failed, errorPolls] <;> omega
  | polled cn e => cases e <;> simp [accepted, voided, failed, errorPolls] <;> omega
  | _ => simp [accepted, voided, failed, errorPolls] <;> omega

/-- What one event adds to the reporter calls, by class. -/
theorem scanObs_counts (tbl : List QMsg) (s : Scan) (o : Obs) :
    ((scanObs tbl s o).out.filter isPublishOk).length
        = (s.out.filter isPublishOk).length + (accepted [o]).length + (voided [o]).length ∧
    (scanObs tbl s o).out.count .publishErr = s.out.count .publishErr + (failed [o]).length ∧
    (scanObs tbl s o).out.count .connErr = s.out.count .connErr + errorPolls [o] ∧
    (scanObs tbl s o).out.count .reconnecting ≤ s.out.count .reconnecting + errorPolls [o] := by
  cases o with
  | publish cn m q out =>
    cases out <;>
      simp [scanObs, accepted, voided, failed, errorPolls, isPublishOk, List.filter_append, List.count_append, List.filter_cons]
  | polled cn e =>
    cases e <;>
      simp [scanObs, accepted, voided, failed, errorPolls, isPublishOk, List.filter_append, List.count_append, List.filter_cons] <;>
      split <;> simp
  | _ => simp [scanObs, accepted, voided, failed, errorPolls, isPublishOk, List.filter_append, List.count_append, List.filter_cons]

/-- What a history adds to the reporter calls, by class. -/
theorem scan_counts (tbl : List QMsg) (log : List Obs) (s : Scan) :
    ((log.foldl (scanObs tbl) s).out.filter isPublishOk).length
        = (s.out.filter isPublishOk).length + (accepted log).length + (voided log).length ∧
    (log.foldl (scanObs tbl) s).out.count .publishErr = s.out.count .publishErr + (failed log).length ∧
    (log.foldl (scanObs tbl) s).out.count .connErr = s.out.count .connErr + errorPolls log ∧
    (log.foldl (scanObs tbl) s).out.count .reconnecting ≤ s.out.count .reconnecting + errorPolls log := by
  induction log generalizing s with
  | nil => simp [accepted, voided, failed, errorPolls]
  | cons o log ih =>
    simp only [List.foldl_cons]
    obtain ⟨a, b, c, d⟩ := ih (scanObs tbl s o)
    obtain ⟨p1, p2, p3, p4⟩ := scanObs_counts tbl s o
    obtain ⟨l1, l2, l3, l4⟩ := ledger_cons o log
    omega

/-- **The exported publish total is MqttConn's ledger**: the per-topic counts of a run sum to the messages a client
    accepted plus the ones taken from the queue while there was no client (none with the repaired run loop); it is the
    `okCnt` of the MqttConn model. -/
theorem mqtt_run_published (v : Variants) (cfgs : List Cfg) (steps : List Step) :
    let m := MSt.run v cfgs steps
    m.metrics.published = (accepted m.st.log).length + (voided m.st.log).length ∧
    m.metrics.published = (MqttConn.run v cfgs steps).okCnt := by
  intro m
  have h1 : m.metrics.published = (accepted m.st.log).length + (voided m.st.log).length := by
    have := mqtt_published_total MqttRec.zero (scan m.tbl m.st.log).out
    have c := (scan_counts m.tbl m.st.log Scan.zero).1
    simp only [MSt.metrics, mqttRecOf, scan] at this c ⊢
    rw [this, c]; simp [MqttRec.zero, MqttRec.published, Scan.zero]
  refine ⟨h1, ?_⟩
  rw [h1]
  have e : m.st = MqttConn.run v cfgs steps := MSt_run_st v cfgs steps
  rw [e]
  exact ((MqttConn.MqttConn_counters v cfgs steps).1).symm

/-- **Publish errors** = publishes that failed or timed out = MqttConn's `peCnt`. -/
theorem mqtt_run_publish_errors (v : Variants) (cfgs : List Cfg) (steps : List Step) :
    let m := MSt.run v cfgs steps
    m.metrics.pubErrs = (failed m.st.log).length ∧ m.metrics.pubErrs = (MqttConn.run v cfgs steps).peCnt := by
  intro m
  have h1 : m.metrics.pubErrs = (failed m.st.log).length := by
    have := (mqtt_counters_exact MqttRec.zero (scan m.tbl m.st.log).out).2.2
    have c := (scan_counts m.tbl m.st.log Scan.zero).2.1
    simp only [MSt.metrics, mqttRecOf, scan] at this c ⊢
    rw [this, c]; simp [MqttRec.zero, Scan.zero]
  refine ⟨h1, ?_⟩
  rw [h1]
  have e : m.st = MqttConn.run v cfgs steps := MSt_run_st v cfgs steps
  rw [e]
  exact ((MqttConn.MqttConn_counters v cfgs steps).2).symm

/-- **Connection errors** = error / refusal results of `poll` in the history (any history); a connection is counted
    lost at most once per such result. -/
theorem mqtt_run_connection_errors (tbl : List QMsg) (log : List Obs) :
    (mqttRecOf tbl log).errs = errorPolls log ∧ (mqttRecOf tbl log).lost ≤ (mqttRecOf tbl log).errs := by
  have a := mqtt_counters_exact MqttRec.zero (scan tbl log).out
  have c := scan_counts tbl log Scan.zero
  simp only [mqttRecOf, scan] at a c ⊢
  rw [a.1, a.2.1, c.2.2.1]
  have := c.2.2.2
  simp [MqttRec.zero, Scan.zero] at this ⊢
  exact this

example : (mqttRecOf [] [.opened 0 default, .polled 0 .accept, .polled 0 .drop, .polled 0 .refuse]).errs = 2 := by decide
example : (mqttRecOf [] [.opened 0 default, .polled 0 .accept, .polled 0 .drop, .polled 0 .refuse]).lost = 2 := by decide

theorem scan_up (tbl : List QMsg) (log : List Obs) (s : Scan) (b0 u : Bool)
    (hu : lastUp b0 s.out = u) (hc : u = true → s.cc > 0) (hw : openedWhileDown u log = true) :
    lastUp b0 (log.foldl (scanObs tbl) s).out = brokerUp u log := by
  induction log generalizing s u with
  | nil => simpa [brokerUp] using hu
  | cons o log ih =>
    simp only [List.foldl_cons]
    cases o with
    | publish cn m q out =>
      cases out <;> simp only [openedWhileDown, brokerUp] at hw ⊢ <;>
        exact ih _ u (by simp [scanObs, lastUp_append, hu, lastUp]) (by simpa [scanObs] using hc) hw
    | done id =>
      simp only [openedWhileDown, brokerUp] at hw ⊢
      exact ih _ u (by simp [scanObs, lastUp_append, hu, lastUp]) (by simpa [scanObs] using hc) hw
    | cancel id =>
      simp only [openedWhileDown, brokerUp] at hw ⊢
      exact ih _ u (by simp [scanObs, lastUp_append, hu, lastUp]) (by simpa [scanObs] using hc) hw
    | disconnect cn =>
      simp only [openedWhileDown, brokerUp] at hw ⊢
      exact ih _ false (by simp [scanObs, lastUp_append, lastUp]) (by simp) hw
    | void id =>
      simp only [openedWhileDown, brokerUp] at hw ⊢
      exact ih _ u (by simp [scanObs, lastUp_append, hu, lastUp]) (by simpa [scanObs] using hc) hw
    | opened cn cfg =>
      simp only [openedWhileDown, brokerUp, Bool.and_eq_true, Bool.not_eq_true'] at hw ⊢
      obtain ⟨hf, hw⟩ := hw
      subst hf
      exact ih _ false (by simpa [scanObs] using hu) (by simp) hw
    | enter cn =>
      simp only [openedWhileDown, brokerUp] at hw ⊢
      exact ih _ u (by simpa [scanObs] using hu) (by simpa [scanObs] using hc) hw
    | polled cn e =>
      cases e with
      | accept =>
        simp only [openedWhileDown, brokerUp] at hw ⊢
        exact ih _ true (by simp [scanObs, lastUp_append, lastUp]) (by simp [scanObs]) hw
      | other =>
        simp only [openedWhileDown, brokerUp] at hw ⊢
        exact ih _ u (by simp [scanObs, lastUp_append, hu, lastUp]) (by simpa [scanObs] using hc) hw
      | refuse =>
        simp only [openedWhileDown, brokerUp] at hw ⊢
        refine ih _ false ?_ (by simp) hw
        by_cases h0 : s.cc > 0
        · simp [scanObs, lastUp_append, lastUp, h0]
        · have : u = false := by cases u <;> simp_all
          simp [scanObs, lastUp_append, lastUp, h0, hu, this]
      | drop =>
        simp only [openedWhileDown, brokerUp] at hw ⊢
        refine ih _ false ?_ (by simp) hw
        by_cases h0 : s.cc > 0
        · simp [scanObs, lastUp_append, lastUp, h0]
        · have : u = false := by cases u <;> simp_all
          simp [scanObs, lastUp_append, lastUp, h0, hu, this]

/-- **The `established` gauge is exact**: on every event history in which a client starts polling only while the
    gauge says down (start-up, or after the previous client's `disconnect` — the driver evaluates this on every run
    and the engine compares it), the exported state is the last of ConnAck(Success) (1), connection error / refusal
    (0), `disconnect` (0). -/
theorem mqtt_run_established (tbl : List QMsg) (log : List Obs) (hw : openedWhileDown false log = true) :
    (mqttRecOf tbl log).up = brokerUp false log := by
  have g := (mqtt_gauges_last_write MqttRec.zero (scan tbl log).out).1
  simp only [mqttRecOf] at g ⊢
  rw [g]
  exact scan_up tbl log Scan.zero false false rfl (by simp) hw

example : openedWhileDown false
    [.opened 0 default, .polled 0 .accept, .disconnect 0, .opened 1 default, .polled 1 .drop] = true := by decide

/-- **The in-flight gauge is a sample**: right after `poll` returned it is the library's figure. -/
theorem mqtt_inflight_is_sample (tbl : List QMsg) (log : List Obs) (c : Nat) (e : MqttConn.Ev) :
    (mqttRecOf tbl (log ++ [.polled c e])).inflight = (scan tbl (log ++ [.polled c e])).lib := by
  have g := (mqtt_gauges_last_write MqttRec.zero (scan tbl (log ++ [.polled c e])).out).2
  simp only [mqttRecOf] at g ⊢
  rw [g, scan_snoc]
  cases e <;> simp [scanObs, lastInflight_append, lastInflight] <;> split <;> simp [lastInflight]

/-- … and it moves at no other moment: publishes, completions, disconnects and new connections leave it alone. -/
theorem mqtt_inflight_only_at_polls (tbl : List QMsg) (log : List Obs) (o : Obs) (h : ∀ c e, o ≠ .polled c e) :
    (mqttRecOf tbl (log ++ [o])).inflight = (mqttRecOf tbl log).inflight := by
  have g := (mqtt_gauges_last_write MqttRec.zero (scan tbl (log ++ [o])).out).2
  have g' := (mqtt_gauges_last_write MqttRec.zero (scan tbl log).out).2
  simp only [mqttRecOf] at g g' ⊢
  rw [g, g', scan_snoc]
  cases o with
  | publish cn m q out => cases out <;> simp [scanObs, lastInflight_append, lastInflight]
  | polled cn e => exact absurd rfl (h cn e)
  | _ => simp [scanObs, lastInflight_append, lastInflight]

theorem scan_inflight_bound (tbl : List QMsg) (log : List Obs) (s : Scan) (g A : Nat)
    (h1 : s.lib ≤ A) (h2 : lastInflight g s.out ≤ A) :
    (log.foldl (scanObs tbl) s).lib ≤ A + (accepted log).length ∧
    lastInflight g (log.foldl (scanObs tbl) s).out ≤ A + (accepted log).length := by
  induction log generalizing s A with
  | nil => simpa [accepted] using ⟨h1, h2⟩
  | cons o log ih =>
    simp only [List.foldl_cons]
    have q1 : ∀ q, qosCounts q ≤ 1 := fun q => by unfold qosCounts; split <;> omega
    cases o with
    | publish cn m q out =>
      cases out with
      | ok =>
        have := ih (scanObs tbl s (.publish cn m q .ok)) (A + 1)
          (by have := q1 q; simp [scanObs]; omega) (by simp [scanObs, lastInflight_append, lastInflight]; omega)
        simp only [accepted, List.length_cons]; omega
      | err =>
        have := ih (scanObs tbl s (.publish cn m q .err)) A (by simpa [scanObs] using h1)
          (by simpa [scanObs, lastInflight_append, lastInflight] using h2)
        simpa [accepted] using this
      | pending =>
        have := ih (scanObs tbl s (.publish cn m q .pending)) A (by simpa [scanObs] using h1)
          (by simpa [scanObs] using h2)
        simpa [accepted] using this
    | done id =>
      have := ih (scanObs tbl s (.done id)) (A + 1)
        (by
          simp only [scanObs]
          cases s.pend with
          | none => simp; omega
          | some p => have := q1 p.2; simp; omega)
        (by simp [scanObs, lastInflight_append, lastInflight]; omega)
      simp only [accepted, List.length_cons]; omega
    | cancel id =>
      have := ih (scanObs tbl s (.cancel id)) A (by simpa [scanObs] using h1)
        (by simpa [scanObs, lastInflight_append, lastInflight] using h2)
      simpa [accepted] using this
    | disconnect cn =>
      have := ih (scanObs tbl s (.disconnect cn)) A (by simpa [scanObs] using h1)
        (by simpa [scanObs, lastInflight_append, lastInflight] using h2)
      simpa [accepted] using this
    | void id =>
      have := ih (scanObs tbl s (.void id)) A (by simpa [scanObs] using h1)
        (by simpa [scanObs, lastInflight_append, lastInflight] using h2)
      simpa [accepted] using this
    | opened cn cfg =>
      have := ih (scanObs tbl s (.opened cn cfg)) A (by simp [scanObs]) (by simpa [scanObs] using h2)
      simpa [accepted] using this
    | enter cn =>
      have := ih (scanObs tbl s (.enter cn)) A (by simpa [scanObs] using h1) (by simpa [scanObs] using h2)
      simpa [accepted] using this
    | polled cn e =>
      cases e with
      | accept =>
        have := ih (scanObs tbl s (.polled cn .accept)) A (by simpa [scanObs] using h1)
          (by simpa [scanObs, lastInflight_append, lastInflight] using h1)
        simpa [accepted] using this
      | other =>
        have := ih (scanObs tbl s (.polled cn .other)) A (by simp [scanObs]; omega)
          (by simp [scanObs, lastInflight_append, lastInflight]; omega)
        simpa [accepted] using this
      | refuse =>
        have := ih (scanObs tbl s (.polled cn .refuse)) A (by simp [scanObs])
          (by simp only [scanObs, lastInflight_append]; split <;> simp [lastInflight])
        simpa [accepted] using this
      | drop =>
        have := ih (scanObs tbl s (.polled cn .drop)) A (by simp [scanObs])
          (by simp only [scanObs, lastInflight_append]; split <;> simp [lastInflight])
        simpa [accepted] using this

/-- **The in-flight gauge never exceeds the publishes a client accepted** (it is a copy of the library's figure, never
    computed by subtraction in the target: no underflow). -/
theorem mqtt_inflight_bounded (tbl : List QMsg) (log : List Obs) :
    (mqttRecOf tbl log).inflight ≤ (accepted log).length := by
  have g := (mqtt_gauges_last_write MqttRec.zero (scan tbl log).out).2
  have b := (scan_inflight_bound tbl log Scan.zero 0 0 (by simp [Scan.zero]) (by simp [Scan.zero, lastInflight])).2
  simp only [mqttRecOf, scan] at g b ⊢
  rw [g]; simpa [MqttRec.zero] using b

theorem scan_acks (tbl : List QMsg) (c k : Nat) (s : Scan) :
    ((List.replicate k (Obs.polled c .other)).foldl (scanObs tbl) s).lib = s.lib - k ∧
    (0 < k → ∃ pre, ((List.replicate k (Obs.polled c .other)).foldl (scanObs tbl) s).out
        = pre ++ [.inflight (s.lib - k)]) := by
  induction k with
  | zero => simp
  | succ k ih =>
    rw [List.replicate_succ', List.foldl_append]
    simp only [List.foldl_cons, List.foldl_nil]
    obtain ⟨a, _⟩ := ih
    refine ⟨by simp [scanObs, a]; omega, fun _ => ?_⟩
    refine ⟨((List.replicate k (Obs.polled c .other)).foldl (scanObs tbl) s).out, ?_⟩
    simp only [scanObs, a]
    rw [show s.lib - k - 1 = s.lib - (k + 1) by omega]

/-- **The in-flight gauge returns to 0**: once as many acknowledgements have been polled as the library has in
    flight, the gauge reads 0 (whatever it read before). -/
theorem mqtt_inflight_returns_to_zero (tbl : List QMsg) (log : List Obs) (c k : Nat) (hk : 0 < k)
    (h : (scan tbl log).lib ≤ k) :
    (mqttRecOf tbl (log ++ List.replicate k (.polled c .other))).inflight = 0 := by
  have g := (mqtt_gauges_last_write MqttRec.zero (scan tbl (log ++ List.replicate k (.polled c .other))).out).2
  simp only [mqttRecOf] at g ⊢
  rw [g]
  have e : scan tbl (log ++ List.replicate k (.polled c .other))
      = (List.replicate k (Obs.polled c .other)).foldl (scanObs tbl) (scan tbl log) := by
    simp [scan, List.foldl_append]
  obtain ⟨pre, hp⟩ := (scan_acks tbl c k (scan tbl log)).2 hk
  rw [e, hp, lastInflight_append]
  simp [lastInflight]; omega

example : (mqttRecOf [] ([.opened 0 default, .polled 0 .accept, .publish 0 ⟨0, 0, 0⟩ 1 .ok, .publish 0 ⟨1, 0, 0⟩ 1 .ok,
    .polled 0 .other] ++ List.replicate 1 (.polled 0 .other))).inflight = 0 := by decide

/-- … and a connection error or refusal sets it to 0 at once (the library forgets its window). -/
theorem mqtt_inflight_zero_after_error (tbl : List QMsg) (log : List Obs) (c : Nat) :
    (mqttRecOf tbl (log ++ [.polled c .drop])).inflight = 0 ∧ (mqttRecOf tbl (log ++ [.polled c .refuse])).inflight = 0 := by
  constructor
  · rw [mqtt_inflight_is_sample, scan_snoc]; simp [scanObs]
  · rw [mqtt_inflight_is_sample, scan_snoc]; simp [scanObs]

/-- The gauge is exact at every quiescent point? -/
def mqtt_inflight_exact_full : Prop :=
  ∀ (v : Variants) (cfgs : List Cfg) (steps : List Step),
    let m := MSt.run v cfgs steps
    m.metrics.inflight = (scan m.tbl m.st.log).lib

/-- **No**: it is only refreshed when `poll` returns. A QoS 1 publish the client accepted after the last return of
    `poll` is in flight in the library (1) and the gauge still reads 0. (With the real rumqttc `poll` also returns for
    every outgoing packet, so the lag is one event-loop turn there; below the `Client` / `EventLoop` seam, not
    modelled. Not listed as a finding.) -/
theorem mqtt_inflight_lags_counterexample : ¬ mqtt_inflight_exact_full := by
  intro h
  have := h MqttConn.repaired [⟨0, 0, 0, 0, 1, 1, 1, 0⟩] [.burst [], .ev .accept, .burst [.msg 0]]
  revert this
  decide

end Rotonda.UnitMetrics
