import RotondaModel.Proofs.UnitMetrics
/-!
# UnitMetrics — the metric sources no other area renders (extends C15; Prometheus clause of C19)

Statements over `Model/UnitMetrics.lean`. Every theorem is for all records / call sequences / event histories /
scripts, of any length.

mqtt-out, reporter layer (`MqttRec.apply` = `targets/mqtt/status_reporter.rs`, any start record `r`, any calls `h`)
* `mqtt_counters_exact`     lost / connection errors / publish errors = start + number of `reconnecting` /
                            `connection_error` / `publish_error` calls
* `mqtt_topic_exact`        the per-topic publish count = start + number of `publish_ok` calls for that topic
* `mqtt_published_total`    the per-topic counts sum to the number of `publish_ok` calls (the `published` figure)
* `mqtt_topics_nodup`, `mqtt_topics_grow` no topic is listed twice; listed topics keep their place
* `mqtt_counters_monotone`  no counter ever decreases
* `mqtt_gauges_last_write`  `established` / `in_flight` = the last value written
* `mqtt_status_agrees`      `okay` and `status_text` are functions of the same fields
mqtt-out, run layer (`scan`: which calls a run makes; every variant, configuration table, script)
* `mqtt_run_published`, `mqtt_run_publish_errors`  the exported totals are MqttConn's ledger: accepted + taken without
                            a client; failed + timed out
* `mqtt_run_connection_errors` connection errors = error / refusal polls in the history, lost ≤ errors
* `mqtt_run_established`    the `established` gauge = last of ConnAck(Success) / error / disconnect (guard: a client
                            starts polling only while the gauge is down; evaluated by the driver on every run)
* `mqtt_inflight_is_sample`, `mqtt_inflight_only_at_polls`, `mqtt_inflight_bounded`, `mqtt_inflight_returns_to_zero`,
  `mqtt_inflight_zero_after_error`, `mqtt_inflight_lags_counterexample`   the in-flight gauge
* `mqtt_lost_full` / `mqtt_lost_counterexample` / `mqtt_lost_partial` / `mqtt_lost_repaired`   the lost-connection counter
                            counts failed re-connects as written (listed finding), never undercounts, exact when repaired
exposition of a source (C15 "the text parses", C19 label values)
* `text_roundtrip_live`, `mqtt_calls_wf`, `mqtt_text_roundtrip`, `mqtt_text_values`, `mqtt_text_unique_iff`
* `filter_calls_wf`, `filter_text_roundtrip`, `filter_text_not_unique`
filter unit
* `filter_exact`, `filter_total_is_sum`, `filter_monotone`
whole process
* `assemble_is_concatenation`, `assemble_parses`, `sources_wf`, `assemble_unique_iff`, `assemble_same_type_twice`,
  `registerAll_sorted_perm`, `register_stable`; in `Props/UnitMetricsTable.lean` (extracted table): `table_consistent`,
  `assemble_consistent_meta`, `model_constants_in_table`, `model_shapes_in_source`, `tokio_fields`, `tokio_calls_wf`
-/
namespace Rotonda.UnitMetrics

open Rotonda.ConnMetrics (Str Metric Call Rec PType MUnit Line linesOf linesOfV renderV render callLines recLine fullName
  componentLabel isName isNumber isLName docOK notNl liveCalls headName UniqueMeta parse groupLines)
open Rotonda.MqttConn (Obs QMsg St Step Inp Variants Cfg)

/-! ## mqtt-out: the reporter layer -/

/-- **Exact accounting of the counters**: from any record, after any sequence of reporter calls. -/
theorem mqtt_counters_exact (r : MqttRec) (h : List MEv) :
    (r.applyAll h).lost = r.lost + h.count .reconnecting ∧
    (r.applyAll h).errs = r.errs + h.count .connErr ∧
    (r.applyAll h).pubErrs = r.pubErrs + h.count .publishErr := by
  induction h generalizing r with
  | nil => simp [applyAll_nil]
  | cons e h ih =>
    rw [applyAll_cons]
    obtain ⟨a, b, c⟩ := ih (r.apply e)
    rw [a, b, c]
    cases e <;> simp [MqttRec.apply, List.count_cons] <;> omega

example : (MqttRec.zero.applyAll [.connected, .connErr, .reconnecting, .publishErr, .connErr]).errs = 2 := by decide

/-- **Exact accounting per topic.** -/
theorem mqtt_topic_exact (t : Str) (r : MqttRec) (h : List MEv) :
    topicCount t (r.applyAll h).topics = topicCount t r.topics + h.count (.publishOk t) := by
  induction h generalizing r with
  | nil => simp [applyAll_nil]
  | cons e h ih =>
    rw [applyAll_cons, ih]
    cases e with
    | publishOk u =>
      by_cases hu : u = t
      · subst hu; simp [MqttRec.apply, topicCount_bump_same]; omega
      · have : (MEv.publishOk u == MEv.publishOk t) = false := by simp [hu]
        simp [MqttRec.apply, topicCount_bump_other t u hu, List.count_cons, this]
    | _ => simp [MqttRec.apply, List.count_cons]

example : topicCount ['a'] (MqttRec.zero.applyAll [.publishOk ['a'], .publishOk ['b'], .publishOk ['a']]).topics = 2 := by
  decide

/-- **The per-topic counts sum to the total**: the `published` figure (the fold `status_text` shows) is the number of
    `publish_ok` calls. -/
theorem mqtt_published_total (r : MqttRec) (h : List MEv) :
    (r.applyAll h).published = r.published + (h.filter isPublishOk).length := by
  induction h generalizing r with
  | nil => simp [applyAll_nil]
  | cons e h ih =>
    rw [applyAll_cons, ih]
    cases e <;> simp [MqttRec.apply, MqttRec.published, isPublishOk, sum_bump, List.filter_cons] <;> omega

example : (MqttRec.zero.applyAll [.publishOk ['a'], .publishOk ['b'], .publishOk ['a']]).published = 3 := by decide

/-- No topic is ever listed twice (each label set appears once in the exposition). -/
theorem mqtt_topics_nodup (r : MqttRec) (h : List MEv) (hr : (r.topics.map (·.1)).Nodup) :
    ((r.applyAll h).topics.map (·.1)).Nodup := by
  induction h generalizing r with
  | nil => simpa [applyAll_nil] using hr
  | cons e h ih =>
    rw [applyAll_cons]
    apply ih
    cases e <;> simp [MqttRec.apply, hr, nodup_bump]

example : (MqttRec.zero.topics.map (·.1)).Nodup := by decide

/-- Listed topics keep their place: the topic column only grows at the end (`FrimMap` insertion order). -/
theorem mqtt_topics_grow (r : MqttRec) (h : List MEv) :
    ∃ d, (r.applyAll h).topics.map (·.1) = r.topics.map (·.1) ++ d := by
  induction h generalizing r with
  | nil => exact ⟨[], by simp [applyAll_nil]⟩
  | cons e h ih =>
    rw [applyAll_cons]
    obtain ⟨d, hd⟩ := ih (r.apply e)
    cases e with
    | publishOk t =>
      rw [hd]
      simp only [MqttRec.apply, keys_bump]
      split
      · exact ⟨d, rfl⟩
      · exact ⟨t :: d, by simp⟩
    | _ => exact ⟨d, by simpa [MqttRec.apply] using hd⟩

/-- **Counters never decrease.** -/
theorem mqtt_counters_monotone (r : MqttRec) (h : List MEv) (t : Str) :
    r.lost ≤ (r.applyAll h).lost ∧ r.errs ≤ (r.applyAll h).errs ∧ r.pubErrs ≤ (r.applyAll h).pubErrs ∧
    topicCount t r.topics ≤ topicCount t (r.applyAll h).topics ∧ r.published ≤ (r.applyAll h).published := by
  obtain ⟨a, b, c⟩ := mqtt_counters_exact r h
  have d := mqtt_topic_exact t r h
  have e := mqtt_published_total r h
  omega

/-- **The gauges are the last value written**: `established` by `connected` / `disconnected` / `reconnecting`,
    `in_flight` by `inflight_update`. -/
theorem mqtt_gauges_last_write (r : MqttRec) (h : List MEv) :
    (r.applyAll h).up = lastUp r.up h ∧ (r.applyAll h).inflight = lastInflight r.inflight h := by
  induction h generalizing r with
  | nil => simp [applyAll_nil, lastUp, lastInflight]
  | cons e h ih =>
    rw [applyAll_cons]
    obtain ⟨a, b⟩ := ih (r.apply e)
    rw [a, b]
    cases e <;> simp [MqttRec.apply, lastUp, lastInflight]

example : (MqttRec.zero.applyAll [.connected, .inflight 3, .reconnecting, .inflight 1]).inflight = 1 := by decide

/-- `/status/graph`: `okay` is the `established` gauge, the text shows the in-flight gauge, the sum of the per-topic
    counts and the publish errors, or `N/A` while down. -/
theorem mqtt_status_agrees (r : MqttRec) :
    r.okay = some r.up ∧
    (r.up = false → r.statusText = "N/A".toList) ∧
    (r.up = true → r.statusText = "in-flight: ".toList ++ digits r.inflight ++ "\npublished: ".toList
        ++ digits ((r.topics.map (·.2)).sum) ++ "\nerrors: ".toList ++ digits r.pubErrs) := by
  refine ⟨rfl, ?_, ?_⟩ <;> intro h <;> simp [MqttRec.statusText, h, MqttRec.published]

/-! ## mqtt-out: the run layer -/

open Rotonda.MqttConn (accepted voided failed)

theorem foldl_MSt_st (v : Variants) (m : MSt) (steps : List Step) :
    (steps.foldl (MSt.step v) m).st = steps.foldl (MqttConn.step v) m.st := by
  induction steps generalizing m with
  | nil => rfl
  | cons s ss ih => simp only [List.foldl_cons]; rw [ih]; rfl

/-- The run with the table of handed-in messages is the MqttConn run. -/
theorem MSt_run_st (v : Variants) (cfgs : List Cfg) (steps : List Step) :
    (MSt.run v cfgs steps).st = MqttConn.run v cfgs steps := foldl_MSt_st v _ steps

theorem lastUp_append (b : Bool) (a d : List MEv) : lastUp b (a ++ d) = lastUp (lastUp b a) d := by
  induction a generalizing b with
  | nil => rfl
  | cons e a ih => cases e <;> simp [lastUp, ih]

theorem lastInflight_append (n : Nat) (a d : List MEv) :
    lastInflight n (a ++ d) = lastInflight (lastInflight n a) d := by
  induction a generalizing n with
  | nil => rfl
  | cons e a ih => cases e <;> simp [lastInflight, ih]

theorem ledger_cons (o : Obs) (l : List Obs) :
    (accepted (o :: l)).length = (accepted [o]).length + (accepted l).length ∧
    (voided (o :: l)).length = (voided [o]).length + (voided l).length ∧
    (failed (o :: l)).length = (failed [o]).length + (failed l).length ∧
    errorPolls (o :: l) = errorPolls [o] + errorPolls l := by
  cases o with
  | publish cn m q out => cases out <;> simp [accepted, voided, failed, errorPolls] <;> omega
  | polled cn e => cases e <;> simp [accepted, voided, failed, errorPolls] <;> omega
  | _ => simp [accepted, voided, failed, errorPolls] <;> omega

/-- What one event adds to the reporter calls, by class. -/
theorem scanObs_counts (tbl : List QMsg) (s : Scan) (o : Obs) :
    ((scanObs tbl s o).out.filter isPublishOk).length
        = (s.out.filter isPublishOk).length + (accepted [o]).length + (voided [o]).length ∧
    (scanObs tbl s o).out.count .publishErr = s.out.count .publishErr + (failed [o]).length ∧
    (scanObs tbl s o).out.count .connErr = s.out.count .connErr + errorPolls [o] ∧
    (scanObs tbl s o).out.count .reconnecting ≤ s.out.count .reconnecting + errorPolls [o] := by
  cases o with
  | publish cn m q out =>
    cases out <;>
      simp [scanObs, accepted, voided, failed, errorPolls, isPublishOk, List.filter_append, List.count_append, List.filter_cons]
  | polled cn e =>
    cases e <;>
      simp [scanObs, accepted, voided, failed, errorPolls, isPublishOk, List.filter_append, List.count_append, List.filter_cons] <;>
      split <;> simp
  | _ => simp [scanObs, accepted, voided, failed, errorPolls, isPublishOk, List.filter_append, List.count_append, List.filter_cons]

/-- What a history adds to the reporter calls, by class. -/
theorem scan_counts (tbl : List QMsg) (log : List Obs) (s : Scan) :
    ((log.foldl (scanObs tbl) s).out.filter isPublishOk).length
        = (s.out.filter isPublishOk).length + (accepted log).length + (voided log).length ∧
    (log.foldl (scanObs tbl) s).out.count .publishErr = s.out.count .publishErr + (failed log).length ∧
    (log.foldl (scanObs tbl) s).out.count .connErr = s.out.count .connErr + errorPolls log ∧
    (log.foldl (scanObs tbl) s).out.count .reconnecting ≤ s.out.count .reconnecting + errorPolls log := by
  induction log generalizing s with
  | nil => simp [accepted, voided, failed, errorPolls]
  | cons o log ih =>
    simp only [List.foldl_cons]
    obtain ⟨a, b, c, d⟩ := ih (scanObs tbl s o)
    obtain ⟨p1, p2, p3, p4⟩ := scanObs_counts tbl s o
    obtain ⟨l1, l2, l3, l4⟩ := ledger_cons o log
    omega

/-- **The exported publish total is MqttConn's ledger**: the per-topic counts of a run sum to the messages a client
    accepted plus the ones taken from the queue while there was no client (none with the repaired run loop); it is the
    `okCnt` of the MqttConn model. -/
theorem mqtt_run_published (v : Variants) (cfgs : List Cfg) (steps : List Step) :
    let m := MSt.run v cfgs steps
    m.metrics.published = (accepted m.st.log).length + (voided m.st.log).length ∧
    m.metrics.published = (MqttConn.run v cfgs steps).okCnt := by
  intro m
  have h1 : m.metrics.published = (accepted m.st.log).length + (voided m.st.log).length := by
    have := mqtt_published_total MqttRec.zero (scan m.tbl m.st.log).out
    have c := (scan_counts m.tbl m.st.log Scan.zero).1
    simp only [MSt.metrics, mqttRecOf, scan] at this c ⊢
    rw [this, c]; simp [MqttRec.zero, MqttRec.published, Scan.zero]
  refine ⟨h1, ?_⟩
  rw [h1]
  have e : m.st = MqttConn.run v cfgs steps := MSt_run_st v cfgs steps
  rw [e]
  exact ((MqttConn.MqttConn_counters v cfgs steps).1).symm

/-- **Publish errors** = publishes that failed or timed out = MqttConn's `peCnt`. -/
theorem mqtt_run_publish_errors (v : Variants) (cfgs : List Cfg) (steps : List Step) :
    let m := MSt.run v cfgs steps
    m.metrics.pubErrs = (failed m.st.log).length ∧ m.metrics.pubErrs = (MqttConn.run v cfgs steps).peCnt := by
  intro m
  have h1 : m.metrics.pubErrs = (failed m.st.log).length := by
    have := (mqtt_counters_exact MqttRec.zero (scan m.tbl m.st.log).out).2.2
    have c := (scan_counts m.tbl m.st.log Scan.zero).2.1
    simp only [MSt.metrics, mqttRecOf, scan] at this c ⊢
    rw [this, c]; simp [MqttRec.zero, Scan.zero]
  refine ⟨h1, ?_⟩
  rw [h1]
  have e : m.st = MqttConn.run v cfgs steps := MSt_run_st v cfgs steps
  rw [e]
  exact ((MqttConn.MqttConn_counters v cfgs steps).2).symm

/-- **Connection errors** = error / refusal results of `poll` in the history (any history); a connection is counted
    lost at most once per such result. -/
theorem mqtt_run_connection_errors (tbl : List QMsg) (log : List Obs) :
    (mqttRecOf tbl log).errs = errorPolls log ∧ (mqttRecOf tbl log).lost ≤ (mqttRecOf tbl log).errs := by
  have a := mqtt_counters_exact MqttRec.zero (scan tbl log).out
  have c := scan_counts tbl log Scan.zero
  simp only [mqttRecOf, scan] at a c ⊢
  rw [a.1, a.2.1, c.2.2.1]
  have := c.2.2.2
  simp [MqttRec.zero, Scan.zero] at this ⊢
  exact this

example : (mqttRecOf [] [.opened 0 default, .polled 0 .accept, .polled 0 .drop, .polled 0 .refuse]).errs = 2 := by decide
example : (mqttRecOf [] [.opened 0 default, .polled 0 .accept, .polled 0 .drop, .polled 0 .refuse]).lost = 2 := by decide

theorem scan_up (tbl : List QMsg) (log : List Obs) (s : Scan) (b0 u : Bool)
    (hu : lastUp b0 s.out = u) (hc : u = true → s.cc > 0) (hw : openedWhileDown u log = true) :
    lastUp b0 (log.foldl (scanObs tbl) s).out = brokerUp u log := by
  induction log generalizing s u with
  | nil => simpa [brokerUp] using hu
  | cons o log ih =>
    simp only [List.foldl_cons]
    cases o with
    | publish cn m q out =>
      cases out <;> simp only [openedWhileDown, brokerUp] at hw ⊢ <;>
        exact ih _ u (by simp [scanObs, lastUp_append, hu, lastUp]) (by simpa [scanObs] using hc) hw
    | done id =>
      simp only [openedWhileDown, brokerUp] at hw ⊢
      exact ih _ u (by simp [scanObs, lastUp_append, hu, lastUp]) (by simpa [scanObs] using hc) hw
    | cancel id =>
      simp only [openedWhileDown, brokerUp] at hw ⊢
      exact ih _ u (by simp [scanObs, lastUp_append, hu, lastUp]) (by simpa [scanObs] using hc) hw
    | disconnect cn =>
      simp only [openedWhileDown, brokerUp] at hw ⊢
      exact ih _ false (by simp [scanObs, lastUp_append, lastUp]) (by simp) hw
    | void id =>
      simp only [openedWhileDown, brokerUp] at hw ⊢
      exact ih _ u (by simp [scanObs, lastUp_append, hu, lastUp]) (by simpa [scanObs] using hc) hw
    | opened cn cfg =>
      simp only [openedWhileDown, brokerUp, Bool.and_eq_true, Bool.not_eq_true'] at hw ⊢
      obtain ⟨hf, hw⟩ := hw
      subst hf
      exact ih _ false (by simpa [scanObs] using hu) (by simp) hw
    | enter cn =>
      simp only [openedWhileDown, brokerUp] at hw ⊢
      exact ih _ u (by simpa [scanObs] using hu) (by simpa [scanObs] using hc) hw
    | polled cn e =>
      cases e with
      | accept =>
        simp only [openedWhileDown, brokerUp] at hw ⊢
        exact ih _ true (by simp [scanObs, lastUp_append, lastUp]) (by simp [scanObs]) hw
      | other =>
        simp only [openedWhileDown, brokerUp] at hw ⊢
        exact ih _ u (by simp [scanObs, lastUp_append, hu, lastUp]) (by simpa [scanObs] using hc) hw
      | refuse =>
        simp only [openedWhileDown, brokerUp] at hw ⊢
        refine ih _ false ?_ (by simp) hw
        by_cases h0 : s.cc > 0
        · simp [scanObs, lastUp_append, lastUp, h0]
        · have : u = false := by cases u <;> simp_all
          simp [scanObs, lastUp_append, lastUp, h0, hu, this]
      | drop =>
        simp only [openedWhileDown, brokerUp] at hw ⊢
        refine ih _ false ?_ (by simp) hw
        by_cases h0 : s.cc > 0
        · simp [scanObs, lastUp_append, lastUp, h0]
        · have : u = false := by cases u <;> simp_all
          simp [scanObs, lastUp_append, lastUp, h0, hu, this]

/-- **The `established` gauge is exact**: on every event history in which a client starts polling only while the
    gauge says down (start-up, or after the previous client's `disconnect` — the driver evaluates this on every run
    and the engine compares it), the exported state is the last of ConnAck(Success) (1), connection error / refusal
    (0), `disconnect` (0). -/
theorem mqtt_run_established (tbl : List QMsg) (log : List Obs) (hw : openedWhileDown false log = true) :
    (mqttRecOf tbl log).up = brokerUp false log := by
  have g := (mqtt_gauges_last_write MqttRec.zero (scan tbl log).out).1
  simp only [mqttRecOf] at g ⊢
  rw [g]
  exact scan_up tbl log Scan.zero false false rfl (by simp) hw

example : openedWhileDown false
    [.opened 0 default, .polled 0 .accept, .disconnect 0, .opened 1 default, .polled 1 .drop] = true := by decide

/-- **The in-flight gauge is a sample**: right after `poll` returned it is the library's figure. -/
theorem mqtt_inflight_is_sample (tbl : List QMsg) (log : List Obs) (c : Nat) (e : MqttConn.Ev) :
    (mqttRecOf tbl (log ++ [.polled c e])).inflight = (scan tbl (log ++ [.polled c e])).lib := by
  have g := (mqtt_gauges_last_write MqttRec.zero (scan tbl (log ++ [.polled c e])).out).2
  simp only [mqttRecOf] at g ⊢
  rw [g, scan_snoc]
  cases e <;> simp [scanObs, lastInflight_append, lastInflight] <;> split <;> simp [lastInflight]

/-- … and it moves at no other moment: publishes, completions, disconnects and new connections leave it alone. -/
theorem mqtt_inflight_only_at_polls (tbl : List QMsg) (log : List Obs) (o : Obs) (h : ∀ c e, o ≠ .polled c e) :
    (mqttRecOf tbl (log ++ [o])).inflight = (mqttRecOf tbl log).inflight := by
  have g := (mqtt_gauges_last_write MqttRec.zero (scan tbl (log ++ [o])).out).2
  have g' := (mqtt_gauges_last_write MqttRec.zero (scan tbl log).out).2
  simp only [mqttRecOf] at g g' ⊢
  rw [g, g', scan_snoc]
  cases o with
  | publish cn m q out => cases out <;> simp [scanObs, lastInflight_append, lastInflight]
  | polled cn e => exact absurd rfl (h cn e)
  | _ => simp [scanObs, lastInflight_append, lastInflight]

theorem scan_inflight_bound (tbl : List QMsg) (log : List Obs) (s : Scan) (g A : Nat)
    (h1 : s.lib ≤ A) (h2 : lastInflight g s.out ≤ A) :
    (log.foldl (scanObs tbl) s).lib ≤ A + (accepted log).length ∧
    lastInflight g (log.foldl (scanObs tbl) s).out ≤ A + (accepted log).length := by
  induction log generalizing s A with
  | nil => simpa [accepted] using ⟨h1, h2⟩
  | cons o log ih =>
    simp only [List.foldl_cons]
    have q1 : ∀ q, qosCounts q ≤ 1 := fun q => by unfold qosCounts; split <;> omega
    cases o with
    | publish cn m q out =>
      cases out with
      | ok =>
        have := ih (scanObs tbl s (.publish cn m q .ok)) (A + 1)
          (by have := q1 q; simp [scanObs]; omega) (by simp [scanObs, lastInflight_append, lastInflight]; omega)
        simp only [accepted, List.length_cons]; omega
      | err =>
        have := ih (scanObs tbl s (.publish cn m q .err)) A (by simpa [scanObs] using h1)
          (by simpa [scanObs, lastInflight_append, lastInflight] using h2)
        simpa [accepted] using this
      | pending =>
        have := ih (scanObs tbl s (.publish cn m q .pending)) A (by simpa [scanObs] using h1)
          (by simpa [scanObs] using h2)
        simpa [accepted] using this
    | done id =>
      have := ih (scanObs tbl s (.done id)) (A + 1)
        (by
          simp only [scanObs]
          cases s.pend with
          | none => simp; omega
          | some p => have := q1 p.2; simp; omega)
        (by simp [scanObs, lastInflight_append, lastInflight]; omega)
      simp only [accepted, List.length_cons]; omega
    | cancel id =>
      have := ih (scanObs tbl s (.cancel id)) A (by simpa [scanObs] using h1)
        (by simpa [scanObs, lastInflight_append, lastInflight] using h2)
      simpa [accepted] using this
    | disconnect cn =>
      have := ih (scanObs tbl s (.disconnect cn)) A (by simpa [scanObs] using h1)
        (by simpa [scanObs, lastInflight_append, lastInflight] using h2)
      simpa [accepted] using this
    | void id =>
      have := ih (scanObs tbl s (.void id)) A (by simpa [scanObs] using h1)
        (by simpa [scanObs, lastInflight_append, lastInflight] using h2)
      simpa [accepted] using this
    | opened cn cfg =>
      have := ih (scanObs tbl s (.opened cn cfg)) A (by simp [scanObs]) (by simpa [scanObs] using h2)
      simpa [accepted] using this
    | enter cn =>
      have := ih (scanObs tbl s (.enter cn)) A (by simpa [scanObs] using h1) (by simpa [scanObs] using h2)
      simpa [accepted] using this
    | polled cn e =>
      cases e with
      | accept =>
        have := ih (scanObs tbl s (.polled cn .accept)) A (by simpa [scanObs] using h1)
          (by simpa [scanObs, lastInflight_append, lastInflight] using h1)
        simpa [accepted] using this
      | other =>
        have := ih (scanObs tbl s (.polled cn .other)) A (by simp [scanObs]; omega)
          (by simp [scanObs, lastInflight_append, lastInflight]; omega)
        simpa [accepted] using this
      | refuse =>
        have := ih (scanObs tbl s (.polled cn .refuse)) A (by simp [scanObs])
          (by simp only [scanObs, lastInflight_append]; split <;> simp [lastInflight])
        simpa [accepted] using this
      | drop =>
        have := ih (scanObs tbl s (.polled cn .drop)) A (by simp [scanObs])
          (by simp only [scanObs, lastInflight_append]; split <;> simp [lastInflight])
        simpa [accepted] using this

/-- **The in-flight gauge never exceeds the publishes a client accepted** (it is a copy of the library's figure, never
    computed by subtraction in the target: no underflow). -/
theorem mqtt_inflight_bounded (tbl : List QMsg) (log : List Obs) :
    (mqttRecOf tbl log).inflight ≤ (accepted log).length := by
  have g := (mqtt_gauges_last_write MqttRec.zero (scan tbl log).out).2
  have b := (scan_inflight_bound tbl log Scan.zero 0 0 (by simp [Scan.zero]) (by simp [Scan.zero, lastInflight])).2
  simp only [mqttRecOf, scan] at g b ⊢
  rw [g]; simpa [MqttRec.zero] using b

theorem scan_acks (tbl : List QMsg) (c k : Nat) (s : Scan) :
    ((List.replicate k (Obs.polled c .other)).foldl (scanObs tbl) s).lib = s.lib - k ∧
    (0 < k → ∃ pre, ((List.replicate k (Obs.polled c .other)).foldl (scanObs tbl) s).out
        = pre ++ [.inflight (s.lib - k)]) := by
  induction k with
  | zero => simp
  | succ k ih =>
    rw [List.replicate_succ', List.foldl_append]
    simp only [List.foldl_cons, List.foldl_nil]
    obtain ⟨a, _⟩ := ih
    refine ⟨by simp [scanObs, a]; omega, fun _ => ?_⟩
    refine ⟨((List.replicate k (Obs.polled c .other)).foldl (scanObs tbl) s).out, ?_⟩
    simp only [scanObs, a]
    rw [show s.lib - k - 1 = s.lib - (k + 1) by omega]

/-- **The in-flight gauge returns to 0**: once as many acknowledgements have been polled as the library has in
    flight, the gauge reads 0 (whatever it read before). -/
theorem mqtt_inflight_returns_to_zero (tbl : List QMsg) (log : List Obs) (c k : Nat) (hk : 0 < k)
    (h : (scan tbl log).lib ≤ k) :
    (mqttRecOf tbl (log ++ List.replicate k (.polled c .other))).inflight = 0 := by
  have g := (mqtt_gauges_last_write MqttRec.zero (scan tbl (log ++ List.replicate k (.polled c .other))).out).2
  simp only [mqttRecOf] at g ⊢
  rw [g]
  have e : scan tbl (log ++ List.replicate k (.polled c .other))
      = (List.replicate k (Obs.polled c .other)).foldl (scanObs tbl) (scan tbl log) := by
    simp [scan, List.foldl_append]
  obtain ⟨pre, hp⟩ := (scan_acks tbl c k (scan tbl log)).2 hk
  rw [e, hp, lastInflight_append]
  simp [lastInflight]; omega

example : (mqttRecOf [] ([.opened 0 default, .polled 0 .accept, .publish 0 ⟨0, 0, 0⟩ 1 .ok, .publish 0 ⟨1, 0, 0⟩ 1 .ok,
    .polled 0 .other] ++ List.replicate 1 (.polled 0 .other))).inflight = 0 := by decide

/-- … and a connection error or refusal sets it to 0 at once (the library forgets its window). -/
theorem mqtt_inflight_zero_after_error (tbl : List QMsg) (log : List Obs) (c : Nat) :
    (mqttRecOf tbl (log ++ [.polled c .drop])).inflight = 0 ∧ (mqttRecOf tbl (log ++ [.polled c .refuse])).inflight = 0 := by
  constructor
  · rw [mqtt_inflight_is_sample, scan_snoc]; simp [scanObs]
  · rw [mqtt_inflight_is_sample, scan_snoc]; simp [scanObs]

/-- The gauge is exact at every quiescent point? -/
def mqtt_inflight_exact_full : Prop :=
  ∀ (v : Variants) (cfgs : List Cfg) (steps : List Step),
    let m := MSt.run v cfgs steps
    m.metrics.inflight = (scan m.tbl m.st.log).lib

/-- **No**: it is only refreshed when `poll` returns. A QoS 1 publish the client accepted after the last return of
    `poll` is in flight in the library (1) and the gauge still reads 0. (With the real rumqttc `poll` also returns for
    every outgoing packet, so the lag is one event-loop turn there; below the `Client` / `EventLoop` seam, not
    modelled. Not listed as a finding.) -/
theorem mqtt_inflight_lags_counterexample : ¬ mqtt_inflight_exact_full := by
  intro h
  have := h MqttConn.repaired [⟨0, 0, 0, 0, 1, 1, 1, 0⟩] [.burst [], .ev .accept, .burst [.msg 0]]
  revert this
  decide



/-! ### the lost-connection counter (finding `unitmetrics:mqtt:connection_lost_count:failed-reconnect-counted-as-loss`) -/

theorem applyAllV_append (fix : Bool) (r : MqttRec) (a b : List MEv) :
    r.applyAllV fix (a ++ b) = (r.applyAllV fix a).applyAllV fix b := by
  simp [MqttRec.applyAllV, List.foldl_append]

theorem applyV_false (r : MqttRec) (e : MEv) : r.applyV false e = r.apply e := by
  cases e <;> simp [MqttRec.applyV, MqttRec.apply]

/-- The variant `false` is the code as written. -/
theorem applyAllV_false (r : MqttRec) (h : List MEv) : r.applyAllV false h = r.applyAll h := by
  induction h generalizing r with
  | nil => rfl
  | cons e h ih =>
    simp only [MqttRec.applyAllV, MqttRec.applyAll, List.foldl_cons] at ih ⊢
    rw [applyV_false]; exact ih _

theorem mqttRecOfV_false (tbl : List QMsg) (log : List Obs) : mqttRecOfV false tbl log = mqttRecOf tbl log :=
  applyAllV_false _ _

theorem hist_cons (u : Bool) (o : Obs) (l : List Obs) :
    losses u (o :: l) = losses u [o] + losses (brokerUp u [o]) l ∧
    openedWhileDown u (o :: l) = (openedWhileDown u [o] && openedWhileDown (brokerUp u [o]) l) := by
  cases o with
  | polled cn e => cases e <;> simp [losses, openedWhileDown, brokerUp]
  | _ => simp [losses, openedWhileDown, brokerUp]

/-- One event: the `established` gauge follows the broker, the lost counter adds the losses (repaired: exactly). -/
theorem step_lost (fix : Bool) (tbl : List QMsg) (s : Scan) (r0 : MqttRec) (o : Obs) (u : Bool)
    (hu : (r0.applyAllV fix s.out).up = u) (hc : u = true → s.cc > 0) (hw : openedWhileDown u [o] = true) :
    (r0.applyAllV fix (scanObs tbl s o).out).up = brokerUp u [o] ∧
    (brokerUp u [o] = true → (scanObs tbl s o).cc > 0) ∧
    (fix = true → (r0.applyAllV fix (scanObs tbl s o).out).lost = (r0.applyAllV fix s.out).lost + losses u [o]) ∧
    (r0.applyAllV fix s.out).lost + losses u [o] ≤ (r0.applyAllV fix (scanObs tbl s o).out).lost := by
  have out_eq : (scanObs tbl s o).out = s.out ++ (scanObs tbl { s with out := [] } o).out := by
    rw [scanObs_out_split tbl s o]
  rw [out_eq, applyAllV_append]
  generalize hr : r0.applyAllV fix s.out = r at hu
  cases o with
  | publish cn m q out =>
    cases out <;> simp [scanObs, MqttRec.applyAllV, MqttRec.applyV, MqttRec.apply, brokerUp, losses, hu] <;> exact hc
  | done id => simp [scanObs, MqttRec.applyAllV, MqttRec.applyV, MqttRec.apply, brokerUp, losses, hu]; exact hc
  | cancel id => simp [scanObs, MqttRec.applyAllV, MqttRec.applyV, MqttRec.apply, brokerUp, losses, hu]; exact hc
  | disconnect cn => simp [scanObs, MqttRec.applyAllV, MqttRec.applyV, MqttRec.apply, brokerUp, losses]
  | void id => simp [scanObs, MqttRec.applyAllV, MqttRec.applyV, MqttRec.apply, brokerUp, losses, hu]; exact hc
  | opened cn cfg =>
    simp only [openedWhileDown, Bool.and_true, Bool.not_eq_true'] at hw
    subst hw
    simp [scanObs, MqttRec.applyAllV, brokerUp, losses, hu]
  | enter cn => simp [scanObs, MqttRec.applyAllV, brokerUp, losses, hu]; exact hc
  | polled cn e =>
    cases e with
    | accept => simp [scanObs, MqttRec.applyAllV, MqttRec.applyV, MqttRec.apply, brokerUp, losses]
    | other => simp [scanObs, MqttRec.applyAllV, MqttRec.applyV, MqttRec.apply, brokerUp, losses, hu]; exact hc
    | refuse =>
      by_cases h0 : s.cc > 0
      · cases u <;> cases fix <;>
          simp_all [scanObs, MqttRec.applyAllV, MqttRec.applyV, MqttRec.apply, brokerUp, losses]
      · have hu' : u = false := by cases u <;> simp_all
        subst hu'
        simp_all [scanObs, MqttRec.applyAllV, MqttRec.applyV, MqttRec.apply, brokerUp, losses]
    | drop =>
      by_cases h0 : s.cc > 0
      · cases u <;> cases fix <;>
          simp_all [scanObs, MqttRec.applyAllV, MqttRec.applyV, MqttRec.apply, brokerUp, losses]
      · have hu' : u = false := by cases u <;> simp_all
        subst hu'
        simp_all [scanObs, MqttRec.applyAllV, MqttRec.applyV, MqttRec.apply, brokerUp, losses]

/-- The record along a scan: `lost` after the history, for either variant. -/
theorem scan_lost (fix : Bool) (tbl : List QMsg) (log : List Obs) (s : Scan) (r0 : MqttRec) (u : Bool)
    (hu : (r0.applyAllV fix s.out).up = u) (hc : u = true → s.cc > 0) (hw : openedWhileDown u log = true) :
    (fix = true → (r0.applyAllV fix (log.foldl (scanObs tbl) s).out).lost
        = (r0.applyAllV fix s.out).lost + losses u log) ∧
    (r0.applyAllV fix s.out).lost + losses u log ≤ (r0.applyAllV fix (log.foldl (scanObs tbl) s).out).lost := by
  induction log generalizing s u with
  | nil => simp [losses]
  | cons o log ih =>
    simp only [List.foldl_cons]
    obtain ⟨l1, l2⟩ := hist_cons u o log
    rw [l2, Bool.and_eq_true] at hw
    obtain ⟨a, b, c, d⟩ := step_lost fix tbl s r0 o u hu hc hw.1
    obtain ⟨e, f⟩ := ih (scanObs tbl s o) (brokerUp u [o]) a b hw.2
    refine ⟨fun hf => ?_, ?_⟩
    · rw [e hf, c hf, l1]; omega
    · rw [l1]; omega

/-- C15 for the lost-connection counter: it is the number of times an established connection was lost. -/
def mqtt_lost_full : Prop :=
  ∀ (tbl : List QMsg) (log : List Obs), openedWhileDown false log = true →
    (mqttRecOf tbl log).lost = losses false log

/-- **The code as written violates it**: connected once, one outage with two failed attempts to re-connect —
    `mqtt_target_connection_lost_count` says 3 (`reconnecting()` after every error of an event loop with
    `conn_count > 0`, also while the connection is already down). -/
theorem mqtt_lost_counterexample : ¬ mqtt_lost_full := by
  intro h
  have := h [] [.opened 0 default, .polled 0 .accept, .polled 0 .drop, .polled 0 .drop, .polled 0 .drop] (by decide)
  revert this; decide

/-- **As written the counter never undercounts**: every loss of an established connection is counted (the surplus
    are failed re-connection attempts). -/
theorem mqtt_lost_partial (tbl : List QMsg) (log : List Obs) (hw : openedWhileDown false log = true) :
    losses false log ≤ (mqttRecOf tbl log).lost := by
  have := (scan_lost false tbl log Scan.zero MqttRec.zero false (by simp [Scan.zero, MqttRec.applyAllV, MqttRec.zero])
    (by simp) hw).2
  rw [← mqttRecOfV_false]
  simpa [mqttRecOfV, scan, Scan.zero, MqttRec.applyAllV, MqttRec.zero] using this

/-- **Repaired** (`reconnecting()` counts only when the gauge said up): the counter is exactly the number of times an
    established connection was lost, for every event history. -/
theorem mqtt_lost_repaired (tbl : List QMsg) (log : List Obs) (hw : openedWhileDown false log = true) :
    (mqttRecOfV true tbl log).lost = losses false log := by
  have := (scan_lost true tbl log Scan.zero MqttRec.zero false (by simp [Scan.zero, MqttRec.applyAllV, MqttRec.zero])
    (by simp) hw).1 rfl
  simpa [mqttRecOfV, scan, Scan.zero, MqttRec.applyAllV, MqttRec.zero] using this

example : (mqttRecOfV true [] [.opened 0 default, .polled 0 .accept, .polled 0 .drop, .polled 0 .drop, .polled 0 .drop,
    .polled 0 .accept, .polled 0 .refuse]).lost = 2 := by decide

/-! ## the exposition of one source (C15 "the Prometheus text parses"; C19 label values) -/

open Rotonda.ConnMetrics (C19prom_escaped_roundtrip C15prom_unique_iff C15prom_unique_repaired)

/-- Text metrics write nothing (`supports_type`): only the live calls matter for the text. -/
theorem linesOfV_live (g : Bool) (cs : List Call) : linesOfV g (liveCalls cs) = linesOfV g cs := by
  cases g with
  | true => simp [linesOfV, groupLines, liveCalls, List.filter_filter]
  | false =>
    simp only [linesOfV, linesOf, liveCalls]
    induction cs with
    | nil => rfl
    | cons c cs ih =>
      by_cases h : c.metric.mtype = .text
      · simp [h, callLines, ih]
      · have : (c.metric.mtype != .text) = true := by simpa using h
        simp [this, ih]

/-- **Round trip of any source's text** (repaired escaping, either grouping): if the calls the format supports are
    well-formed (metric and label *names*, help texts, printed numbers — programmer constants), the text parses and
    every label value — unit name, topic, router id, whatever characters it contains — reads back as supplied. -/
theorem text_roundtrip_live (g : Bool) (cs : List Call) (h : (liveCalls cs).all Call.wf = true) :
    parse (renderV true g cs) = some (linesOfV g cs) := by
  have := C19prom_escaped_roundtrip g (liveCalls cs) h
  simpa [renderV, linesOfV_live] using this

/-- Every call of the mqtt source is well-formed, for **every** unit name and **every** topic text. -/
theorem mqtt_calls_wf (unit : Str) (r : MqttRec) : (mqttCalls unit r).all Call.wf = true := by
  simp only [mqttCalls, List.all_append, List.all_cons, List.all_nil, List.all_map, Bool.and_true, Bool.and_eq_true]
  refine ⟨⟨?_, ?_, ?_, ?_, ?_⟩, ?_⟩
  · exact simple_wf mEstablished unit _ mEstablished_ok (by cases r.up <;> decide)
  · exact simple_wf mLost unit _ mLost_ok (digits_isNumber _)
  · exact simple_wf mConnErr unit _ mConnErr_ok (digits_isNumber _)
  · exact simple_wf mInflight unit _ mInflight_ok (digits_isNumber _)
  · exact simple_wf mPubErr unit _ mPubErr_ok (digits_isNumber _)
  · rw [List.all_eq_true]
    intro p _
    exact labelled_wf mPublish unit topicLabel _ _ mPublish_ok topicLabel_ok (digits_isNumber _)

/-- **C19 / C15 for the mqtt target**: for every unit name, every record and every topic text (quotes, backslashes,
    newlines, forged labels included) the exposition parses and reads back exactly the lines asked for. -/
theorem mqtt_text_roundtrip (g : Bool) (unit : Str) (r : MqttRec) :
    parse (renderV true g (mqttCalls unit r)) = some (linesOfV g (mqttCalls unit r)) :=
  C19prom_escaped_roundtrip g _ (mqtt_calls_wf unit r)

example : (mqttCalls ['x', '"', ',', 'e', '=', '"', '1'] ⟨true, 1, 2, 3, 4, [(['n', '\n', 't'], 5), (['q', '"', '\\'], 6)]⟩).length = 7 := by
  decide

def isSample : Line → Bool | .sample .. => true | _ => false

theorem linesOf_mqtt (unit : Str) (r : MqttRec) :
    linesOf (mqttCalls unit r) =
      callLines (simple mEstablished unit (if r.up then ['1'] else ['0'])) ++ callLines (simple mLost unit (digits r.lost)) ++
      callLines (simple mConnErr unit (digits r.errs)) ++ callLines (simple mInflight unit (digits r.inflight)) ++
      callLines (simple mPubErr unit (digits r.pubErrs)) ++
      (r.topics.flatMap (fun p => callLines (labelled mPublish unit topicLabel p.1 (digits p.2)))) := by
  simp [linesOf, mqttCalls, List.flatMap_append, List.flatMap_map]

/-- **Each exported value is the record's field**, under the component label, and each topic's count under its topic
    label; there are no other samples. -/
theorem mqtt_text_values (unit : Str) (r : MqttRec) :
    Line.sample (fullName mEstablished none) (some [(componentLabel, unit)]) (if r.up then ['1'] else ['0'])
        ∈ linesOf (mqttCalls unit r) ∧
    Line.sample (fullName mLost none) (some [(componentLabel, unit)]) (digits r.lost) ∈ linesOf (mqttCalls unit r) ∧
    Line.sample (fullName mConnErr none) (some [(componentLabel, unit)]) (digits r.errs) ∈ linesOf (mqttCalls unit r) ∧
    Line.sample (fullName mInflight none) (some [(componentLabel, unit)]) (digits r.inflight) ∈ linesOf (mqttCalls unit r) ∧
    Line.sample (fullName mPubErr none) (some [(componentLabel, unit)]) (digits r.pubErrs) ∈ linesOf (mqttCalls unit r) ∧
    (∀ p ∈ r.topics, Line.sample (fullName mPublish none) (some [(componentLabel, unit), (topicLabel, p.1)])
        (digits p.2) ∈ linesOf (mqttCalls unit r)) ∧
    ((linesOf (mqttCalls unit r)).filter isSample).length = 5 + r.topics.length := by
  rw [linesOf_mqtt, callLines_simple _ _ _ (ok_live mEstablished_ok), callLines_simple _ _ _ (ok_live mLost_ok),
    callLines_simple _ _ _ (ok_live mConnErr_ok), callLines_simple _ _ _ (ok_live mInflight_ok),
    callLines_simple _ _ _ (ok_live mPubErr_ok)]
  refine ⟨by simp, by simp, by simp, by simp, by simp, ?_, ?_⟩
  · intro p hp
    simp only [List.mem_append, List.mem_flatMap]
    right
    exact ⟨p, hp, by rw [callLines_labelled _ _ _ _ _ (ok_live mPublish_ok)]; simp⟩
  · have h5 : ∀ (l : List (Str × Nat)),
        ((l.flatMap (fun p => callLines (labelled mPublish unit topicLabel p.1 (digits p.2)))).filter isSample).length
          = l.length := by
      intro l
      induction l with
      | nil => rfl
      | cons p l ih =>
        simp only [List.flatMap_cons, List.filter_append, List.length_append, List.length_cons]
        rw [ih, callLines_labelled _ _ _ _ _ (ok_live mPublish_ok)]
        simp [List.filter_cons, isSample]; omega
    simp only [List.filter_append, List.length_append, h5]
    simp [List.filter_cons, isSample]

/-- **The header rule for the mqtt source, code as written**: at most one `# HELP` / `# TYPE` per metric name holds
    exactly while at most one topic has been published to (one `Target::append` per topic — the listed finding
    `prometheus:duplicate-help-type-lines`); with the repaired `Target` it holds always. -/
theorem mqtt_text_unique_iff (unit : Str) (r : MqttRec) :
    (UniqueMeta (linesOf (mqttCalls unit r)) ↔ r.topics.length ≤ 1) ∧ UniqueMeta (groupLines (mqttCalls unit r)) := by
  refine ⟨?_, C15prom_unique_repaired _⟩
  rw [C15prom_unique_iff]
  have live : liveCalls (mqttCalls unit r) = mqttCalls unit r := by
    simp only [mqttCalls, List.cons_append, List.nil_append]
    rw [live_simple _ _ _ _ (ok_live mEstablished_ok), live_simple _ _ _ _ (ok_live mLost_ok),
      live_simple _ _ _ _ (ok_live mConnErr_ok), live_simple _ _ _ _ (ok_live mInflight_ok),
      live_simple _ _ _ _ (ok_live mPubErr_ok),
      live_labelled_map mPublish unit topicLabel (fun p => p.1) (fun p => digits p.2) r.topics (ok_live mPublish_ok)]
  rw [live]
  have names : (mqttCalls unit r).map headName =
      [fullName mEstablished none, fullName mLost none, fullName mConnErr none, fullName mInflight none,
        fullName mPubErr none] ++ List.replicate r.topics.length (fullName mPublish none) := by
    simp only [mqttCalls, List.map_append, List.map_map, List.map_cons, List.map_nil, headName_simple]
    congr 1
    induction r.topics with
    | nil => rfl
    | cons p l ih => simp only [List.map_cons, List.length_cons, List.replicate_succ, ih, Function.comp, headName_labelled]
  rw [names]
  have nd := mqtt_names_nodup
  match h : r.topics.length with
  | 0 =>
    simp only [List.replicate_zero, List.append_nil, Nat.zero_le, iff_true]
    have : [fullName mEstablished none, fullName mLost none, fullName mConnErr none, fullName mInflight none,
      fullName mPubErr none, fullName mPublish none] = [fullName mEstablished none, fullName mLost none,
      fullName mConnErr none, fullName mInflight none, fullName mPubErr none] ++ [fullName mPublish none] := rfl
    rw [this] at nd
    exact (List.nodup_append.mp nd).1
  | 1 =>
    simp only [List.replicate_one, Nat.le_refl, iff_true]
    exact nd
  | n + 2 =>
    simp only [List.replicate_succ]
    constructor
    · intro hn
      have := (List.nodup_append.mp hn).2.1
      simp at this
    · intro hle; omega

example : ¬ UniqueMeta (linesOf (mqttCalls ['u'] ⟨true, 0, 0, 0, 0, [(['a'], 1), (['b'], 1)]⟩)) := by
  rw [(mqtt_text_unique_iff _ _).1]; decide

/-! ## filter unit -/

/-- **Exact accounting**: the unit-wide counter is the number of `message_filtered` calls, each ingress's counter
    the number of calls for that ingress. -/
theorem filter_exact (r : FilterRec) (h : List Nat) (i : Nat) :
    (r.applyAll h).total = r.total + h.length ∧
    routerCount i (r.applyAll h).routers = routerCount i r.routers + h.count i := by
  induction h generalizing r with
  | nil => simp [FilterRec.applyAll]
  | cons j h ih =>
    have e : r.applyAll (j :: h) = (r.filtered j).applyAll h := rfl
    rw [e]
    obtain ⟨a, b⟩ := ih (r.filtered j)
    rw [a, b]
    by_cases hj : j = i
    · subst hj; simp [FilterRec.filtered, routerCount_bump_same]; omega
    · have : (j == i) = false := by simp [hj]
      simp [FilterRec.filtered, routerCount_bump_other i j hj, List.count_cons, this]; omega

example : routerCount 3 (FilterRec.zero.applyAll [3, 7, 3]).routers = 2 := by decide

/-- **The per-ingress counters sum to the total.** -/
theorem filter_total_is_sum (r : FilterRec) (h : List Nat) (hr : (r.routers.map (·.2)).sum = r.total) :
    ((r.applyAll h).routers.map (·.2)).sum = (r.applyAll h).total := by
  induction h generalizing r with
  | nil => simpa [FilterRec.applyAll] using hr
  | cons j h ih =>
    have e : r.applyAll (j :: h) = (r.filtered j).applyAll h := rfl
    rw [e]
    apply ih
    simp [FilterRec.filtered, sum_bumpRouter, hr]

example : (FilterRec.zero.routers.map (·.2)).sum = FilterRec.zero.total := by decide

/-- **Counters never decrease.** -/
theorem filter_monotone (r : FilterRec) (h : List Nat) (i : Nat) :
    r.total ≤ (r.applyAll h).total ∧ routerCount i r.routers ≤ routerCount i (r.applyAll h).routers := by
  obtain ⟨a, b⟩ := filter_exact r h i
  omega

theorem gate_live (unit : Str) (g : GateRec) (ago : Str) :
    liveCalls (gateCalls unit g ago) =
      [simple mGateUpdates unit (digits g.updates), simple mGateDropped unit (digits g.dropped)] ++
      (match g.updated with
       | true => [simple mGateAgo unit ago, simple mGateSetSize unit (digits g.setSize)]
       | false => [simple mGateAgo unit ['-', '1']]) := by
  cases hg : g.updated <;> simp only [gateCalls, hg, List.cons_append, List.nil_append] <;>
    rw [live_simple _ _ _ _ (ok_live mGateUpdates_ok), live_simple _ _ _ _ (ok_live mGateDropped_ok),
      live_text _ _ _ _ mGateWhen_text, live_simple _ _ _ _ (ok_live mGateAgo_ok)]
  · rfl
  · rw [live_simple _ _ _ _ (ok_live mGateSetSize_ok)]; rfl

theorem gate_live_wf (unit : Str) (g : GateRec) (ago : Str) (ha : isNumber ago = true) :
    (liveCalls (gateCalls unit g ago)).all Call.wf = true := by
  rw [gate_live]
  cases g.updated <;>
    simp only [List.cons_append, List.nil_append, List.all_cons, List.all_nil, Bool.and_true, Bool.and_eq_true]
  · exact ⟨simple_wf _ _ _ mGateUpdates_ok (digits_isNumber _), simple_wf _ _ _ mGateDropped_ok (digits_isNumber _),
      simple_wf _ _ _ mGateAgo_ok (by decide)⟩
  · exact ⟨simple_wf _ _ _ mGateUpdates_ok (digits_isNumber _), simple_wf _ _ _ mGateDropped_ok (digits_isNumber _),
      simple_wf _ _ _ mGateAgo_ok ha, simple_wf _ _ _ mGateSetSize_ok (digits_isNumber _)⟩

/-- Every call of the filter unit's source that the format supports is well-formed, for every unit name. -/
theorem filter_calls_wf (unit : Str) (g : GateRec) (ago : Str) (ha : isNumber ago = true) (r : FilterRec) :
    (liveCalls (filterCalls unit g ago r)).all Call.wf = true := by
  simp only [filterCalls, liveCalls_append, List.all_append, Bool.and_eq_true]
  refine ⟨⟨gate_live_wf unit g ago ha, ?_⟩, ?_⟩
  · rw [live_labelled_map mFiltered unit routerLabel (fun p => digits p.1) (fun p => digits p.2) r.routers
      (ok_live mFiltered_ok), List.all_eq_true]
    intro c hc
    obtain ⟨p, _, rfl⟩ := List.mem_map.mp hc
    exact labelled_wf _ _ _ _ _ mFiltered_ok routerLabel_ok (digits_isNumber _)
  · rw [live_simple _ _ _ _ (ok_live mFiltered_ok)]
    simp only [liveCalls, List.filter_nil, List.all_cons, List.all_nil, Bool.and_true]
    exact simple_wf _ _ _ mFiltered_ok (digits_isNumber _)

/-- **C15 / C19 for the filter unit**: its exposition parses and reads back, for every unit name and record. -/
theorem filter_text_roundtrip (grp : Bool) (unit : Str) (g : GateRec) (ago : Str) (ha : isNumber ago = true)
    (r : FilterRec) :
    parse (renderV true grp (filterCalls unit g ago r)) = some (linesOfV grp (filterCalls unit g ago r)) :=
  text_roundtrip_live grp _ (filter_calls_wf unit g ago ha r)

example : isNumber ['0'] = true := by decide

/-- **The header rule for the filter unit, code as written**: the total is appended under the same metric as the
    per-ingress values, so as soon as one ingress has a counter the `# HELP` / `# TYPE` lines repeat (the listed
    finding, in this source). -/
theorem filter_text_not_unique (unit : Str) (g : GateRec) (ago : Str) (r : FilterRec) (h : r.routers ≠ []) :
    ¬ UniqueMeta (linesOf (filterCalls unit g ago r)) ∧ UniqueMeta (groupLines (filterCalls unit g ago r)) := by
  refine ⟨?_, C15prom_unique_repaired _⟩
  rw [C15prom_unique_iff]
  intro hn
  simp only [filterCalls, liveCalls_append, List.map_append] at hn
  rw [live_labelled_map mFiltered unit routerLabel (fun p => digits p.1) (fun p => digits p.2) r.routers
    (ok_live mFiltered_ok), live_simple _ _ _ _ (ok_live mFiltered_ok)] at hn
  obtain ⟨p, l, hp⟩ := List.exists_cons_of_ne_nil h
  rw [hp] at hn
  have := (List.nodup_append.mp hn).2.2
  exact this (fullName mFiltered none) (by simp [headName_labelled]) (fullName mFiltered none)
    (by simp [liveCalls, headName_simple]) rfl

/-! ## the whole process: `metrics::Collection` -/

theorem render_append (esc : Bool) (a b : List Call) : render esc (a ++ b) = render esc a ++ render esc b := by
  simp [render, linesOf, List.flatMap_append]

theorem render_flatMap (esc : Bool) (coll : List Source) :
    render esc (coll.flatMap (fun s => s.calls s.name)) = coll.flatMap (fun s => render esc (s.calls s.name)) := by
  induction coll with
  | nil => rfl
  | cons s coll ih => simp only [List.flatMap_cons, render_append, ih]

def assembleCall (ms : Str) : Call := ⟨mAssemble, none, [⟨none, none, ms⟩]⟩

/-- **The assembled text is the concatenation** of the sources' own texts, in the collection's order, followed by
    the assemble-duration block (code as written: no regrouping across sources). -/
theorem assemble_is_concatenation (esc : Bool) (coll : List Source) (ms : Str) :
    render esc (assembleCalls coll ms)
      = coll.flatMap (fun s => render esc (s.calls s.name)) ++ render esc [assembleCall ms] := by
  simp only [assembleCalls, render_append, render_flatMap]; rfl

theorem liveCalls_flatMap (coll : List Source) :
    liveCalls (coll.flatMap (fun s => s.calls s.name)) = coll.flatMap (fun s => liveCalls (s.calls s.name)) := by
  induction coll with
  | nil => rfl
  | cons s coll ih => simp only [List.flatMap_cons, liveCalls_append, ih]

theorem assembleCall_live (ms : Str) : liveCalls [assembleCall ms] = [assembleCall ms] := by
  have : (mAssemble.mtype != .text) = true := by simpa using ok_live mAssemble_ok
  simp [liveCalls, List.filter_cons, assembleCall, this]

theorem assembleCall_wf (ms : Str) (h : isNumber ms = true) : (assembleCall ms).wf = true := by
  have hm := mAssemble_ok
  simp only [Metric.ok, Bool.and_eq_true] at hm
  simp [assembleCall, Call.wf, hm.1.1.1, hm.1.1.2, hm.1.2, h]

/-- **The assembled text parses** whenever each source's supported calls are well-formed (so whenever each part
    parses by `text_roundtrip_live`), for every set of sources, names and label values; either grouping. -/
theorem assemble_parses (g : Bool) (coll : List Source) (ms : Str) (hms : isNumber ms = true)
    (h : ∀ s ∈ coll, (liveCalls (s.calls s.name)).all Call.wf = true) :
    parse (renderV true g (assembleCalls coll ms)) = some (linesOfV g (assembleCalls coll ms)) := by
  apply text_roundtrip_live
  have e : assembleCalls coll ms = coll.flatMap (fun s => s.calls s.name) ++ [assembleCall ms] := rfl
  rw [e, liveCalls_append, liveCalls_flatMap, assembleCall_live]
  simp only [List.all_append, Bool.and_eq_true, List.all_cons, List.all_nil, Bool.and_true]
  refine ⟨?_, assembleCall_wf ms hms⟩
  rw [List.all_eq_true]
  intro c hc
  obtain ⟨s, hs, hcs⟩ := List.mem_flatMap.mp hc
  exact List.all_eq_true.mp (h s hs) c hcs

def mqttSource (name : Str) (r : MqttRec) : Source := ⟨name, fun u => mqttCalls u r⟩
def filterSource (name : Str) (g : GateRec) (ago : Str) (r : FilterRec) : Source := ⟨name, fun u => filterCalls u g ago r⟩

theorem mqtt_live (unit : Str) (r : MqttRec) : liveCalls (mqttCalls unit r) = mqttCalls unit r := by
  simp only [mqttCalls, List.cons_append, List.nil_append]
  rw [live_simple _ _ _ _ (ok_live mEstablished_ok), live_simple _ _ _ _ (ok_live mLost_ok),
    live_simple _ _ _ _ (ok_live mConnErr_ok), live_simple _ _ _ _ (ok_live mInflight_ok),
    live_simple _ _ _ _ (ok_live mPubErr_ok),
    live_labelled_map mPublish unit topicLabel (fun p => p.1) (fun p => digits p.2) r.topics (ok_live mPublish_ok)]

/-- Any collection of mqtt targets and filter units (any names, states, order) satisfies the hypothesis of
    `assemble_parses`. -/
theorem sources_wf (name : Str) (r : MqttRec) (g : GateRec) (ago : Str) (ha : isNumber ago = true) (f : FilterRec) :
    (liveCalls ((mqttSource name r).calls (mqttSource name r).name)).all Call.wf = true ∧
    (liveCalls ((filterSource name g ago f).calls (filterSource name g ago f).name)).all Call.wf = true := by
  refine ⟨?_, filter_calls_wf _ _ _ ha _⟩
  simp only [mqttSource]
  rw [mqtt_live]; exact mqtt_calls_wf _ _

/-- **The header rule for a whole process, code as written**: unique exactly when no metric name is appended twice
    across all sources. -/
theorem assemble_unique_iff (coll : List Source) (ms : Str) :
    UniqueMeta (linesOf (assembleCalls coll ms)) ↔ ((liveCalls (assembleCalls coll ms)).map headName).Nodup :=
  C15prom_unique_iff _

/-- **Two components of one type always repeat the header lines** (two mqtt targets: each appends
    `mqtt_target_connection_established` …), whatever their names and states, wherever they sit in the collection
    order — the listed finding `prometheus:duplicate-help-type-lines`, across sources. The repaired `Target`
    (one block per metric name) never does. -/
theorem assemble_same_type_twice (pre mid post : List Source) (u1 u2 : Str) (r1 r2 : MqttRec) (ms : Str) :
    ¬ UniqueMeta (linesOf (assembleCalls (pre ++ mqttSource u1 r1 :: (mid ++ mqttSource u2 r2 :: post)) ms)) ∧
    UniqueMeta (groupLines (assembleCalls (pre ++ mqttSource u1 r1 :: (mid ++ mqttSource u2 r2 :: post)) ms)) := by
  refine ⟨?_, C15prom_unique_repaired _⟩
  rw [assemble_unique_iff]
  intro hn
  have hmem : ∀ (u : Str) (r : MqttRec), fullName mEstablished none ∈ (liveCalls (mqttCalls u r)).map headName := by
    intro u r
    rw [mqtt_live]
    simp [mqttCalls, headName_simple]
  have e : ∀ c, assembleCalls c ms = c.flatMap (fun s => s.calls s.name) ++ [assembleCall ms] := fun _ => rfl
  rw [e, liveCalls_append, liveCalls_flatMap] at hn
  simp only [List.flatMap_append, List.flatMap_cons, List.map_append, mqttSource] at hn
  have h1 := hmem u1 r1
  have h2 := hmem u2 r2
  -- the name occurs in the block of the first target and again in the block of the second
  have a := (List.nodup_append.mp hn).1
  have b := (List.nodup_append.mp a).2.1
  have c := (List.nodup_append.mp b).2.2
  exact c _ h1 _ (by simp only [List.mem_append]; right; left; exact h2) rfl

example : ¬ UniqueMeta (linesOf (assembleCalls ([] ++ mqttSource ['a'] MqttRec.zero :: ([] ++ mqttSource ['b'] MqttRec.zero :: [])) ['0'])) :=
  (assemble_same_type_twice [] [] [] _ _ _ _ _).1

/-! ### `Collection::register`: the order of the sources -/

theorem strLe_total (a b : Str) : strLe a b = true ∨ strLe b a = true := by
  induction a generalizing b with
  | nil => left; cases b <;> rfl
  | cons x a ih =>
    cases b with
    | nil => right; rfl
    | cons y b =>
      simp only [strLe]
      by_cases h1 : x.toNat < y.toNat
      · left; simp [h1]
      · by_cases h2 : y.toNat < x.toNat
        · right; simp [h2]
        · simp only [h1, h2, if_false]; exact ih b

theorem strLe_trans (a b c : Str) (h1 : strLe a b = true) (h2 : strLe b c = true) : strLe a c = true := by
  induction a generalizing b c with
  | nil => cases c <;> rfl
  | cons x a ih =>
    cases b with
    | nil => simp [strLe] at h1
    | cons y b =>
      cases c with
      | nil => simp [strLe] at h2
      | cons z c =>
        simp only [strLe] at h1 h2 ⊢
        by_cases xy : x.toNat < y.toNat
        · by_cases yz : y.toNat < z.toNat
          · have : x.toNat < z.toNat := by omega
            simp [this]
          · by_cases zy : z.toNat < y.toNat
            · simp [yz, zy] at h2
            · have : x.toNat < z.toNat := by omega
              simp [this]
        · by_cases yx : y.toNat < x.toNat
          · simp [xy, yx] at h1
          · simp only [xy, yx, if_false] at h1
            by_cases yz : y.toNat < z.toNat
            · have : x.toNat < z.toNat := by omega
              simp [this]
            · by_cases zy : z.toNat < y.toNat
              · simp [yz, zy] at h2
              · simp only [yz, zy, if_false] at h2
                have e1 : ¬ x.toNat < z.toNat := by omega
                have e2 : ¬ z.toNat < x.toNat := by omega
                simp only [e1, e2, if_false]
                exact ih b c h1 h2

def SortedByName (l : List Source) : Prop := l.Pairwise (fun a b => strLe a.name b.name = true)

theorem register_mem (s : Source) (l : List Source) (x : Source) : x ∈ register s l ↔ x = s ∨ x ∈ l := by
  induction l with
  | nil => simp [register]
  | cons y l ih =>
    simp only [register]
    split
    · simp only [List.mem_cons, ih]
      constructor
      · rintro (h | h | h) <;> simp [h]
      · rintro (h | h | h) <;> simp [h]
    · simp [List.mem_cons]

/-- `register` keeps the collection sorted by component name. -/
theorem register_sorted (s : Source) (l : List Source) (h : SortedByName l) : SortedByName (register s l) := by
  induction l with
  | nil => simp [register, SortedByName]
  | cons y l ih =>
    have hy := List.pairwise_cons.mp h
    simp only [register]
    split
    · rename_i hle
      refine List.pairwise_cons.mpr ⟨?_, ih hy.2⟩
      intro x hx
      rcases (register_mem s l x).mp hx with rfl | hx
      · exact hle
      · exact hy.1 x hx
    · rename_i hle
      have hsy : strLe s.name y.name = true := by
        rcases strLe_total s.name y.name with h | h
        · exact h
        · exact absurd h hle
      refine List.pairwise_cons.mpr ⟨?_, h⟩
      intro x hx
      rcases List.mem_cons.mp hx with rfl | hx
      · exact hsy
      · exact strLe_trans _ _ _ hsy (hy.1 x hx)

theorem register_perm (s : Source) (l : List Source) : (register s l).Perm (s :: l) := by
  induction l with
  | nil => simp [register]
  | cons y l ih =>
    simp only [register]
    split
    · exact ((List.Perm.cons y ih).trans (List.Perm.swap s y l))
    · exact List.Perm.refl _

theorem strLe_refl (a : Str) : strLe a a = true := by
  induction a with
  | nil => rfl
  | cons x a ih => simp [strLe, ih]

/-- **`register` is stable**: among the sources of one component name the registration order is kept (the new source
    goes behind the ones already registered under its name) — the BMP unit registers three sources under one name. -/
theorem register_stable (s : Source) (l : List Source) (h : SortedByName l) (n : Str) :
    (register s l).filter (fun y => y.name == n) =
      l.filter (fun y => y.name == n) ++ (if s.name == n then [s] else []) := by
  induction l with
  | nil => simp [register, List.filter_cons]
  | cons x xs ih =>
    have hx := List.pairwise_cons.mp h
    simp only [register]
    split
    · simp only [List.filter_cons, ih hx.2]
      split <;> simp
    · rename_i hle
      by_cases hs : s.name == n
      · have hsn : s.name = n := by simpa using hs
        have none : ∀ y ∈ x :: xs, (y.name == n) = false := by
          intro y hy
          rcases List.mem_cons.mp hy with rfl | hy
          · by_cases e : y.name = n
            · exact absurd (by rw [e, ← hsn]; exact strLe_refl _ : strLe y.name s.name = true) (by rw [e, ← hsn] at hle; exact fun _ => hle (strLe_refl _))
            · simpa using e
          · by_cases e : y.name = n
            · have := hx.1 y hy
              rw [e, ← hsn] at this
              exact absurd this hle
            · simpa using e
        have fe : (x :: xs).filter (fun y => y.name == n) = [] := by
          rw [List.filter_eq_nil_iff]
          intro y hy
          simp [none y hy]
        rw [List.filter_cons, hs, fe]
        simp
      · simp [List.filter_cons, hs]

example : ((registerAll [mqttSource ['b'] MqttRec.zero, filterSource ['a'] GateRec.zero ['0'] FilterRec.zero,
    mqttSource ['a'] ⟨true, 0, 0, 0, 0, [(['t'], 1)]⟩]).map (fun s => (s.calls s.name).length)) = [5, 6, 5] := by decide

theorem foldl_register (ss acc : List Source) (h : SortedByName acc) :
    SortedByName (ss.foldl (fun a s => register s a) acc) ∧ (ss.foldl (fun a s => register s a) acc).Perm (acc ++ ss) := by
  induction ss generalizing acc with
  | nil => simpa using h
  | cons s ss ih =>
    simp only [List.foldl_cons]
    obtain ⟨a, b⟩ := ih (register s acc) (register_sorted s acc h)
    refine ⟨a, b.trans ?_⟩
    exact ((register_perm s acc).append_right ss).trans List.perm_middle.symm

/-- **The collection's order**: whatever the registration order, the sources are held sorted by component name, and
    they are exactly the registered ones. (Equal names keep their registration order: pinned by the correspondence,
    the BMP unit registers three sources under one name.) -/
theorem registerAll_sorted_perm (ss : List Source) : SortedByName (registerAll ss) ∧ (registerAll ss).Perm ss := by
  have := foldl_register ss [] List.Pairwise.nil
  simpa [registerAll] using this

example : (registerAll [mqttSource ['z'] MqttRec.zero, mqttSource ['a'] MqttRec.zero, mqttSource ['m'] MqttRec.zero]).map
    (·.name) = [['a'], ['m'], ['z']] := by decide


end Rotonda.UnitMetrics
