import RotondaModel.Proofs.VribQuery
/-!
# VribQuery — property theorems (C11 / C12 for the virtual-RIB query path and the rendering
parameters `sort`, `details`, `format`, per-ingress listing)

Part A is about `vstep` / `vrun` (one request / a sequence of requests against a running pipeline
with virtual RIBs), part B about `cmpJson`, `cmpKeys`, `isort`, `sortSection`, `handleSorted`,
`handleListing`. Variants: `VVariant.reprocess`, `VVariant.clientgone` (two confirmed defects of
the code as written), `SortVariant.scope` (where the sort is applied), `ListVariant.contract`.
-/
namespace Rotonda.VribQuery

open Rotonda.RibQuery (Str)

/-! ## Part A — virtual RIBs -/

/-- What a healthy pipeline answers (the property's reading): a prefix query — at the physical
RIB or at any virtual RIB downstream of it (no roto filter loaded: a virtual RIB keeps every
record) — is answered with what the physical RIB's store holds; malformed requests get 400; a
request whose client is gone has nobody to answer. -/
def expected (r : VReq) : VAnswer :=
  match r.ep, r.what with
  | .status, _ => .ok200
  | _, .refused => .badRequest
  | _, .query up => .ok up
  | .physical, .queryGone up => .ok up
  | .virtual _, .queryGone _ => .hangs

/-- The request does not touch one of the two defect sites under `v`. -/
def Harmless (v : VVariant) (r : VReq) : Prop :=
  match r.ep, r.what with
  | .virtual _, .query up => v.reprocess = true ∨ up.records = 0
  | .virtual _, .queryGone up => v.clientgone = true ∧ (v.reprocess = true ∨ up.records = 0)
  | _, _ => True

instance (v : VVariant) (r : VReq) : Decidable (Harmless v r) := by
  unfold Harmless; split <;> infer_instance

theorem vstep_harmless (v : VVariant) (r : VReq) (h : Harmless v r) :
    vstep v ⟨true⟩ r = (⟨true⟩, ⟨expected r, none⟩) := by
  obtain ⟨ep, what⟩ := r
  cases ep <;> cases what <;> simp only [vstep, expected, Harmless] at h ⊢ <;> try rfl
  · -- virtual, query
    rename_i d up
    have : reprocess v up d = some up := by
      rcases h with h | h
      · exact reprocess_repaired up d v h
      · exact reprocess_empty v up d h
    simp [this]
  · rename_i d up
    have : reprocess v up d = some up := by
      rcases h.2 with h' | h'
      · exact reprocess_repaired up d v h'
      · exact reprocess_empty v up d h'
    simp [this, h.1]

/-- **C11 + C12 along a whole history, guarded**: as long as no request touches a defect site,
the physical RIB's task keeps running, no request panics anything and every request gets the
expected answer — for every variant, every sequence of requests of any length. -/
theorem vrun_harmless (v : VVariant) (reqs : List VReq) (h : ∀ r ∈ reqs, Harmless v r) :
    vrun v ⟨true⟩ reqs = (⟨true⟩, reqs.map fun r => ⟨expected r, none⟩) := by
  induction reqs with
  | nil => rfl
  | cons r rs ih =>
    have hr := vstep_harmless v r (h r (List.mem_cons_self))
    have := ih (fun x hx => h x (List.mem_cons_of_mem _ hx))
    simp only [vrun, hr, this, List.map_cons]

/-- The clause of C12 ("no request can panic a handler, and the server keeps answering
afterwards") and of C11 ("no answer omits a stored entry") for a pipeline with virtual RIBs:
whatever is requested, in whatever order, the physical RIB's task survives, nothing panics and
every answer is the expected one. -/
def C11C12_vrib_full (v : VVariant) : Prop :=
  ∀ reqs : List VReq, vrun v ⟨true⟩ reqs = (⟨true⟩, reqs.map fun r => ⟨expected r, none⟩)

/-- Full strength for the repaired variant: no guard. -/
theorem C11C12_vrib_repaired : C11C12_vrib_full vRepaired := by
  intro reqs
  apply vrun_harmless
  intro r _
  unfold Harmless
  split <;> simp [vRepaired]

example : vrun vRepaired ⟨true⟩
    [⟨.virtual 2, .query ⟨2, some 1, none⟩⟩, ⟨.virtual 1, .queryGone ⟨0, none, none⟩⟩, ⟨.physical, .query ⟨2, none, none⟩⟩]
    = (⟨true⟩, [⟨.ok ⟨2, some 1, none⟩, none⟩, ⟨.hangs, none⟩, ⟨.ok ⟨2, none, none⟩, none⟩]) := by decide

/-- The code as written, partial: queries at virtual RIBs whose upstream answer is empty, with
clients that stay. -/
theorem C11C12_vrib_partial (reqs : List VReq) (h : ∀ r ∈ reqs, Harmless vAsWritten r) :
    vrun vAsWritten ⟨true⟩ reqs = (⟨true⟩, reqs.map fun r => ⟨expected r, none⟩) :=
  vrun_harmless vAsWritten reqs h

example : ∀ r ∈ [(⟨.virtual 1, .query ⟨0, some 0, none⟩⟩ : VReq), ⟨.virtual 3, .refused⟩, ⟨.physical, .query ⟨5, none, none⟩⟩],
    Harmless vAsWritten r := by decide

/-- **Counterexample 1** (`todo!()` in `reprocess_rib_value`): one stored route, one query for its
prefix at the first virtual RIB — the request is never answered, the physical RIB's unit task
panics; afterwards the physical RIB's own endpoint is gone (404) and a further virtual-RIB query
(even one with an empty answer) hangs; `/status` still answers. -/
theorem C11C12_vrib_todo_counterexample :
    vrun vAsWritten ⟨true⟩
      [⟨.virtual 1, .query ⟨1, none, none⟩⟩, ⟨.physical, .query ⟨1, none, none⟩⟩,
       ⟨.virtual 1, .query ⟨0, none, none⟩⟩, ⟨.status, .refused⟩]
    = (⟨false⟩, [⟨.hangs, some .reprocessTodo⟩, ⟨.notFound, none⟩, ⟨.hangs, none⟩, ⟨.ok200, none⟩]) := by decide

theorem C11C12_vrib_asWritten_false : ¬ C11C12_vrib_full vAsWritten := by
  intro h
  have := h [⟨.virtual 1, .query ⟨1, none, none⟩⟩]
  revert this; decide

/-- **Counterexample 2** (`tx.send(res).unwrap()`): the client of a virtual-RIB query goes away
before the (empty) result is delivered — same aftermath. Also with the first defect repaired. -/
theorem C11C12_vrib_clientgone_counterexample :
    vrun ⟨true, false⟩ ⟨true⟩
      [⟨.virtual 1, .queryGone ⟨0, none, none⟩⟩, ⟨.physical, .query ⟨1, none, none⟩⟩, ⟨.virtual 1, .query ⟨0, none, none⟩⟩]
    = (⟨false⟩, [⟨.hangs, some .resultSendUnwrap⟩, ⟨.notFound, none⟩, ⟨.hangs, none⟩]) := by decide

theorem C11C12_vrib_clientgone_false : ¬ C11C12_vrib_full ⟨true, false⟩ := by
  intro h
  have := h [⟨.virtual 1, .queryGone ⟨0, none, none⟩⟩]
  revert this; decide

/-- What a pipeline whose physical RIB task has ended answers. -/
def deadAnswer (r : VReq) : VAnswer :=
  match r.ep, r.what with
  | .status, _ => .ok200
  | .physical, _ => .notFound
  | .virtual _, .refused => .badRequest
  | .virtual _, _ => .hangs

/-- Nothing brings the physical RIB back: once its task ended, for every variant and every
further sequence of requests its endpoint answers 404 and no virtual-RIB prefix query is ever
answered ("the server keeps answering afterwards" fails for good). -/
theorem dead_forever (v : VVariant) (reqs : List VReq) :
    vrun v ⟨false⟩ reqs = (⟨false⟩, reqs.map fun r => ⟨deadAnswer r, none⟩) := by
  induction reqs with
  | nil => rfl
  | cons r rs ih =>
    have hr : vstep v ⟨false⟩ r = (⟨false⟩, ⟨deadAnswer r, none⟩) := by
      obtain ⟨ep, what⟩ := r
      cases ep <;> cases what <;> simp [vstep, deadAnswer]
    simp only [vrun, hr, ih, List.map_cons]

example : vrun vAsWritten ⟨false⟩ [⟨.virtual 1, .query ⟨0, none, none⟩⟩] = (⟨false⟩, [⟨.hangs, none⟩]) := by decide

/-- The depth does not matter as written: the first virtual RIB on the way already panics. -/
theorem todo_at_any_depth (d : Nat) (up : Upstream) (h : up.records ≠ 0) :
    vstep vAsWritten ⟨true⟩ ⟨.virtual (d + 1), .query up⟩ = (⟨false⟩, ⟨.hangs, some .reprocessTodo⟩) := by
  simp [vstep, reprocess_asWritten_nonempty up d h]

example : (⟨1, some 0, none⟩ : Upstream).records ≠ 0 := by decide

/-! ## Part B — `sort=` -/

/-- **Sorting never adds or drops an entry**, for *every* comparator (total or not), every key
string, both places the sort can be applied: the section as a multiset is the unsorted one.
This is C11's clause "`sort=` only affects order" as a theorem. -/
theorem sortSection_perm (v : SortVariant) (sort : Option Str) (base : List J) :
    (sortSection v sort base).Perm base := by
  unfold sortSection
  split
  · unfold sortResults; split
    · exact List.Perm.refl _
    · exact isort_perm _ _
  · have : ∀ l : List J, (l.flatMap fun e => sortResults sort [e]) = l := by
      intro l
      induction l with
      | nil => rfl
      | cons x xs ih =>
        simp only [List.flatMap_cons, ih]
        unfold sortResults; split <;> simp [isort, insRev]
    rw [this]

example : sortSection ⟨true⟩ (some "/a".toList)
    [.obj ["a".toList] [.num (.pos 2)], .obj ["a".toList] [.num (.pos 1)]]
    = [.obj ["a".toList] [.num (.pos 1)], .obj ["a".toList] [.num (.pos 2)]] := by decide

/-- **The code as written never reorders anything**: `sort_results` sees the results of one
stored record at a time. -/
theorem sortSection_asWritten_id (sort : Option Str) (base : List J) :
    sortSection ⟨false⟩ sort base = base := by
  unfold sortSection
  simp only [Bool.false_eq_true, if_false]
  induction base with
  | nil => rfl
  | cons x xs ih =>
    simp only [List.flatMap_cons, ih]
    unfold sortResults; split <;> simp [isort, insRev]

/-- … so with two entries in the wrong order the answer is *not* ordered by the key
(`sort=/ingress_id`, ingress ids 2 and 1 stay 2, 1); the repaired variant orders them. -/
theorem sort_asWritten_not_ordered_counterexample :
    let e (n : Nat) : J := .obj ["ingress_id".toList] [.num (.pos n)]
    sortSection ⟨false⟩ (some "/ingress_id".toList) [e 2, e 1] = [e 2, e 1]
    ∧ sortSection ⟨true⟩ (some "/ingress_id".toList) [e 2, e 1] = [e 1, e 2] := by decide

/-- The positions the driver prints are a permutation of `0 … n-1`. -/
theorem sortSectionIdx_perm (v : SortVariant) (sort : Option Str) (base : List J) :
    (sortSectionIdx v sort base).Perm (List.range base.length) := by
  have hz : (base.zipIdx.map (·.2)) = List.range base.length := by
    rw [List.zipIdx_map_snd]; simp [List.range_eq_range']
  unfold sortSectionIdx
  simp only
  split
  · rw [← hz]; exact (isort_perm _ _).map _
  · rw [isort_singleton, hz]

/-- **Ordered by the key** (repaired scope): if the comparator of the requested keys is a strict
weak order on the entries of the section, no later entry is `Less` than an earlier one. -/
theorem sortSection_sorted (s : Str) (base : List J) (P : J → Prop)
    (h : StrictWeak (isLess (keysOf s)) P) (hb : ∀ e ∈ base, P e) :
    (sortSection ⟨true⟩ (some s) base).Pairwise (le (isLess (keysOf s))) := by
  simp only [sortSection, if_true, sortResults]
  exact isort_sorted _ P h base hb

/-! ### the comparator -/

/-- Strings under one key: `cmp_json_values` is `String::cmp`, a strict weak (here: total) order. -/
theorem isLess_strictWeak_string_key (k : Str) :
    StrictWeak (isLess [k]) (fun e => ∃ s, pointer e k = some (.str s)) := by
  have key : ∀ a b sa sb, pointer a k = some (.str sa) → pointer b k = some (.str sb) →
      isLess [k] a b = (cmpStr sa sb == .lt) := by
    intro a b sa sb ha hb
    simp only [isLess, cmpKeys, ha, hb, cmpJson]
    by_cases e : sa = sb
    · subst e
      have : cmpStr sa sa ≠ .lt := fun h => cmpStr_lt_asymm sa sa h h
      cases hc : cmpStr sa sa <;> simp_all
    · simp only [beq_iff_eq, e, if_false]
      cases hc : cmpStr sa sb <;> simp
  constructor
  · intro a b ⟨sa, ha⟩ ⟨sb, hb⟩ hlt
    rw [key a b sa sb ha hb] at hlt
    rw [key b a sb sa hb ha]
    have := cmpStr_lt_asymm sa sb (by simpa using hlt)
    cases hc : cmpStr sb sa <;> simp_all
  · intro a b c ⟨sa, ha⟩ ⟨sb, hb⟩ ⟨sc, hc⟩ h1 h2
    unfold le at *
    rw [key b a sb sa hb ha] at h1
    rw [key c b sc sb hc hb] at h2
    rw [key c a sc sa hc ha]
    have := cmpStr_le_trans sa sb sc (by cases h : cmpStr sb sa <;> simp_all) (by cases h : cmpStr sc sb <;> simp_all)
    cases h : cmpStr sc sa <;> simp_all

/-- Unsigned integers below 2^63 under one key (ingress ids, MEDs, ASNs): numeric order. -/
theorem isLess_strictWeak_nat_key (k : Str) :
    StrictWeak (isLess [k]) (fun e => ∃ n, n < 2 ^ 63 ∧ pointer e k = some (.num (.pos n))) := by
  have key : ∀ a b na nb, na < 2 ^ 63 → nb < 2 ^ 63 → pointer a k = some (.num (.pos na)) →
      pointer b k = some (.num (.pos nb)) → isLess [k] a b = decide (na < nb) := by
    intro a b na nb hna hnb ha hb
    simp only [isLess, cmpKeys, ha, hb, cmpJson]
    by_cases e : na = nb
    · subst e; simp
    · have e' : (Num.pos na == Num.pos nb) = false := by simp [e]
      simp only [e', Bool.false_eq_true, if_false, cmpNum, Num.isF64, Num.asI64, hna, hnb, if_true,
        Option.isSome_some, cmpOpt, cmpInt]
      by_cases h : na < nb
      · have : (na : Int) < nb := by omega
        simp [h, this]
      · have h1 : ¬ (na : Int) < nb := by omega
        have h2 : (nb : Int) < na := by omega
        simp [h, h1, h2]
  constructor
  · intro a b ⟨na, hna, ha⟩ ⟨nb, hnb, hb⟩ hlt
    rw [key a b na nb hna hnb ha hb] at hlt
    rw [key b a nb na hnb hna hb ha]
    simp at hlt ⊢; omega
  · intro a b c ⟨na, hna, ha⟩ ⟨nb, hnb, hb⟩ ⟨nc, hnc, hc⟩ h1 h2
    unfold le at *
    rw [key b a nb na hnb hna hb ha] at h1
    rw [key c b nc nb hnc hnb hc hb] at h2
    rw [key c a nc na hnc hna hc ha]
    simp at h1 h2 ⊢; omega

/-- **Ordered by `sort=/ingress_id`-like keys** (repaired scope): a section whose entries all
carry an unsigned integer at the key comes out in non-decreasing order of it. -/
theorem sortSection_sorted_nat_key (k : Str) (hk : keysOf k = [k]) (base : List J)
    (hb : ∀ e ∈ base, ∃ n, n < 2 ^ 63 ∧ pointer e k = some (.num (.pos n))) :
    (sortSection ⟨true⟩ (some k) base).Pairwise (le (isLess [k])) := by
  have := sortSection_sorted k base _ (hk ▸ isLess_strictWeak_nat_key k) hb
  rwa [hk] at this

example : keysOf "/ingress_id".toList = ["/ingress_id".toList] := by decide

/-- **The comparator is not a total preorder.** Mixed types and different objects are `Less` in
both directions; an integer against a float and an `i64` against a `u64` beyond `i64::MAX` are
`Greater` in both directions. (`slice::sort_by` may panic on such a comparator for slices longer
than 20; unreachable as written because every sorted slice has at most one element.) -/
theorem cmpJson_not_antisymmetric_counterexamples :
    (cmpJson .null (.num (.pos 1)) = .lt ∧ cmpJson (.num (.pos 1)) .null = .lt)
    ∧ (cmpJson (.obj ["a".toList] [.null]) (.obj ["b".toList] [.null]) = .lt
        ∧ cmpJson (.obj ["b".toList] [.null]) (.obj ["a".toList] [.null]) = .lt)
    ∧ (cmpJson (.num (.pos 1)) (.num (.flt 5)) = .gt ∧ cmpJson (.num (.flt 5)) (.num (.pos 1)) = .gt)
    ∧ (cmpJson (.num (.pos 5)) (.num (.pos (2 ^ 63))) = .gt ∧ cmpJson (.num (.pos (2 ^ 63))) (.num (.pos 5)) = .gt) := by
  decide

/-- The same through the `sort` key of two answer entries, one whose ingress is registered and
one whose is not (`"ingress_info": null`): each is `Less` than the other. -/
theorem cmpKeys_ingress_info_counterexample :
    let a : J := .obj ["ingress_info".toList] [.null]
    let b : J := .obj ["ingress_info".toList] [.obj ["remote_asn".toList] [.num (.pos 65001)]]
    cmpKeys ["/ingress_info".toList] a b = .lt ∧ cmpKeys ["/ingress_info".toList] b a = .lt := by decide

/-- A key missing on both sides ends the comparison: the next key is not consulted. -/
theorem cmpKeys_missing_both_stops :
    let a : J := .obj ["b".toList] [.num (.pos 2)]
    let b : J := .obj ["b".toList] [.num (.pos 1)]
    cmpKeys ["/a".toList, "/b".toList] a b = .eq ∧ cmpKeys ["/b".toList] a b = .gt := by decide

/-! ### the repaired comparator (`cmp=total`) -/

/-- **Antisymmetric on all JSON values** (any types, any nesting): swapping the operands swaps the
answer — what `cmp_json_values` as written fails (counterexamples above). -/
theorem cmpJsonT_antisymmetric (a b : J) : cmpJsonT a b = (cmpJsonT b a).swap := cmpJsonT_swap a b

/-- … hence reflexive, and so is the key comparator built from it, for every key list. -/
theorem cmpJsonT_refl (a : J) : cmpJsonT a a = .eq := by
  have := cmpJsonT_swap a a
  cases h : cmpJsonT a a <;> simp [h, Ordering.swap] at this ⊢

theorem cmpKeysT_antisymmetric (ks : List Str) (a b : J) : cmpKeysT ks a b = (cmpKeysT ks b a).swap :=
  cmpKeysT_swap ks a b

/-- The four pairs on which the comparator as written answers the same in both directions. -/
theorem cmpJsonT_on_the_counterexamples :
    (cmpJsonT .null (.num (.pos 1)) = .lt ∧ cmpJsonT (.num (.pos 1)) .null = .gt)
    ∧ (cmpJsonT (.obj ["a".toList] [.null]) (.obj ["b".toList] [.null]) = .lt
        ∧ cmpJsonT (.obj ["b".toList] [.null]) (.obj ["a".toList] [.null]) = .gt)
    ∧ (cmpJsonT (.num (.pos 1)) (.num (.flt 5)) = .lt ∧ cmpJsonT (.num (.flt 5)) (.num (.pos 1)) = .gt)
    ∧ (cmpJsonT (.num (.pos 5)) (.num (.pos (2 ^ 63))) = .lt ∧ cmpJsonT (.num (.pos (2 ^ 63))) (.num (.pos 5)) = .gt) := by
  decide

/-- Sorting with the repaired comparator is a permutation too (it is for every comparator). -/
theorem sortSectionIdxT_perm (v : SortVariant) (sort : Option Str) (base : List J) :
    (sortSectionIdxT v sort base).Perm (List.range base.length) := by
  have hz : (base.zipIdx.map (·.2)) = List.range base.length := by
    rw [List.zipIdx_map_snd]; simp [List.range_eq_range']
  unfold sortSectionIdxT
  simp only
  split
  · rw [← hz]; exact (isort_perm _ _).map _
  · rw [isort_singleton, hz]

/-! ### the request level -/

/-- The status of a request with rendering parameters is decided by `parseRequest` alone (C11's
model of the parameter checks); the sections of a 200 answer are permutations of the unsorted
answer's positions: no entry added, none dropped. -/
theorem handleSorted_cases (v : SortVariant) (lim : RibQuery.Limits) (url : RibQuery.Url)
    (d : List J) (l m : Option (List J)) :
    (handleSorted v lim url d l m = .badRequest ∧
        ((∃ e, RibQuery.parseRequest lim url = .error e) ∨ ∃ r, RibQuery.parseRequest lim url = .ok r ∧ r.format = .other))
    ∨ (handleSorted v lim url d l m = .dump ∧ ∃ r, RibQuery.parseRequest lim url = .ok r ∧ r.format = .dump)
    ∨ (∃ r dd ll mm, RibQuery.parseRequest lim url = .ok r ∧ r.format = .json
        ∧ handleSorted v lim url d l m = .json dd ll mm
        ∧ dd.Perm (List.range d.length)
        ∧ (∀ x, ll = some x → x.Perm (List.range (l.getD []).length))
        ∧ (∀ x, mm = some x → x.Perm (List.range (m.getD []).length))) := by
  unfold handleSorted
  cases hp : RibQuery.parseRequest lim url with
  | error e => exact Or.inl ⟨rfl, Or.inl ⟨e, rfl⟩⟩
  | ok r =>
    cases hf : r.format with
    | dump => exact Or.inr (Or.inl ⟨by simp [hf], r, rfl, hf⟩)
    | other => exact Or.inl ⟨by simp [hf], Or.inr ⟨r, rfl, hf⟩⟩
    | json =>
      refine Or.inr (Or.inr ⟨r, _, _, _, rfl, hf, by simp only [hf]; rfl, sortSectionIdx_perm _ _ _, ?_, ?_⟩)
      · intro x hx
        split at hx
        · cases hx; exact sortSectionIdx_perm _ _ _
        · cases hx
      · intro x hx
        split at hx
        · cases hx; exact sortSectionIdx_perm _ _ _
        · cases hx

/-- `sort` is accepted with any value; `sort_by` / `sort_order` are not parameters (400);
`details` takes `communities` only; `format` takes `dump` only. -/
theorem render_parameter_examples :
    let q : RibQuery.Prefix := ⟨.v4, 8, 10⟩
    let go (s : String) := handleSorted ⟨false⟩ ⟨8, 19⟩ ⟨some q, RibQuery.parseQuery s.toList⟩ [] none none
    go "sort=%%not,a/pointer" = .json [] none none
    ∧ go "sort_by=/ingress_id" = .badRequest ∧ go "sort_order=desc" = .badRequest
    ∧ go "details=communities" = .json [] none none ∧ go "details=all" = .badRequest
    ∧ go "format=dump" = .dump ∧ go "format=json" = .badRequest
    ∧ go "sort=/a&sort=/b" = .badRequest := by decide

/-! ### the per-ingress listing -/

/-- **Sound** for every variant and whatever the store iterated: every listed route is a stored,
active unicast route of the requested ingress id. -/
theorem handleListing_sound (lv : ListVariant) (rib : RibQuery.Rib) (text : Str) (obs : List RibQuery.Prefix)
    (routes : List (RibQuery.Prefix × Nat)) (h : handleListing lv true rib text obs = .ok routes) :
    ∃ id, RibQuery.parseUnsigned (2 ^ 32) text = some id ∧
      ∀ x ∈ routes, ∃ r ∈ rib.unicast.items, r.mui = id ∧ r.status = .active ∧ x = (r.pfx, r.attrs.id) := by
  unfold handleListing at h
  split at h
  · cases h
  · rename_i id hid
    refine ⟨id, hid, ?_⟩
    simp only [Bool.not_true, Bool.false_eq_true, if_false] at h
    cases h
    intro x hx
    simp only [List.mem_map] at hx
    obtain ⟨r, hr, rfl⟩ := hx
    have hmine : r ∈ rib.unicast.items.filter fun r => r.mui == id && r.status == .active := by
      split at hr
      · exact hr
      · simp only [List.mem_flatMap, List.mem_filter] at hr
        obtain ⟨_, _, h1, _⟩ := hr
        exact List.mem_filter.mpr h1
    simp only [List.mem_filter, Bool.and_eq_true, beq_iff_eq] at hmine
    exact ⟨r, hmine.1, hmine.2.1, hmine.2.2, rfl⟩

/-- **Complete** under the store's contract: every active unicast route of the ingress is listed. -/
theorem handleListing_complete (rib : RibQuery.Rib) (text : Str) (obs : List RibQuery.Prefix) (id : Nat)
    (hid : RibQuery.parseUnsigned (2 ^ 32) text = some id) (r : RibQuery.Rec)
    (hr : r ∈ rib.unicast.items) (hm : r.mui = id) (ha : r.status = .active) :
    ∃ routes, handleListing ⟨true⟩ true rib text obs = .ok routes ∧ (r.pfx, r.attrs.id) ∈ routes := by
  unfold handleListing
  simp only [hid, Bool.not_true, Bool.false_eq_true, if_false, if_true]
  refine ⟨_, rfl, ?_⟩
  simp only [List.mem_map, List.mem_filter, Bool.and_eq_true, beq_iff_eq]
  exact ⟨r, ⟨hr, hm, ha⟩, rfl⟩

/-- As observed the listing is not complete: the store's iterator skipped a prefix. -/
theorem handleListing_observed_counterexample :
    let p1 : RibQuery.Prefix := ⟨.v4, 16, 2613⟩
    let p2 : RibQuery.Prefix := ⟨.v4, 24, 668672⟩
    let rib : RibQuery.Rib := ⟨⟨[⟨p1, 2, .active, ⟨73, none, []⟩⟩, ⟨p2, 2, .active, ⟨95, none, []⟩⟩], [], []⟩, ⟨[], [], []⟩⟩
    handleListing ⟨false⟩ true rib "2".toList [p2] = .ok [(p2, 95)]
    ∧ handleListing ⟨true⟩ true rib "2".toList [p2] = .ok [(p1, 73), (p2, 95)] := by decide

/-- Anything that is not a `u32` is refused, and a virtual RIB refuses every listing. -/
theorem handleListing_refusals (lv : ListVariant) (rib : RibQuery.Rib) (text : Str) (obs : List RibQuery.Prefix) :
    (RibQuery.parseUnsigned (2 ^ 32) text = none → handleListing lv true rib text obs = .badRequest)
    ∧ handleListing lv false rib text obs = .badRequest := by
  unfold handleListing
  constructor
  · intro h; simp [h]
  · split <;> simp

example : RibQuery.parseUnsigned (2 ^ 32) "4294967296".toList = none ∧ RibQuery.parseUnsigned (2 ^ 32) "abc".toList = none := by decide

end Rotonda.VribQuery
