import RotondaModel.Proofs.RotoRib
import RotondaModel.Props.C01
import RotondaModel.Props.C02
import RotondaModel.Props.C03
/-!
# Bridge RotoRib — C10 ("a Roto filter's verdict is honoured") stated at the RIB and composed with C01–C03

Model: `Model/RotoRib.lean` (`pipe` = bgp-in verdict handler ∘ RIB unit with `rib-in-pre`, `Rib.query`).
Every theorem quantifies over every configuration `c : Cfg` — any verdict functions for the two filter
sites, in particular (`cfgOf`) `Roto.run` of every pair of programs of the C10 grammar under every
decoding of the attribute ids — and over every history of UPDATEs of any number of sources and
session-level withdrawals; no bound on length.

* `RotoRib_sieve`                  the RIB after the history **is** C01's `run` of the sieved history
                                   (exactly the UPDATEs the ingress filter accepts, in each exactly the
                                   announcements and withdrawals `rib-in-pre` accepts).
* `RotoRib_refinement`, `RotoRib_exactly_one`, `RotoRib_C01`   C01's theorems through the filters, the
                                   guards stated on the *unfiltered* history.
* `RotoRib_rejected_absent` / `_never_answered`   a source all of whose announcements of a prefix are
                                   rejected (by either filter) has no entry in any answer for it.
* `RotoRib_accepted_unchanged`     an accepted announcement that nothing later touches is stored with
                                   exactly its attributes.
* `RotoRib_rejected_reannounce_keeps_old`, `RotoRib_ingress_reject_noop`   a rejected (re-)announcement
                                   changes nothing: an older accepted route stays, active, with its old attributes.
* `RotoRib_withdrawals_unfiltered_full` (def), `RotoRib_withdrawal_filtered_counterexample`,
  `RotoRib_withdrawal_partial`     withdrawals **are** filtered (the filter sees them as routes with an empty
                                   attribute map): "accept only routes that carry an ORIGIN" keeps a withdrawn
                                   route active for ever. `RotoRib_session_down_unfiltered`: session-level
                                   withdrawals are never filtered (C02's isolation holds verbatim).
* `RotoRib_ingress_shields_pre`    every payload offered to `rib-in-pre` stems from an UPDATE the ingress filter accepted.
* `RotoRib_verdict_history_independent`, `RotoRib_sieve_local`   what an event does after any history is the
                                   unfiltered effect of its own sieved image: no verdict depends on earlier routes.
* `RotoRib_C02_frame`, `RotoRib_C03_flap_exact`, `RotoRib_C03_partial`, `RotoRib_C03_repaired`, `RotoRib_C03_stale`
                                   C02 / C03 clauses survive the filters.
* `RotoRib_programs`               the main statement spelled out for `Roto.run` of two programs.
* `FilterUnit_full` (def), `FilterUnit_counterexample`, `FilterUnit_asWritten_drops`, `FilterUnit_repaired`
                                   the separate `filter` unit: as written the first route panics and session-level
                                   withdrawals are dropped; a unit doing what `filter_payload` of the RIB unit does is exact.
-/
namespace Rotonda.RotoRib
open Rotonda
open Rotonda.Rib (Rib Mui AttrId Payload Route Ev History Nlri Prefix Status Rec safiOf setWithdrawn)

/-- **Main statement.** For every pair of filters and every history, the RIB behind the filters is the
    unfiltered RIB of C01 fed exactly the accepted part of the history. -/
theorem RotoRib_sieve (c : Cfg) (h : History) : (pipe c h).1 = Rotonda.Rib.run c.rv (c.sieve h) :=
  pipeFrom_state c Rib.empty h

/-! concrete filters for the examples: "accept only routes that carry an ORIGIN", "drop NO_EXPORT" -/
def originOnly : Roto.Program := ⟨[], .ite (.pred (.hasAttr (.lit (.u8 1)))) (.ret .accept) (.ret .reject)⟩
def noExport : Roto.Program :=
  ⟨[.comm 4294967041], .ite (.pred (.hasComm (.var 0))) (.out (.logCustom 1 2) (.ret .reject)) (.ret .accept)⟩
/-- attribute id 1: path 65000 200; id 2: path 1, NO_EXPORT; anything else (0): the empty map -/
def dec0 : Dec := fun a =>
  if a = 1 then some ⟨some [.asn 65000, .asn 200], [], [1, 2, 3]⟩
  else if a = 2 then some ⟨some [.asn 1], [4294967041], [1, 2, 3, 8]⟩ else none
def p8 : Prefix := ⟨.v4, 8, 10⟩
def p16 : Prefix := ⟨.v4, 16, 2561⟩
def n8 : Nlri := ⟨p8, .unicast⟩
def n16 : Nlri := ⟨p16, .unicast⟩
def cfgW : Cfg := cfgOf {} Roto.asWritten dec0 (fun _ => 12345) none (some originOnly)
def cfgX : Cfg := cfgOf {} Roto.asWritten dec0 (fun _ => 12345) (some noExport) (some originOnly)

example : cfgX.sieve [.upd 2 (.ok 1 [n8, n16] []), .upd 3 (.ok 2 [n8] []), .upd 2 (.ok 0 [] [n8]), .down 3]
    = [.upd 2 (.ok 1 [n8, n16] []), .upd 2 (.ok 0 [] []), .down 3] := by decide
example : (pipe cfgX [.upd 2 (.ok 1 [n8, n16] []), .upd 3 (.ok 2 [n8] []), .upd 2 (.ok 0 [] [n8]), .down 3]).1.query p8
    = [⟨2, .active, 1⟩] := by decide

theorem RotoRib_refinement (c : Cfg) (h : History) (mc : Bool) (p : Prefix) (m : Mui) :
    (pipe c h).1.abs mc p m = Rotonda.Rib.specRun c.rv mc p m (c.sieve h) := by
  rw [RotoRib_sieve]; exact Rotonda.Rib.C01_refinement c.rv _ mc p m

theorem RotoRib_exactly_one (c : Cfg) (h : History) (p : Prefix) (o : Rotonda.Rib.MatchOpts) :
    (((pipe c h).1.query p o).map Rec.mui).Nodup := by
  rw [RotoRib_sieve]; exact Rotonda.Rib.C01_exactly_one c.rv _ p o

/-- **C01 through the filters**: for UPDATE-only histories, under C01's guards *on the unfiltered history*,
    a query answers exactly the RFC 4271 replay `last` of the accepted part. -/
theorem RotoRib_C01 (c : Cfg) (h : History) (hu : h.all Ev.isUpd = true)
    (hov : c.rv.overlapFix = true ∨ h.all Ev.noOverlap = true)
    (p : Prefix) (hs : Rotonda.Rib.singleSafi h p = true) (m : Mui) (st : Status) (a : AttrId) :
    (⟨m, st, a⟩ : Rec) ∈ (pipe c h).1.query p ↔ Rotonda.Rib.last (c.sieve h) p m = some (st, a) := by
  rw [RotoRib_sieve]
  exact Rotonda.Rib.C01_guarded c.rv _ (isUpd_sieve c h hu) (hov.imp id (noOverlap_sieve c h)) p
    (singleSafi_sieve c h p hs) m st a

example : let h : History := [.upd 2 (.ok 1 [n8] []), .upd 3 (.ok 2 [n8] []), .upd 2 (.ok 0 [] [n8])]
    h.all Ev.isUpd = true ∧ h.all Ev.noOverlap = true ∧ Rotonda.Rib.singleSafi h p8 = true
      ∧ Rotonda.Rib.last (cfgX.sieve h) p8 2 = some (.active, 1) ∧ Rotonda.Rib.last (cfgX.sieve h) p8 3 = none := by decide

theorem not_announces_of_acc (c : Cfg) (mc : Bool) (p : Prefix) (m : Mui) (h : History)
    (hrej : h.all (fun e => !(c.announcesAcc mc p m e)) = true) :
    (c.sieve h).all (fun e => !(e.announces mc p m)) = true := by
  simp only [Cfg.sieve, List.all_eq_true, List.mem_flatMap, Bool.not_eq_true'] at hrej ⊢
  rintro e' ⟨e, he, he'⟩
  rw [Bool.eq_false_iff]
  intro ht
  have := announcesAcc_of_sieve c mc p m e e' he' ht
  rw [hrej e he] at this
  exact Bool.false_ne_true this

/-- **A rejected announcement never appears.** If every announcement of `(mc, p)` by `m` in the history is
    rejected by the ingress filter or by `rib-in-pre`, the table holds nothing for `(p, m)`. -/
theorem RotoRib_rejected_absent (c : Cfg) (h : History) (mc : Bool) (p : Prefix) (m : Mui)
    (hrej : h.all (fun e => !(c.announcesAcc mc p m e)) = true) : (pipe c h).1.entry mc p m = none := by
  rw [RotoRib_sieve, Rotonda.Rib.Rib.entry_eq_abs, Rotonda.Rib.abs_run, Rotonda.Rib.specRun]
  have hs := not_announces_of_acc c mc p m h hrej
  have := foldl_specEv_none c.rv mc p m (c.sieve h) hs ⟨none, false⟩ rfl
  simp [Rotonda.Rib.Abs.entry, this]

/-- … hence no answer of `Rib::match_prefix` for the prefix has an entry of that source. -/
theorem RotoRib_rejected_never_answered (c : Cfg) (h : History) (p : Prefix) (m : Mui)
    (hrej : ∀ mc, h.all (fun e => !(c.announcesAcc mc p m e)) = true) (st : Status) (a : AttrId) :
    (⟨m, st, a⟩ : Rec) ∉ (pipe c h).1.query p := by
  intro hmem
  have hwf : (pipe c h).1.WF := by rw [RotoRib_sieve]; exact Rotonda.Rib.WF_run _ _
  obtain ⟨mc, he⟩ := mem_query_entry _ hwf p m st a hmem
  rw [RotoRib_rejected_absent c h mc p m (hrej mc)] at he
  cases he

example : (∀ mc, ([.upd 3 (.ok 2 [n8] []), .upd 2 (.ok 1 [n8] []), .upd 3 (.ok 2 [n8, n16] [])] : History).all
    (fun e => !(cfgX.announcesAcc mc p8 3 e)) = true) := by decide

theorem keepN_safiOf (c : Cfg) (a : AttrId) (mc : Bool) (p : Prefix) :
    c.keepN a ⟨p, safiOf mc⟩ = c.accR ⟨p, mc, a⟩ := by
  cases mc <;> simp [Cfg.keepN, Nlri.route, safiOf]

/-- **An accepted announcement is stored with unchanged attributes.** If both filters accept it and nothing
    later touches `(mc, p, m)`, the stored record is `(active, a)` (the marker is whatever it was). -/
theorem RotoRib_accepted_unchanged (c : Cfg) (h1 h2 : History) (mc : Bool) (p : Prefix) (m : Mui) (a : AttrId)
    (ann wd : List Nlri) (hA : (⟨p, safiOf mc⟩ : Nlri) ∈ ann) (hW : (⟨p, safiOf mc⟩ : Nlri) ∉ wd)
    (hI : c.accI m (.ok a ann wd) = true) (hR : c.accR ⟨p, mc, a⟩ = true)
    (h2u : h2.all (fun e => !(e.touches mc p m)) = true) :
    (pipe c (h1 ++ .upd m (.ok a ann wd) :: h2)).1.abs mc p m
      = ⟨some (.active, a), ((pipe c h1).1.abs mc p m).down⟩ := by
  rw [RotoRib_sieve, RotoRib_sieve, sieve_append, sieve_cons]
  simp only [Cfg.sieveEv, hI, if_true, Cfg.sieveUpd, List.singleton_append]
  apply Rotonda.Rib.abs_after_announce
  · exact List.mem_filter.mpr ⟨hA, by rw [keepN_safiOf]; exact hR⟩
  · exact fun hw => hW (mem_wd_sieve _ _ _ wd _ hw)
  · exact untouched_sieve c mc p m h2 h2u

example : (pipe cfgX ([.upd 2 (.ok 2 [n8] [])] ++ .upd 2 (.ok 1 [n8, n16] []) :: [.upd 3 (.ok 1 [n8] [])])).1.abs false p8 2
    = ⟨some (.active, 1), false⟩ := by decide

/-- **A rejected UPDATE is a no-op** (C10's "a rejected message changes nothing", at the RIB), anywhere in a history. -/
theorem RotoRib_ingress_reject_noop (c : Cfg) (h1 h2 : History) (m : Mui) (u : Rotonda.Rib.Upd)
    (hrej : c.accI m u = false) : (pipe c (h1 ++ .upd m u :: h2)).1 = (pipe c (h1 ++ h2)).1 := by
  rw [RotoRib_sieve, RotoRib_sieve, sieve_append, sieve_cons, sieve_append]
  simp [Cfg.sieveEv, hrej]

/-- **A rejected re-announcement keeps the old route.** If `m` announces `p` again and the new announcement is
    rejected (by either filter), everything stored for `(mc, p, m)` — status, attributes, marker — is what it
    was: an older accepted route stays active with its old attributes. C10 demands exactly this ("a rejected
    route changes nothing in the RIB"). -/
theorem RotoRib_rejected_reannounce_keeps_old (c : Cfg) (h : History) (mc : Bool) (p : Prefix) (m : Mui) (a : AttrId)
    (ann wd : List Nlri) (hW : (⟨p, safiOf mc⟩ : Nlri) ∉ wd)
    (hrej : c.accI m (.ok a ann wd) = false ∨ c.accR ⟨p, mc, a⟩ = false) :
    (pipe c (h ++ [.upd m (.ok a ann wd)])).1.abs mc p m = (pipe c h).1.abs mc p m := by
  rw [RotoRib_sieve, RotoRib_sieve, sieve_append]
  by_cases hI : c.accI m (.ok a ann wd) = true
  · have hR : c.accR ⟨p, mc, a⟩ = false := by
      rcases hrej with h' | h'
      · rw [hI] at h'; exact absurd h' (by decide)
      · exact h'
    simp only [Cfg.sieve, List.flatMap_cons, List.flatMap_nil, List.append_nil, Cfg.sieveEv, hI, if_true]
    apply Rotonda.Rib.C02_frame
    simp only [Ev.touches, Ev.downs, Cfg.sieveUpd, Bool.false_or, decide_true, Bool.true_and, Bool.or_eq_false_iff,
      List.contains_eq_mem, decide_eq_false_iff_not]
    constructor
    · intro hm
      have := (List.mem_filter.mp hm).2
      rw [keepN_safiOf, hR] at this
      exact Bool.false_ne_true this
    · exact fun hw => hW (mem_wd_sieve _ _ _ wd _ hw)
  · simp [Cfg.sieve, Cfg.sieveEv, hI]

example : (pipe cfgW ([.upd 2 (.ok 1 [n8] [])] ++ [.upd 2 (.ok 0 [n8] [])])).1.query p8 = [⟨2, .active, 1⟩] := by decide

/-! ### Withdrawals -/

/-- "A withdrawal always takes effect, whatever the filter": FALSE of the code, the filter is asked. -/
def RotoRib_withdrawals_unfiltered_full (c : Cfg) : Prop :=
  ∀ (h : History) (mc : Bool) (p : Prefix) (m : Mui),
    (pipe c (h ++ [.upd m (.ok 0 [] [⟨p, safiOf mc⟩])])).1.entry mc p m = ((pipe c h).1.entry mc p m).map setWithdrawn

/-- `rib-in-pre` = "accept only routes that carry an ORIGIN": the announcement of 10/8 is accepted, its
    withdrawal (a route with an empty attribute map) is rejected, the route stays active. -/
theorem RotoRib_withdrawal_filtered_counterexample : ¬ RotoRib_withdrawals_unfiltered_full cfgW := by
  intro hf
  have := hf [.upd 2 (.ok 1 [n8] [])] false p8 2
  revert this
  decide

example : (pipe cfgW [.upd 2 (.ok 1 [n8] []), .upd 2 (.ok 0 [] [n8])]).1.query p8 = [⟨2, .active, 1⟩] := by decide

/-- A withdrawal both filters accept takes effect exactly as without filters. -/
theorem RotoRib_withdrawal_partial (c : Cfg) (h : History) (mc : Bool) (p : Prefix) (m : Mui)
    (hI : c.accI m (.ok 0 [] [⟨p, safiOf mc⟩]) = true) (hR : c.accR ⟨p, mc, 0⟩ = true) :
    (pipe c (h ++ [.upd m (.ok 0 [] [⟨p, safiOf mc⟩])])).1.entry mc p m = ((pipe c h).1.entry mc p m).map setWithdrawn := by
  rw [RotoRib_sieve, RotoRib_sieve, sieve_append, Rotonda.Rib.Rib.entry_eq_abs, Rotonda.Rib.Rib.entry_eq_abs,
    Rotonda.Rib.entry_run_append]
  have hk : c.keepN 0 ⟨p, safiOf mc⟩ = true := by rw [keepN_safiOf]; exact hR
  simp only [Cfg.sieve, List.flatMap_cons, List.flatMap_nil, List.append_nil, Cfg.sieveEv, hI, if_true, Cfg.sieveUpd,
    List.filter_nil, List.contains_nil, Bool.not_false, List.filter_cons, ite_self, hk,
    List.foldl_cons, List.foldl_nil]
  generalize (Rotonda.Rib.run c.rv (List.flatMap c.sieveEv h)).abs mc p m = s
  cases hov : c.rv.overlapFix <;>
    simp [Rotonda.Rib.specEv, Rotonda.Rib.specUpd, hov, Rotonda.Rib.Abs.entry] <;>
    cases s.e <;> cases s.down <;> simp [setWithdrawn]

example : cfgX.accI 2 (.ok 0 [] [n8]) = true ∧ (cfgOf {} Roto.asWritten dec0 (fun _ => 1) none none).accR ⟨p8, false, 0⟩ = true := by decide

/-- **Session-level withdrawals are never filtered**: C02's isolation holds verbatim behind any filters. -/
theorem RotoRib_session_down_unfiltered (c : Cfg) (h : History) (d : Ev) (hd : d.isDown = true) (mc : Bool) (p : Prefix) (m : Mui) :
    (d.downs m = false → (pipe c (h ++ [d])).1.abs mc p m = (pipe c h).1.abs mc p m) ∧
    (d.downs m = true → (pipe c (h ++ [d])).1.entry mc p m = ((pipe c h).1.entry mc p m).map setWithdrawn) := by
  have hd' : d.isUpd = false := by cases d <;> simp_all [Ev.isDown, Ev.isUpd]
  rw [RotoRib_sieve, RotoRib_sieve, sieve_append]
  have : c.sieve [d] = [d] := by simp [Cfg.sieve, sieveEv_down c d hd']
  rw [this]
  exact Rotonda.Rib.C02_isolation c.rv (c.sieve h) d hd mc p m

example : (pipe cfgW [.upd 2 (.ok 1 [n8] []), .upd 3 (.ok 1 [n8] []), .down 2]).1.query p8
    = [⟨2, .withdrawn, 1⟩, ⟨3, .active, 1⟩] := by decide

/-- No event changes anything of a key its *accepted part* does not touch; in particular (`touches_sieve`) of a
    key the event itself does not touch. -/
theorem RotoRib_C02_frame (c : Cfg) (h : History) (e : Ev) (mc : Bool) (p : Prefix) (m : Mui)
    (hu : e.touches mc p m = false) : (pipe c (h ++ [e])).1.abs mc p m = (pipe c h).1.abs mc p m := by
  rw [RotoRib_sieve, RotoRib_sieve, sieve_append, Rotonda.Rib.entry_run_append]
  have hall : (c.sieve [e]).all (fun e' => !(e'.touches mc p m)) = true :=
    untouched_sieve c mc p m [e] (by simp [hu])
  rw [Rotonda.Rib.foldl_untouched c.rv mc p m _ hall]

/-! ### Ingress filter in front of `rib-in-pre` -/

/-- **A route rejected by the ingress filter never reaches `rib-in-pre`**: every payload the RIB unit's filter is
    called with stems from an UPDATE of the history that the ingress filter accepted. -/
theorem RotoRib_ingress_shields_pre (c : Cfg) (h : History) (pl : Payload) (hp : pl ∈ preCalls c h) :
    ∃ m u ps, Ev.upd m u ∈ h ∧ c.accI m u = true ∧ Rotonda.Rib.explode c.rv .fresh m u = some ps ∧ pl ∈ ps :=
  mem_preCalls c h pl hp

example : preCalls cfgX [.upd 3 (.ok 2 [n8] []), .upd 2 (.ok 1 [n16] [])] = [⟨⟨p16, false, 1⟩, .fresh, .active, 2⟩] := by decide

/-! ### Verdicts do not depend on earlier routes -/

/-- After *any* history, an event does what the unfiltered RIB unit does with its own sieved image, and that
    image is a function of the filters and the event alone. -/
theorem RotoRib_verdict_history_independent (c : Cfg) (h : History) (e : Ev) :
    (pipe c (h ++ [e])).1 = Rotonda.Rib.runFrom c.rv (pipe c h).1 (c.sieveEv e) := by
  rw [RotoRib_sieve, RotoRib_sieve, sieve_append]
  simp [Rotonda.Rib.run, runFrom_append, Cfg.sieve]

theorem RotoRib_sieve_local (c : Cfg) (h1 h2 : History) : c.sieve (h1 ++ h2) = c.sieve h1 ++ c.sieve h2 :=
  sieve_append c h1 h2

/-! ### C03 through the filters -/

theorem sieve_mid (c : Cfg) (h1 h2 : History) (m : Mui) (a : AttrId) (ann wd : List Nlri)
    (hI : c.accI m (.ok a ann wd) = true) :
    c.sieve (h1 ++ .upd m (.ok a ann wd) :: h2) = c.sieve h1 ++ .upd m (c.sieveUpd (.ok a ann wd)) :: c.sieve h2 := by
  rw [sieve_append, sieve_cons]; simp [Cfg.sieveEv, hI]

/-- The code as written: an accepted announcement that nothing later touches is reported `withdrawn` iff a
    session-level withdrawal of that id occurred anywhere earlier (finding C03 `flap:…`, unchanged by filters). -/
theorem RotoRib_C03_flap_exact (c : Cfg) (hv : c.rv = Rotonda.Rib.asWritten) (h1 h2 : History) (mc : Bool) (p : Prefix)
    (m : Mui) (a : AttrId) (ann wd : List Nlri) (hA : (⟨p, safiOf mc⟩ : Nlri) ∈ ann) (hW : (⟨p, safiOf mc⟩ : Nlri) ∉ wd)
    (hI : c.accI m (.ok a ann wd) = true) (hR : c.accR ⟨p, mc, a⟩ = true)
    (h2u : h2.all (fun e => !(e.touches mc p m)) = true) :
    (pipe c (h1 ++ .upd m (.ok a ann wd) :: h2)).1.entry mc p m
      = some (if h1.any (Ev.downs m) then .withdrawn else .active, a) := by
  rw [RotoRib_sieve, sieve_mid c h1 h2 m a ann wd hI, hv, ← any_downs_sieve c m h1]
  simp only [Cfg.sieveUpd]
  apply Rotonda.Rib.C03_flap_exact
  · exact List.mem_filter.mpr ⟨hA, by rw [keepN_safiOf]; exact hR⟩
  · exact fun hw => hW (mem_wd_sieve _ _ _ wd _ hw)
  · exact untouched_sieve c mc p m h2 h2u

theorem RotoRib_C03_partial (c : Cfg) (hv : c.rv = Rotonda.Rib.asWritten) (h1 h2 : History) (mc : Bool) (p : Prefix)
    (m : Mui) (a : AttrId) (ann wd : List Nlri) (hnd : h1.any (Ev.downs m) = false)
    (hA : (⟨p, safiOf mc⟩ : Nlri) ∈ ann) (hW : (⟨p, safiOf mc⟩ : Nlri) ∉ wd)
    (hI : c.accI m (.ok a ann wd) = true) (hR : c.accR ⟨p, mc, a⟩ = true)
    (h2u : h2.all (fun e => !(e.touches mc p m)) = true) :
    (pipe c (h1 ++ .upd m (.ok a ann wd) :: h2)).1.entry mc p m = some (.active, a) := by
  rw [RotoRib_C03_flap_exact c hv h1 h2 mc p m a ann wd hA hW hI hR h2u, hnd]; rfl

/-- With per-record withdrawal (the C03 repair) an accepted announcement after any number of flaps is active. -/
theorem RotoRib_C03_repaired (c : Cfg) (hv : c.rv.perRecordWithdraw = true) (h1 h2 : History) (mc : Bool) (p : Prefix)
    (m : Mui) (a : AttrId) (ann wd : List Nlri) (hA : (⟨p, safiOf mc⟩ : Nlri) ∈ ann) (hW : (⟨p, safiOf mc⟩ : Nlri) ∉ wd)
    (hI : c.accI m (.ok a ann wd) = true) (hR : c.accR ⟨p, mc, a⟩ = true)
    (h2u : h2.all (fun e => !(e.touches mc p m)) = true) :
    (pipe c (h1 ++ .upd m (.ok a ann wd) :: h2)).1.entry mc p m = some (.active, a) := by
  rw [RotoRib_sieve, sieve_mid c h1 h2 m a ann wd hI]
  simp only [Cfg.sieveUpd]
  apply Rotonda.Rib.C03_repaired c.rv hv
  · exact List.mem_filter.mpr ⟨hA, by rw [keepN_safiOf]; exact hR⟩
  · exact fun hw => hW (mem_wd_sieve _ _ _ wd _ hw)
  · exact untouched_sieve c mc p m h2 h2u

/-- Clause 2 of C03 behind the filters, every variant: after a session-level withdrawal a route stays
    "withdrawn, attributes as before" as long as no *accepted* re-announcement arrives — rejected ones do not revive it. -/
theorem RotoRib_C03_stale (c : Cfg) (h1 h2 : History) (d : Ev) (mc : Bool) (p : Prefix) (m : Mui)
    (hd : d.downs m = true) (hna : h2.all (fun e => !(c.announcesAcc mc p m e)) = true) :
    (pipe c (h1 ++ d :: h2)).1.entry mc p m = ((pipe c h1).1.entry mc p m).map setWithdrawn := by
  have hd' : d.isUpd = false := by cases d <;> simp_all [Ev.downs, Ev.isUpd]
  rw [RotoRib_sieve, RotoRib_sieve, sieve_append, sieve_cons, sieveEv_down c d hd']
  exact Rotonda.Rib.C03_stale c.rv _ _ d mc p m hd (not_announces_of_acc c mc p m h2 hna)

example : (pipe cfgX [.upd 3 (.ok 1 [n8] []), .down 3, .upd 3 (.ok 2 [n8] [])]).1.query p8 = [⟨3, .withdrawn, 1⟩] := by decide

/-! ### Spelled out for programs -/

/-- For every bgp-in program, every rib-in-pre program of the C10 grammar (or none), every decoding of the
    attribute ids, every variant and every history: the RIB is C01's `run` of the history sieved by `Roto.run`. -/
theorem RotoRib_programs (rv : Rotonda.Rib.Variant) (rov : Roto.Variant) (dec : Dec) (asnOf : Mui → Nat)
    (ing pre : Option Roto.Program) (h : History) :
    (pipe (cfgOf rv rov dec asnOf ing pre) h).1 = Rotonda.Rib.run rv ((cfgOf rv rov dec asnOf ing pre).sieve h) :=
  RotoRib_sieve _ h

/-- … where the verdict on a route is `Roto.run` of the program on the view of that route alone. -/
theorem RotoRib_programs_accR (rv : Rotonda.Rib.Variant) (rov : Roto.Variant) (dec : Dec) (asnOf : Mui → Nat)
    (ing : Option Roto.Program) (pre : Roto.Program) (rt : Route) :
    (cfgOf rv rov dec asnOf ing (some pre)).accR rt = true ↔ (Roto.run pre (routeIn dec rt).view).1 = .accept := by
  simp only [Cfg.accR, cfgOf, Roto.filterResult, Roto.ribInPre, Option.map_some]
  exact decide_eq_true_iff

/-! ### The separate `filter` unit -/

/-- A `filter` unit with filter `c.pre` in front of an unfiltered RIB unit yields the sieved RIB. -/
def FilterUnit_full (asWritten : Bool) : Prop :=
  ∀ (c : Cfg) (h : History), c.ing = none → ∃ o, fuPipe asWritten c h = .ok (Rotonda.Rib.run c.rv (c.sieve h)) o

/-- As written the first route update panics (`filter_payload` is `todo!()`), whatever the filter. -/
theorem FilterUnit_counterexample : ¬ FilterUnit_full true := by
  intro hf
  obtain ⟨o, ho⟩ := hf {} [.upd 2 (.ok 1 [n8] [])] rfl
  revert ho
  simp [fuPipe, fuPipeIns, evIns, ingressUnit, Roto.handleMsg, Roto.filterResult, Roto.osOf, Rotonda.Rib.ingest,
    Rotonda.Rib.explode, toIn, filterUnit]

/-- As written every update that is neither a route update nor `EndOfStream` is swallowed — in particular the
    session-level `Withdraw` / `WithdrawBulk` that C02 relies on. -/
theorem FilterUnit_asWritten_drops (k : Bool) (f : Option (Payload → Roto.Verdict × List Roto.Output)) (m : Mui)
    (af : Option Rotonda.Rib.AfiSafi) (ms : List Mui) (os : List Roto.Osm) :
    filterUnit true k f (.upd (.withdraw m af)) = .fwd [] ∧ filterUnit true k f (.upd (.withdrawBulk ms)) = .fwd []
      ∧ filterUnit true k f (.os os) = .fwd [] := ⟨rfl, rfl, rfl⟩

/-! #### the repaired filter unit -/

theorem ribLoop_os {σ P : Type} (k : Bool) (f : Option (P → Roto.Verdict × List Roto.Output)) (ins : σ → P → σ)
    (s : σ) (ps : List P) : ∀ d ∈ (Roto.ribLoop k f ins s ps).2.2, ∃ ms, d = Roto.Down.os ms := by
  induction ps generalizing s with
  | nil => intro d hd; simp [Roto.ribLoop] at hd
  | cons p ps ih =>
    intro d hd
    simp only [Roto.ribLoop, List.mem_append] at hd
    rcases hd with hd | hd
    · unfold Roto.osOf at hd
      split at hd
      · simp at hd
      · simp only [List.mem_singleton] at hd; exact ⟨_, hd⟩
    · exact ih _ d hd

theorem accR_noPre (c : Cfg) (rt : Route) : ({ c with pre := none } : Cfg).accR rt = true := by
  simp [Cfg.accR, Roto.filterResult]

theorem fu_payloads (c : Cfg) (r : Rib) (ps : List Payload) :
    (ribUnitAll { c with pre := none } r
      ((Roto.ribFilter c.keepPdRib c.preP (fun (s : Unit) _ => s) () ps).2.map fuConv)).1 = (filterPayload c r ps).1 := by
  rw [filterPayload_state]
  simp only [Roto.ribFilter, List.map_append]
  have h1 : (ribUnitAll { c with pre := none } r
      (List.map fuConv (Roto.ribLoop c.keepPdRib c.preP (fun (s : Unit) _ => s) () ps).2.2)).1 = r := by
    apply ribUnitAll_os
    intro i hi
    simp only [List.mem_map] at hi
    obtain ⟨d, hd, rfl⟩ := hi
    obtain ⟨ms, rfl⟩ := ribLoop_os _ _ _ _ _ d hd
    rfl
  rw [ribUnitAll_append, h1, Roto.ribLoop_accepted, accepted_preP]
  generalize ps.filter (fun pl => c.accR pl.route) = qs
  have hall : ∀ l : List Payload, l.filter (fun pl => ({ c with pre := none } : Cfg).accR pl.route) = l := by
    intro l; rw [List.filter_eq_self]; intro pl _; exact accR_noPre c pl.route
  match qs with
  | [] => rfl
  | [q] => simp [Roto.ribForward, fuConv, ribUnitAll, ribUnit, filterPayload_state, hall]
  | q :: q' :: l => simp [Roto.ribForward, fuConv, ribUnitAll, ribUnit, filterPayload_state, hall]

theorem fu_step (c : Cfg) (r : Rib) (i : In) :
    ∃ js, filterUnit false c.keepPdRib c.preP i = .fwd js ∧ (ribUnitAll { c with pre := none } r js).1 = (ribUnit c r i).1 := by
  cases i with
  | os ms => exact ⟨[.os ms], rfl, rfl⟩
  | upd u =>
    cases u with
    | single p => exact ⟨(Roto.ribFilter c.keepPdRib c.preP (fun (s : Unit) _ => s) () [p]).2.map fuConv, by simp [filterUnit], by rw [fu_payloads]; rfl⟩
    | bulk ps => exact ⟨(Roto.ribFilter c.keepPdRib c.preP (fun (s : Unit) _ => s) () ps).2.map fuConv, by simp [filterUnit], by rw [fu_payloads]; rfl⟩
    | withdraw m af => exact ⟨[.upd (.withdraw m af)], rfl, rfl⟩
    | withdrawBulk ms => exact ⟨[.upd (.withdrawBulk ms)], rfl, rfl⟩
    | endOfStream => exact ⟨[.upd .endOfStream], rfl, rfl⟩
    | outputStream => exact ⟨[.upd .outputStream], rfl, rfl⟩
    | queryResult => exact ⟨[.upd .queryResult], rfl, rfl⟩

theorem fuPipeIns_repaired (c : Cfg) (r : Rib) (o : List Out) (is : List In) :
    ∃ o', fuPipeIns false c r o is = .ok (ribUnitAll c r is).1 o' := by
  induction is generalizing r o with
  | nil => exact ⟨o, rfl⟩
  | cons i is ih =>
    obtain ⟨js, hf, hs⟩ := fu_step c r i
    simp only [fuPipeIns, hf, ribUnitAll, hs]
    exact ih _ _

/-- A `filter` unit that applies the filter as the RIB unit's `filter_payload` does and passes every other update
    on is exact: for every filter and history the RIB behind it is C01's `run` of the sieved history. -/
theorem FilterUnit_repaired : FilterUnit_full false := by
  intro c h hing
  have hc : ({ c with ing := none } : Cfg) = c := by cases c; simp_all
  obtain ⟨o, ho⟩ := fuPipeIns_repaired c Rib.empty [] (h.flatMap (evIns c))
  refine ⟨o, ?_⟩
  rw [fuPipe, hc, ho]
  congr 1
  exact RotoRib_sieve c h

example : ∃ o, fuPipe false cfgW [.upd 2 (.ok 1 [n8] []), .upd 2 (.ok 0 [] [n8]), .down 2] =
    .ok (Rotonda.Rib.run {} [.upd 2 (.ok 1 [n8] []), .upd 2 (.ok 0 [] []), .down 2]) o := FilterUnit_repaired cfgW _ rfl

end Rotonda.RotoRib
