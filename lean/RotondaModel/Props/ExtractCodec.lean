import RotondaModel.Model.Codec
import RotondaModel.Generated.CodecAfi
/-!
# Extraction tie: the codec's supported address families

`Generated/CodecAfi.lean` is regenerated from the source text of `src/roto_runtime/types.rs`
(`impl TryFrom<(Nlri<O>, RotondaPaMap)> for RotondaRoute`, `explode_announcements`, `explode_withdrawals`)
on every run (`tools/extract_codecafi.py`).  This file proves that `Model/Codec.lean` (`famOf`, the
supported-family list of C04's model) accepts exactly the (AFI, SAFI) pairs the conversion accepts, rejects
every other family of routecore's table, has no ADD-PATH family, and skips — does not fail on — an
MP attribute of a rejected family.
-/
namespace Rotonda.Codec
open Rotonda.Generated

def Fam.name : Fam → String
  | .v4u => "Ipv4Unicast" | .v4m => "Ipv4Multicast" | .v6u => "Ipv6Unicast" | .v6m => "Ipv6Multicast"

/-- **The link.** For every AFI and SAFI number: the model has a family for it iff the real conversion accepts
    the plain `Nlri` variant of that (AFI, SAFI). -/
theorem famOf_isSome_eq_generated (afi safi : Nat) :
    (famOf afi safi).isSome = CodecAfi.accepted.contains (afi, safi) := by
  unfold famOf
  by_cases h1 : afi = 1 ∧ safi = 1
  · obtain ⟨rfl, rfl⟩ := h1; rfl
  · by_cases h2 : afi = 1 ∧ safi = 2
    · obtain ⟨rfl, rfl⟩ := h2; rfl
    · by_cases h3 : afi = 2 ∧ safi = 1
      · obtain ⟨rfl, rfl⟩ := h3; rfl
      · by_cases h4 : afi = 2 ∧ safi = 2
        · obtain ⟨rfl, rfl⟩ := h4; rfl
        · simp only [if_neg h1, if_neg h2, if_neg h3, if_neg h4, Option.isSome_none]
          symm
          simp only [CodecAfi.accepted, List.contains_cons, List.contains_nil, Bool.or_false, Bool.or_eq_false_iff,
            beq_eq_false_iff_ne, ne_eq, Prod.mk.injEq]
          exact ⟨h1, h2, h3, h4⟩

/-- The accepted pairs map, in the order of the generated list, to the model families of the same names as the
    `RotondaRoute` variants the real arms build. -/
theorem famOf_names_eq_generated :
    CodecAfi.accepted.map (fun p => (famOf p.1 p.2).map Fam.name) = CodecAfi.acceptedNames.map some := by decide

/-- Every family of routecore's table that the conversion rejects is unsupported in the model. -/
theorem famOf_rejected_eq_generated : ∀ p ∈ CodecAfi.rejected, famOf p.1 p.2 = none := by decide

/-- accepted and rejected partition routecore's table (nothing is left undecided by the extractor). -/
theorem generated_partition :
    CodecAfi.families.map (fun f => (f.2.1, f.2.2)) =
      (CodecAfi.families.map (fun f => (f.2.1, f.2.2))).filter (fun p => CodecAfi.accepted.contains p || CodecAfi.rejected.contains p)
    ∧ CodecAfi.accepted.all (fun p => !CodecAfi.rejected.contains p) = true := by decide

/-- No ADD-PATH variant is converted; the model accordingly has no ADD-PATH family (its `Fam` has exactly the four
    names of `acceptedNames`). -/
theorem no_addpath_family : CodecAfi.acceptedAddpath = []
    ∧ ∀ f : Fam, f.name ∈ CodecAfi.acceptedNames := by
  refine ⟨rfl, ?_⟩
  intro f; cases f <;> decide

/-- `rejectedIsSkipped` in the model: an MP_REACH of a family the conversion rejects (by the generated list)
    contributes nothing and does not fail the UPDATE; the conventional NLRI are still announced. -/
theorem announcements_rejected_skipped (v : Variant) (as4 : Bool) (u : Upd) (a : Attr) (m : MpReach)
    (h1 : firstOf 14 u.attrs = some a) (h2 : parseMpReach a.value = some m)
    (h3 : CodecAfi.accepted.contains (m.afi, m.safi) = false) :
    announcements v as4 u = some (u.nlri.map (ann as4 u.attrs .v4u)) := by
  have hf : famOf m.afi m.safi = none := by
    have := famOf_isSome_eq_generated m.afi m.safi
    rw [h3] at this
    cases hh : famOf m.afi m.safi with
    | none => rfl
    | some f => rw [hh] at this; cases this
  simp only [announcements, h1, h2, hf]

theorem withdrawals_rejected_skipped (v : Variant) (as4 : Bool) (u : Upd) (a : Attr) (m : MpUnreach)
    (h1 : firstOf 15 u.attrs = some a) (h2 : parseMpUnreach a.value = some m)
    (h3 : CodecAfi.accepted.contains (m.afi, m.safi) = false) :
    withdrawals v as4 u = some (u.withdrawn.map (wdr as4 .v4u)) := by
  have hf : famOf m.afi m.safi = none := by
    have := famOf_isSome_eq_generated m.afi m.safi
    rw [h3] at this
    cases hh : famOf m.afi m.safi with
    | none => rfl
    | some f => rw [hh] at this; cases this
  simp only [withdrawals, h1, h2, hf]

/-- Non-vacuity: IPv4 FlowSpec (1, 133) is in routecore's table, rejected by the code and unsupported in the model;
    IPv6 multicast (2, 2) is accepted by both. -/
example : CodecAfi.accepted.contains (1, 133) = false ∧ famOf 1 133 = none
    ∧ CodecAfi.accepted.contains (2, 2) = true ∧ famOf 2 2 = some .v6m := by decide

end Rotonda.Codec
