import RotondaModel.Proofs.ConnMetrics
import RotondaModel.Proofs.ConnMetricsProm
/-!
# ConnMetrics — the BMP unit's connection counters and the gate counters agree with what happened (extends C15)

Statements over `Model/ConnMetrics.lean`. `Metrics.apply` transliterates `bmp_tcp_in/status_reporter.rs` /
`metrics.rs` and `GateMetrics::update`; `World.effs` is what `read_from_router` / `process_msg` / the accept loop and
`Gate::update_data` do for one event; `World.trace` is the list of reporter calls of a history. All theorems hold for
every history, of any length, from any state.

* `C15conn_counters_exact`        connections accepted / lost, listener binds, gate updates, dropped gate updates
                                  = start value + number of the corresponding calls in the history's trace
* `C15conn_event_contribution`    what one event contributes: an `accept` of a new connection one "accepted"; a fatal
                                  read error or a message after which the state machine is Terminated, on a live
                                  connection, one "lost" and two gate updates; nothing else touches either
* `C15conn_router_counters_exact` per router and field (per-type received, processed, invalid, I/O errors): the value
                                  is the number of matching calls since the router's entry was last removed
* `C15conn_clients_gauge`         from the initial state: lost ≤ accepted, `accepted - lost` (the `clients` figure of
                                  `status_text`) is the number of live connections — the gauge never underflows
* `C15conn_counters_monotone`, `C15conn_router_monotone`  no unit / gate counter ever decreases; a router's values
                                  do not decrease over a history that does not end a connection of that router id
* `C15conn_gate_exact`, `C15conn_gate_sent`  dropped ≤ updates; set size = size of the last `Bulk`; the `update`
                                  time is set iff an update happened; an update is counted as dropped iff no link
                                  that is in `updates` can take it
* `C15conn_connection_exact`      **per connection**: while a connection is up and no other live connection has its
                                  router id, the router's exported values are exactly the messages read on that
                                  connection (per type / all / rejected / unreadable)
* `C15conn_connection_full`, `C15conn_connection_counterexample`  without the guard the statement is false: two live
                                  connections with one router id (two routers behind one address), the first one ends
* `C15conn_concrete_refines`      with `Bmp.step` deciding what a message does (rejected / routing update / ends the
                                  session), the unit is the abstract unit run on the resolved history, so all of the
                                  above applies to it

The Prometheus exposition (`metrics::Target`, `OutputFormat::Prometheus`; "the Prometheus text parses" of C15 and
"label values are escaped as the exposition format requires" of C19):
* `C19prom_escaped_roundtrip`     repaired `Target` (label values escaped): for all `append` calls whose metric / label
                                  names are names and whose values print as integers, and **any** unit names and label
                                  values, the text parses and the parser returns exactly the lines that were written,
                                  every label value decoded to the string that was supplied (both grouping variants)
* `C19prom_partial`               `Target` as written: the same, under the guard that no unit name / label value
                                  contains a quote, a backslash or a newline
* `C19prom_full`, `C19prom_counterexample`, `C19prom_injection_counterexample`  without the guard it is false: a quote
                                  in a label value makes the text unparsable, or closes the value and adds a label
* `C15prom_unique_repaired`       repaired `Target` (one block per metric): at most one `# HELP` / `# TYPE` line per
                                  metric name, for every call sequence
* `C15prom_unique_iff`            as written: the header lines are unique iff no two supported `append` calls name the
                                  same metric — `C15prom_duplicate_counterexample`: two appends of one metric (what
                                  every per-router source does) repeat both lines
* `C15prom_group_lines`           the repaired `Target` writes no line the calls did not ask for, and every sample line
                                  the calls ask for
-/
namespace Rotonda.ConnMetrics

/-! ## Unit and gate counters equal the number of corresponding calls -/

/-- **C15 (exact agreement, unit and gate counters).** For every state and every history. -/
theorem C15conn_counters_exact (w : World) (evs : List Ev) :
    (w.run evs).mx.accepted = w.mx.accepted + (w.trace evs).countP Eff.isAccepted ∧
    (w.run evs).mx.lost = w.mx.lost + (w.trace evs).countP Eff.isLost ∧
    (w.run evs).mx.bound = w.mx.bound + (w.trace evs).countP Eff.isListening ∧
    (w.run evs).mx.gate.numUpdates = w.mx.gate.numUpdates + (w.trace evs).countP Eff.isUpdate ∧
    (w.run evs).mx.gate.dropped = w.mx.gate.dropped + (w.trace evs).countP Eff.isDropped := by
  rw [run_mx]
  exact ⟨count_applyAll (·.accepted) _ apply_accepted _ _, count_applyAll (·.lost) _ apply_lost _ _,
    count_applyAll (·.bound) _ apply_bound _ _, count_applyAll (·.gate.numUpdates) _ apply_numUpdates _ _,
    count_applyAll (·.gate.dropped) _ apply_dropped _ _⟩

example : ((World.init.run [.accept 0 0, .accept 1 1, .fault 0 true]).mx.accepted,
           (World.init.run [.accept 0 0, .accept 1 1, .fault 0 true]).mx.lost,
           (World.init.run [.accept 0 0, .accept 1 1, .fault 0 true]).mx.gate.dropped) = (2, 1, 2) := by decide

/-- The event opens a connection. -/
def opens (w : World) : Ev → Bool
  | .accept c _ => (findConn c w.conns).isNone
  | _ => false

/-- The event ends a live connection (`read_from_router` leaves its loop). -/
def closes (w : World) : Ev → Bool
  | .msg c _ o => (findConn c w.conns).isSome && o.ends
  | .fault c fatal => (findConn c w.conns).isSome && fatal
  | _ => false

/-- The number of gate updates the message itself causes. -/
def routes (w : World) : Ev → Nat
  | .msg c _ o => match findConn c w.conns, o.verdict with | some _, .routing _ => 1 | _, _ => 0
  | _ => 0

/-- **What one event contributes** to the connection counters and to the gate's update counter. -/
theorem C15conn_event_contribution (w : World) (e : Ev) :
    (w.effs e).countP Eff.isAccepted = b2n (opens w e) ∧
    (w.effs e).countP Eff.isLost = b2n (closes w e) ∧
    (w.effs e).countP Eff.isUpdate = routes w e + 2 * b2n (closes w e) := by
  cases e with
  | accept c r => cases h : findConn c w.conns <;> simp [World.effs, opens, closes, routes, h, Eff.isAccepted, Eff.isLost, Eff.isUpdate]
  | msg c t o =>
    obtain ⟨v, ends⟩ := o
    cases h : findConn c w.conns with
    | none => simp [World.effs, opens, closes, routes, h]
    | some x =>
      cases v <;> cases ends <;>
        simp [World.effs, opens, closes, routes, h, verdictEffs, lostEffs, Eff.isAccepted, Eff.isLost, Eff.isUpdate, List.countP_cons]
  | unparsed c => cases h : findConn c w.conns <;> simp [World.effs, opens, closes, routes, h, Eff.isAccepted, Eff.isLost, Eff.isUpdate]
  | fault c fatal =>
    cases h : findConn c w.conns with
    | none => simp [World.effs, opens, closes, routes, h]
    | some x => cases fatal <;> simp [World.effs, opens, closes, routes, h, lostEffs, Eff.isAccepted, Eff.isLost, Eff.isUpdate, List.countP_cons]
  | _ => simp [World.effs, opens, closes, routes]

/-! ## Per-router counters -/

/-- **C15 (exact agreement, per-router counters).** Every exported per-router value (received per message type,
    processed, invalid, I/O errors) equals the number of matching reporter calls since the router's entry was last
    removed by `router_connection_lost` — plus the start value if it was not removed in this history. -/
theorem C15conn_router_counters_exact (w : World) (evs : List Ev) (r : Rid) (f : Field) :
    (w.run evs).mx.val r f.get =
      (if (w.trace evs).any (Eff.isLostOf r) then 0 else w.mx.val r f.get) +
        (afterLast (Eff.isLostOf r) (w.trace evs)).countP (f.hit r) := by
  rw [run_mx]; exact val_applyAll _ _ _ _

example : (World.init.run [.accept 0 5, .msg 0 .init ⟨.other, false⟩, .msg 0 .peerUp ⟨.invalid, false⟩,
            .msg 0 .peerUp ⟨.other, false⟩]).mx.val 5 (Field.recv .peerUp).get = 2 := by decide

/-! ## The clients gauge -/

/-- accepted = lost + live connections, and connection ids are distinct. -/
structure Balanced (w : World) : Prop where
  nodup : CidsNodup w.conns
  eq : w.mx.accepted = w.mx.lost + w.conns.length

theorem balanced_init : Balanced World.init := ⟨by simp [CidsNodup, World.init], by decide⟩

theorem balanced_step (w : World) (e : Ev) (h : Balanced w) : Balanced (w.step e) := by
  obtain ⟨hn, he⟩ := h
  have hacc : (w.step e).mx.accepted = w.mx.accepted + (w.effs e).countP Eff.isAccepted :=
    count_applyAll (·.accepted) _ apply_accepted _ _
  have hlost : (w.step e).mx.lost = w.mx.lost + (w.effs e).countP Eff.isLost :=
    count_applyAll (·.lost) _ apply_lost _ _
  obtain ⟨c1, c2, _⟩ := C15conn_event_contribution w e
  rw [c1] at hacc; rw [c2] at hlost
  have hconns : (w.step e).conns = w.conns' e := rfl
  constructor
  · rw [hconns]
    cases e with
    | accept c r =>
      cases h : findConn c w.conns with
      | some x => simpa [World.conns', h] using hn
      | none =>
        simp only [World.conns', h]
        unfold CidsNodup at hn ⊢
        rw [List.map_append, List.nodup_append]
        refine ⟨hn, by simp, ?_⟩
        intro a ha b hb
        simp at hb; subst hb
        obtain ⟨x, hx, rfl⟩ := List.mem_map.mp ha
        exact findConn_none h x hx
    | msg c t o => cases o with | mk v ends => cases ends <;> simp [World.conns', hn, dropConn_nodup]
    | fault c fatal => cases fatal <;> simp [World.conns', hn, dropConn_nodup]
    | _ => simpa [World.conns'] using hn
  · rw [hacc, hlost, hconns]
    cases e with
    | accept c r => cases h : findConn c w.conns <;> simp [World.conns', opens, closes, h] <;> omega
    | msg c t o =>
      obtain ⟨v, ends⟩ := o
      cases ends with
      | false => simp [World.conns', opens, closes]; omega
      | true =>
        cases h : findConn c w.conns with
        | none => simp [World.conns', opens, closes, h, dropConn_none h]; omega
        | some x => have := length_dropConn hn h; simp [World.conns', opens, closes, h]; omega
    | fault c fatal =>
      cases fatal with
      | false => simp [World.conns', opens, closes]; omega
      | true =>
        cases h : findConn c w.conns with
        | none => simp [World.conns', opens, closes, h, dropConn_none h]; omega
        | some x => have := length_dropConn hn h; simp [World.conns', opens, closes, h]; omega
    | _ => simp [World.conns', opens, closes]; omega

theorem balanced_run (w : World) (evs : List Ev) (h : Balanced w) : Balanced (w.run evs) := by
  induction evs generalizing w with
  | nil => exact h
  | cons e es ih => exact ih _ (balanced_step w e h)

/-- **C15 (the clients gauge never underflows and does not drift).** After any history of the unit, the number of
    lost connections does not exceed the number of accepted ones, and `accepted - lost` — what `status_text` reports as
    `clients` and `okay` tests — is the number of connections that are live. -/
theorem C15conn_clients_gauge (evs : List Ev) :
    (World.init.run evs).mx.lost ≤ (World.init.run evs).mx.accepted ∧
    (World.init.run evs).mx.clients = (World.init.run evs).conns.length := by
  have h := (balanced_run _ evs balanced_init).eq
  unfold Metrics.clients
  omega

example : (World.init.run [.accept 0 0, .accept 1 0, .msg 1 .term ⟨.other, true⟩]).mx.clients = 1 := by decide

/-! ## Counters never decrease -/

/-- **C15 (monotone, unit and gate counters).** -/
theorem C15conn_counters_monotone (w : World) (evs : List Ev) :
    w.mx.accepted ≤ (w.run evs).mx.accepted ∧ w.mx.lost ≤ (w.run evs).mx.lost ∧ w.mx.bound ≤ (w.run evs).mx.bound ∧
    w.mx.gate.numUpdates ≤ (w.run evs).mx.gate.numUpdates ∧ w.mx.gate.dropped ≤ (w.run evs).mx.gate.dropped := by
  obtain ⟨h1, h2, h3, h4, h5⟩ := C15conn_counters_exact w evs
  omega

/-- **C15 (monotone, per-router counters).** Over a history in which no connection carrying router id `r` ends, no
    exported value of `r` decreases. -/
theorem C15conn_router_monotone (w : World) (evs : List Ev) (r : Rid) (f : Field)
    (h : (w.trace evs).any (Eff.isLostOf r) = false) :
    w.mx.val r f.get ≤ (w.run evs).mx.val r f.get := by
  rw [C15conn_router_counters_exact, h]; simp

example : (World.init.trace [.accept 0 5, .msg 0 .init ⟨.other, false⟩, .accept 1 6, .fault 1 true]).any (Eff.isLostOf 5) = false := by
  decide

/-! ## Gate counters -/

/-- **C15 (gate counters).** From a state in which dropped ≤ updates and the `update` time is set iff an update
    happened (true initially), the same holds after any history; the set size is that of the last `Bulk`. -/
theorem C15conn_gate_exact (w : World) (evs : List Ev) :
    (w.mx.gate.dropped ≤ w.mx.gate.numUpdates → (w.run evs).mx.gate.dropped ≤ (w.run evs).mx.gate.numUpdates) ∧
    ((w.mx.gate.updated = true ↔ 0 < w.mx.gate.numUpdates) →
      ((w.run evs).mx.gate.updated = true ↔ 0 < (w.run evs).mx.gate.numUpdates)) ∧
    (w.run evs).mx.gate.setSize = (lastBulk (w.trace evs)).getD w.mx.gate.setSize := by
  obtain ⟨_, _, _, h4, h5⟩ := C15conn_counters_exact w evs
  refine ⟨?_, ?_, ?_⟩
  · intro h; have := countP_dropped_le (w.trace evs); omega
  · intro h
    rw [h4, run_mx, updated_applyAll]
    have hc : (w.trace evs).any Eff.isUpdate = true ↔ 0 < (w.trace evs).countP Eff.isUpdate := by
      rw [List.countP_pos_iff]; simp
    constructor
    · intro hu
      rcases Bool.or_eq_true_iff.mp hu with hu | hu
      · have := h.mp hu; omega
      · have := hc.mp hu; omega
    · intro hp
      by_cases h0 : 0 < w.mx.gate.numUpdates
      · simp [h.mpr h0]
      · have : 0 < (w.trace evs).countP Eff.isUpdate := by omega
        simp [hc.mpr this]
  · rw [run_mx]; exact setSize_applyAll _ _

/-- **An update is counted as dropped exactly when no link could take it**: every gate update caused by an event
    carries `sent_at_least_once = (some slot of the gate's `updates` map has an open receiver / a live target)`,
    evaluated on the links as they are when the event happens. -/
theorem C15conn_gate_sent (w : World) (e : Ev) (sent : Bool) (b : Option Nat)
    (h : Eff.gateUpdate sent b ∈ w.effs e) : sent = anySent w.links := by
  cases e with
  | accept c r => cases hc : findConn c w.conns <;> simp [World.effs, hc] at h
  | msg c t o =>
    obtain ⟨v, ends⟩ := o
    cases hc : findConn c w.conns with
    | none => simp [World.effs, hc] at h
    | some x =>
      cases v <;> cases ends <;> simp [World.effs, hc, verdictEffs, lostEffs] at h <;> (try exact h.1) <;>
        (try (rcases h with h | h <;> exact h.1))
  | unparsed c => cases hc : findConn c w.conns <;> simp [World.effs, hc] at h
  | fault c fatal =>
    cases hc : findConn c w.conns with
    | none => simp [World.effs, hc] at h
    | some x => cases fatal <;> simp [World.effs, hc, lostEffs] at h <;> exact h.1
  | _ => simp [World.effs] at h

-- one link in `updates`, then suspended: the first update is delivered, the second dropped
example : ((World.init.run [.sub 0 false, .accept 0 0, .msg 0 .init ⟨.other, false⟩, .msg 0 .routeMon ⟨.routing (some 3), false⟩,
            .suspend 0, .msg 0 .routeMon ⟨.routing (some 2), false⟩]).mx.gate) = ⟨2, 1, 2, true⟩ := by decide
-- a link that subscribes suspended while a router is connected is put into `updates` by the router task's gate clone
example : (World.init.run [.accept 0 0, .sub 0 true, .msg 0 .routeMon ⟨.routing (some 3), false⟩]).mx.gate.dropped = 0 := by decide
example : (World.init.run [.sub 0 true, .accept 0 0, .msg 0 .routeMon ⟨.routing (some 3), false⟩]).mx.gate.dropped = 1 := by decide

/-! ## Per connection: the router's values are the messages read on its connection -/

/-- What event `e` adds to field `f` for the connection `c`: a message read on `c` counts as received (under its
    type) and processed, and as invalid when the state machine rejects it; an unparsable frame or a read error on
    `c` counts as an I/O error. -/
def hitC (c : Nat) (f : Field) : Ev → Bool
  | .msg c' t o =>
    c' == c && (match f with
      | .recv t' => t == t'
      | .processed => true
      | .invalid => (match o.verdict with | .invalid => true | _ => false)
      | .ioErrors => false)
  | .unparsed c' => c' == c && (match f with | .ioErrors => true | _ => false)
  | .fault c' _ => c' == c && (match f with | .ioErrors => true | _ => false)
  | _ => false

/-- `e` does not end connection `c` and does not bring a connection with router id `r`. -/
def keeps (c : Nat) (r : Rid) : Ev → Bool
  | .accept _ r' => r' != r
  | .msg c' _ o => !(c' == c && o.ends)
  | .fault c' fatal => !(c' == c && fatal)
  | _ => true

/-- Connection `c` is live with router id `r`, and it is the only live connection with that id. -/
def Sole (w : World) (c : Nat) (r : Rid) : Prop :=
  findConn c w.conns = some ⟨c, r⟩ ∧ ∀ x ∈ w.conns, x.rid = r → x.cid = c

/-- A router id without a live connection has no metrics entry. -/
def Quiet (w : World) : Prop := ∀ r, (∀ x ∈ w.conns, x.rid ≠ r) → w.mx.routers r = none

private theorem not_mention {x : Conn} {r : Rid} (hx : x.rid ≠ r) (s : Bool) (v : Verdict) :
    ∀ e ∈ verdictEffs x.rid s v, e.rid? ≠ some r := by
  intro e he
  cases v <;> simp [verdictEffs] at he <;> subst he <;> simp [Eff.rid?, hx]

theorem step_mx (w : World) (e : Ev) : (w.step e).mx = w.mx.applyAll (w.effs e) := rfl
theorem step_conns (w : World) (e : Ev) : (w.step e).conns = w.conns' e := rfl

theorem quiet_init : Quiet World.init := by intro r _; rfl

theorem quiet_step (w : World) (e : Ev) (hn : CidsNodup w.conns) (hq : Quiet w) : Quiet (w.step e) := by
  intro r hr
  rw [step_conns] at hr
  rw [step_mx]
  cases e with
  | accept c r' =>
    have hr0 : ∀ x ∈ w.conns, x.rid ≠ r := by
      intro x hx; apply hr
      cases h : findConn c w.conns <;> simp [World.conns', h, hx]
    rw [routers_applyAll_other _ _ _ (by cases h : findConn c w.conns <;> simp [World.effs, h, Eff.rid?])]
    exact hq r hr0
  | msg c t o =>
    obtain ⟨v, ends⟩ := o
    cases h : findConn c w.conns with
    | none =>
      have hr0 : ∀ x ∈ w.conns, x.rid ≠ r := by
        intro x hx; apply hr
        cases ends <;> simp [World.conns', dropConn_none h, hx]
      simp only [World.effs, h, applyAll_nil]; exact hq r hr0
    | some x =>
      obtain ⟨hxc, hxm⟩ := findConn_some h
      by_cases hxr : x.rid = r
      · cases ends with
        | false => exact absurd hxr (hr x (by simpa [World.conns'] using hxm))
        | true =>
          subst hxr
          have : w.effs (.msg c t ⟨v, true⟩) =
              ([.received x.rid t, .processed x.rid] ++ verdictEffs x.rid (anySent w.links) v) ++
                .lost x.rid :: [.gateUpdate (anySent w.links) none, .gateUpdate (anySent w.links) none] := by
            simp [World.effs, h, lostEffs]
          rw [this]; exact routers_applyAll_lost _ _ _ _ (by simp [Eff.rid?])
      · have hr0 : ∀ y ∈ w.conns, y.rid ≠ r := by
          intro y hy hyr
          by_cases hyc : y.cid = c
          · exact hxr ((findConn_nodup_unique hn h hy hyc) ▸ hyr)
          · refine hr y ?_ hyr
            cases ends <;> simp [World.conns', dropConn, hy, hyc]
        rw [routers_applyAll_other]
        · exact hq r hr0
        · intro e he
          simp only [World.effs, h, List.mem_append] at he
          rcases he with (he | he) | he
          · simp at he; rcases he with rfl | rfl <;> simp [Eff.rid?, hxr]
          · exact not_mention hxr _ _ e he
          · cases ends <;> simp [lostEffs] at he
            rcases he with rfl | rfl | rfl <;> simp [Eff.rid?, hxr]
  | unparsed c =>
    have hr0 : ∀ x ∈ w.conns, x.rid ≠ r := by intro x hx; exact hr x (by simpa [World.conns'] using hx)
    cases h : findConn c w.conns with
    | none => simp only [World.effs, h, applyAll_nil]; exact hq r hr0
    | some x =>
      have hxr : x.rid ≠ r := hr0 x (findConn_some h).2
      rw [routers_applyAll_other _ _ _ (by simp [World.effs, h, Eff.rid?, hxr])]; exact hq r hr0
  | fault c fatal =>
    cases h : findConn c w.conns with
    | none =>
      have hr0 : ∀ x ∈ w.conns, x.rid ≠ r := by
        intro x hx; apply hr
        cases fatal <;> simp [World.conns', dropConn_none h, hx]
      simp only [World.effs, h, applyAll_nil]; exact hq r hr0
    | some x =>
      obtain ⟨hxc, hxm⟩ := findConn_some h
      by_cases hxr : x.rid = r
      · cases fatal with
        | false => exact absurd hxr (hr x (by simpa [World.conns'] using hxm))
        | true =>
          subst hxr
          have : w.effs (.fault c true) =
              [.ioError x.rid] ++ .lost x.rid :: [.gateUpdate (anySent w.links) none, .gateUpdate (anySent w.links) none] := by
            simp [World.effs, h, lostEffs]
          rw [this]; exact routers_applyAll_lost _ _ _ _ (by simp [Eff.rid?])
      · have hr0 : ∀ y ∈ w.conns, y.rid ≠ r := by
          intro y hy hyr
          by_cases hyc : y.cid = c
          · exact hxr ((findConn_nodup_unique hn h hy hyc) ▸ hyr)
          · refine hr y ?_ hyr
            cases fatal <;> simp [World.conns', dropConn, hy, hyc]
        rw [routers_applyAll_other]
        · exact hq r hr0
        · intro e he
          cases fatal <;> simp [World.effs, h, lostEffs] at he
          · subst he; simp [Eff.rid?, hxr]
          · rcases he with rfl | rfl | rfl | rfl <;> simp [Eff.rid?, hxr]
  | sub _ _ => exact hq r (by simpa [World.conns'] using hr)
  | suspend _ => exact hq r (by simpa [World.conns'] using hr)
  | unsuspend _ => exact hq r (by simpa [World.conns'] using hr)
  | unsub _ => exact hq r (by simpa [World.conns'] using hr)
  | kill _ => exact hq r (by simpa [World.conns'] using hr)

/-- Everything reachable from the initial state is balanced and quiet. -/
theorem reach_good (evs : List Ev) : Balanced (World.init.run evs) ∧ Quiet (World.init.run evs) := by
  suffices h : ∀ w, Balanced w → Quiet w → Balanced (w.run evs) ∧ Quiet (w.run evs) from h _ balanced_init quiet_init
  induction evs with
  | nil => intro w hb hq; exact ⟨hb, hq⟩
  | cons e es ih => intro w hb hq; exact ih _ (balanced_step w e hb) (quiet_step w e hb.nodup hq)

/-- One event on a unit in which `c` is the sole connection of router id `r`. -/
theorem sole_step (w : World) (c : Nat) (r : Rid) (e : Ev) (f : Field) (hs : Sole w c r) (hk : keeps c r e = true) :
    Sole (w.step e) c r ∧ (w.step e).mx.val r f.get = w.mx.val r f.get + b2n (hitC c f e) := by
  obtain ⟨hfc, huniq⟩ := hs
  have other : ∀ {c' : Nat} {x : Conn}, findConn c' w.conns = some x → c' ≠ c → x.rid ≠ r := by
    intro c' x hx hne hxr
    exact hne ((findConn_some hx).1.symm.trans (huniq x (findConn_some hx).2 hxr))
  -- the value: no `lost r` among the calls, and the matching calls are those of `hitC`
  have key : (w.effs e).any (Eff.isLostOf r) = false ∧ (w.effs e).countP (f.hit r) = b2n (hitC c f e) := by
    cases e with
    | accept c' r' => cases h : findConn c' w.conns <;> simp [World.effs, h, Eff.isLostOf, Field.hit, hitC]
    | msg c' t o =>
      obtain ⟨v, ends⟩ := o
      by_cases hc : c' = c
      · subst hc
        have hends : ends = false := by simpa [keeps] using hk
        subst hends
        have recvcase : ∀ t' : MType, (if t = t' then 1 else 0) = b2n (t == t') := by
          intro t'; by_cases h : t = t'
          · simp [h]
          · have hb : (t == t') = false := by simpa using h
            simp [h, hb]
        cases v <;> cases f <;>
          simp [World.effs, hfc, verdictEffs, Eff.isLostOf, Field.hit, hitC, List.countP_cons, recvcase]
      · have hb : (c' == c) = false := by simpa using hc
        cases h : findConn c' w.conns with
        | none => simp [World.effs, h, hitC, hb]
        | some x =>
          have hxr := other h hc
          have hb2 : (x.rid == r) = false := by simpa using hxr
          cases v <;> cases ends <;> cases f <;>
            simp [World.effs, h, verdictEffs, lostEffs, Eff.isLostOf, Field.hit, hitC, List.countP_cons, hb, hb2]
    | unparsed c' =>
      by_cases hc : c' = c
      · subst hc; cases f <;> simp [World.effs, hfc, Eff.isLostOf, Field.hit, hitC, List.countP_cons]
      · have hb : (c' == c) = false := by simpa using hc
        cases h : findConn c' w.conns with
        | none => simp [World.effs, h, hitC, hb]
        | some x =>
          have hb2 : (x.rid == r) = false := by simpa using other h hc
          cases f <;> simp [World.effs, h, Eff.isLostOf, Field.hit, hitC, List.countP_cons, hb, hb2]
    | fault c' fatal =>
      by_cases hc : c' = c
      · subst hc
        have hf : fatal = false := by simpa [keeps] using hk
        subst hf
        cases f <;> simp [World.effs, hfc, Eff.isLostOf, Field.hit, hitC, List.countP_cons]
      · have hb : (c' == c) = false := by simpa using hc
        cases h : findConn c' w.conns with
        | none => simp [World.effs, h, hitC, hb]
        | some x =>
          have hb2 : (x.rid == r) = false := by simpa using other h hc
          cases fatal <;> cases f <;>
            simp [World.effs, h, lostEffs, Eff.isLostOf, Field.hit, hitC, List.countP_cons, hb, hb2]
    | _ => simp [World.effs, hitC]
  refine ⟨?_, ?_⟩
  · -- `c` stays the sole connection of `r`
    rw [Sole, step_conns]
    cases e with
    | accept c' r' =>
      have hr' : r' ≠ r := by simpa [keeps] using hk
      cases h : findConn c' w.conns with
      | some x => simpa [World.conns', h] using ⟨hfc, huniq⟩
      | none =>
        simp only [World.conns', h]
        refine ⟨findConn_append_left _ hfc, ?_⟩
        intro x hx hxr
        rcases List.mem_append.mp hx with hx | hx
        · exact huniq x hx hxr
        · simp at hx; subst hx; exact absurd hxr hr'
    | msg c' t o =>
      obtain ⟨v, ends⟩ := o
      cases ends with
      | false => simpa [World.conns'] using ⟨hfc, huniq⟩
      | true =>
        have hc : c ≠ c' := by intro h; subst h; simp [keeps] at hk
        simp only [World.conns']
        exact ⟨by rw [findConn_dropConn_ne _ hc]; exact hfc, fun x hx hxr => huniq x (mem_dropConn hx).1 hxr⟩
    | fault c' fatal =>
      cases fatal with
      | false => simpa [World.conns'] using ⟨hfc, huniq⟩
      | true =>
        have hc : c ≠ c' := by intro h; subst h; simp [keeps] at hk
        simp only [World.conns']
        exact ⟨by rw [findConn_dropConn_ne _ hc]; exact hfc, fun x hx hxr => huniq x (mem_dropConn hx).1 hxr⟩
    | unparsed _ => simpa [World.conns'] using ⟨hfc, huniq⟩
    | sub _ _ => simpa [World.conns'] using ⟨hfc, huniq⟩
    | suspend _ => simpa [World.conns'] using ⟨hfc, huniq⟩
    | unsuspend _ => simpa [World.conns'] using ⟨hfc, huniq⟩
    | unsub _ => simpa [World.conns'] using ⟨hfc, huniq⟩
    | kill _ => simpa [World.conns'] using ⟨hfc, huniq⟩
  · rw [step_mx, val_applyAll, key.1, afterLast_none _ _ key.1, key.2]; simp

theorem sole_run (w : World) (c : Nat) (r : Rid) (post : List Ev) (f : Field) (hs : Sole w c r)
    (hk : post.all (keeps c r) = true) :
    (w.run post).mx.val r f.get = w.mx.val r f.get + post.countP (hitC c f) := by
  induction post generalizing w with
  | nil => simp [run_nil]
  | cons e es ih =>
    simp only [List.all_cons, Bool.and_eq_true] at hk
    obtain ⟨hs', hv⟩ := sole_step w c r e f hs hk.1
    rw [run_cons, ih _ hs' hk.2, hv, countP_b2n]; omega

/-- **C15 (per connection, exact).** Take any reachable state of the unit (`pre` is any history). A router connects
    (`accept c r`) whose router id no live connection carries. As long as that connection is up and no other
    connection with the same router id arrives (`keeps`), after every further history `post` each exported value of
    the router is exactly what happened on that connection: received per type = messages of that type read,
    processed = messages read, invalid = messages the state machine rejected, I/O errors = unparsable frames and
    read errors. -/
theorem C15conn_connection_exact (pre post : List Ev) (c : Nat) (r : Rid) (f : Field)
    (hc : findConn c (World.init.run pre).conns = none)
    (hr : ∀ x ∈ (World.init.run pre).conns, x.rid ≠ r)
    (hk : post.all (keeps c r) = true) :
    (World.init.run (pre ++ .accept c r :: post)).mx.val r f.get = post.countP (hitC c f) := by
  obtain ⟨_, hq⟩ := reach_good pre
  rw [run_append, run_cons]
  generalize World.init.run pre = w at *
  have hs : Sole (w.step (.accept c r)) c r := by
    rw [Sole, step_conns]; simp only [World.conns', hc]
    constructor
    · exact findConn_append_new r hc
    · intro x hx hxr
      rcases List.mem_append.mp hx with hx | hx
      · exact absurd hxr (hr x hx)
      · simp at hx; subst hx; rfl
  rw [sole_run _ c r post f hs hk]
  have h0 : (w.step (.accept c r)).mx.val r f.get = 0 := by
    rw [step_mx]; simp only [World.effs, hc]
    rw [val_applyAll]; simp [Eff.isLostOf, afterLast, Field.hit, Metrics.val, hq r hr]
  omega

-- a router sends Initiation, two Peer Ups (one rejected), a Route Monitoring and an unparsable frame, while another router comes and goes
example : [Ev.msg 7 .init ⟨.other, false⟩, .accept 8 2, .msg 7 .peerUp ⟨.other, false⟩, .msg 7 .peerUp ⟨.invalid, false⟩,
           .msg 8 .init ⟨.other, false⟩, .unparsed 7, .fault 8 true, .msg 7 .routeMon ⟨.routing (some 4), false⟩].all (keeps 7 1) = true := by decide
example : (World.init.run ([.accept 3 0, .fault 3 true] ++ .accept 7 1 ::
            [.msg 7 .init ⟨.other, false⟩, .accept 8 2, .msg 7 .peerUp ⟨.other, false⟩, .msg 7 .peerUp ⟨.invalid, false⟩,
             .msg 8 .init ⟨.other, false⟩, .unparsed 7, .fault 8 true, .msg 7 .routeMon ⟨.routing (some 4), false⟩])).mx.val 1 (Field.recv .peerUp).get = 2 := by
  decide

/-- The same statement without the guard that no *other* live connection carries the router id: the values a
    router's connection sees exported are its own traffic, whatever else is connected. -/
def C15conn_connection_full : Prop :=
  ∀ (pre post : List Ev) (c : Nat) (r : Rid) (f : Field),
    findConn c (World.init.run pre).conns = none →
    post.all (fun e => match e with
      | .msg c' _ o => !(c' == c && o.ends) | .fault c' fatal => !(c' == c && fatal) | .accept c' _ => c' != c | _ => true) = true →
    (World.init.run (pre ++ .accept c r :: post)).mx.val r f.get = post.countP (hitC c f)

/-- **The code as written violates it**: a router is connected from an address (router id 0) and has sent its
    Initiation; a second connection from the same address gets the same router id, sends its own Initiation; the
    first connection ends — `router_connection_lost` removes the entry both were counted in; the second connection
    sends a Statistics Report. Exported for the router: 0 Initiation messages; the live connection delivered 1. -/
theorem C15conn_connection_counterexample : ¬ C15conn_connection_full := by
  intro h
  have := h [.accept 0 0, .msg 0 .init ⟨.other, false⟩] [.msg 1 .init ⟨.other, false⟩, .fault 0 true, .msg 1 .stats ⟨.other, false⟩]
    1 0 (.recv .init) (by decide) (by decide)
  revert this; decide

/-! ## The BMP state machine decides what a message does -/

theorem cstep_w (v : Bmp.Variant) (K : Bmp.Hdr → Bmp.Key) (cw : CWorld) (e : CEv) :
    (cw.step v K e).w = cw.w.step (cw.resolve v K e) := by
  cases e with
  | msg c m => simp only [CWorld.step]; cases findConn c cw.w.conns <;> rfl
  | ev e =>
    cases e with
    | accept c r => simp only [CWorld.step]; cases findConn c cw.w.conns <;> rfl
    | _ => rfl

/-- **Refinement.** The unit driven by BMP messages — `Bmp.step` (the state machine model of C05 / C15) says whether
    a message is rejected, produces a routing update of which size, or terminates the session — is the abstract unit
    run on the resolved history. Every theorem above therefore holds for it, with `invalid` = "`Bmp.step` answers
    `invalid`" and `ends` = "the state machine is `Terminated`". -/
theorem C15conn_concrete_refines (v : Bmp.Variant) (K : Bmp.Hdr → Bmp.Key) (cw : CWorld) (es : List CEv) :
    (cw.run v K es).w = cw.w.run (cw.resolveAll v K es) := by
  induction es generalizing cw with
  | nil => rfl
  | cons e es ih => rw [CWorld.run, ih, CWorld.resolveAll, run_cons, cstep_w]

-- Peer Up before Initiation is rejected; Termination ends the session
example : ((CWorld.init.run Bmp.asWritten id [.ev (.accept 0 0), .msg 0 (.peerUp 0 true true), .msg 0 .init, .msg 0 .term]).w.mx.lost,
           (CWorld.init.run Bmp.asWritten id [.ev (.accept 0 0), .msg 0 (.peerUp 0 true true), .msg 0 .init]).w.mx.val 0 Field.invalid.get) = (1, 1) := by
  decide

/-! ## The Prometheus exposition -/

theorem callLines_live (c : Call) (h : c.metric.mtype ≠ .text) :
    callLines c = .help (headName c) c.metric.help :: .type (headName c) c.metric.mtype ::
      c.recs.map (recLine c.metric c.unitName) := by
  unfold callLines headName
  cases hm : c.metric.mtype <;> first | exact absurd hm h | rfl

theorem callLines_text (c : Call) (h : c.metric.mtype = .text) : callLines c = [] := by
  unfold callLines; rw [h]

theorem mem_liveCalls {cs : List Call} {c : Call} : c ∈ liveCalls cs ↔ c ∈ cs ∧ c.metric.mtype ≠ .text := by
  simp [liveCalls]

/-- Every line of either variant is a line of one of the supported calls. -/
theorem mem_linesOfV {group : Bool} {cs : List Call} {l : Line} (h : l ∈ linesOfV group cs) :
    ∃ c ∈ cs, c.metric.mtype ≠ .text ∧ l ∈ callLines c := by
  cases group with
  | false =>
    simp only [linesOfV, linesOf, List.mem_flatMap] at h
    obtain ⟨c, hc, hl⟩ := h
    by_cases ht : c.metric.mtype = .text
    · rw [callLines_text c ht] at hl; simp at hl
    · exact ⟨c, hc, ht, hl⟩
  | true =>
    simp only [linesOfV, groupLines, List.mem_flatMap] at h
    obtain ⟨n, _, hl⟩ := h
    unfold blockOf at hl
    split at hl
    · simp at hl
    · rename_i c hfind
      have hc := mem_liveCalls.mp (List.mem_of_find?_eq_some hfind)
      have hn : headName c = n := by simpa using List.find?_some hfind
      simp only [List.mem_cons, List.mem_flatMap, List.mem_filter] at hl
      rcases hl with rfl | rfl | ⟨c', ⟨hc', _⟩, hl⟩
      · exact ⟨c, hc.1, hc.2, by rw [callLines_live c hc.2, hn]; simp⟩
      · exact ⟨c, hc.1, hc.2, by rw [callLines_live c hc.2, hn]; simp⟩
      · have hc' := mem_liveCalls.mp hc'
        exact ⟨c', hc'.1, hc'.2, by rw [callLines_live c' hc'.2]; simp [hl]⟩

theorem componentLabel_lname : isLName componentLabel = true := by decide

theorem callLines_wf (c : Call) (h : c.wf = true) : ∀ l ∈ callLines c, l.wf = true := by
  intro l hl
  by_cases ht : c.metric.mtype = .text
  · rw [callLines_text c ht] at hl; simp at hl
  · rw [callLines_live c ht] at hl
    simp only [Call.wf, Bool.and_eq_true, List.all_eq_true] at h
    obtain ⟨⟨⟨h1, h2⟩, h3⟩, h4⟩ := h
    simp only [List.mem_cons, List.mem_map] at hl
    rcases hl with rfl | rfl | ⟨r, hr, rfl⟩
    · simp only [Line.wf, headName, h1, h2, Bool.true_and, List.all_eq_true]; exact h3
    · simp [Line.wf, headName, h1, ht]
    · obtain ⟨⟨hr1, hr2⟩, hr3⟩ := h4 r hr
      cases hl : r.labels with
      | none => cases hu : c.unitName <;> simp [recLine, Line.wf, hl, hu, hr1, hr2, componentLabel_lname]
      | some ls =>
        rw [hl] at hr3
        have hr3' : ls.all (fun p => isLName p.1) = true := hr3
        cases hu : c.unitName <;> simp only [recLine, Line.wf, hl, hu, hr1, hr2, componentLabel_lname, hr3',
          List.all_cons, Bool.and_self]

theorem linesOfV_wf (group : Bool) (cs : List Call) (h : cs.all Call.wf = true) :
    (linesOfV group cs).all Line.wf = true := by
  rw [List.all_eq_true] at h ⊢
  intro l hl
  obtain ⟨c, hc, _, hlc⟩ := mem_linesOfV hl
  exact callLines_wf c (h c hc) l hlc

/-- **C19 (label values are escaped as the exposition format requires) / C15 (the text parses) — repaired `Target`.**
    For every sequence of `append` calls whose metric names (with unit and suffix) and label names are names of the
    format, whose help texts need no escaping and whose values print as integers — and for **every** unit name and
    **every** label value, whatever characters they contain — the text `Target` produces parses under the grammar of the
    exposition format, and the parse returns exactly the lines the calls asked for, each label value decoded to the
    string that was supplied: no string can change the structure of the document. Holds with and without grouping. -/
theorem C19prom_escaped_roundtrip (group : Bool) (cs : List Call) (h : cs.all Call.wf = true) :
    parse (renderV true group cs) = some (linesOfV group cs) :=
  parse_render_lines _ (linesOfV_wf group cs h)

-- quotes, backslashes, a newline and a forged sample line in the unit name and in a label value
example : (([⟨⟨['m'], ['h'], .counter, .total⟩, some ['u', '\n', 'x', ' ', '1'], [⟨some [(['a'], ['b', '"', ',', 'c', '=', '"', '\\'])], none, ['1']⟩]⟩] : List Call).all Call.wf) = true := by
  decide

/-- A sample line whose label values need no escaping. -/
def Line.clean : Line → Bool
  | .sample _ (some ls) _ => ls.all (fun p => ConnMetrics.clean p.2)
  | _ => true

theorem renderPairs_clean (ls : List (Str × Str)) (h : ls.all (fun p => ConnMetrics.clean p.2) = true) :
    renderPairs false ls = renderPairs true ls := by
  induction ls with
  | nil => rfl
  | cons p ps ih =>
    simp only [List.all_cons, Bool.and_eq_true] at h
    have hp : renderPair false p = renderPair true p := by
      simp [renderPair, escLabel_clean p.2 h.1 true, escLabel_clean p.2 h.1 false]
    cases ps with
    | nil => simp [renderPairs, hp]
    | cons q ps => simp only [renderPairs, hp, ih h.2]

theorem renderLine_clean (l : Line) (h : l.clean = true) : renderLine false l = renderLine true l := by
  cases l with
  | help n d => rfl
  | type n t => rfl
  | sample n ls v =>
    cases ls with
    | none => rfl
    | some ls => simp only [renderLine, renderPairs_clean ls (by simpa [Line.clean] using h)]

theorem callLines_clean (c : Call) (h : c.clean = true) : ∀ l ∈ callLines c, l.clean = true := by
  intro l hl
  by_cases ht : c.metric.mtype = .text
  · rw [callLines_text c ht] at hl; simp at hl
  · rw [callLines_live c ht] at hl
    simp only [Call.clean, Bool.and_eq_true, List.all_eq_true] at h
    obtain ⟨hu, hr⟩ := h
    simp only [List.mem_cons, List.mem_map] at hl
    rcases hl with rfl | rfl | ⟨r, hr', rfl⟩
    · rfl
    · rfl
    · have := hr r hr'
      simp only [recLine, Line.clean]
      cases hl : r.labels <;> cases hun : c.unitName <;> simp [hl, hun] at this hu ⊢
      · exact hu
      · simpa [List.all_eq_true] using this
      · exact ⟨hu, by simpa [List.all_eq_true] using this⟩

theorem flatMap_congr_on {α β} (l : List α) (f g : α → List β) (h : ∀ x ∈ l, f x = g x) : l.flatMap f = l.flatMap g := by
  induction l with
  | nil => rfl
  | cons x xs ih => simp [List.flatMap_cons, h x (by simp), ih (fun y hy => h y (List.mem_cons_of_mem _ hy))]

/-- **The same for `Target` as written, under the guard** that no unit name and no label value contains a quote, a
    backslash or a newline. -/
theorem C19prom_partial (group : Bool) (cs : List Call) (h : cs.all Call.wf = true) (hc : cs.all Call.clean = true) :
    parse (renderV false group cs) = some (linesOfV group cs) := by
  have e : renderV false group cs = renderV true group cs := by
    unfold renderV
    apply flatMap_congr_on
    intro l hl
    obtain ⟨c, hcs, _, hlc⟩ := mem_linesOfV hl
    exact renderLine_clean l (callLines_clean c (List.all_eq_true.mp hc c hcs) l hlc)
  rw [e]; exact C19prom_escaped_roundtrip group cs h

example : (([⟨⟨['m'], ['h'], .counter, .total⟩, some ['b', 'm', 'p', '-', 'i', 'n'], [⟨some [(['r'], ['R', '2'])], none, ['1']⟩]⟩] : List Call).all Call.clean) = true := by
  decide

/-- The statement for `Target` as written without the guard. -/
def C19prom_full : Prop :=
  ∀ cs : List Call, cs.all Call.wf = true → parse (renderV false false cs) = some (linesOfV false cs)

/-- One `append` with the label `a="b\"c"`: what `Target` writes. -/
def quoteWitness : List Call :=
  [⟨⟨['m'], ['h'], .counter, .total⟩, some ['u'], [⟨some [(['a'], ['b', '"', 'c'])], none, ['1']⟩]⟩]

/-- **The code as written violates it**: a quote in a label value and the text does not parse at all. -/
theorem C19prom_counterexample : ¬ C19prom_full := by
  intro h
  have := h quoteWitness (by decide)
  revert this; decide

/-- … or worse, it parses into something else: the value `x",evil="1` closes its own quotes and the sample carries
    a label `evil="1"` nobody supplied. -/
theorem C19prom_injection_counterexample :
    parse (render false [⟨⟨['m'], ['h'], .counter, .total⟩, some ['u'],
      [⟨some [(['a'], ['x', '"', ',', 'e', 'v', 'i', 'l', '=', '"', '1'])], none, ['1']⟩]⟩]) =
    some [.help ['r', 'o', 't', 'o', 'n', 'd', 'a', '_', 'm', '_', 't', 'o', 't', 'a', 'l'] ['h'],
          .type ['r', 'o', 't', 'o', 'n', 'd', 'a', '_', 'm', '_', 't', 'o', 't', 'a', 'l'] .counter,
          .sample ['r', 'o', 't', 'o', 'n', 'd', 'a', '_', 'm', '_', 't', 'o', 't', 'a', 'l']
            (some [(componentLabel, ['u']), (['a'], ['x']), (['e', 'v', 'i', 'l'], ['1'])]) ['1']] := by
  decide

/-! ### One `# HELP` and one `# TYPE` line per metric name -/

theorem firstNames_mem {x : Str} {l : List Str} (h : x ∈ firstNames l) : x ∈ l := by
  induction l with
  | nil => simp [firstNames] at h
  | cons y ys ih =>
    simp only [firstNames, List.mem_cons, List.mem_filter] at h
    rcases h with rfl | ⟨h, _⟩
    · simp
    · exact List.mem_cons_of_mem _ (ih h)

theorem firstNames_nodup (l : List Str) : (firstNames l).Nodup := by
  induction l with
  | nil => simp [firstNames]
  | cons x xs ih =>
    simp only [firstNames, List.nodup_cons, List.mem_filter, bne_self_eq_false, Bool.false_eq_true, and_false,
      not_false_eq_true, true_and]
    exact ih.sublist List.filter_sublist

theorem helpNames_append (a b : List Line) : helpNames (a ++ b) = helpNames a ++ helpNames b := by
  simp [helpNames, List.filterMap_append]
theorem typeNames_append (a b : List Line) : typeNames (a ++ b) = typeNames a ++ typeNames b := by
  simp [typeNames, List.filterMap_append]

theorem names_samples (m : Metric) (u : Option Str) (rs : List Rec) :
    helpNames (rs.map (recLine m u)) = [] ∧ typeNames (rs.map (recLine m u)) = [] := by
  simp [helpNames, typeNames, List.filterMap_map, recLine, List.filterMap_eq_nil_iff]

theorem names_sample_blocks (cs : List Call) :
    helpNames (cs.flatMap (fun c => c.recs.map (recLine c.metric c.unitName))) = [] ∧
    typeNames (cs.flatMap (fun c => c.recs.map (recLine c.metric c.unitName))) = [] := by
  induction cs with
  | nil => simp [helpNames, typeNames]
  | cons c cs ih =>
    simp only [List.flatMap_cons, helpNames_append, typeNames_append, ih.1, ih.2, (names_samples _ _ _).1,
      (names_samples _ _ _).2, List.append_nil, and_self]

/-- The header names of a block: its name, if some call has it. -/
theorem names_block (live : List Call) (n : Str) :
    helpNames (blockOf live n) = (if (live.find? (fun c => headName c == n)).isSome then [n] else []) ∧
    typeNames (blockOf live n) = (if (live.find? (fun c => headName c == n)).isSome then [n] else []) := by
  unfold blockOf
  cases live.find? (fun c => headName c == n) with
  | none => simp [helpNames, typeNames]
  | some c =>
    have := names_sample_blocks (live.filter (fun c => headName c == n))
    simp only [helpNames, typeNames] at this
    simp [helpNames, typeNames, this.1, this.2]

theorem names_blocks (live : List Call) (ns : List Str) :
    helpNames (ns.flatMap (blockOf live)) = ns.filter (fun n => (live.find? (fun c => headName c == n)).isSome) ∧
    typeNames (ns.flatMap (blockOf live)) = ns.filter (fun n => (live.find? (fun c => headName c == n)).isSome) := by
  induction ns with
  | nil => simp [helpNames, typeNames]
  | cons n ns ih =>
    simp only [List.flatMap_cons, helpNames_append, typeNames_append, ih.1, ih.2, (names_block live n).1,
      (names_block live n).2, List.filter_cons]
    cases (live.find? (fun c => headName c == n)).isSome <;> simp

/-- **C15 (the Prometheus text is a valid exposition) — repaired `Target`.** For every sequence of `append` calls the
    grouped exposition has at most one `# HELP` and at most one `# TYPE` line per metric name. -/
theorem C15prom_unique_repaired (cs : List Call) : UniqueMeta (groupLines cs) := by
  unfold UniqueMeta groupLines
  rw [(names_blocks _ _).1, (names_blocks _ _).2]
  exact ⟨(firstNames_nodup _).sublist List.filter_sublist, (firstNames_nodup _).sublist List.filter_sublist⟩

theorem names_linesOf (cs : List Call) :
    helpNames (linesOf cs) = (liveCalls cs).map headName ∧ typeNames (linesOf cs) = (liveCalls cs).map headName := by
  induction cs with
  | nil => simp [linesOf, liveCalls, helpNames, typeNames]
  | cons c cs ih =>
    have e : linesOf (c :: cs) = callLines c ++ linesOf cs := by simp [linesOf]
    rw [e, helpNames_append, typeNames_append, ih.1, ih.2]
    by_cases ht : c.metric.mtype = .text
    · simp [callLines_text c ht, liveCalls, ht, helpNames, typeNames]
    · have hs := names_samples c.metric c.unitName c.recs
      simp only [helpNames, typeNames] at hs
      simp [callLines_live c ht, liveCalls, ht, helpNames, typeNames, hs.1, hs.2]

/-- **As written**: the header lines are unique exactly when no two supported `append` calls are for one metric. -/
theorem C15prom_unique_iff (cs : List Call) : UniqueMeta (linesOf cs) ↔ ((liveCalls cs).map headName).Nodup := by
  unfold UniqueMeta; rw [(names_linesOf cs).1, (names_linesOf cs).2]; simp

/-- The statement for `Target` as written. -/
def C15prom_unique_full : Prop := ∀ cs : List Call, UniqueMeta (linesOf cs)

/-- **The code as written violates it**: two `append`s of one metric — what `append_per_router_metric` does once per
    connected router, and `BmpTcpInMetrics::append` once per message type — write `# HELP` and `# TYPE` twice. -/
theorem C15prom_duplicate_counterexample : ¬ C15prom_unique_full := by
  intro h
  have := (C15prom_unique_iff
    [⟨⟨['m'], ['h'], .counter, .total⟩, some ['u'], [⟨some [(['r'], ['1'])], none, ['1']⟩]⟩,
     ⟨⟨['m'], ['h'], .counter, .total⟩, some ['u'], [⟨some [(['r'], ['2'])], none, ['1']⟩]⟩]).mp (h _)
  revert this; decide

/-- **The repaired `Target` loses and invents nothing**: every line it writes is a line one of the supported calls
    asked for, and every sample line a supported call asked for is written. -/
theorem C15prom_group_lines (cs : List Call) :
    (∀ l ∈ groupLines cs, ∃ c ∈ cs, c.metric.mtype ≠ .text ∧ l ∈ callLines c) ∧
    (∀ c ∈ cs, c.metric.mtype ≠ .text → ∀ r ∈ c.recs, recLine c.metric c.unitName r ∈ groupLines cs) := by
  refine ⟨fun l hl => mem_linesOfV (group := true) hl, ?_⟩
  intro c hc ht r hr
  have hlive : c ∈ liveCalls cs := mem_liveCalls.mpr ⟨hc, ht⟩
  have hfn : ∀ (l : List Str) (x : Str), x ∈ l → x ∈ firstNames l := by
    intro l
    induction l with
    | nil => intro x hx; simp at hx
    | cons y ys ih =>
      intro x hx
      simp only [firstNames, List.mem_cons, List.mem_filter]
      by_cases hxy : x = y
      · exact Or.inl hxy
      · rcases List.mem_cons.mp hx with h | h
        · exact absurd h hxy
        · exact Or.inr ⟨ih x h, by simpa using hxy⟩
  simp only [groupLines, List.mem_flatMap]
  refine ⟨headName c, hfn _ _ (List.mem_map.mpr ⟨c, hlive, rfl⟩), ?_⟩
  unfold blockOf
  cases hf : (liveCalls cs).find? (fun c' => headName c' == headName c) with
  | none =>
    have := List.find?_eq_none.mp hf c hlive
    simp at this
  | some c0 =>
    simp only [List.mem_cons, List.mem_flatMap, List.mem_filter, List.mem_map]
    exact Or.inr (Or.inr ⟨c, ⟨hlive, by simp⟩, r, hr, rfl⟩)

end Rotonda.ConnMetrics
