import RotondaModel.Model.BgpIn
import RotondaModel.Props.C02
import RotondaModel.Props.C03
/-!
# BgpIn — theorems about the bgp-tcp-in unit composed with the RIB

* `BgpIn_refines_C01`      for every configuration, variant and history of connections, the RIB downstream
                           of the unit is C01's `run` of the history the unit's gate output denotes (`hist`).
* `BgpIn_end_cleanup`      C07 (BGP): a close, a reset or a framing error that routecore reports on an
                           established session ends it with exactly one `Withdraw(its id)`, removes its key
                           from `live_sessions` and emits nothing else (every variant).
* `BgpIn_end_cleanup_repaired`  the same for hold-timer expiry and a frame length below 19, repaired variant.
* `BgpIn_C02`              C02 (BGP): after such an end, every route of that session's id is reported
                           withdrawn with unchanged attributes and the abstract state of every other id is
                           unchanged — for every history before it.
* `BgpIn_C03`              C03 (BGP): an announcement of a session whose id has never been withdrawn
                           session-wide is reported active, whatever happened to other ids before (flaps
                           of the same peer included: it then had another id, `BgpIn_id_not_stable`).
* `BgpIn_hold_counterexample`, `BgpIn_term_counterexample`, `BgpIn_frame_counterexample`
                           as written: hold-timer expiry / unit termination / a 19-byte header declaring
                           length 7 leave the session's routes active and its key in `live_sessions`; after
                           the first and the third the returning peer is rejected.
* `BgpIn_id_not_stable`    C14 (BGP call site): a returning peer gets another ingress id.
* `BgpIn_no_end_of_stream` C07: nothing the unit emits is an end-of-stream (the history vocabulary has none;
                           stated on the updates).
* `get_exact`, `get_none`  `PeerConfigs::get`: an address with no containing key gets nothing (and no id is
                           taken, `BgpIn_nocfg_takes_no_id`).
-/
namespace Rotonda.BgpIn

open Rotonda Rotonda.Rib

/-- The RIB is the replay of the history. -/
def Inv (v : Variant) (w : World) : Prop := w.rib = Rib.run v.rib w.hist

theorem run_snoc (rv : Rib.Variant) (h : History) (e : Ev) :
    Rib.run rv (h ++ [e]) = (Rib.run rv h).applyAll rv (e.updates rv) := by
  simp [Rib.run, Rib.runFrom, List.foldl_append]

theorem Inv_emit (v : Variant) (w : World) (e : Ev) (h : Inv v w) : Inv v (emit v w e) := by
  simp only [Inv, emit] at *
  rw [run_snoc, h]

theorem Inv_setSess (v : Variant) (w : World) (k : Nat) (s : Sess) (h : Inv v w) : Inv v (setSess w k s) := h

theorem Inv_finish (v : Variant) (w : World) (k : Nat) (s : Sess) (h : Inv v w) : Inv v (finish v w k s).1 := by
  unfold finish
  split
  · exact Inv_setSess _ _ _ _ (Inv_emit v _ _ h)
  · exact Inv_setSess _ _ _ _ h

theorem Inv_terminateAll (v : Variant) (ss : List Sess) : ∀ (k : Nat) (w : World) (acc : List Nat), Inv v w →
    Inv v (terminateAll v k ss w acc).1 := by
  induction ss with
  | nil => intro k w acc h; simpa [terminateAll] using h
  | cons s rest ih =>
    intro k w acc h
    unfold terminateAll
    split
    · split
      · exact ih _ _ _ (Inv_setSess _ _ _ _ h)
      · exact ih _ _ _ (Inv_setSess _ _ _ _ (Inv_finish v w k _ h))
    · exact ih _ _ _ h

theorem Inv_step (v : Variant) (w : World) (o : Op) (h : Inv v w) : Inv v (step v w o).1 := by
  cases o with
  | conn a asn =>
    simp only [step]
    split
    · exact h
    · split
      · exact h
      · split
        · exact h
        · split <;> exact h
  | upd k u =>
    simp only [step]
    split
    · exact h
    · split
      · exact h
      · split
        · exact Inv_emit v w _ h
        · exact h
  | notif k =>
    simp only [step]
    split
    · exact h
    · split <;> exact h
  | fin k =>
    simp only [step]
    split
    · exact h
    · split
      · exact h
      · split
        · exact Inv_finish v w k _ h
        · exact Inv_setSess _ _ _ _ h
  | rst k =>
    simp only [step]
    split
    · exact h
    · split
      · exact h
      · split
        · exact Inv_finish v w k _ h
        · exact Inv_setSess _ _ _ _ h
  | garbage k kind =>
    simp only [step]
    split
    · exact h
    · split
      · exact h
      · split
        · split
          · exact Inv_setSess _ _ _ _ h
          · exact Inv_finish v w k _ h
        · split
          · exact Inv_finish v w k _ h
          · exact Inv_setSess _ _ _ _ h
  | hold k =>
    simp only [step]
    split
    · exact h
    · split
      · exact h
      · split
        · split
          · exact Inv_setSess _ _ _ _ h
          · exact Inv_finish v w k _ h
        · exact Inv_setSess _ _ _ _ h
  | terminate =>
    simp only [step]
    split
    · exact h
    · exact Inv_terminateAll v _ _ _ _ h

theorem Inv_exec (v : Variant) (ops : List Op) : ∀ w, Inv v w → Inv v (exec v w ops) := by
  induction ops with
  | nil => intro w h; exact h
  | cons o os ih => intro w h; exact ih _ (Inv_step v w o h)

/-- **Refinement to C01.** Whatever the configuration and the history of connections of however many
    peers, the RIB downstream of the unit is the C01 replay of the history its gate output denotes. -/
theorem BgpIn_refines_C01 (v : Variant) (cfg : List Entry) (ops : List Op) :
    (exec v (World.init cfg) ops).rib = Rib.run v.rib (exec v (World.init cfg) ops).hist :=
  Inv_exec v ops _ (by simp [Inv, World.init, Rib.run, Rib.runFrom, Rib.Rib.empty])

/-- Is `o` a session end that routecore reports to the processor (every variant)? -/
def Op.reportedEnd (k : Nat) : Op → Bool
  | .fin k' => k' == k
  | .rst k' => k' == k
  | .garbage k' kind => k' == k && kind != 0
  | _ => false

/-- **C07 (BGP), the ends that are reported.** One complete cleanup: exactly one `Withdraw(id)` is
    appended, the key leaves `live_sessions`, and the peer/gate observe `ended id`. -/
theorem BgpIn_end_cleanup (v : Variant) (w : World) (k : Nat) (s : Sess) (asn : Nat) (o : Op)
    (hk : w.sess[k]? = some s) (hop : s.copen = true) (hr : s.ph = .running)
    (hn : s.neg = some asn) (hj : s.rejected = false) (ho : o.reportedEnd k = true) :
    (step v w o).1.hist = w.hist ++ [.down s.id] ∧ (step v w o).1.live = w.live.erase (s.addr, asn)
      ∧ (step v w o).2 = .ended s.id := by
  cases o with
  | fin k' =>
    simp only [Op.reportedEnd, beq_iff_eq] at ho; subst ho
    simp [step, hk, hop, hr, finish, hn, hj, emit, setSess, endOut]
  | rst k' =>
    simp only [Op.reportedEnd, beq_iff_eq] at ho; subst ho
    simp [step, hk, hop, hr, finish, hn, hj, emit, setSess, endOut]
  | garbage k' kind =>
    simp only [Op.reportedEnd, Bool.and_eq_true, beq_iff_eq, bne_iff_ne, ne_eq] at ho
    obtain ⟨rfl, hkind⟩ := ho
    simp [step, hk, hop, hr, finish, hn, hj, emit, setSess, endOut, hkind]
  | _ => simp [Op.reportedEnd] at ho

/-- Every way the peer's side of a session can end. -/
def Op.anyEnd (k : Nat) : Op → Bool
  | .fin k' => k' == k
  | .rst k' => k' == k
  | .garbage k' _ => k' == k
  | .hold k' => k' == k
  | _ => false

def Out.withdrew : Out → Option Nat
  | .ended id => some id
  | .expired w => w
  | _ => none

/-- **C07 (BGP), repaired variant**: hold-timer expiry and a frame length below 19 are cleaned up too. -/
theorem BgpIn_end_cleanup_repaired (v : Variant) (hf : v.fsmdrop = .repaired) (hp : v.frame = .repaired)
    (w : World) (k : Nat) (s : Sess) (asn : Nat) (o : Op)
    (hk : w.sess[k]? = some s) (hop : s.copen = true) (hr : s.ph = .running)
    (hn : s.neg = some asn) (hj : s.rejected = false) (ho : o.anyEnd k = true) :
    (step v w o).1.hist = w.hist ++ [.down s.id] ∧ (step v w o).1.live = w.live.erase (s.addr, asn)
      ∧ (step v w o).2.withdrew = some s.id := by
  cases o with
  | fin k' =>
    simp only [Op.anyEnd, beq_iff_eq] at ho; subst ho
    simp [step, hk, hop, hr, finish, hn, hj, emit, setSess, endOut, Out.withdrew]
  | rst k' =>
    simp only [Op.anyEnd, beq_iff_eq] at ho; subst ho
    simp [step, hk, hop, hr, finish, hn, hj, emit, setSess, endOut, Out.withdrew]
  | garbage k' kind =>
    simp only [Op.anyEnd, beq_iff_eq] at ho; subst ho
    simp [step, hk, hop, hr, finish, hn, hj, emit, setSess, endOut, Out.withdrew, hp]
  | hold k' =>
    simp only [Op.anyEnd, beq_iff_eq] at ho; subst ho
    simp [step, hk, hop, hr, finish, hn, hj, emit, setSess, Out.withdrew, hf]
  | _ => simp [Op.anyEnd] at ho

/-- **C02 (BGP).** For every history before it (any number of peers, flaps, rejected connections …): when a
    session ends in one of the reported ways, every route of its id is reported withdrawn with unchanged
    attributes and the stored record and marker of every other id are unchanged. -/
theorem BgpIn_C02 (v : Variant) (cfg : List Entry) (ops : List Op) (k : Nat) (s : Sess) (asn : Nat) (o : Op)
    (hk : (exec v (World.init cfg) ops).sess[k]? = some s) (hop : s.copen = true) (hr : s.ph = .running)
    (hn : s.neg = some asn) (hj : s.rejected = false) (ho : o.reportedEnd k = true)
    (mc : Bool) (p : Prefix) (m : Mui) :
    let w := exec v (World.init cfg) ops
    let w' := (step v w o).1
    (m ≠ s.id → w'.rib.abs mc p m = w.rib.abs mc p m) ∧
    (m = s.id → w'.rib.entry mc p m = (w.rib.entry mc p m).map setWithdrawn) := by
  intro w w'
  have hw : Inv v w := Inv_exec v ops _ (by simp [Inv, World.init, Rib.run, Rib.runFrom, Rib.Rib.empty])
  have hw' : Inv v w' := Inv_step v w o hw
  have hh := (BgpIn_end_cleanup v w k s asn o hk hop hr hn hj ho).1
  have iso := C02_isolation v.rib w.hist (.down s.id) rfl mc p m
  simp only [Inv] at hw hw'
  rw [hw', hw, hh]
  constructor
  · intro hne
    exact iso.1 (by simp [Ev.downs]; exact fun h => hne h.symm)
  · intro he
    exact iso.2 (by simp [Ev.downs, he])

/-- **C03 (BGP).** After any history, an announcement under an id that has never been withdrawn
    session-wide (every accepted connection gets such an id: `BgpIn_id_not_stable`, `register()` at
    `unit.rs:347`) that nothing later touches is reported active with the announced attributes. -/
theorem BgpIn_C03 (v : Variant) (hv : v.rib.perRecordWithdraw = false ∧ v.rib.overlapFix = false)
    (cfg : List Entry) (ops : List Op) (h1 h2 : History) (mc : Bool) (p : Prefix) (m : Mui) (a : AttrId) (ann wd : List Nlri)
    (hh : (exec v (World.init cfg) ops).hist = h1 ++ .upd m (.ok a ann wd) :: h2)
    (hnd : h1.any (Ev.downs m) = false)
    (hA : (⟨p, safiOf mc⟩ : Nlri) ∈ ann) (hW : (⟨p, safiOf mc⟩ : Nlri) ∉ wd)
    (h2u : h2.all (fun e => !(e.touches mc p m)) = true) :
    (exec v (World.init cfg) ops).rib.entry mc p m = some (.active, a) := by
  have hvr : v.rib = Rib.asWritten := by
    cases hr : v.rib with
    | mk o q => simp [hr] at hv; simp [Rib.asWritten, hv]
  rw [BgpIn_refines_C01, hh, hvr]
  exact C03_partial h1 h2 mc p m a ann wd hnd hA hW h2u

/-! ### Counterexamples (the code as written), kernel-checked -/

def p8 : Prefix := ⟨.v4, 8, 10⟩
def peer1 : Addr := 2130771969   -- 127.1.0.1
def cfg1 : List Entry := [⟨.exact peer1, .one 65001, 3⟩]
def ann8 (a : Nat) : Rib.Upd := .ok a [⟨p8, .unicast⟩] []

/-- Hold-timer expiry as written: nothing is withdrawn, the key stays in `live_sessions`, the route stays
    active, and the returning peer is rejected. -/
theorem BgpIn_hold_counterexample :
    let r := run asWritten cfg1 [.conn peer1 65001, .upd 0 (ann8 6), .hold 0, .conn peer1 65001]
    r.2 = [.neg, .sent 1 1, .expired none, .rejected] ∧ r.1.live = [(peer1, 65001)]
      ∧ r.1.rib.query p8 = [⟨1, .active, 6⟩] := by decide

theorem BgpIn_hold_repaired :
    let r := run repaired cfg1 [.conn peer1 65001, .upd 0 (ann8 6), .hold 0, .conn peer1 65001]
    r.2 = [.neg, .sent 1 1, .expired (some 1), .neg] ∧ r.1.live = [(peer1, 65001)]
      ∧ r.1.rib.query p8 = [⟨1, .withdrawn, 6⟩] := by decide

/-- Unit termination as written: the session is not cleaned up (until the peer gives up). -/
theorem BgpIn_term_counterexample :
    let r := run asWritten cfg1 [.conn peer1 65001, .upd 0 (ann8 7), .terminate]
    r.2 = [.neg, .sent 1 1, .term []] ∧ r.1.live = [(peer1, 65001)] ∧ r.1.rib.query p8 = [⟨1, .active, 7⟩] := by decide

theorem BgpIn_term_repaired :
    let r := run repaired cfg1 [.conn peer1 65001, .upd 0 (ann8 7), .terminate]
    r.2 = [.neg, .sent 1 1, .term [1]] ∧ r.1.live = [] ∧ r.1.rib.query p8 = [⟨1, .withdrawn, 7⟩] := by decide

/-- A header declaring length 7 as written: the task unwinds, no cleanup, the returning peer is rejected. -/
theorem BgpIn_frame_counterexample :
    let r := run asWritten cfg1 [.conn peer1 65001, .upd 0 (ann8 8), .garbage 0 0, .conn peer1 65001]
    r.2 = [.neg, .sent 1 1, .noend, .rejected] ∧ r.1.live = [(peer1, 65001)] ∧ r.1.rib.query p8 = [⟨1, .active, 8⟩] := by decide

/-- C14 at the BGP call site: a returning peer gets another id (1, then 2); its old routes stay behind
    under the old id (withdrawn), the new ones are active under the new id. -/
theorem BgpIn_id_not_stable :
    let r := run asWritten cfg1 [.conn peer1 65001, .upd 0 (ann8 1), .fin 0, .conn peer1 65001, .upd 1 (ann8 2)]
    r.2 = [.neg, .sent 1 1, .ended 1, .neg, .sent 2 1] ∧ r.1.rib.query p8 = [⟨1, .withdrawn, 1⟩, ⟨2, .active, 2⟩] := by decide

/-- C07: the unit never emits an end-of-stream — a session end is `Withdraw(id)` and nothing else. -/
theorem BgpIn_no_end_of_stream (rv : Rib.Variant) (e : Ev) : Update.endOfStream ∉ e.updates rv := by
  cases e with
  | upd m u =>
    simp only [Ev.updates, ingest]
    split <;> simp
  | down m => simp [Ev.updates]
  | downBulk ms => simp [Ev.updates]

/-! ### `PeerConfigs::get` -/

theorem foldl_pick_none_iff (l : List Entry) : ∀ b, (l.foldl pick b = none ↔ b = none ∧ l = []) := by
  induction l with
  | nil => intro b; simp
  | cons e es ih =>
    intro b
    simp only [List.foldl_cons, ih]
    cases b <;> simp [pick]
    split <;> simp

/-- An address gets a peer config iff some key contains it. -/
theorem get_none (cfg : List Entry) (a : Addr) : get cfg a = none ↔ ∀ e ∈ cfg, e.key.contains a = false := by
  unfold get
  rw [foldl_pick_none_iff]
  simp [List.filter_eq_nil_iff]

/-- An unknown address takes no ingress id and leaves no trace but its (closed) slot. -/
theorem BgpIn_nocfg_takes_no_id (v : Variant) (w : World) (a : Addr) (asn : Nat) (ht : w.term = false)
    (h : ∀ e ∈ w.cfg, e.key.contains a = false) :
    (step v w (.conn a asn)).2 = .nocfg ∧ (step v w (.conn a asn)).1.next = w.next
      ∧ (step v w (.conn a asn)).1.live = w.live ∧ (step v w (.conn a asn)).1.hist = w.hist := by
  have hg := (get_none w.cfg a).2 h
  simp [step, ht, hg]

/-- **A connection attempt emits nothing.** Whatever the verdict (refused, no configuration, wrong AS, turned
    away as a second session of a live peer, or accepted): the gate output so far and the RIB are unchanged.
    With `BgpIn_unaccepted_inert` this is the engine's `lifecycle:rejected-session-routes-in-rib` clause: what
    a connection that was not accepted sends reaches nobody. -/
theorem BgpIn_conn_emits_nothing (v : Variant) (w : World) (a : Addr) (asn : Nat) :
    (step v w (.conn a asn)).1.hist = w.hist ∧ (step v w (.conn a asn)).1.rib = w.rib := by
  unfold step
  simp only
  split
  · exact ⟨rfl, rfl⟩
  · split
    · exact ⟨rfl, rfl⟩
    · split
      · exact ⟨rfl, rfl⟩
      · split <;> exact ⟨rfl, rfl⟩

/-- **The slot of a connection that was not accepted is inert.** Its connection is not open in the model
    (`copen = false`: refused, nocfg, badas, rejected all create such a slot), so an UPDATE on it changes
    nothing and is answered `nc`. -/
theorem BgpIn_unaccepted_inert (v : Variant) (w : World) (k : Nat) (s : Sess) (u : Rib.Upd)
    (hs : w.sess[k]? = some s) (hc : s.copen = false) : step v w (.upd k u) = (w, .nc) := by
  simp [step, hs, hc]

/-- … and the slot a turned-away connection gets is of that kind. -/
theorem BgpIn_rejected_slot (v : Variant) (w : World) (a : Addr) (asn : Nat)
    (h : (step v w (.conn a asn)).2 = .rejected) :
    ∃ s, (step v w (.conn a asn)).1.sess = w.sess ++ [s] ∧ s.copen = false ∧ s.rejected = true := by
  by_cases ht : w.term = true
  · simp [step, ht] at h
  · cases hg : get w.cfg a with
    | none => simp [step, ht, hg] at h
    | some e =>
      by_cases ha : e.asns.accepts asn = true
      · by_cases hl : (a, asn) ∈ w.live
        · refine ⟨⟨w.next, a, some asn, true, .done, false⟩, ?_, rfl, rfl⟩
          simp [step, ht, hg, ha, hl]
        · simp [step, ht, hg, ha, hl] at h
      · simp [step, ht, hg, ha] at h

-- non-vacuity: a second connection of a live peer is turned away, and its slot is inert
example : let w := exec asWritten (World.init cfg1) [.conn peer1 65001, .upd 0 (ann8 6)]
    (step asWritten w (.conn peer1 65001)).2 = .rejected
      ∧ step asWritten (step asWritten w (.conn peer1 65001)).1 (.upd 1 (ann8 7)) = ((step asWritten w (.conn peer1 65001)).1, .nc) := by decide

/-- Exact beats prefix, longest prefix beats shorter (the test vector of `peer_config.rs` on loopback). -/
example : let cfg : List Entry := [⟨.pfx 0 0, .many [], 0⟩, ⟨.pfx 24 8323328, .many [100, 200], 10⟩, ⟨.pfx 32 2130771969, .one 100, 10⟩, ⟨.exact 2130771969, .one 7, 0⟩]
    (get cfg 2130771969).map (·.key) = some (.exact 2130771969) ∧ (get cfg 2130771970).map (·.key) = some (.pfx 24 8323328)
      ∧ (get cfg 167772161).map (·.key) = some (.pfx 0 0) := by decide

-- non-vacuity of `BgpIn_end_cleanup` / `BgpIn_C02`: an established session with a route, closed
example : let w := exec asWritten (World.init cfg1) [.conn peer1 65001, .upd 0 (ann8 6)]
    w.sess[0]? = some ⟨1, peer1, some 65001, false, .running, true⟩ ∧ (step asWritten w (.fin 0)).1.rib.query p8 = [⟨1, .withdrawn, 6⟩] := by decide

end Rotonda.BgpIn
