import RotondaModel.Proofs.OutStream
/-!
# C17 — output-stream messages reach their target once, in order, in a valid format

Model: `Model/OutStream.lean` (file-out `write`, mqtt-out `directUpdate`).
`asWritten` is `src/targets/file/target.rs` at the pinned commit; each of the
three `Variant` fields switches one defect site to its minimal repair.
-/
namespace Rotonda.OutStream

/-! ## the unbounded core: escaping is correct, for every string -/

/-- **JSON string round-trip.** For every string (any characters, any length)
    and any continuation, reading back what `serde_json` writes gives the
    string and leaves the continuation. -/
theorem json_string_roundtrip (s rest : Str) : pStr (jsonStr s ++ rest) = some (s, rest) :=
  pStr_jsonStr s rest

example : pStr (jsonStr ['a', '"', '\\', '\n', Char.ofNat 1, 'é'] ++ [',']) =
    some (['a', '"', '\\', '\n', Char.ofNat 1, 'é'], [',']) := json_string_roundtrip _ _

/-- **A JSON string never contains a raw line feed**, whatever the string. -/
theorem json_string_one_line (s : Str) : '\n' ∉ jsonStr s := nl_not_mem_jsonStr s

/-- **Records parse back.** Every non-route record shape, in the formats where
    the reader is modelled, is recovered exactly from its line. -/
theorem C17_parse_back :
    (∀ ip asn, parsePeerdownJson (jsonPeerdown ip asn) = some (ip, asn)) ∧
    (∀ i v, parseCustomJson (jsonCustom i v) = some (i, v)) ∧
    (∀ e, parseEntryJson (jsonEntry e) = some e) ∧
    (∀ i v, parseCustomCsv (csvCustom i v) = some (i, v)) ∧
    (∀ ip asn, ',' ∉ ip → parsePeerdownCsv (csvPeerdown ip asn) = some (ip, asn)) ∧
    (∀ s, unescNl (escNl s) = some s) :=
  ⟨parsePeerdownJson_roundtrip, parseCustomJson_roundtrip, parseEntryJson_roundtrip,
   parseCustomCsv_roundtrip, parsePeerdownCsv_roundtrip, unescNl_escNl⟩

example : parseEntryJson (jsonEntry ⟨5, some 65001, none, some 3, 2, 1, none, some ['I', 'p'], none, none, some ['"']⟩)
    = some ⟨5, some 65001, none, some 3, 2, 1, none, some ['I', 'p'], none, none, some ['"']⟩ :=
  C17_parse_back.2.2.1 _

/-! ## file-out: exactly once, in order -/

/-- The one line the property demands for a record. -/
def lineOf (v : Variant) (fmt : Format) (r : Record) : Line :=
  match r with
  | .entry e =>
    match e.custom with
    | some s => .text (match v.nl with | .asWritten => s | .repaired => escNl s)
    | none => formatLine fmt r
  | r => formatLine fmt r

/-- What a variant cannot write as its one line (decidable; names exactly the three defect classes). -/
def clean (v : Variant) (fmt : Format) (r : Record) : Bool :=
  !csvFails fmt r &&
  match r with
  | .entry e =>
    match e.custom with
    | some s => v.nl == .repaired || !s.contains '\n'
    | none => v.entry == .repaired
  | _ => true

/-- The clause at full strength: the file is one line per emitted message, in emission order. -/
def C17_file_full (v : Variant) : Prop :=
  ∀ fmt us, write v fmt us = .ok ((messages us).map fun m => lineOf v fmt m.record)

theorem emit_of_clean (v : Variant) (fmt : Format) (r : Record) (h : clean v fmt r = true) :
    emit v fmt r = .lines [lineOf v fmt r] := by
  simp only [clean, Bool.and_eq_true, Bool.not_eq_true'] at h
  obtain ⟨hcsv, h⟩ := h
  cases r with
  | entry e =>
    simp only [emit, lineOf]
    cases hc : e.custom with
    | some s =>
      simp only [hc, Bool.or_eq_true, beq_iff_eq, Bool.not_eq_true', List.contains_eq_mem,
        decide_eq_false_iff_not] at h
      cases hv : v.nl with
      | asWritten =>
        have : '\n' ∉ s := by
          rcases h with h | h
          · simp [hv] at h
          · exact h
        simp [splitNl_of_not_mem s this]
      | repaired => simp
    | none =>
      simp only [hc, beq_iff_eq] at h
      simp [h, formatStep, hcsv]
  | route r => simp [emit, lineOf, formatStep, hcsv]
  | peerdown ip asn => simp [emit, lineOf, formatStep, hcsv]
  | custom i v' => simp [emit, lineOf, formatStep, hcsv]

theorem emitAll_of_clean (v : Variant) (fmt : Format) (ms : List Msg)
    (h : ∀ m ∈ ms, clean v fmt m.record = true) :
    emitAll v fmt ms = .ok (ms.map fun m => lineOf v fmt m.record) := by
  induction ms with
  | nil => rfl
  | cons m ms ih =>
    have h1 := emit_of_clean v fmt m.record (h m (by simp))
    have h2 := ih (fun m' hm' => h m' (by simp [hm']))
    simp [emitAll, h1, h2]

/-- **C17 (file, exactly once and in order), every variant, under the named guard.**
    For every format and every sequence of updates of any length: if no
    emitted record falls in a defect class the variant still has, the file
    holds exactly one line per emitted message, in emission order (`map`
    preserves count and order), and the target did not stop. -/
theorem C17_file_partial (v : Variant) (fmt : Format) (us : List Update)
    (h : ∀ m ∈ messages us, clean v fmt m.record = true) :
    write v fmt us = .ok ((messages us).map fun m => lineOf v fmt m.record) := by
  induction us with
  | nil => rfl
  | cons u us ih =>
    cases u with
    | outputStream ms =>
      simp only [messages, List.mem_append] at h
      have h1 := emitAll_of_clean v fmt ms (fun m hm => h m (Or.inl hm))
      have h2 := ih (fun m hm => h m (Or.inr hm))
      simp [write, messages, h1, h2]
    | _ => simpa [write, messages] using ih h

/-- **Repaired code, JSON formats: the full clause, no guard.** -/
theorem C17_file_repaired_json (fmt : Format) (hf : fmt ≠ .csv) (us : List Update) :
    write repaired fmt us = .ok ((messages us).map fun m => lineOf repaired fmt m.record) := by
  apply C17_file_partial
  intro m _
  cases fmt with
  | csv => exact absurd rfl hf
  | json => cases hr : m.record <;> simp [clean, csvFails, repaired] <;> split <;> simp
  | jsonMin => cases hr : m.record <;> simp [clean, csvFails, repaired] <;> split <;> simp

-- non-vacuity: a mixed sequence satisfying the guard of the as-written code
example : ∀ m ∈ messages [.single, .outputStream [⟨[], [], none, .custom 1 2⟩, ⟨[], [], none, .entry ⟨0, none, none, none, 0, 0, none, none, none, none, some ['x']⟩⟩], .withdraw],
    clean asWritten .json m.record = true := by decide
-- … and records the guard really excludes
example : clean asWritten .json (.entry ⟨0, none, none, none, 0, 0, none, none, none, none, none⟩) = false := by decide
example : clean asWritten .json (.entry ⟨0, none, none, none, 0, 0, none, none, none, none, some ['a', '\n', 'b']⟩) = false := by decide
example : clean repaired .csv (.route (some ⟨['1'], false⟩)) = false := by decide

/-! ### the three defects of the code as written (witnesses replayed first by the engine) -/

def plainEntry : LogEntry := ⟨0, none, none, none, 1, 0, none, none, none, none, none⟩
def wPlain : List Update := [.outputStream [⟨['m'], ['l'], none, .entry plainEntry⟩]]
def wLf : List Update := [.outputStream [⟨['m'], ['l'], none, .entry ⟨0, none, none, none, 0, 0, none, none, none, none, some ['a', '\n', 'b']⟩⟩]]
def wCsv : List Update := [.outputStream [⟨['m'], ['p'], none, .route (some ⟨['1', '.', '2', '.', '3', '.', '0', '/', '2', '4'], false⟩)⟩]]

/-- A log entry without custom text is written nowhere (the first `if let Entry` swallows it). -/
theorem C17_entry_dropped_witness (fmt : Format) : write asWritten fmt wPlain = .ok [] := by
  cases fmt <;> rfl

theorem C17_entry_dropped_counterexample : ¬ C17_file_full asWritten := by
  intro h
  have := h .json wPlain
  rw [C17_entry_dropped_witness] at this
  simp [wPlain, messages] at this

/-- Custom text containing LF occupies two lines. -/
theorem C17_newline_witness : write asWritten .json wLf = .ok [.text ['a'], .text ['b']] := by rfl

theorem C17_newline_counterexample :
    ¬ (∀ fmt us, ∃ f : Msg → Line, write asWritten fmt us = .ok ((messages us).map f)) := by
  intro h
  obtain ⟨f, hf⟩ := h .json wLf
  rw [C17_newline_witness] at hf
  simp [wLf, messages] at hf

/-- With the csv format, a route whose attributes the csv writer cannot serialise kills the target. -/
theorem C17_csv_panic_witness : write asWritten .csv wCsv = .panic csvSite := by rfl

/-- After the minimal repair of the csv site (skip + log) such a route still gets no line. -/
theorem C17_csv_skip_witness : write repaired .csv wCsv = .ok [] := by rfl

theorem C17_csv_skip_counterexample : ¬ C17_file_full repaired := by
  intro h
  have := h .csv wCsv
  rw [C17_csv_skip_witness] at this
  simp [wCsv, messages] at this

/-! ## every line is one line -/

/-- **One line per message.** In the JSON formats the line of any record that
    reaches the format branch contains no raw LF, whatever strings it carries;
    custom text is one line iff it has no LF (as written) / always (repaired). -/
theorem C17_one_line (v : Variant) (fmt : Format) (hf : fmt ≠ .csv) (r : Record) (l : Str)
    (hl : lineOf v fmt r = .text l)
    (hnl : ∀ e s, r = .entry e → e.custom = some s → v.nl = .asWritten → '\n' ∉ s) : '\n' ∉ l := by
  cases r with
  | entry e =>
    cases hc : e.custom with
    | some s =>
      simp only [lineOf, hc] at hl
      cases hv : v.nl with
      | asWritten => simp only [hv, Line.text.injEq] at hl; subst hl; exact hnl e s rfl hc hv
      | repaired => simp only [hv, Line.text.injEq] at hl; subst hl; exact nl_not_mem_escNl s
    | none =>
      simp only [lineOf, hc] at hl
      cases fmt with
      | csv => exact absurd rfl hf
      | json => simp only [formatLine, Line.text.injEq] at hl; subst hl; exact nl_not_mem_jsonEntry e
      | jsonMin => simp only [formatLine, Line.text.injEq] at hl; subst hl; exact nl_not_mem_jsonEntryMin e
  | route o =>
    cases o with
    | none => cases fmt <;> simp [lineOf, formatLine, nullLit] at hl <;> subst hl <;> decide
    | some rt => cases fmt <;> simp [lineOf, formatLine] at hl
  | peerdown ip asn =>
    cases fmt with
    | csv => exact absurd rfl hf
    | json => simp only [lineOf, formatLine, Line.text.injEq] at hl; subst hl; exact nl_not_mem_jsonPeerdown ip asn
    | jsonMin => simp only [lineOf, formatLine, Line.text.injEq] at hl; subst hl; exact nl_not_mem_jsonPeerdown ip asn
  | custom i v' =>
    cases fmt with
    | csv => exact absurd rfl hf
    | json => simp only [lineOf, formatLine, Line.text.injEq] at hl; subst hl; exact nl_not_mem_jsonCustom i v'
    | jsonMin => simp only [lineOf, formatLine, Line.text.injEq] at hl; subst hl; exact nl_not_mem_jsonCustom i v'

/-! ## ordinary route traffic is silent; nothing stops the target -/

def Update.isTraffic : Update → Bool
  | .outputStream _ => false
  | _ => true

/-- **C17 (silent).** Any sequence of route updates, withdrawals, query results
    and status changes — of any length, any variant, any format — writes nothing. -/
theorem C17_silent (v : Variant) (fmt : Format) (us : List Update)
    (h : ∀ u ∈ us, u.isTraffic = true) : write v fmt us = .ok [] := by
  induction us with
  | nil => rfl
  | cons u us ih =>
    have hu := h u (by simp)
    have := ih (fun u' hu' => h u' (by simp [hu']))
    cases u <;> simp_all [write, Update.isTraffic]

example : write asWritten .csv [.single, .bulk 3, .withdraw, .withdrawBulk, .queryResult, .upstreamStatusChange] = .ok [] :=
  C17_silent _ _ _ (by decide)

/-- Interleaved traffic changes nothing: the file depends only on the emitted messages. -/
theorem C17_traffic_irrelevant (v : Variant) (fmt : Format) (us : List Update) :
    write v fmt us = write v fmt (us.filter fun u => !u.isTraffic) := by
  induction us with
  | nil => rfl
  | cons u us ih => cases u <;> simp_all [write, Update.isTraffic]

def C17_no_stop_full (v : Variant) : Prop := ∀ fmt us s, write v fmt us ≠ .panic s

theorem emit_repaired_ne_panic (v : Variant) (hv : v.csv = .repaired) (fmt : Format) (r : Record) :
    emit v fmt r ≠ .panic := by
  cases r with
  | entry e =>
    simp only [emit]
    cases e.custom <;> cases v.nl <;> cases v.entry <;> simp [formatStep, hv] <;> split <;> simp
  | route o => simp only [emit, formatStep, hv]; split <;> simp
  | peerdown ip asn => simp [emit, formatStep, csvFails]
  | custom i v' => simp [emit, formatStep, csvFails]

theorem emitAll_repaired_ne_panic (v : Variant) (hv : v.csv = .repaired) (fmt : Format) (ms : List Msg) :
    ∀ s : String, emitAll v fmt ms ≠ .panic s := by
  induction ms with
  | nil => intro s; simp [emitAll]
  | cons m ms ih =>
    intro s
    simp only [emitAll]
    have := emit_repaired_ne_panic v hv fmt m.record
    cases he : emit v fmt m.record with
    | panic => exact absurd he this
    | lines ls =>
      cases hr : emitAll v fmt ms with
      | ok rest => simp
      | panic s' => exact absurd hr (ih s')

/-- **C17 (no message can stop the target), csv site repaired**: for every
    format and update sequence the writer never panics. -/
theorem C17_no_stop (v : Variant) (hv : v.csv = .repaired) : C17_no_stop_full v := by
  intro fmt us s
  induction us with
  | nil => simp [write]
  | cons u us ih =>
    cases u with
    | outputStream ms =>
      simp only [write]
      cases he : emitAll v fmt ms with
      | panic s' =>
        have := emitAll_repaired_ne_panic v hv fmt ms s'
        exact absurd he this
      | ok ls =>
        cases hr : write v fmt us with
        | ok rest => simp
        | panic s' => simp only [hr] at ih; simp; intro h; exact ih (h ▸ rfl)
    | _ => simpa [write] using ih

/-- As written, a single route message stops the csv target. -/
theorem C17_no_stop_counterexample : ¬ C17_no_stop_full asWritten :=
  fun h => h .csv wCsv csvSite C17_csv_panic_witness

/-! ## mqtt-out -/

/-- **C17 (mqtt selection).** Of any update, exactly the output-stream
    messages whose name is the component's name are queued for publishing, in
    emission order, each on the topic obtained from the template and with
    payload `[ingress info of the source | null, record]`; every other kind of
    update publishes nothing. -/
theorem C17_mqtt (comp tmpl : Str) (reg : Registry) (u : Update) :
    directUpdate comp tmpl reg u =
      match u with
      | .outputStream ms =>
        (ms.filter fun m => m.name = comp).map fun m =>
          (fillTemplate m.topic tmpl,
           payload (match m.ingress with | some id => reg.get id | none => none) m.record)
      | _ => [] := by
  cases u with
  | outputStream ms =>
    simp only [directUpdate]
    induction ms with
    | nil => rfl
    | cons m ms ih =>
      by_cases hm : m.name = comp
      · simp [publishAll, toMsg, hm, ih]; rfl
      · simp [publishAll, toMsg, hm, ih]
  | _ => rfl

example : directUpdate ['m'] ['t', '/', '{', 'i', 'd', '}'] []
    (.outputStream [⟨['x'], ['a'], none, .custom 1 2⟩, ⟨['m'], ['b'], none, .custom 3 4⟩]) =
    [(['t', '/', 'b'], payload none (.custom 3 4))] := by
  rw [C17_mqtt]; simp [fillTemplate, lit, idPat]

/-- **Topic = template[{id} := topic]** for a template with one placeholder and
    no other `{`: the text before and after is kept, the placeholder is
    replaced by the message's topic (which is not rescanned). -/
theorem C17_mqtt_topic (topic pre post : Str) (hpre : '{' ∉ pre) (hpost : '{' ∉ post) :
    fillTemplate topic (pre ++ idPat ++ post) = pre ++ topic ++ post := by
  have hpost' : ∀ l : Str, '{' ∉ l → fillTemplate topic l = l := by
    intro l
    induction l with
    | nil => intro _; simp [fillTemplate]
    | cons c cs ih =>
      intro h
      have hc : c ≠ '{' := fun e => h (by simp [e])
      have hcs : '{' ∉ cs := fun e => h (by simp [e])
      rw [fillTemplate]
      simp [idPat, lit, Ne.symm hc, ih hcs]
  induction pre with
  | nil =>
    simp only [List.nil_append, idPat, List.cons_append]
    rw [fillTemplate]
    simp [idPat, lit, hpost' post hpost]
  | cons c cs ih =>
    have hc : c ≠ '{' := fun e => hpre (by simp [e])
    have hcs : '{' ∉ cs := fun e => hpre (by simp [e])
    simp only [List.cons_append]
    rw [fillTemplate]
    have := ih hcs
    simp only [idPat, List.cons_append, List.nil_append, List.append_assoc] at this
    simp [idPat, lit, Ne.symm hc, this]

example : fillTemplate ['x'] (['r', '/'] ++ idPat ++ ['/', 'z']) = ['r', '/', 'x', '/', 'z'] :=
  C17_mqtt_topic _ _ _ (by decide) (by decide)

/-! ### ingress metadata is the register's, at the moment of publishing -/

theorem Registry.get_update_self (reg : Registry) (id : Nat) (new : IngressInfo) :
    (reg.update id new).get id = some (match reg.get id with | some old => old.merge new | none => new) := by
  induction reg with
  | nil => simp [Registry.update, Registry.get]
  | cons e es ih =>
    by_cases h : e.1 = id
    · simp [Registry.update, Registry.get, h]
    · simp only [Registry.update, h, ↓reduceIte]
      simp only [Registry.get, List.find?_cons, h, decide_false] at ih ⊢
      exact ih

theorem Registry.get_update_other (reg : Registry) (id id' : Nat) (new : IngressInfo) (h : id' ≠ id) :
    (reg.update id new).get id' = reg.get id' := by
  induction reg with
  | nil => simp [Registry.update, Registry.get, Ne.symm h]
  | cons e es ih =>
    by_cases he : e.1 = id
    · have : ¬ e.1 = id' := fun e' => h (e'.symm.trans he)
      simp [Registry.update, Registry.get, he, this, Ne.symm h]
    · simp only [Registry.update, he, ↓reduceIte]
      by_cases he' : e.1 = id'
      · simp [Registry.get, he']
      · simp only [Registry.get, List.find?_cons, he', decide_false] at ih ⊢
        exact ih

/-- **A metadata update keeps every field it does not supply** and replaces the ones it does. -/
theorem C17_merge_fields (old new : IngressInfo) :
    (old.merge new).unitName = new.unitName.or old.unitName ∧ (old.merge new).parent = new.parent.or old.parent ∧
    (old.merge new).remoteAddr = new.remoteAddr.or old.remoteAddr ∧ (old.merge new).remoteAsn = new.remoteAsn.or old.remoteAsn ∧
    (old.merge new).filename = new.filename.or old.filename ∧ (old.merge new).name = new.name.or old.name ∧
    (old.merge new).desc = new.desc.or old.desc := ⟨rfl, rfl, rfl, rfl, rfl, rfl, rfl⟩

/-- **C17 (mqtt, metadata is current), for every history.** Split any history of arriving updates and
    register edits at any point: what the target publishes for the rest is exactly what a target
    started at that moment, on the register as the edits so far left it, publishes. Nothing about a
    source is remembered from earlier messages. -/
theorem C17_mqtt_session_split (comp tmpl : Str) (reg : Registry) (pre post : List Ev) :
    session comp tmpl reg (pre ++ post) =
      session comp tmpl reg pre ++ session comp tmpl (regAfter reg pre) post := by
  induction pre generalizing reg with
  | nil => rfl
  | cons e es ih =>
    cases e with
    | upd u => simp [session, regAfter, ih]
    | info id i => simp [session, regAfter, ih]

/-- Corollary in the property's words: the messages published for an update that arrives after any
    history are those of `C17_mqtt` with the register *as it is then*: for a message of source `id`
    the attached info is `(regAfter reg pre).get id`. -/
theorem C17_mqtt_metadata_current (comp tmpl : Str) (reg : Registry) (pre : List Ev) (u : Update) :
    session comp tmpl reg (pre ++ [.upd u]) =
      session comp tmpl reg pre ++ directUpdate comp tmpl (regAfter reg pre) u := by
  rw [C17_mqtt_session_split]; simp [session]

/-- non-vacuity: source 1 publishes, learns its AS, publishes again: the second message carries the AS. -/
example (tmpl : Str) :
    session ['m'] tmpl [(1, ⟨none, none, none, none, none, some ['r'], none⟩)]
      [.upd (.outputStream [⟨['m'], ['a'], some 1, .custom 1 2⟩]),
       .info 1 ⟨none, none, none, some 65000, none, none, none⟩,
       .upd (.outputStream [⟨['m'], ['b'], some 1, .custom 3 4⟩])]
    = [(fillTemplate ['a'] tmpl, payload (some ⟨none, none, none, none, none, some ['r'], none⟩) (.custom 1 2)),
       (fillTemplate ['b'] tmpl, payload (some ⟨none, none, none, some 65000, none, some ['r'], none⟩) (.custom 3 4))] := by
  simp [session, directUpdate, publishAll, toMsg, Registry.update, Registry.get, IngressInfo.merge]

end Rotonda.OutStream
