import RotondaModel.Proofs.BmpSession
/-!
# C07 — every way a session can end triggers one complete cleanup

Statements only. Models: `Model/BmpIo.lean` (read loop), `Model/BmpSession.lean`
(`run = removal ∘ epilogue ∘ loop`, the peer bookkeeping of the state machine, the BGP processor
loop). All theorems quantify over every reader script — i.e. every cut offset of every byte
stream, every `io::ErrorKind` at every position, clean close, gate termination, a silent open
connection — every parser behaviour and every per-frame message classification.

"Cleanup" = the updates that left the gate end with `WithdrawBulk(children of the router)`
followed by exactly one `EndOfStream(router)`, every id of a peer that is (or ever was) up is among
those children, and the router is no longer in the router maps.
-/
namespace Rotonda.BmpSession
open Rotonda.BmpIo

/-- One complete cleanup, as observable downstream and in the router list. -/
def Cleanup {σ : Type} (r : RunRes σ) (children : σ → List Nat) (router : Nat) : Prop :=
  (∃ pre, r.outs = pre ++ [.withdrawBulk (children r.st), .endOfStream router] ∧
      ∀ o ∈ pre, o.isEos = false) ∧
  r.inList = false

/-- The session ended (its task is gone or its loop was left), as opposed to still waiting for
    bytes on an open connection. -/
def Ended {σ : Type} (r : RunRes σ) : Prop := r.fin ≠ .waiting

/-! ## BMP: generic in the message handler -/

/-- **Every non-unwinding exit of the read loop runs the whole cleanup**, for every variant,
    script, parser and handler (that itself never emits an end-of-stream): fatal I/O error of any
    kind at any offset, end of input at any offset, gate termination, handler abort. -/
theorem C07_bmp_cleanup_unless_unwound {σ : Type} (v : Variant) (h : Handler σ Out)
    (hne : ∀ st i bs, ∀ o ∈ (h.step st i bs).2.1, o.isEos = false)
    (children : σ → List Nat) (router : Nat) (valid : Nat → List Nat → Verdict) (s : Src) (st : σ) :
    let r := run v h children router valid s st
    Ended r → r.fin ≠ .panicked → Cleanup r children router := by
  intro r hend hnp
  have hfuel : (runLoop v h valid s st).fin ≠ .fuel :=
    loop_fuel v h valid (by decide) _ s st 0 (Nat.lt_succ_self _)
  have hpre := loop_no_eos v h valid hne (s.length + 1) s st 0
  have hr : r = run v h children router valid s st := rfl
  unfold run at hr
  unfold runLoop at hfuel
  unfold runLoop at hr
  generalize loop v h valid (s.length + 1) s st 0 = l at hr hfuel hpre
  obtain ⟨evs, st', fin, rest, frames⟩ := l
  simp only at hr hfuel hpre
  cases fin <;> simp only at hr
  · rw [hr]; exact ⟨⟨_, rfl, hpre⟩, rfl⟩
  · rw [hr]; exact ⟨⟨_, rfl, hpre⟩, rfl⟩
  · rw [hr]; exact ⟨⟨_, rfl, hpre⟩, rfl⟩
  · rw [hr] at hnp; exact absurd rfl hnp
  · rw [hr] at hend; exact absurd rfl hend
  · exact absurd rfl hfuel

/-- …and when the task unwinds (a panic inside the loop) **nothing** of the cleanup happens: no
    end-of-stream, no session-wide withdrawal, the router stays in the router list. -/
theorem C07_bmp_unwound_means_no_cleanup {σ : Type} (v : Variant) (h : Handler σ Out)
    (hne : ∀ st i bs, ∀ o ∈ (h.step st i bs).2.1, o.isEos = false)
    (children : σ → List Nat) (router : Nat) (valid : Nat → List Nat → Verdict) (s : Src) (st : σ) :
    let r := run v h children router valid s st
    r.fin = .panicked → r.inList = true ∧ ∀ o ∈ r.outs, o.isEos = false := by
  intro r hp
  have hpre := loop_no_eos v h valid hne (s.length + 1) s st 0
  have hr : r = run v h children router valid s st := rfl
  unfold run runLoop at hr
  generalize loop v h valid (s.length + 1) s st 0 = l at hr hpre
  obtain ⟨evs, st', fin, rest, frames⟩ := l
  simp only at hr hpre
  cases fin <;> simp only at hr <;> rw [hr] at hp <;> simp at hp
  rw [hr]; exact ⟨rfl, hpre⟩

/-- The clause at full strength for a variant: whatever the script, once the session has ended
    the cleanup is complete (parser and handler assumed not to panic themselves). -/
def C07_bmp_full (v : Variant) : Prop :=
  ∀ {σ : Type} (h : Handler σ Out), (∀ st i bs, ∀ o ∈ (h.step st i bs).2.1, o.isEos = false) →
    (∀ st i bs, (h.step st i bs).2.2 ≠ .crash) →
    ∀ (children : σ → List Nat) (router : Nat) (valid : Nat → List Nat → Verdict),
      (∀ i bs, valid i bs ≠ .crash) → ∀ (s : Src) (st : σ),
        Ended (run v h children router valid s st) → Cleanup (run v h children router valid s st) children router

/-- Holds for every variant with the length guard (the repaired `bmp_read`; the current source as
    soon as the extractor sees the guard, `C07_bmp_source`). -/
theorem C07_bmp_guarded (v : Variant) (hv : sliceStart ≤ v.minLen) : C07_bmp_full v := by
  intro σ h hne hh children router valid hp s st hend
  apply C07_bmp_cleanup_unless_unwound v h hne children router valid s st hend
  have hnp := (loop_no_panic v hv h hh valid hp (s.length + 1) s st 0).2
  unfold run runLoop
  generalize loop v h valid (s.length + 1) s st 0 = l at hnp
  obtain ⟨evs, st', fin, rest, frames⟩ := l
  simp only at hnp ⊢
  cases fin <;> simp at hnp ⊢

theorem C07_bmp_repaired : C07_bmp_full repaired := C07_bmp_guarded repaired (by decide)

theorem C07_bmp_source (h : sliceStart ≤ srcMinLen) : C07_bmp_full sourceVariant :=
  C07_bmp_guarded sourceVariant h

/-- The code as written violates the clause: after Initiation and one Peer Up, the five bytes
    `03 00 00 00 00` end the session (its task unwinds) with no withdrawal of the peer's routes,
    no end-of-stream, and the router still listed. -/
theorem C07_bmp_counterexample : ¬ C07_bmp_full asWritten := by
  intro hfull
  let toks : Nat → Tok := fun i => if i = 0 then .init else .up 1 1
  let s : Src := ([3, 0, 0, 0, 6, 4, 3, 0, 0, 0, 6, 3, 3, 0, 0, 0, 0] : List Nat).map Item.byte
  have h := @hfull PState (peerHandler false toks)
    (by intro st i bs; exact pstep_no_eos st (toks i))
    (by intro st i bs; simp [peerHandler])
    PState.children 2 (fun _ _ => .accept) (by intro i bs; decide) s (PState.init 3) (by unfold Ended; decide)
  have : (run asWritten (peerHandler false toks) PState.children 2 (fun _ _ => .accept) s (PState.init 3)).inList = true := by decide
  rw [h.2] at this
  cases this

/-! ## BMP: with the state machine's peer bookkeeping -/

/-- The session-wide withdrawal covers every peer: at the end of every session the ids of the
    peers that are up are among the ids in the final `WithdrawBulk` (= `ids_for_parent(router)`),
    for every script and classification. -/
theorem C07_up_peers_covered (v : Variant) (toks : Nat → Tok) (router : Nat)
    (valid : Nat → List Nat → Verdict) (s : Src) (next : Nat) :
    let r := run v (peerHandler false toks) PState.children router valid s (PState.init next)
    ∀ id ∈ r.st.upIds, id ∈ r.st.children := by
  intro r id hid
  have hinv : PInv r.st := by
    have := loop_inv v (peerHandler false toks) valid PInv
      (by intro st i bs hst; exact pstep_inv st (toks i) hst) (s.length + 1) s (PState.init next) 0
      (by intro e he; simp [PState.init] at he)
    have hr : r.st = (runLoop v (peerHandler false toks) valid s (PState.init next)).st := by
      show (run v (peerHandler false toks) PState.children router valid s (PState.init next)).st = _
      unfold run
      generalize runLoop v (peerHandler false toks) valid s (PState.init next) = l
      obtain ⟨evs, st', fin, rest, frames⟩ := l
      cases fin <;> rfl
    rw [hr]; exact this
  simp only [PState.upIds, List.mem_map] at hid
  obtain ⟨e, he, rfl⟩ := hid
  exact hinv e he

/-- Ids are never unregistered while messages are processed: a peer that went down earlier (or
    was replaced) is still covered by the final session-wide withdrawal. -/
theorem C07_children_only_grow (st : PState) (t : Tok) (hst : PInv st) :
    ∀ id ∈ st.children, id ∈ (pstep st t).1.children := by
  intro id hid
  obtain ⟨l, hl⟩ := pstep_reg_grows st t hst
  simp only [PState.children, hl, List.map_append, List.mem_append]
  exact Or.inl hid

/-- **A Termination message does not end the session**: the handler never breaks the loop, so
    after Termination the receiver keeps reading; if the router then keeps the connection open and
    silent, the peers' routes are withdrawn (by `terminate`) but no end-of-stream is ever sent and
    the router stays in the router list. Kernel-checked instance: Initiation, Peer Up, Termination,
    then silence. -/
theorem C07_termination_does_not_end_session :
    (∀ toks st i bs, ((peerHandler false toks).step st i bs).2.2 = .cont) ∧
    (let toks : Nat → Tok := fun i => if i = 0 then .init else if i = 1 then .up 1 1 else .term
     let s : Src := ([3, 0, 0, 0, 6, 4, 3, 0, 0, 0, 6, 3, 3, 0, 0, 0, 6, 5] : List Nat).map Item.byte ++ [.idle]
     let r := run repaired (peerHandler false toks) PState.children 2 (fun _ _ => .accept) s (PState.init 3)
     r.fin = .waiting ∧ r.inList = true ∧ r.outs = [.withdrawBulk [3]]) :=
  ⟨fun _ _ _ _ => rfl, by decide⟩

/-- With the proposed repair (leave the loop once the state machine is `Terminated`) the same
    input is cleaned up at once, silent connection or not. -/
theorem C07_termination_repaired :
    let toks : Nat → Tok := fun i => if i = 0 then .init else if i = 1 then .up 1 1 else .term
    let s : Src := ([3, 0, 0, 0, 6, 4, 3, 0, 0, 0, 6, 3, 3, 0, 0, 0, 6, 5] : List Nat).map Item.byte ++ [.idle]
    let r := run repaired (peerHandler true toks) PState.children 2 (fun _ _ => .accept) s (PState.init 3)
    r.fin = .aborted ∧ r.inList = false ∧ r.outs = [.withdrawBulk [3], .withdrawBulk [3], .endOfStream 2] := by
  decide

/-- In general: the repaired handler breaks the loop exactly when the machine becomes `Terminated`. -/
theorem C07_termination_repaired_aborts (toks : Nat → Tok) (st : PState) (i : Nat) (bs : List Nat) :
    ((peerHandler true toks).step st i bs).2.2 = .abort ↔ (pstep st (toks i)).1.phase = .terminated := by
  simp only [peerHandler, Bool.true_and]
  cases (pstep st (toks i)).1.phase <;> simp

/-- …whereas (as written) Termination followed by the router closing the connection is cleaned
    up like any other end (an instance of `C07_bmp_repaired`, shown concretely). -/
example :
    let toks : Nat → Tok := fun i => if i = 0 then .init else if i = 1 then .up 1 1 else .term
    let s : Src := ([3, 0, 0, 0, 6, 4, 3, 0, 0, 0, 6, 3, 3, 0, 0, 0, 6, 5] : List Nat).map Item.byte
    let r := run repaired (peerHandler false toks) PState.children 2 (fun _ _ => .accept) s (PState.init 3)
    r.inList = false ∧ r.outs = [.withdrawBulk [3], .withdrawBulk [3], .endOfStream 2] := by decide

/-! ## BGP (`bgp_tcp_in/router_handler.rs`) -/

/-- The clause for BGP sessions: when the processor returns, exactly one end-of-stream was sent. -/
def C07_bgp_full : Prop :=
  ∀ (id : Nat) (evs : List BgpEv), (bgpRun id evs).ended = true →
    ((bgpRun id evs).outs.filter Out.isEos).length = 1

/-- The BGP processor **never** sends an end-of-stream, on any event sequence ("TODO send
    Payload::bgp_eof" in the source). -/
theorem C07_bgp_never_eos (id : Nat) (evs : List BgpEv) : ∀ o ∈ (bgpRun id evs).outs, o.isEos = false :=
  bgpLoop_no_eos id evs false false [] (by intro o ho; cases ho)

theorem C07_bgp_counterexample : ¬ C07_bgp_full := by
  intro h
  have := h 7 [.negotiated, .update, .connectionLost] (by decide)
  revert this; decide

/-- What does hold for BGP: a negotiated session that ends by connection loss, channel close,
    FSM error or unit reconfiguration — after any number of updates, notifications and gate
    terminations — sends `Withdraw(session id)` as its last update and leaves `live_sessions`. -/
theorem C07_bgp_partial (id : Nat) (mid : List BgpEv) (e : BgpEv)
    (hm : ∀ x ∈ mid, x.continues = true)
    (he : e = .connectionLost ∨ e = .channelClosed ∨ e = .tickError ∨ e = .reconfiguredUnit) :
    let r := bgpRun id (.negotiated :: mid ++ [e])
    r.ended = true ∧ r.live = false ∧ r.outs = bgpData mid ++ [.withdraw id] := by
  intro r
  have hr : r = bgpLoop id (mid ++ [e]) true true [] := by
    show bgpRun id (.negotiated :: mid ++ [e]) = _
    simp [bgpRun, bgpLoop]
  rw [hr, bgpLoop_mid id mid [e] hm []]
  rcases he with rfl | rfl | rfl | rfl <;> simp [bgpLoop]

/-- Gate termination alone does not end a BGP session's processor (`//break` is commented out):
    it keeps waiting until the routecore session reports the connection lost. -/
example : (bgpRun 7 [.negotiated, .gateTerminated]).ended = false := by decide
/-- A session that was never negotiated has nothing to withdraw. -/
example : (bgpRun 7 [.connectionLost]).outs = [] ∧ (bgpRun 7 [.connectionLost]).ended = true := by decide

/-! ## Non-vacuity -/

/-- Cut in the middle of the third message with a connection reset: cleanup with both peers' ids. -/
example :
    let toks : Nat → Tok := fun i => if i = 0 then .init else .up i i
    let s : Src := ([3, 0, 0, 0, 6, 4, 3, 0, 0, 0, 6, 3, 3, 0, 0, 0, 6, 3, 3, 0, 0] : List Nat).map Item.byte ++ [.fault .connectionReset]
    let r := run repaired (peerHandler false toks) PState.children 2 (fun _ _ => .accept) s (PState.init 3)
    r.fin = .fatal .connectionReset ∧ r.inList = false ∧ r.outs = [.withdrawBulk [3, 4], .endOfStream 2] := by decide

/-- `Ended` excludes something real (a silent open connection is not an end). -/
example : ¬ Ended (run repaired (peerHandler false (fun _ => .init)) PState.children 2 (fun _ _ => .accept) [.idle] (PState.init 3)) := by
  intro h; exact h (by decide)

end Rotonda.BmpSession
