import RotondaModel.Proofs.PipeBmp
import RotondaModel.Props.C01
import RotondaModel.Props.C02
import RotondaModel.Props.C03
/-!
# PipeBmp — C01 / C02 / C03 over histories of BMP messages

Model: `Model/PipeBmp.lean` = `Bmp.step` (C05's state machine, unchanged) feeding `Rib.apply` (the RIB
unit of C01–C03, unchanged), any number of router sessions on one ingress register.  A history is a
list of `connect` / `msg i m` events; `m` is a BMP message *with* the route content of its UPDATE.
Every theorem quantifies over all histories (no bound), all key maps `K`, and the variants it names.

* `PipeBmp_refines`        the composed model refines the ten-line tracker (`Track`): after any history
                           the RIB **is** `Rib.run` of the route data of peers that were up when they sent it
                           (`trace`), and phases / peer tables / register abstract to the tracker's state.
                           Guard `Ev.ok`: what the state machine takes for End-of-RIB carries no route —
                           for the repaired `end_of_rib` a parser fact (`ok_of_consistent`), for the code as
                           written it excludes real messages (`PipeBmp_eor_counterexample`).
* `mem_trace_upd/down/downBulk`  where the events of `trace` come from (only up peers, their own ids).
* (a) `PipeBmp_C01_*`      C01 over BMP histories.   (b) `PipeBmp_C02_*`  C02.   (c) `PipeBmp_C03_*`  C03.
-/
namespace Rotonda.PipeBmp
open Rotonda

/-! ## Refinement -/

/-- **The composition refines the tracker.** For every BMP history whose End-of-RIB markers carry no
    routes: the abstraction of the reached world is the tracker's state, and the RIB is the replay
    (`Rib.run`) of the tracker's RIB history. -/
theorem PipeBmp_refines (v : Variant) (K : Nat → Hdr → Key) (H : History) (hok : H.all (Ev.ok v.bmp) = true) :
    (run v K H).abs = Track.init.runFrom K H ∧ (run v K H).rib = Rib.run v.rib (trace K H) :=
  World.runFrom_ref v K H World.init World.Inv_init hok

/-- With the repaired `end_of_rib` (only an UPDATE without any NLRI is an End-of-RIB marker) the guard
    is the parser contract between token and content, which the driver checks on every case. -/
theorem ok_of_consistent (vb : Bmp.Variant) (hv : vb.eorAnyUpdate = false) (m : Msg) (hc : m.consistent = true) :
    m.ok vb = true := by
  cases m with
  | routeMon h t u =>
    simp only [Msg.ok, Bmp.effEor, hv, Bool.or_eq_true]
    cases hp : t.pure with
    | false => exact Or.inl rfl
    | true =>
      right
      cases u with
      | malformed => rfl
      | ok a ann wd =>
        simp only [Msg.consistent, hp, Bool.and_eq_true, beq_iff_eq] at hc
        have h1 := hc.1.1.2
        simp only [Bool.true_eq, Bool.and_eq_true, List.isEmpty_iff] at h1
        simp [noRoutes, h1.1, h1.2, Rib.explodeList]
  | _ => rfl

theorem PipeBmp_refines_repaired (v : Variant) (hv : v.bmp.eorAnyUpdate = false) (K : Nat → Hdr → Key) (H : History)
    (hc : ∀ i m, Ev.msg i m ∈ H → m.consistent = true) :
    (run v K H).abs = Track.init.runFrom K H ∧ (run v K H).rib = Rib.run v.rib (trace K H) := by
  apply PipeBmp_refines
  rw [List.all_eq_true]
  intro e he
  cases e with
  | connect rk => rfl
  | msg i m => exact ok_of_consistent v.bmp hv m (hc i m he)

def p24 : Rib.Prefix := ⟨.v4, 24, 655617⟩   -- 10.1.1.0/24
def ann24 (a : Rib.AttrId) : Rib.Upd := .ok a [⟨p24, .unicast⟩] []
/-- the parser's report for a one-route IPv4 announcement -/
def tok1 : Bmp.Rm := ⟨true, true, none, false, 1, 0, 257, true, true⟩
/-- … for the same with an empty MP_UNREACH_NLRI (IPv6 unicast) next to it: `is_eor()` answers -/
def tokE : Bmp.Rm := ⟨true, true, some 513, false, 1, 0, 257, true, true⟩
/-- … for a plain IPv4 End-of-RIB marker -/
def tokEor : Bmp.Rm := ⟨true, true, some 257, true, 0, 0, 0, true, true⟩

/-- A history with a dump that is completed by an End-of-RIB marker, a second router, a peer flap and a Termination. -/
def exH : History := [.connect 0, .msg 0 .init, .msg 0 (.peerUp 0 true true), .msg 0 (.routeMon 0 tok1 (ann24 5)),
  .connect 1, .msg 0 (.routeMon 0 tokEor (.ok 0 [] [])), .msg 1 .init, .msg 1 (.peerUp 0 false true),
  .msg 1 (.routeMon 0 tok1 (ann24 6)), .msg 0 (.peerDown 0), .msg 0 (.peerUp 0 true true), .msg 1 .term]
def exK : Nat → Hdr → Key := fun i h => 100 + 10 * i + h

-- the hypotheses are satisfiable by it (both for the code as written and with the parser contract)
example : exH.all (Ev.ok Bmp.asWritten) = true ∧
    exH.all (fun e => match e with | .msg _ m => m.consistent | _ => true) = true ∧
    trace exK exH = [.upd 3 (ann24 5), .upd 3 (.ok 0 [] []), .upd 5 (ann24 6), .down 3, .downBulk [5]] ∧
    (run asWritten exK exH).rib.query p24 = [⟨3, .withdrawn, 5⟩, ⟨5, .withdrawn, 6⟩] := by decide

/-- The refinement as stated, without the guard. -/
def PipeBmp_refines_full (v : Variant) : Prop :=
  ∀ (K : Nat → Hdr → Key) (H : History), (run v K H).rib = Rib.run v.rib (trace K H)

/-- **False for the state machine as written** (C05's finding seen at the RIB): an UPDATE with an empty
    MP_UNREACH_NLRI next to a route is taken for the End-of-RIB that completes the dump; its route
    never reaches the RIB although the peer was up and the UPDATE parsed. -/
theorem PipeBmp_eor_counterexample : ¬ PipeBmp_refines_full asWritten := by
  intro hf
  have := hf (fun _ h => h) [.connect 0, .msg 0 .init, .msg 0 (.peerUp 0 true true), .msg 0 (.routeMon 0 tokE (ann24 5))]
  revert this
  decide

example : (Ev.msg 0 (.routeMon 0 tokE (ann24 5))).ok Bmp.asWritten = false := by decide
example : (Ev.msg 0 (.routeMon 0 tokE (ann24 5))).ok Bmp.repaired = true := by decide

/-! ## Where the RIB history comes from: only peers that are up, under their own ids -/

theorem mem_traceFrom (K : Nat → Hdr → Key) (x : Rib.Ev) (H : History) (T : Track) :
    x ∈ traceFrom K T H ↔ ∃ H1 e H2, H = H1 ++ e :: H2 ∧ x ∈ ((T.runFrom K H1).step K e).2 := by
  induction H generalizing T with
  | nil => simp [traceFrom]
  | cons e0 H ih =>
    rw [traceFrom_cons, List.mem_append, ih]
    constructor
    · rintro (h | ⟨H1, e, H2, rfl, hx⟩)
      · exact ⟨[], e0, H, rfl, h⟩
      · exact ⟨e0 :: H1, e, H2, rfl, by simpa [Track.runFrom] using hx⟩
    · rintro ⟨H1, e, H2, heq, hx⟩
      cases H1 with
      | nil =>
        simp only [List.nil_append, List.cons.injEq] at heq
        obtain ⟨rfl, rfl⟩ := heq
        exact Or.inl hx
      | cons e1 H1 =>
        simp only [List.cons_append, List.cons.injEq] at heq
        obtain ⟨rfl, rfl⟩ := heq
        exact Or.inr ⟨H1, e, H2, rfl, by simpa [Track.runFrom] using hx⟩

/-- What one message contributes, read off the tracker's session. -/
theorem mem_step_evs (K : Nat → Hdr → Key) (T : Track) (e : Ev) (x : Rib.Ev) (hx : x ∈ (T.step K e).2) :
    ∃ i m s, e = .msg i m ∧ T.sess[i]? = some s ∧ s.life = .live ∧
      ((∃ h t u mui, m = .routeMon h t u ∧ Bmp.lookupUp h s.up = some mui ∧ deliverable t = true ∧ x = .upd mui u) ∨
       (∃ h mui, m = .peerDown h ∧ Bmp.lookupUp h s.up = some mui ∧ x = .down mui) ∨
       (m = .term ∧ s.up ≠ [] ∧ x = .downBulk (s.up.map (·.2)))) := by
  cases e with
  | connect rk => simp [Track.step] at hx
  | msg i m =>
    simp only [Track.step] at hx
    cases hg : T.sess[i]? with
    | none => simp [hg] at hx
    | some s =>
      simp only [hg, TSess.step] at hx
      refine ⟨i, m, s, rfl, hg, ?_⟩
      cases hl : s.life with
      | fresh => cases m <;> simp [hl] at hx
      | dead => simp [hl] at hx
      | live =>
        refine ⟨rfl, ?_⟩
        simp only [hl] at hx
        cases m with
        | init => simp at hx
        | stats _ => simp at hx
        | mirror _ => simp at hx
        | peerUp h e c => cases hu : Bmp.lookupUp h s.up <;> simp [hu] at hx
        | peerDown h =>
          cases hu : Bmp.lookupUp h s.up with
          | none => simp [hu] at hx
          | some mui =>
            simp only [hu, List.mem_singleton] at hx
            exact Or.inr (Or.inl ⟨h, mui, rfl, hu, hx⟩)
        | routeMon h t u =>
          cases hu : Bmp.lookupUp h s.up with
          | none => simp [hu] at hx
          | some mui =>
            cases hd : deliverable t with
            | false => simp [hu, hd] at hx
            | true =>
              simp only [hu, hd, List.mem_singleton] at hx
              exact Or.inl ⟨h, t, u, mui, rfl, hu, hd, hx⟩
        | term =>
          cases hm : s.up with
          | nil => simp [hm] at hx
          | cons a b =>
            simp only [hm, List.map_cons, List.mem_singleton] at hx
            exact Or.inr (Or.inr ⟨rfl, by simp, by simpa using hx⟩)

/-- **Route data is taken only from peers that are up, under their own ingress id**: every UPDATE in
    the RIB history of a BMP history is the content of a Route Monitoring message that parsed and whose
    header was up (with that id) on a live session at that point of the history. -/
theorem mem_trace_upd (K : Nat → Hdr → Key) (H : History) (mui : Mui) (u : Rib.Upd)
    (hx : Rib.Ev.upd mui u ∈ trace K H) :
    ∃ H1 i h t H2 s, H = H1 ++ .msg i (.routeMon h t u) :: H2 ∧ deliverable t = true ∧
      (Track.init.runFrom K H1).sess[i]? = some s ∧ s.life = .live ∧ Bmp.lookupUp h s.up = some mui := by
  obtain ⟨H1, e, H2, rfl, hx'⟩ := (mem_traceFrom K _ H _).mp hx
  obtain ⟨i, m, s, rfl, hs, hl, h1 | h1 | h1⟩ := mem_step_evs K _ e _ hx'
  · obtain ⟨h, t, u', mui', rfl, hu, hd, heq⟩ := h1
    cases heq
    exact ⟨H1, i, h, t, H2, s, rfl, hd, hs, hl, hu⟩
  · obtain ⟨h, mui', _, _, heq⟩ := h1; cases heq
  · obtain ⟨_, _, heq⟩ := h1; cases heq

/-- A session-level withdrawal in the RIB history is a Peer Down of a header that was up with that id … -/
theorem mem_trace_down (K : Nat → Hdr → Key) (H : History) (mui : Mui) (hx : Rib.Ev.down mui ∈ trace K H) :
    ∃ H1 i h H2 s, H = H1 ++ .msg i (.peerDown h) :: H2 ∧
      (Track.init.runFrom K H1).sess[i]? = some s ∧ s.life = .live ∧ Bmp.lookupUp h s.up = some mui := by
  obtain ⟨H1, e, H2, rfl, hx'⟩ := (mem_traceFrom K _ H _).mp hx
  obtain ⟨i, m, s, rfl, hs, hl, h1 | h1 | h1⟩ := mem_step_evs K _ e _ hx'
  · obtain ⟨h, t, u', mui', _, _, _, heq⟩ := h1; cases heq
  · obtain ⟨h, mui', rfl, hu, heq⟩ := h1
    cases heq
    exact ⟨H1, i, h, H2, s, rfl, hs, hl, hu⟩
  · obtain ⟨_, _, heq⟩ := h1; cases heq

/-- … or a Termination, naming exactly the ids of the headers that were up on that session. -/
theorem mem_trace_downBulk (K : Nat → Hdr → Key) (H : History) (ids : List Mui)
    (hx : Rib.Ev.downBulk ids ∈ trace K H) :
    ∃ H1 i H2 s, H = H1 ++ .msg i .term :: H2 ∧
      (Track.init.runFrom K H1).sess[i]? = some s ∧ s.life = .live ∧ ids = s.up.map (·.2) := by
  obtain ⟨H1, e, H2, rfl, hx'⟩ := (mem_traceFrom K _ H _).mp hx
  obtain ⟨i, m, s, rfl, hs, hl, h1 | h1 | h1⟩ := mem_step_evs K _ e _ hx'
  · obtain ⟨h, t, u', mui', _, _, _, heq⟩ := h1; cases heq
  · obtain ⟨h, mui', _, _, heq⟩ := h1; cases heq
  · obtain ⟨rfl, _, heq⟩ := h1
    cases heq
    exact ⟨H1, i, H2, s, rfl, hs, hl, rfl⟩

/-! ## (a) C01 over BMP histories -/

/-- **C01 over BMP, refinement.** For every BMP history, SAFI table, prefix and ingress id: the stored
    record and the marker are the fold of C01's per-event specification over the route data of peers
    that were up when they sent it. -/
theorem PipeBmp_C01_refinement (v : Variant) (K : Nat → Hdr → Key) (H : History) (hok : H.all (Ev.ok v.bmp) = true)
    (mc : Bool) (p : Rib.Prefix) (m : Mui) :
    (run v K H).rib.abs mc p m = Rib.specRun v.rib mc p m (trace K H) := by
  rw [(PipeBmp_refines v K H hok).2]
  exact Rib.C01_refinement v.rib (trace K H) mc p m

example : (run asWritten exK exH).rib.abs false p24 3 = ⟨some (.active, 5), true⟩ := by decide

/-- Exactly one entry per ingress id in every answer, after every BMP history. -/
theorem PipeBmp_C01_exactly_one (v : Variant) (K : Nat → Hdr → Key) (H : History) (hok : H.all (Ev.ok v.bmp) = true)
    (p : Rib.Prefix) (o : Rib.MatchOpts) : (((run v K H).rib.query p o).map Rib.Rec.mui).Nodup := by
  rw [(PipeBmp_refines v K H hok).2]
  exact Rib.C01_exactly_one v.rib (trace K H) p o

/-- **C01 over BMP, as long as no session ends**: if no Peer Down / Termination of an up peer occurred
    (`trace` has UPDATEs only), the answer of `Rib::match_prefix` for every prefix is C01's replay
    specification `last` over the route data of the up peers — under C01's own two guards. -/
theorem PipeBmp_C01_updates (v : Variant) (K : Nat → Hdr → Key) (H : History) (hok : H.all (Ev.ok v.bmp) = true)
    (hu : (trace K H).all Rib.Ev.isUpd = true)
    (hov : v.rib.overlapFix = true ∨ (trace K H).all Rib.Ev.noOverlap = true)
    (p : Rib.Prefix) (hs : Rib.singleSafi (trace K H) p = true) (m : Mui) (st : Rib.Status) (a : Rib.AttrId) :
    (⟨m, st, a⟩ : Rib.Rec) ∈ (run v K H).rib.query p ↔ Rib.last (trace K H) p m = some (st, a) := by
  rw [(PipeBmp_refines v K H hok).2]
  exact Rib.C01_guarded v.rib (trace K H) hu hov p hs m st a

example : let H : History := [.connect 0, .msg 0 .init, .msg 0 (.peerUp 0 true true), .msg 0 (.routeMon 0 tok1 (ann24 5)),
      .msg 0 (.routeMon 1 tok1 (ann24 9)), .msg 0 (.peerUp 1 false true), .msg 0 (.routeMon 1 tok1 (ann24 6)),
      .msg 0 (.routeMon 0 tok1 (.ok 0 [] [⟨p24, .unicast⟩]))]
    H.all (Ev.ok Bmp.asWritten) = true ∧ (trace exK H).all Rib.Ev.isUpd = true ∧ (trace exK H).all Rib.Ev.noOverlap = true ∧
    Rib.singleSafi (trace exK H) p24 = true ∧ Rib.last (trace exK H) p24 3 = some (.withdrawn, 5) ∧
    Rib.last (trace exK H) p24 4 = some (.active, 6) := by decide

/-- (a) as stated, for *every* BMP history (session ends included): what is reported for a key is the
    replay of the peers' route data under the property's reading of a session end (`intended`: the
    peer's routes are withdrawn, what it announces afterwards is active again). -/
def PipeBmp_C01_full (v : Variant) : Prop :=
  ∀ (K : Nat → Hdr → Key) (H : History), H.all (Ev.ok v.bmp) = true → ∀ (mc : Bool) (p : Rib.Prefix) (m : Mui),
    (run v K H).rib.entry mc p m = (Rib.specRun (intended v.rib) mc p m (trace K H)).entry

/-- Announce, Peer Down, Peer Up (the same ingress id comes back), announce again. -/
def flapH : History := [.connect 0, .msg 0 .init, .msg 0 (.peerUp 0 false true), .msg 0 (.routeMon 0 tok1 (ann24 5)),
  .msg 0 (.peerDown 0), .msg 0 (.peerUp 0 false true), .msg 0 (.routeMon 0 tok1 (ann24 7))]

/-- **False as written**: after a Peer Down / Peer Up the re-announced route is reported withdrawn. -/
theorem PipeBmp_C01_counterexample : ¬ PipeBmp_C01_full asWritten := by
  intro hf
  have := hf exK flapH (by decide) false p24 3
  revert this
  decide

/-- **(a), partial, code as written**: the full statement for every key that is not announced again
    after a session-level withdrawal (Peer Down / Termination of an up peer) of its ingress id. -/
theorem PipeBmp_C01_partial (v : Variant) (hv : v.rib.perRecordWithdraw = false) (K : Nat → Hdr → Key) (H : History)
    (hok : H.all (Ev.ok v.bmp) = true) (mc : Bool) (p : Rib.Prefix) (m : Mui)
    (hg : annAfterDown mc p m false (trace K H) = false) :
    (run v K H).rib.entry mc p m = (Rib.specRun (intended v.rib) mc p m (trace K H)).entry := by
  rw [Rib.Rib.entry_eq_abs, PipeBmp_C01_refinement v K H hok]
  exact specRun_entry_intended v.rib hv mc p m (trace K H) hg

-- the guard holds for the second router's key in `exH` (its peer never comes back) and for every key of a
-- history in which peers flap but re-announce other prefixes; it excludes exactly the flap witness
example : annAfterDown false p24 5 false (trace exK exH) = false ∧ annAfterDown false p24 3 false (trace exK flapH) = true := by decide

/-- **(a), repaired RIB**: with per-record withdrawal the full statement holds for every history. -/
theorem PipeBmp_C01_repaired (v : Variant) (hv : v.rib.perRecordWithdraw = true) : PipeBmp_C01_full v := by
  intro K H hok mc p m
  rw [Rib.Rib.entry_eq_abs, PipeBmp_C01_refinement v K H hok]
  have : intended v.rib = v.rib := by
    cases hr : v.rib
    simp only [hr] at hv
    simp [intended, hv]
  rw [this]

example : (run ⟨Bmp.repaired, { perRecordWithdraw := true }⟩ exK flapH).rib.query p24 = [⟨3, .active, 7⟩] := by decide

end Rotonda.PipeBmp
