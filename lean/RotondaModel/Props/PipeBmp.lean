import RotondaModel.Proofs.PipeBmp
import RotondaModel.Props.C01
import RotondaModel.Props.C02
import RotondaModel.Props.C03
/-!
# PipeBmp — C01 / C02 / C03 over histories of BMP messages

Model: `Model/PipeBmp.lean` = `Bmp.step` (C05's state machine, unchanged) feeding `Rib.apply` (the RIB
unit of C01–C03, unchanged), any number of router sessions on one ingress register.  A history is a
list of `connect` / `msg i m` events; `m` is a BMP message *with* the route content of its UPDATE.
Every theorem quantifies over all histories (no bound), all key maps `K`, and the variants it names.

* `PipeBmp_refines`        the composed model refines the ten-line tracker (`Track`): after any history
                           the RIB **is** `Rib.run` of the route data of peers that were up when they sent it
                           (`trace`), and phases / peer tables / register abstract to the tracker's state.
                           Guard `Ev.ok`: what the state machine takes for End-of-RIB carries no route —
                           for the repaired `end_of_rib` a parser fact (`ok_of_consistent`), for the code as
                           written it excludes real messages (`PipeBmp_eor_counterexample`).
* `mem_trace_upd/down/downBulk`  where the events of `trace` come from (only up peers, their own ids).
* (a) `PipeBmp_C01_*`      C01 over BMP histories.   (b) `PipeBmp_C02_*`  C02.   (c) `PipeBmp_C03_*`  C03.
-/
namespace Rotonda.PipeBmp
open Rotonda

/-! ## Refinement -/

/-- **The composition refines the tracker.** For every BMP history whose End-of-RIB markers carry no
    routes: the abstraction of the reached world is the tracker's state, and the RIB is the replay
    (`Rib.run`) of the tracker's RIB history. -/
theorem PipeBmp_refines (v : Variant) (K : Nat → Hdr → Key) (H : History) (hok : H.all (Ev.ok v.bmp) = true) :
    (run v K H).abs = Track.init.runFrom K H ∧ (run v K H).rib = Rib.run v.rib (trace K H) :=
  World.runFrom_ref v K H World.init World.Inv_init hok

/-- With the repaired `end_of_rib` (only an UPDATE without any NLRI is an End-of-RIB marker) the guard
    is the parser contract between token and content, which the driver checks on every case. -/
theorem ok_of_consistent (vb : Bmp.Variant) (hv : vb.eorAnyUpdate = false) (m : Msg) (hc : m.consistent = true) :
    m.ok vb = true := by
  cases m with
  | routeMon h t u =>
    simp only [Msg.ok, Bmp.effEor, hv, Bool.or_eq_true]
    cases hp : t.pure with
    | false => exact Or.inl rfl
    | true =>
      right
      cases u with
      | malformed => rfl
      | ok a ann wd =>
        simp only [Msg.consistent, hp, Bool.and_eq_true, beq_iff_eq] at hc
        have h1 := hc.1.1.2
        simp only [Bool.true_eq, Bool.and_eq_true, List.isEmpty_iff] at h1
        simp [noRoutes, h1.1, h1.2, Rib.explodeList]
  | _ => rfl

theorem PipeBmp_refines_repaired (v : Variant) (hv : v.bmp.eorAnyUpdate = false) (K : Nat → Hdr → Key) (H : History)
    (hc : ∀ i m, Ev.msg i m ∈ H → m.consistent = true) :
    (run v K H).abs = Track.init.runFrom K H ∧ (run v K H).rib = Rib.run v.rib (trace K H) := by
  apply PipeBmp_refines
  rw [List.all_eq_true]
  intro e he
  cases e with
  | connect rk => rfl
  | disconnect i => rfl
  | msg i m => exact ok_of_consistent v.bmp hv m (hc i m he)

def p24 : Rib.Prefix := ⟨.v4, 24, 655617⟩   -- 10.1.1.0/24
def ann24 (a : Rib.AttrId) : Rib.Upd := .ok a [⟨p24, .unicast⟩] []
/-- the parser's report for a one-route IPv4 announcement -/
def tok1 : Bmp.Rm := ⟨true, true, none, false, 1, 0, 257, true, true⟩
/-- … for the same with an empty MP_UNREACH_NLRI (IPv6 unicast) next to it: `is_eor()` answers -/
def tokE : Bmp.Rm := ⟨true, true, some 513, false, 1, 0, 257, true, true⟩
/-- … for a plain IPv4 End-of-RIB marker -/
def tokEor : Bmp.Rm := ⟨true, true, some 257, true, 0, 0, 0, true, true⟩

/-- A history with a dump that is completed by an End-of-RIB marker, a second router, a peer flap and a Termination. -/
def exH : History := [.connect 0, .msg 0 .init, .msg 0 (.peerUp 0 true true), .msg 0 (.routeMon 0 tok1 (ann24 5)),
  .connect 1, .msg 0 (.routeMon 0 tokEor (.ok 0 [] [])), .msg 1 .init, .msg 1 (.peerUp 0 false true),
  .msg 1 (.routeMon 0 tok1 (ann24 6)), .msg 0 (.peerDown 0), .msg 0 (.peerUp 0 true true), .msg 1 .term]
def exK : Nat → Hdr → Key := fun i h => 100 + 10 * i + h

-- the hypotheses are satisfiable by it (both for the code as written and with the parser contract)
example : exH.all (Ev.ok Bmp.asWritten) = true ∧
    exH.all (fun e => match e with | .msg _ m => m.consistent | _ => true) = true ∧
    want exK exH = [.upd 3 (ann24 5), .upd 3 (.ok 0 [] []), .upd 5 (ann24 6), .down 3, .downBulk [5]] ∧
    trace exK exH = [.upd 3 (ann24 5), .upd 3 (.ok 0 [] []), .upd 5 (ann24 6), .down 3, .downBulk [5], .downBulk [5]] ∧
    (run asWritten exK exH).rib.query p24 = [⟨3, .withdrawn, 5⟩, ⟨5, .withdrawn, 6⟩] := by decide

/-- The refinement as stated, without the guard. -/
def PipeBmp_refines_full (v : Variant) : Prop :=
  ∀ (K : Nat → Hdr → Key) (H : History), (run v K H).rib = Rib.run v.rib (trace K H)

/-- **False for the state machine as written** (C05's finding seen at the RIB): an UPDATE with an empty
    MP_UNREACH_NLRI next to a route is taken for the End-of-RIB that completes the dump; its route
    never reaches the RIB although the peer was up and the UPDATE parsed. -/
theorem PipeBmp_eor_counterexample : ¬ PipeBmp_refines_full asWritten := by
  intro hf
  have := hf (fun _ h => h) [.connect 0, .msg 0 .init, .msg 0 (.peerUp 0 true true), .msg 0 (.routeMon 0 tokE (ann24 5))]
  revert this
  decide

example : (Ev.msg 0 (.routeMon 0 tokE (ann24 5))).ok Bmp.asWritten = false := by decide
example : (Ev.msg 0 (.routeMon 0 tokE (ann24 5))).ok Bmp.repaired = true := by decide

/-! ## Where the RIB history comes from: only peers that are up, under their own ids -/

theorem mem_traceFrom (K : Nat → Hdr → Key) (x : Rib.Ev) (H : History) (T : Track) :
    x ∈ traceFrom K T H ↔ ∃ H1 e H2, H = H1 ++ e :: H2 ∧ x ∈ ((T.runFrom K H1).step K e).2 := by
  induction H generalizing T with
  | nil => simp [traceFrom]
  | cons e0 H ih =>
    rw [traceFrom_cons, List.mem_append, ih]
    constructor
    · rintro (h | ⟨H1, e, H2, rfl, hx⟩)
      · exact ⟨[], e0, H, rfl, h⟩
      · exact ⟨e0 :: H1, e, H2, rfl, by simpa [Track.runFrom] using hx⟩
    · rintro ⟨H1, e, H2, heq, hx⟩
      cases H1 with
      | nil =>
        simp only [List.nil_append, List.cons.injEq] at heq
        obtain ⟨rfl, rfl⟩ := heq
        exact Or.inl hx
      | cons e1 H1 =>
        simp only [List.cons_append, List.cons.injEq] at heq
        obtain ⟨rfl, rfl⟩ := heq
        exact Or.inr ⟨H1, e, H2, rfl, by simpa [Track.runFrom] using hx⟩

theorem mem_wantFrom (K : Nat → Hdr → Key) (x : Rib.Ev) (H : History) (T : Track) :
    x ∈ wantFrom K T H ↔ ∃ H1 e H2, H = H1 ++ e :: H2 ∧ x ∈ (T.runFrom K H1).want K e := by
  induction H generalizing T with
  | nil => simp [wantFrom]
  | cons e0 H ih =>
    rw [wantFrom, List.mem_append, ih]
    constructor
    · rintro (h | ⟨H1, e, H2, rfl, hx⟩)
      · exact ⟨[], e0, H, rfl, h⟩
      · exact ⟨e0 :: H1, e, H2, rfl, by simpa [Track.runFrom] using hx⟩
    · rintro ⟨H1, e, H2, heq, hx⟩
      cases H1 with
      | nil =>
        simp only [List.nil_append, List.cons.injEq] at heq
        obtain ⟨rfl, rfl⟩ := heq
        exact Or.inl hx
      | cons e1 H1 =>
        simp only [List.cons_append, List.cons.injEq] at heq
        obtain ⟨rfl, rfl⟩ := heq
        exact Or.inr ⟨H1, e, H2, rfl, by simpa [Track.runFrom] using hx⟩

/-- What one message on a live session asks of the RIB, read off the tracker's session. -/
theorem mem_want_msg (K : Nat → Hdr → Key) (T : Track) (i : Nat) (m : Msg) (x : Rib.Ev)
    (hx : x ∈ T.want K (.msg i m)) :
    ∃ s, T.sess[i]? = some s ∧ s.life = .live ∧
      ((∃ h t u mui, m = .routeMon h t u ∧ Bmp.lookupUp h s.up = some mui ∧ deliverable t = true ∧ x = .upd mui u) ∨
       (∃ h mui, m = .peerDown h ∧ Bmp.lookupUp h s.up = some mui ∧ x = .down mui) ∨
       (m = .term ∧ s.up ≠ [] ∧ x = .downBulk (s.up.map (·.2)))) := by
  simp only [Track.want] at hx
  cases hg : T.sess[i]? with
  | none => simp [hg] at hx
  | some s =>
    simp only [hg, TSess.step] at hx
    refine ⟨s, rfl, ?_⟩
    cases hl : s.life with
    | fresh => cases m <;> simp [hl] at hx
    | dead => simp [hl] at hx
    | live =>
      refine ⟨rfl, ?_⟩
      simp only [hl] at hx
      cases m with
      | init => simp at hx
      | stats _ => simp at hx
      | mirror _ => simp at hx
      | peerUp h e c => cases hu : Bmp.lookupUp h s.up <;> simp [hu] at hx
      | peerDown h =>
        cases hu : Bmp.lookupUp h s.up with
        | none => simp [hu] at hx
        | some mui =>
          simp only [hu, List.mem_singleton] at hx
          exact Or.inr (Or.inl ⟨h, mui, rfl, hu, hx⟩)
      | routeMon h t u =>
        cases hu : Bmp.lookupUp h s.up with
        | none => simp [hu] at hx
        | some mui =>
          cases hd : deliverable t with
          | false => simp [hu, hd] at hx
          | true =>
            simp only [hu, hd, List.mem_singleton] at hx
            exact Or.inl ⟨h, t, u, mui, rfl, hu, hd, hx⟩
      | term =>
        cases hm : s.up with
        | nil => simp [hm] at hx
        | cons a b =>
          simp only [hm, List.map_cons, List.mem_singleton] at hx
          exact Or.inr (Or.inr ⟨rfl, by simp, by simpa using hx⟩)

/-- … and what a lost connection asks: one withdrawal of the ids of the peers that were up on it. -/
theorem mem_want_disconnect (K : Nat → Hdr → Key) (T : Track) (i : Nat) (x : Rib.Ev)
    (hx : x ∈ T.want K (.disconnect i)) :
    ∃ s, T.sess[i]? = some s ∧ s.up ≠ [] ∧ x = .downBulk (s.up.map (·.2)) := by
  simp only [Track.want] at hx
  cases hg : T.sess[i]? with
  | none => simp [hg] at hx
  | some s =>
    simp only [hg] at hx
    have hx' : x ∈ s.endEvs := by
      cases hl : s.life <;> simp only [hl] at hx
      · exact hx
      · exact hx
      · simp at hx
    simp only [TSess.endEvs] at hx'
    cases hm : s.up with
    | nil => simp [hm] at hx'
    | cons a b =>
      simp only [hm, List.map_cons, List.mem_singleton] at hx'
      exact ⟨_, rfl, by simp [hm], by simpa [hm] using hx'⟩

/-- **Route data is taken only from peers that are up, under their own ingress id**: every UPDATE in
    the wanted RIB history of a BMP history is the content of a Route Monitoring message that parsed and whose
    header was up (with that id) on a live session at that point of the history. -/
theorem mem_want_upd (K : Nat → Hdr → Key) (H : History) (mui : Mui) (u : Rib.Upd)
    (hx : Rib.Ev.upd mui u ∈ want K H) :
    ∃ H1 i h t H2 s, H = H1 ++ .msg i (.routeMon h t u) :: H2 ∧ deliverable t = true ∧
      (Track.init.runFrom K H1).sess[i]? = some s ∧ s.life = .live ∧ Bmp.lookupUp h s.up = some mui := by
  obtain ⟨H1, e, H2, rfl, hx'⟩ := (mem_wantFrom K _ H _).mp hx
  cases e with
  | connect rk => simp [Track.want] at hx'
  | disconnect i => obtain ⟨s, _, _, heq⟩ := mem_want_disconnect K _ i _ hx'; cases heq
  | msg i m =>
    obtain ⟨s, hs, hl, h1 | h1 | h1⟩ := mem_want_msg K _ i m _ hx'
    · obtain ⟨h, t, u', mui', rfl, hu, hd, heq⟩ := h1
      cases heq
      exact ⟨H1, i, h, t, H2, s, rfl, hd, hs, hl, hu⟩
    · obtain ⟨h, mui', _, _, heq⟩ := h1; cases heq
    · obtain ⟨_, _, heq⟩ := h1; cases heq

/-- A single-id withdrawal in the wanted history is a Peer Down of a header that was up with that id. -/
theorem mem_want_down (K : Nat → Hdr → Key) (H : History) (mui : Mui) (hx : Rib.Ev.down mui ∈ want K H) :
    ∃ H1 i h H2 s, H = H1 ++ .msg i (.peerDown h) :: H2 ∧
      (Track.init.runFrom K H1).sess[i]? = some s ∧ s.life = .live ∧ Bmp.lookupUp h s.up = some mui := by
  obtain ⟨H1, e, H2, rfl, hx'⟩ := (mem_wantFrom K _ H _).mp hx
  cases e with
  | connect rk => simp [Track.want] at hx'
  | disconnect i => obtain ⟨s, _, _, heq⟩ := mem_want_disconnect K _ i _ hx'; cases heq
  | msg i m =>
    obtain ⟨s, hs, hl, h1 | h1 | h1⟩ := mem_want_msg K _ i m _ hx'
    · obtain ⟨h, t, u', mui', _, _, _, heq⟩ := h1; cases heq
    · obtain ⟨h, mui', rfl, hu, heq⟩ := h1
      cases heq
      exact ⟨H1, i, h, H2, s, rfl, hs, hl, hu⟩
    · obtain ⟨_, _, heq⟩ := h1; cases heq

/-- A bulk withdrawal in the wanted history is a Termination or a lost connection, naming exactly the ids of
    the headers that were up on that session. -/
theorem mem_want_downBulk (K : Nat → Hdr → Key) (H : History) (ids : List Mui)
    (hx : Rib.Ev.downBulk ids ∈ want K H) :
    ∃ H1 i H2 s, (H = H1 ++ .msg i .term :: H2 ∨ H = H1 ++ .disconnect i :: H2) ∧
      (Track.init.runFrom K H1).sess[i]? = some s ∧ ids = s.up.map (·.2) := by
  obtain ⟨H1, e, H2, rfl, hx'⟩ := (mem_wantFrom K _ H _).mp hx
  cases e with
  | connect rk => simp [Track.want] at hx'
  | disconnect i =>
    obtain ⟨s, hs, _, heq⟩ := mem_want_disconnect K _ i _ hx'
    cases heq
    exact ⟨H1, i, H2, s, Or.inr rfl, hs, rfl⟩
  | msg i m =>
    obtain ⟨s, hs, hl, h1 | h1 | h1⟩ := mem_want_msg K _ i m _ hx'
    · obtain ⟨h, t, u', mui', _, _, _, heq⟩ := h1; cases heq
    · obtain ⟨h, mui', _, _, heq⟩ := h1; cases heq
    · obtain ⟨rfl, _, heq⟩ := h1
      cases heq
      exact ⟨H1, i, H2, s, Or.inl rfl, hs, rfl⟩

/-! ## (a) C01 over BMP histories -/

/-- **C01 over BMP, refinement.** For every BMP history, SAFI table, prefix and ingress id: the stored
    record and the marker are the fold of C01's per-event specification over the route data of peers
    that were up when they sent it. -/
theorem PipeBmp_C01_refinement (v : Variant) (K : Nat → Hdr → Key) (H : History) (hok : H.all (Ev.ok v.bmp) = true)
    (mc : Bool) (p : Rib.Prefix) (m : Mui) :
    (run v K H).rib.abs mc p m = Rib.specRun v.rib mc p m (trace K H) := by
  rw [(PipeBmp_refines v K H hok).2]
  exact Rib.C01_refinement v.rib (trace K H) mc p m

example : (run asWritten exK exH).rib.abs false p24 3 = ⟨some (.active, 5), true⟩ := by decide

/-- Exactly one entry per ingress id in every answer, after every BMP history. -/
theorem PipeBmp_C01_exactly_one (v : Variant) (K : Nat → Hdr → Key) (H : History) (hok : H.all (Ev.ok v.bmp) = true)
    (p : Rib.Prefix) (o : Rib.MatchOpts) : (((run v K H).rib.query p o).map Rib.Rec.mui).Nodup := by
  rw [(PipeBmp_refines v K H hok).2]
  exact Rib.C01_exactly_one v.rib (trace K H) p o

/-- **C01 over BMP, as long as no session ends**: if no Peer Down / Termination of an up peer occurred
    (`trace` has UPDATEs only), the answer of `Rib::match_prefix` for every prefix is C01's replay
    specification `last` over the route data of the up peers — under C01's own two guards. -/
theorem PipeBmp_C01_updates (v : Variant) (K : Nat → Hdr → Key) (H : History) (hok : H.all (Ev.ok v.bmp) = true)
    (hu : (trace K H).all Rib.Ev.isUpd = true)
    (hov : v.rib.overlapFix = true ∨ (trace K H).all Rib.Ev.noOverlap = true)
    (p : Rib.Prefix) (hs : Rib.singleSafi (trace K H) p = true) (m : Mui) (st : Rib.Status) (a : Rib.AttrId) :
    (⟨m, st, a⟩ : Rib.Rec) ∈ (run v K H).rib.query p ↔ Rib.last (trace K H) p m = some (st, a) := by
  rw [(PipeBmp_refines v K H hok).2]
  exact Rib.C01_guarded v.rib (trace K H) hu hov p hs m st a

example : let H : History := [.connect 0, .msg 0 .init, .msg 0 (.peerUp 0 true true), .msg 0 (.routeMon 0 tok1 (ann24 5)),
      .msg 0 (.routeMon 1 tok1 (ann24 9)), .msg 0 (.peerUp 1 false true), .msg 0 (.routeMon 1 tok1 (ann24 6)),
      .msg 0 (.routeMon 0 tok1 (.ok 0 [] [⟨p24, .unicast⟩]))]
    H.all (Ev.ok Bmp.asWritten) = true ∧ (trace exK H).all Rib.Ev.isUpd = true ∧ (trace exK H).all Rib.Ev.noOverlap = true ∧
    Rib.singleSafi (trace exK H) p24 = true ∧ Rib.last (trace exK H) p24 3 = some (.withdrawn, 5) ∧
    Rib.last (trace exK H) p24 4 = some (.active, 6) := by decide

/-- (a) as stated, for *every* BMP history (session ends included): what is reported for a key is the
    replay of the peers' route data under the property's reading of a session end (`intended`: the
    peer's routes are withdrawn, what it announces afterwards is active again). -/
def PipeBmp_C01_full (v : Variant) : Prop :=
  ∀ (K : Nat → Hdr → Key) (H : History), H.all (Ev.ok v.bmp) = true → ∀ (mc : Bool) (p : Rib.Prefix) (m : Mui),
    (run v K H).rib.entry mc p m = (Rib.specRun (intended v.rib) mc p m (trace K H)).entry

/-- Announce, Peer Down, Peer Up (the same ingress id comes back), announce again. -/
def flapH : History := [.connect 0, .msg 0 .init, .msg 0 (.peerUp 0 false true), .msg 0 (.routeMon 0 tok1 (ann24 5)),
  .msg 0 (.peerDown 0), .msg 0 (.peerUp 0 false true), .msg 0 (.routeMon 0 tok1 (ann24 7))]

/-- **False as written**: after a Peer Down / Peer Up the re-announced route is reported withdrawn. -/
theorem PipeBmp_C01_counterexample : ¬ PipeBmp_C01_full asWritten := by
  intro hf
  have := hf exK flapH (by decide) false p24 3
  revert this
  decide

/-- **(a), partial, code as written**: the full statement for every key that is not announced again
    after a session-level withdrawal (Peer Down / Termination of an up peer) of its ingress id. -/
theorem PipeBmp_C01_partial (v : Variant) (hv : v.rib.perRecordWithdraw = false) (K : Nat → Hdr → Key) (H : History)
    (hok : H.all (Ev.ok v.bmp) = true) (mc : Bool) (p : Rib.Prefix) (m : Mui)
    (hg : annAfterDown mc p m false (trace K H) = false) :
    (run v K H).rib.entry mc p m = (Rib.specRun (intended v.rib) mc p m (trace K H)).entry := by
  rw [Rib.Rib.entry_eq_abs, PipeBmp_C01_refinement v K H hok]
  exact specRun_entry_intended v.rib hv mc p m (trace K H) hg

-- the guard holds for the second router's key in `exH` (its peer never comes back) and for every key of a
-- history in which peers flap but re-announce other prefixes; it excludes exactly the flap witness
example : annAfterDown false p24 5 false (trace exK exH) = false ∧ annAfterDown false p24 3 false (trace exK flapH) = true := by decide

/-- **(a), repaired RIB**: with per-record withdrawal the full statement holds for every history. -/
theorem PipeBmp_C01_repaired (v : Variant) (hv : v.rib.perRecordWithdraw = true) : PipeBmp_C01_full v := by
  intro K H hok mc p m
  rw [Rib.Rib.entry_eq_abs, PipeBmp_C01_refinement v K H hok]
  have : intended v.rib = v.rib := by
    cases hr : v.rib
    simp only [hr] at hv
    simp [intended, hv]
  rw [this]

example : (run ⟨Bmp.repaired, { perRecordWithdraw := true }⟩ exK flapH).rib.query p24 = [⟨3, .active, 7⟩] := by decide

/-! ## (b) C02 over BMP: a Peer Down / a Termination withdraws exactly that peer's / that session's routes -/

/-- **Peer Down, every phase.** In any world — reachable or not, the session Dumping (whatever End-of-RIB
    markers are pending) or Updating — a Peer Down for a header that is up:
    every key of another ingress id keeps its stored record and its marker; every route of the peer's id is
    reported withdrawn with unchanged attributes (absent stays absent); the peer leaves the session's table;
    every other session, the register and the serial are untouched. -/
theorem PipeBmp_C02_peerDown (v : Variant) (K : Nat → Hdr → Key) (w : World) (i : Nat) (h : Hdr) (s : Sess) (p : Bmp.Peer)
    (hs : w.sess[i]? = some s) (hl : s.phase = .dumping ∨ s.phase = .updating) (hf : Bmp.findPeer h s.peers = some p) :
    let w' := w.step v K (.msg i (.peerDown h))
    (∀ mc q m, m ≠ p.mui → w'.rib.abs mc q m = w.rib.abs mc q m) ∧
    (∀ mc q, w'.rib.entry mc q p.mui = (w.rib.entry mc q p.mui).map Rib.setWithdrawn) ∧
    w'.sess[i]? = some ⟨s.phase, Bmp.erasePeer h s.peers⟩ ∧ (∀ j, j ≠ i → w'.sess[j]? = w.sess[j]?) ∧
    w'.reg = w.reg ∧ w'.next = w.next := by
  intro w'
  have hw : w' = _ := World.step_peerDown v K w i h s p hs hl hf
  have hlt : i < w.sess.length := (List.getElem?_eq_some_iff.mp hs).1
  refine ⟨?_, ?_, ?_, ?_, ?_, ?_⟩
  · intro mc q m hm
    rw [hw]
    simp only [Rib.Rib.abs_withdraw, Ne.symm hm, if_false]
  · intro mc q
    rw [hw, Rib.Rib.entry_eq_abs, Rib.Rib.entry_eq_abs]
    simp only [Rib.Rib.abs_withdraw, if_true, Rib.entry_specDown]
  · rw [hw]; simp [hlt]
  · intro j hj; rw [hw]; exact getElem?_set_other _ _ _ _ hj
  · rw [hw]
  · rw [hw]

/-- **Termination, every phase — what the code does.** The routes of the ids of the session's up peers and of
    every id registered under the connection's router id (`ids_for_parent`, the handler's epilogue) are
    withdrawn, attributes kept; every key of any other id keeps record and marker; the session ends; other
    sessions and the register are untouched. -/
theorem PipeBmp_C02_term (v : Variant) (K : Nat → Hdr → Key) (w : World) (i : Nat) (s : Sess)
    (hs : w.sess[i]? = some s) (hl : s.phase = .dumping ∨ s.phase = .updating) :
    let w' := w.step v K (.msg i .term)
    let ids := s.peers.map (·.mui) ++ idsForParent (w.rids.getD i 0) w.par
    (∀ mc q m, m ∉ ids → w'.rib.abs mc q m = w.rib.abs mc q m) ∧
    (∀ mc q m, m ∈ ids → w'.rib.entry mc q m = (w.rib.entry mc q m).map Rib.setWithdrawn) ∧
    w'.sess[i]? = some ⟨.terminated, []⟩ ∧ (∀ j, j ≠ i → w'.sess[j]? = w.sess[j]?) ∧
    w'.reg = w.reg ∧ w'.next = w.next ∧ w'.par = w.par := by
  intro w' ids
  have hw : w' = _ := World.step_term v K w i s hs hl
  have hlt : i < w.sess.length := (List.getElem?_eq_some_iff.mp hs).1
  refine ⟨?_, ?_, ?_, ?_, ?_, ?_, ?_⟩
  · intro mc q m hm
    simp only [ids, List.mem_append, not_or] at hm
    rw [hw]
    show Rib.Rib.abs (List.foldl _ _ _) mc q m = _
    rw [Rib.Rib.abs_withdrawBulk, if_neg hm.2, Rib.Rib.abs_withdrawBulk, if_neg hm.1]
  · intro mc q m hm
    simp only [ids, List.mem_append] at hm
    rw [hw, Rib.Rib.entry_eq_abs, Rib.Rib.entry_eq_abs]
    show (Rib.Rib.abs (List.foldl _ _ _) mc q m).entry = _
    rw [Rib.Rib.abs_withdrawBulk, Rib.Rib.abs_withdrawBulk]
    by_cases h1 : m ∈ s.peers.map (·.mui) <;> by_cases h2 : m ∈ idsForParent (w.rids.getD i 0) w.par
    · rw [if_pos h2, if_pos h1, Rib.entry_specDown, Rib.entry_specDown, Option.map_map, setWithdrawn_comp]
    · rw [if_neg h2, if_pos h1, Rib.entry_specDown]
    · rw [if_pos h2, if_neg h1, Rib.entry_specDown]
    · exact absurd hm (fun h => h.elim h1 h2)
  · rw [hw]; simp [hlt]
  · intro j hj; rw [hw]; exact getElem?_set_other _ _ _ _ hj
  · rw [hw]
  · rw [hw]
  · rw [hw]

/-- **The connection is lost, every phase in which it is still read — what the code does.** Exactly the routes
    of the ids registered under the connection's router id (`ids_for_parent`) are withdrawn, attributes kept;
    every key of any other id keeps record and marker; the connection is closed; other sessions, the register
    and the parent table are untouched. -/
theorem PipeBmp_C02_disconnect (v : Variant) (K : Nat → Hdr → Key) (w : World) (i : Nat) (s : Sess)
    (hs : w.sess[i]? = some s) (hl : s.phase ≠ .terminated) :
    let w' := w.step v K (.disconnect i)
    let ids := idsForParent (w.rids.getD i 0) w.par
    (∀ mc q m, m ∉ ids → w'.rib.abs mc q m = w.rib.abs mc q m) ∧
    (∀ mc q m, m ∈ ids → w'.rib.entry mc q m = (w.rib.entry mc q m).map Rib.setWithdrawn) ∧
    w'.sess[i]? = some ⟨.terminated, []⟩ ∧ (∀ j, j ≠ i → w'.sess[j]? = w.sess[j]?) ∧
    w'.reg = w.reg ∧ w'.next = w.next ∧ w'.par = w.par := by
  intro w' ids
  have hw : w' = _ := World.step_disconnect v K w i s hs hl
  have hlt : i < w.sess.length := (List.getElem?_eq_some_iff.mp hs).1
  refine ⟨?_, ?_, ?_, ?_, ?_, ?_, ?_⟩
  · intro mc q m hm
    rw [hw]
    show Rib.Rib.abs (List.foldl _ _ _) mc q m = _
    rw [Rib.Rib.abs_withdrawBulk, if_neg hm]
  · intro mc q m hm
    rw [hw, Rib.Rib.entry_eq_abs, Rib.Rib.entry_eq_abs]
    show (Rib.Rib.abs (List.foldl _ _ _) mc q m).entry = _
    rw [Rib.Rib.abs_withdrawBulk, if_pos hm, Rib.entry_specDown]
  · rw [hw]; simp [hlt]
  · intro j hj; rw [hw]; exact getElem?_set_other _ _ _ _ hj
  · rw [hw]
  · rw [hw]
  · rw [hw]

/-- A closed connection is never read again: messages and a second loss change nothing. -/
theorem PipeBmp_C02_closed (v : Variant) (K : Nat → Hdr → Key) (w : World) (i : Nat) (s : Sess)
    (hs : w.sess[i]? = some s) (hl : s.phase = .terminated) :
    w.step v K (.disconnect i) = w := by
  simp [World.step, hs, hl, lifeOf]

/-- A Peer Down for a header that is not up — in any phase — changes nothing at all. -/
theorem PipeBmp_C02_reject (v : Variant) (K : Nat → Hdr → Key) (w : World) (i : Nat) (h : Hdr) (s : Sess)
    (hs : w.sess[i]? = some s) (hf : Bmp.findPeer h s.peers = none) :
    w.step v K (.msg i (.peerDown h)) = w := World.step_peerDown_reject v K w i h s hs hf

/-- A session in phase Dumping, one peer with a pending End-of-RIB, a second peer and a second router. -/
def dumpH : History := [.connect 0, .msg 0 .init, .msg 0 (.peerUp 0 true true), .msg 0 (.peerUp 1 true true),
  .msg 0 (.routeMon 0 tok1 (ann24 5)), .msg 0 (.routeMon 1 tok1 (ann24 6)), .connect 1, .msg 1 .init,
  .msg 1 (.peerUp 0 false true), .msg 1 (.routeMon 0 tok1 (ann24 7))]

-- the hypotheses are met in phase Dumping with End-of-RIB markers pending, and the conclusion is not trivial
example : let w := run asWritten exK dumpH
    w.sess[0]? = some ⟨.dumping, [⟨0, true, [257], 3, true⟩, ⟨1, true, [257], 4, true⟩]⟩ ∧
    w.rib.query p24 = [⟨3, .active, 5⟩, ⟨4, .active, 6⟩, ⟨6, .active, 7⟩] ∧
    (w.step asWritten exK (.msg 0 (.peerDown 1))).rib.query p24 = [⟨3, .active, 5⟩, ⟨4, .withdrawn, 6⟩, ⟨6, .active, 7⟩] ∧
    (w.step asWritten exK (.msg 0 .term)).rib.query p24 = [⟨3, .withdrawn, 5⟩, ⟨4, .withdrawn, 6⟩, ⟨6, .active, 7⟩] := by decide

/-- **Nothing else changes, for every kind of message**: after any history, an event changes the stored
    record and marker of a key only if one of the RIB events it stands for touches that key (an UPDATE of the
    key's own id naming the prefix, or a session-level withdrawal of the id). -/
theorem PipeBmp_C02_frame (v : Variant) (K : Nat → Hdr → Key) (H : History) (e : Ev)
    (hok : (H ++ [e]).all (Ev.ok v.bmp) = true) (mc : Bool) (p : Rib.Prefix) (m : Mui)
    (hu : ((Track.init.runFrom K H).step K e).2.all (fun x => !(x.touches mc p m)) = true) :
    (run v K (H ++ [e])).rib.abs mc p m = (run v K H).rib.abs mc p m := by
  have hok1 : H.all (Ev.ok v.bmp) = true := by
    rw [List.all_append, Bool.and_eq_true] at hok; exact hok.1
  rw [PipeBmp_C01_refinement v K _ hok, PipeBmp_C01_refinement v K H hok1, trace, traceFrom_append]
  simp only [Rib.specRun, List.foldl_append, traceFrom, List.append_nil]
  exact Rib.foldl_untouched v.rib mc p m _ hu _

/-! ## (c) C03 over BMP: a peer that comes back -/

theorem trace_split (K : Nat → Hdr → Key) (H1 : History) (e : Ev) (H2 : History) :
    trace K (H1 ++ e :: H2) = trace K H1 ++ (((Track.init.runFrom K H1).step K e).2
      ++ traceFrom K ((Track.init.runFrom K H1).step K e).1 H2) := by
  rw [trace, traceFrom_append, traceFrom_cons]
  rfl

/-- **The returning peer gets its old ingress id back** (`find_or_register_peer` finds the entry the first
    Peer Up left in the register): at any later point of any history, on any session, a Peer Up that is
    accepted for a header of the same key class (router, address, AS, RIB type) is up with the same id.
    Covers Peer Down / Peer Up on one session and Termination / reconnect of the router. -/
theorem PipeBmp_id_stable (K : Nat → Hdr → Key) (H1 H2 : History) (i j : Nat) (h h' : Hdr) (e c : Bool)
    (s s' : TSess) (m : Mui)
    (hs : (Track.init.runFrom K H1).sess[i]? = some s) (hu : Bmp.lookupUp h s.up = some m)
    (hs' : (Track.init.runFrom K (H1 ++ H2)).sess[j]? = some s') (hl' : s'.life = .live)
    (hu' : Bmp.lookupUp h' s'.up = none) (hk : K j h' = K i h) :
    ∃ s2, ((Track.init.runFrom K (H1 ++ H2)).step K (.msg j (.peerUp h' e c))).1.sess[j]? = some s2 ∧
      Bmp.lookupUp h' s2.up = some m := by
  have hi := Track.Inv_runFrom K H1 Track.init (Track.Inv_init K)
  have hk1 : Bmp.lookupKey (K i h) (Track.init.runFrom K H1).reg = some m := hi i s hs (h, m) (lookupUp_mem hu)
  have hk2 : Bmp.lookupKey (K j h') (Track.init.runFrom K (H1 ++ H2)).reg = some m := by
    rw [Track.runFrom_append, hk]
    exact Track.runFrom_reg_stable K H2 _ _ _ hk1
  have hlt : j < (Track.init.runFrom K (H1 ++ H2)).sess.length := (List.getElem?_eq_some_iff.mp hs').1
  rw [Track.step_peerUp K _ j h' e c s' m hs' hl' hu' hk2]
  exact ⟨⟨.live, s'.up ++ [(h', m)]⟩, by simp [hlt], lookupUp_append_new h' m _ hu'⟩

/-- Clause 1 of C03 over BMP: whatever happened before — in particular a Peer Down / Peer Up of the same
    peer — a route that an up peer announces, and that nothing later touches, is reported active with
    the announced attributes. -/
def PipeBmp_C03_full (v : Variant) : Prop :=
  ∀ (K : Nat → Hdr → Key) (H1 H2 : History) (i : Nat) (h : Hdr) (t : Bmp.Rm) (a : Rib.AttrId) (ann wd : List Rib.Nlri)
    (mc : Bool) (p : Rib.Prefix) (m : Mui) (s : TSess),
    (H1 ++ .msg i (.routeMon h t (.ok a ann wd)) :: H2).all (Ev.ok v.bmp) = true →
    (Track.init.runFrom K H1).sess[i]? = some s → s.life = .live → Bmp.lookupUp h s.up = some m →
    deliverable t = true → (⟨p, Rib.safiOf mc⟩ : Rib.Nlri) ∈ ann → (⟨p, Rib.safiOf mc⟩ : Rib.Nlri) ∉ wd →
    (traceFrom K (Track.init.runFrom K H1) H2).all (fun e => !(e.touches mc p m)) = true →
    (run v K (H1 ++ .msg i (.routeMon h t (.ok a ann wd)) :: H2)).rib.entry mc p m = some (.active, a)

/-- The RIB history around an announcement of an up peer. -/
theorem trace_announce (K : Nat → Hdr → Key) (H1 H2 : History) (i : Nat) (h : Hdr) (t : Bmp.Rm) (u : Rib.Upd)
    (m : Mui) (s : TSess) (hs : (Track.init.runFrom K H1).sess[i]? = some s) (hl : s.life = .live)
    (hu : Bmp.lookupUp h s.up = some m) (hd : deliverable t = true) :
    trace K (H1 ++ .msg i (.routeMon h t u) :: H2)
      = trace K H1 ++ .upd m u :: traceFrom K (Track.init.runFrom K H1) H2 := by
  rw [trace_split, Track.step_routeMon K _ i h t u s m hs hl hu hd]
  rfl

/-- **The code as it is (every variant that keeps the store's global marker), exactly:** the announcement
    is reported `withdrawn` iff a Peer Down / Termination named the peer's ingress id anywhere earlier. -/
theorem PipeBmp_C03_flap_exact (v : Variant) (hv : v.rib.perRecordWithdraw = false)
    (K : Nat → Hdr → Key) (H1 H2 : History) (i : Nat) (h : Hdr) (t : Bmp.Rm) (a : Rib.AttrId) (ann wd : List Rib.Nlri)
    (mc : Bool) (p : Rib.Prefix) (m : Mui) (s : TSess)
    (hok : (H1 ++ .msg i (.routeMon h t (.ok a ann wd)) :: H2).all (Ev.ok v.bmp) = true)
    (hs : (Track.init.runFrom K H1).sess[i]? = some s) (hl : s.life = .live) (hu : Bmp.lookupUp h s.up = some m)
    (hd : deliverable t = true) (hA : (⟨p, Rib.safiOf mc⟩ : Rib.Nlri) ∈ ann) (hW : (⟨p, Rib.safiOf mc⟩ : Rib.Nlri) ∉ wd)
    (h2u : (traceFrom K (Track.init.runFrom K H1) H2).all (fun e => !(e.touches mc p m)) = true) :
    (run v K (H1 ++ .msg i (.routeMon h t (.ok a ann wd)) :: H2)).rib.entry mc p m
      = some (if (trace K H1).any (Rib.Ev.downs m) then .withdrawn else .active, a) := by
  rw [(PipeBmp_refines v K _ hok).2, trace_announce K H1 H2 i h t _ m s hs hl hu hd]
  exact flap_exact v.rib hv (trace K H1) _ mc p m a ann wd hA hW h2u

/-- **(c) as the task states it, for the code as it is: always violated.** After *any* history in which
    a peer is up: Peer Down, Peer Up again, the peer announces `p` — and `p` is reported **withdrawn**
    (with the new attributes), however long nothing else touches it. -/
theorem PipeBmp_C03_flap (v : Variant) (hv : v.rib.perRecordWithdraw = false)
    (K : Nat → Hdr → Key) (H1 H2 : History) (i : Nat) (h : Hdr) (e c : Bool) (t : Bmp.Rm) (a : Rib.AttrId)
    (ann wd : List Rib.Nlri) (mc : Bool) (p : Rib.Prefix) (m : Mui) (s : TSess)
    (hok : (H1 ++ flapMsgs i h e c ++ .msg i (.routeMon h t (.ok a ann wd)) :: H2).all (Ev.ok v.bmp) = true)
    (hs : (Track.init.runFrom K H1).sess[i]? = some s) (hl : s.life = .live) (hu : Bmp.lookupUp h s.up = some m)
    (hd : deliverable t = true) (hA : (⟨p, Rib.safiOf mc⟩ : Rib.Nlri) ∈ ann) (hW : (⟨p, Rib.safiOf mc⟩ : Rib.Nlri) ∉ wd)
    (h2u : (traceFrom K (Track.init.runFrom K (H1 ++ flapMsgs i h e c)) H2).all
      (fun e => !(e.touches mc p m)) = true) :
    (run v K (H1 ++ flapMsgs i h e c ++ .msg i (.routeMon h t (.ok a ann wd)) :: H2)).rib.entry mc p m
      = some (.withdrawn, a) := by
  have hi := Track.Inv_runFrom K H1 Track.init (Track.Inv_init K)
  obtain ⟨s2, hs2, hl2, hu2, htr, _⟩ := Track.flap_segment K _ hi i h e c s m hs hl hu
  rw [← Track.runFrom_append] at hs2
  rw [PipeBmp_C03_flap_exact v hv K _ H2 i h t a ann wd mc p m s2 hok hs2 hl2 hu2 hd hA hW h2u]
  have : (trace K (H1 ++ flapMsgs i h e c)).any (Rib.Ev.downs m) = true := by
    rw [trace, traceFrom_append, htr]
    simp [Rib.Ev.downs]
  rw [this]
  rfl

/-- Hence clause 1 fails for every variant that keeps the global marker — the code as written and the
    tree after the overlap and End-of-RIB repairs alike. Witness: `flapH`. -/
theorem PipeBmp_C03_counterexample (v : Variant) (hv : v.rib.perRecordWithdraw = false) : ¬ PipeBmp_C03_full v := by
  intro hf
  have hok : flapH.all (Ev.ok v.bmp) = true := by
    have : ∀ vb : Bmp.Variant, flapH.all (Ev.ok vb) = true := by
      intro vb
      obtain ⟨g, e⟩ := vb
      cases g <;> cases e <;> decide
    exact this v.bmp
  have h1 := hf exK [.connect 0, .msg 0 .init, .msg 0 (.peerUp 0 false true), .msg 0 (.routeMon 0 tok1 (ann24 5)),
    .msg 0 (.peerDown 0), .msg 0 (.peerUp 0 false true)] [] 0 0 tok1 7 [⟨p24, .unicast⟩] [] false p24 3
    ⟨.live, [(0, 3)]⟩ hok (by decide) rfl (by decide) (by decide) (by decide) (by decide) (by decide)
  have h2 := PipeBmp_C03_flap v hv exK [.connect 0, .msg 0 .init, .msg 0 (.peerUp 0 false true), .msg 0 (.routeMon 0 tok1 (ann24 5))]
    [] 0 0 false true tok1 7 [⟨p24, .unicast⟩] [] false p24 3 ⟨.live, [(0, 3)]⟩ hok (by decide) rfl (by decide) (by decide)
    (by decide) (by decide) (by decide)
  simp only [flapMsgs, List.cons_append, List.nil_append] at h1 h2
  rw [h2] at h1
  cases h1

example : (run asWritten exK flapH).rib.query p24 = [⟨3, .withdrawn, 7⟩] := by decide
example : (run ⟨Bmp.repaired, { overlapFix := true }⟩ exK flapH).rib.query p24 = [⟨3, .withdrawn, 7⟩] := by decide

/-- **(c), partial, code as it is:** clause 1 holds for a peer whose ingress id no Peer Down / Termination
    has named so far — a peer's first session, and every peer of a router while *other* peers or routers flap. -/
theorem PipeBmp_C03_partial (v : Variant) (hv : v.rib.perRecordWithdraw = false)
    (K : Nat → Hdr → Key) (H1 H2 : History) (i : Nat) (h : Hdr) (t : Bmp.Rm) (a : Rib.AttrId) (ann wd : List Rib.Nlri)
    (mc : Bool) (p : Rib.Prefix) (m : Mui) (s : TSess)
    (hnd : (trace K H1).any (Rib.Ev.downs m) = false)
    (hok : (H1 ++ .msg i (.routeMon h t (.ok a ann wd)) :: H2).all (Ev.ok v.bmp) = true)
    (hs : (Track.init.runFrom K H1).sess[i]? = some s) (hl : s.life = .live) (hu : Bmp.lookupUp h s.up = some m)
    (hd : deliverable t = true) (hA : (⟨p, Rib.safiOf mc⟩ : Rib.Nlri) ∈ ann) (hW : (⟨p, Rib.safiOf mc⟩ : Rib.Nlri) ∉ wd)
    (h2u : (traceFrom K (Track.init.runFrom K H1) H2).all (fun e => !(e.touches mc p m)) = true) :
    (run v K (H1 ++ .msg i (.routeMon h t (.ok a ann wd)) :: H2)).rib.entry mc p m = some (.active, a) := by
  rw [PipeBmp_C03_flap_exact v hv K H1 H2 i h t a ann wd mc p m s hok hs hl hu hd hA hW h2u, hnd]
  rfl

-- the guard holds for router 1's peer in `exH` although router 0's peer flapped, and it excludes the flap
example : let H1 := exH.take 8
    (trace exK (H1 ++ [.msg 0 (.peerDown 0), .msg 0 (.peerUp 0 true true)])).any (Rib.Ev.downs 5) = false ∧
    (trace exK (H1 ++ [.msg 0 (.peerDown 0), .msg 0 (.peerUp 0 true true)])).any (Rib.Ev.downs 3) = true := by decide

/-- **(c), repaired RIB:** with per-record withdrawal clause 1 holds for every BMP history. -/
theorem PipeBmp_C03_repaired (v : Variant) (hv : v.rib.perRecordWithdraw = true) : PipeBmp_C03_full v := by
  intro K H1 H2 i h t a ann wd mc p m s hok hs hl hu hd hA hW h2u
  rw [(PipeBmp_refines v K _ hok).2, trace_announce K H1 H2 i h t _ m s hs hl hu hd]
  exact Rib.C03_repaired v.rib hv (trace K H1) _ mc p m a ann wd hA hW h2u

example : (run ⟨Bmp.repaired, { overlapFix := true, perRecordWithdraw := true }⟩ exK flapH).rib.query p24
    = [⟨3, .active, 7⟩] := by decide

/-- **Clause 2, every variant: what the returning peer does not announce again stays withdrawn.** After an
    event `e` that stands for a session-level withdrawal naming id `m` (a Peer Down of the peer, a Termination
    of its session), as long as no later event announces `(table, p)` on behalf of `m`, the route is reported
    exactly as before the outage but withdrawn — through Peer Ups, other peers' traffic, further flaps. -/
theorem PipeBmp_C03_stale (v : Variant) (K : Nat → Hdr → Key) (H1 H2 : History) (e : Ev) (d : Rib.Ev)
    (mc : Bool) (p : Rib.Prefix) (m : Mui)
    (hok : (H1 ++ e :: H2).all (Ev.ok v.bmp) = true) (ds : List Rib.Ev)
    (he : ((Track.init.runFrom K H1).step K e).2 = d :: ds) (hd : d.downs m = true)
    (hds : ds.all (fun x => !(x.announces mc p m)) = true)
    (hna : (traceFrom K ((Track.init.runFrom K H1).step K e).1 H2).all (fun x => !(x.announces mc p m)) = true) :
    (run v K (H1 ++ e :: H2)).rib.entry mc p m = ((run v K H1).rib.entry mc p m).map Rib.setWithdrawn := by
  have hok1 : H1.all (Ev.ok v.bmp) = true := by
    rw [List.all_append, Bool.and_eq_true] at hok; exact hok.1
  rw [(PipeBmp_refines v K _ hok).2, (PipeBmp_refines v K H1 hok1).2, trace_split, he, List.cons_append]
  exact Rib.C03_stale v.rib (trace K H1) _ d mc p m hd (by rw [List.all_append, hds, hna]; rfl)

/-- The three instances of `he` above (Peer Down, Termination, lost connection). -/
theorem step_evs_peerDown (K : Nat → Hdr → Key) (T : Track) (i : Nat) (h : Hdr) (s : TSess) (m : Mui)
    (hs : T.sess[i]? = some s) (hl : s.life = .live) (hu : Bmp.lookupUp h s.up = some m) :
    (T.step K (.msg i (.peerDown h))).2 = [.down m] := by
  rw [Track.step_peerDown K T i h s m hs hl hu]

theorem step_evs_term (K : Nat → Hdr → Key) (T : Track) (i : Nat) (s : TSess)
    (hs : T.sess[i]? = some s) (hl : s.life = .live) (hne : s.up ≠ []) :
    (T.step K (.msg i .term)).2 = [.downBulk (s.up.map (·.2)), .downBulk (idsForParent (T.rids.getD i 0) T.par)] := by
  rw [Track.step_term K T i s hs hl hne]

theorem step_evs_disconnect (K : Nat → Hdr → Key) (T : Track) (i : Nat) (s : TSess)
    (hs : T.sess[i]? = some s) (hl : s.life ≠ .dead) :
    (T.step K (.disconnect i)).2 = [.downBulk (idsForParent (T.rids.getD i 0) T.par)] := by
  rw [Track.step_disconnect K T i s hs hl]

-- peer 0 of router 0 announced p24 (attributes 5), went down, came back and announced something else:
example : let H := [Ev.connect 0, .msg 0 .init, .msg 0 (.peerUp 0 false true), .msg 0 (.routeMon 0 tok1 (ann24 5)),
      .msg 0 (.peerDown 0), .msg 0 (.peerUp 0 false true),
      .msg 0 (.routeMon 0 tok1 (.ok 7 [⟨⟨.v4, 8, 10⟩, .unicast⟩] []))]
    (run asWritten exK H).rib.entry false p24 3 = some (.withdrawn, 5) := by decide

/-! ## Connection loss and reconnect: C02 / C03 for every history of connects, disconnects and reconnects -/

/-- **C02 over BMP, connection loss and Termination, every history.** For every BMP history — any number of
    routers connecting, losing their connection without a Termination message, terminating, reconnecting — whose
    session ends are tidy (the epilogue's `ids_for_parent(router id)` names no peer that is up on another
    connection, and contains the session's own up peers): for every SAFI table, prefix and ingress id, the stored
    record and the marker are the fold of C01's per-event specification over the **wanted** RIB history `want`: route
    data of up peers, and at every session end one withdrawal of *exactly the ids of the peers that were up on that
    session*. What the code names beyond those (peers that went down earlier, peers of earlier connections of the
    router) is already withdrawn. -/
theorem PipeBmp_C02_loss_exact (v : Variant) (K : Nat → Hdr → Key) (H : History) (hok : H.all (Ev.ok v.bmp) = true)
    (ht : tidyFrom K Track.init H = true) (mc : Bool) (p : Rib.Prefix) (m : Mui) :
    (run v K H).rib.abs mc p m = Rib.specRun v.rib mc p m (want K H) := by
  rw [PipeBmp_C01_refinement v K H hok mc p m]
  exact settle_run v.rib mc p m K H Track.init ⟨none, false⟩ (Track.Inv_init K) (Settled_init v.rib m _) ht

/-- … hence what a query reports for the key. -/
theorem PipeBmp_C02_loss_entry (v : Variant) (K : Nat → Hdr → Key) (H : History) (hok : H.all (Ev.ok v.bmp) = true)
    (ht : tidyFrom K Track.init H = true) (mc : Bool) (p : Rib.Prefix) (m : Mui) :
    (run v K H).rib.entry mc p m = (Rib.specRun v.rib mc p m (want K H)).entry := by
  rw [Rib.Rib.entry_eq_abs, PipeBmp_C02_loss_exact v K H hok ht]

/-- Two routers (one with two peers); router 0 loses its connection while a peer of it is down, reconnects, its
    peers come back under their old ids and announce again; router 1 terminates and reconnects. -/
def lossH : History := [.connect 0, .msg 0 .init, .msg 0 (.peerUp 0 false true), .msg 0 (.peerUp 1 false true),
  .msg 0 (.routeMon 0 tok1 (ann24 5)), .msg 0 (.routeMon 1 tok1 (ann24 6)),
  .connect 1, .msg 1 .init, .msg 1 (.peerUp 0 false true), .msg 1 (.routeMon 0 tok1 (ann24 7)),
  .msg 0 (.peerDown 1), .disconnect 0, .msg 0 (.routeMon 0 tok1 (ann24 8)),
  .connect 0, .msg 2 .init, .msg 2 (.peerUp 0 false true), .msg 2 (.routeMon 0 tok1 (ann24 9)),
  .msg 1 .term, .connect 1, .msg 3 .init, .msg 3 (.peerUp 0 false true), .disconnect 2, .disconnect 2]
/-- Key classes that depend on the router (100/200) and the header only. -/
def lossK : Nat → Hdr → Key := fun i h => 100 * (i % 2 + 1) + h

-- the guard holds for it, the two RIB histories differ (the epilogue names ids 3 and 4, the property id 3), and
-- router 1's route is untouched by router 0's loss
example : lossH.all (Ev.ok Bmp.asWritten) = true ∧ tidyFrom lossK Track.init lossH = true ∧
    want lossK lossH = [.upd 3 (ann24 5), .upd 4 (ann24 6), .upd 6 (ann24 7), .down 4, .downBulk [3], .upd 3 (ann24 9),
      .downBulk [6], .downBulk [3]] ∧
    trace lossK lossH = [.upd 3 (ann24 5), .upd 4 (ann24 6), .upd 6 (ann24 7), .down 4, .downBulk [3, 4], .upd 3 (ann24 9),
      .downBulk [6], .downBulk [6], .downBulk [3, 4]] ∧
    (run asWritten lossK (lossH.take 13)).rib.query p24 = [⟨3, .withdrawn, 5⟩, ⟨4, .withdrawn, 6⟩, ⟨6, .active, 7⟩] := by decide

/-- The statement without the guard. -/
def PipeBmp_C02_loss_full (v : Variant) : Prop :=
  ∀ (K : Nat → Hdr → Key) (H : History), H.all (Ev.ok v.bmp) = true → ∀ (mc : Bool) (p : Rib.Prefix) (m : Mui),
    (run v K H).rib.entry mc p m = (Rib.specRun v.rib mc p m (want K H)).entry

/-- A second connection from the address of a router that is still connected (the same router key class, so the
    same router id), a peer up on it, then the first connection is lost. -/
def sharedH : History := [.connect 0, .msg 0 .init, .msg 0 (.peerUp 0 false true), .connect 0, .msg 1 .init,
  .msg 1 (.peerUp 1 false true), .msg 1 (.routeMon 1 tok1 (ann24 7)), .disconnect 0]

/-- **False without the guard — for every variant of the RIB** (C02's known finding "routers from one address share
    the router id", seen at the RIB): the end of the first connection withdraws the route of the peer that is up
    on the second. -/
theorem PipeBmp_C02_loss_counterexample (v : Variant) : ¬ PipeBmp_C02_loss_full v := by
  intro hf
  have hok : sharedH.all (Ev.ok v.bmp) = true := by
    have : ∀ vb : Bmp.Variant, sharedH.all (Ev.ok vb) = true := by
      intro vb
      obtain ⟨g, e⟩ := vb
      cases g <;> cases e <;> decide
    exact this v.bmp
  have := hf (fun _ h => 100 + h) sharedH hok false p24 4
  obtain ⟨⟨g, e⟩, ⟨o, r⟩⟩ := v
  revert this
  cases g <;> cases e <;> cases o <;> cases r <;> decide

example : tidyFrom (fun _ h => 100 + h) Track.init sharedH = false := by decide

/-- **C03 over BMP, a router that reconnects — the code as it is.** A peer (id `m`, registered under the router
    id of connection `i`) is up when connection `i` is lost. Whatever happens then — the router reconnects, the
    peer comes back on the new connection (under the same id: `PipeBmp_id_stable`) — the next announcement made
    under id `m` is reported **withdrawn**. -/
theorem PipeBmp_C03_reconnect_flap (v : Variant) (hv : v.rib.perRecordWithdraw = false)
    (K : Nat → Hdr → Key) (H1 H2 H3 : History) (i j : Nat) (h : Hdr) (t : Bmp.Rm) (a : Rib.AttrId)
    (ann wd : List Rib.Nlri) (mc : Bool) (p : Rib.Prefix) (m : Mui) (s0 s : TSess)
    (hs0 : (Track.init.runFrom K H1).sess[i]? = some s0) (hl0 : s0.life ≠ .dead)
    (hm : m ∈ idsForParent ((Track.init.runFrom K H1).rids.getD i 0) (Track.init.runFrom K H1).par)
    (hok : (H1 ++ .disconnect i :: H2 ++ .msg j (.routeMon h t (.ok a ann wd)) :: H3).all (Ev.ok v.bmp) = true)
    (hs : (Track.init.runFrom K (H1 ++ .disconnect i :: H2)).sess[j]? = some s) (hl : s.life = .live)
    (hu : Bmp.lookupUp h s.up = some m)
    (hd : deliverable t = true) (hA : (⟨p, Rib.safiOf mc⟩ : Rib.Nlri) ∈ ann) (hW : (⟨p, Rib.safiOf mc⟩ : Rib.Nlri) ∉ wd)
    (h3u : (traceFrom K (Track.init.runFrom K (H1 ++ .disconnect i :: H2)) H3).all (fun e => !(e.touches mc p m)) = true) :
    (run v K (H1 ++ .disconnect i :: H2 ++ .msg j (.routeMon h t (.ok a ann wd)) :: H3)).rib.entry mc p m
      = some (.withdrawn, a) := by
  have hok' : ((H1 ++ .disconnect i :: H2) ++ .msg j (.routeMon h t (.ok a ann wd)) :: H3).all (Ev.ok v.bmp) = true := by
    simpa using hok
  have := PipeBmp_C03_flap_exact v hv K (H1 ++ .disconnect i :: H2) H3 j h t a ann wd mc p m s hok' hs hl hu hd hA hW h3u
  have hdown : (trace K (H1 ++ .disconnect i :: H2)).any (Rib.Ev.downs m) = true := by
    rw [trace_split, step_evs_disconnect K _ i s0 hs0 hl0]
    simp only [List.any_append, List.any_cons, Rib.Ev.downs, List.contains_eq_mem, hm, decide_true, Bool.true_or,
      Bool.or_true]
  have e : (H1 ++ Ev.disconnect i :: H2) ++ Ev.msg j (.routeMon h t (.ok a ann wd)) :: H3
      = H1 ++ Ev.disconnect i :: H2 ++ Ev.msg j (.routeMon h t (.ok a ann wd)) :: H3 := by simp
  rw [hdown, if_pos rfl, e] at this
  exact this

/-- **C03, repaired RIB** (`PipeBmp_C03_repaired`) covers reconnects as it is: it quantifies over every history. The
    same id comes back after a reconnect: `PipeBmp_id_stable` (any `H2`, including `disconnect`, `connect`). -/
example : (run ⟨Bmp.repaired, { overlapFix := true, perRecordWithdraw := true }⟩ lossK (lossH.take 17)).rib.query p24
    = [⟨3, .active, 9⟩, ⟨4, .withdrawn, 6⟩, ⟨6, .active, 7⟩] ∧
    (run ⟨Bmp.repaired, { overlapFix := true }⟩ lossK (lossH.take 17)).rib.query p24
    = [⟨3, .withdrawn, 9⟩, ⟨4, .withdrawn, 6⟩, ⟨6, .active, 7⟩] := by decide

end Rotonda.PipeBmp
