import RotondaModel.Model.Bmp
import RotondaModel.Generated.BmpDispatch
/-!
# Extraction tie: the BMP state machine's per-phase dispatch

`Generated/BmpDispatch.lean` is regenerated from the source text of
`src/units/bmp_tcp_in/state_machine/{machine.rs,states/*.rs}` on every run
(`tools/extract_bmpdispatch.py`).  This file proves that the hand-written model
`Model/Bmp.lean` (`stepCore`, `step`, the vocabulary of C05/C15/C02) dispatches exactly as
the table read off the code says: same handler for every phase and message type, same
rejections, same transitions.  A source change that moves, adds or removes an arm changes
`Generated.BmpDispatch.table` and these theorems stop checking.
-/
namespace Rotonda.Bmp
open Rotonda.Generated

/-- model phase ↦ the `BmpState` variant of the same name -/
def Phase.gen : Phase → BmpDispatch.Phase
  | .initiating => .initiating | .dumping => .dumping | .updating => .updating | .terminated => .terminated

def Phase.ofGen : BmpDispatch.Phase → Phase
  | .initiating => .initiating | .dumping => .dumping | .updating => .updating | .terminated => .terminated

/-- model message ↦ the variant of routecore's `Message` it stands for -/
def Msg.kind : Msg → BmpDispatch.Kind
  | .init => .init | .peerUp .. => .peerUp | .peerDown _ => .peerDown | .routeMon .. => .routeMon
  | .stats _ => .stats | .mirror _ => .mirror | .term => .term

/-- The model's functions under the names the extractor gives to the arms of the real `process_msg`.
    A handler applied to a message of another type cannot be written in Rust (the arm binds the
    typed message); `table_well_typed` shows the table never asks for it. -/
def handle (v : Variant) (K : Hdr → Key) (s : State) : BmpDispatch.Handler → Msg → Res
  | .initiateThenDump, _ => ⟨{ s with phase := .dumping }, .transition, [.changeState .dumping]⟩
  | .initiate, _ => ⟨s, .other, []⟩
  | .peerUp, .peerUp h e c => peerUp K s h e c
  | .peerUpGauge, .peerUp h e c =>
    let r := peerUp K s h e c
    ⟨r.st, r.out, r.effs ++ [.pendingStore (totalPending r.st.peers)]⟩
  | .peerDown, .peerDown h => peerDown v s h
  | .routeMon, .routeMon h r => routeMon v (BmpDispatch.eorCompletesTo s.phase.gen).isSome s h r
  | .terminate, _ => terminate s
  | .other, _ => ⟨s, .other, []⟩
  | .invalid, _ => ⟨s, .invalid, []⟩
  | _, _ => ⟨s, .invalid, []⟩

/-- which message type a handler takes (`none` = any) -/
def handlerTakes : BmpDispatch.Handler → Option BmpDispatch.Kind
  | .initiateThenDump => some .init | .initiate => some .init
  | .peerUp => some .peerUp | .peerUpGauge => some .peerUp | .peerDown => some .peerDown
  | .routeMon => some .routeMon | .terminate => some .term
  | .other => none | .invalid => none

/-- Every arm of the extracted table hands its handler the message type it is written for. -/
theorem table_well_typed : ∀ p k, handlerTakes (BmpDispatch.table p k) = none
    ∨ handlerTakes (BmpDispatch.table p k) = some k := by
  intro p k; cases p <;> cases k <;> decide

/-- **The link.** For every variant, key map, state and message, the model's per-phase dispatch is
    the extracted table interpreted with the model's handlers. -/
theorem stepCore_eq_generated (v : Variant) (K : Hdr → Key) (s : State) (m : Msg) :
    stepCore v K s m = handle v K s (BmpDispatch.table s.phase.gen m.kind) m := by
  obtain ⟨ph, ps, rg, nx⟩ := s
  cases ph <;> cases m <;> rfl

/-- `BmpState::process_msg`'s wrapper: the extractor saw every `InvalidMessage` reported as a hard failure;
    so does the model. -/
theorem step_wrapper_eq_generated (v : Variant) (K : Hdr → Key) (s : State) (m : Msg) :
    (step v K s m).effs = (stepCore v K s m).effs ++
      (if (stepCore v K s m).out = .invalid ∧ BmpDispatch.invalidCountsHardFail = true then [.hardFail] else []) := by
  cases h : (stepCore v K s m).out <;> simp [step, h, BmpDispatch.invalidCountsHardFail]

/-- The phases × message types the code rejects outright (arm = `mk_invalid_message_result`) are exactly
    C05's phase-level lifecycle violations: anything but Initiation while Initiating, anything once Terminated. -/
theorem table_invalid_iff : ∀ p k, BmpDispatch.table p k = .invalid ↔
    ((p = .initiating ∧ k ≠ .init) ∨ p = .terminated) := by
  intro p k; cases p <;> cases k <;> decide

/-- Behavioural form: in the two outer phases `step` rejects iff the extracted table says `invalid`,
    and rejects exactly the lifecycle violations. -/
theorem step_rejects_iff_generated (v : Variant) (K : Hdr → Key) (s : State) (m : Msg)
    (hp : s.phase = .initiating ∨ s.phase = .terminated) :
    ((step v K s m).out = .invalid ↔ BmpDispatch.table s.phase.gen m.kind = .invalid)
    ∧ ((step v K s m).out = .invalid ↔ lifecycleViolation s m = true) := by
  have ho : (step v K s m).out = (stepCore v K s m).out := by
    cases h : (stepCore v K s m).out <;> simp [step, h]
  rw [ho, stepCore_eq_generated]
  obtain ⟨ph, ps, rg, nx⟩ := s
  rcases hp with hp | hp <;> simp only at hp <;> subst hp <;> cases m <;>
    simp [handle, lifecycleViolation, Phase.gen, Msg.kind, BmpDispatch.table]

/-- In Dumping/Updating the table never rejects by message type: a rejection there comes out of a handler
    (unknown / duplicate peer, unparseable UPDATE). -/
theorem table_inner_never_invalid : ∀ k, BmpDispatch.table .dumping k ≠ .invalid
    ∧ BmpDispatch.table .updating k ≠ .invalid := by
  intro k; cases k <;> decide

/-- The ignored message types (Statistics Report, Route Mirroring, a repeated Initiation) leave the state alone
    in the inner phases, as the table's `other` / `initiate` arms say. -/
theorem table_ignored : ∀ p, (p = BmpDispatch.Phase.dumping ∨ p = .updating) →
    BmpDispatch.table p .stats = .other ∧ BmpDispatch.table p .mirror = .other ∧ BmpDispatch.table p .init = .initiate := by
  intro p hp; rcases hp with rfl | rfl <;> decide

private theorem rmExtract_phase (s : State) (p : Peer) (r : Rm) (e : List Eff) :
    (rmExtract s p r e).st.phase = s.phase := by
  unfold rmExtract
  cases r.xok && r.avok <;> simp only
  cases decide (r.na > 0) && p.eor <;> rfl

private theorem rmAfterParse_phase (v : Variant) (dump : Bool) (s : State) (p : Peer) (r : Rm) (e : List Eff) :
    (rmAfterParse v dump s p r e).st.phase = s.phase
    ∨ (dump = true ∧ (rmAfterParse v dump s p r e).st.phase = .updating) := by
  unfold rmAfterParse
  cases effEor v r with
  | none => exact .inl (rmExtract_phase ..)
  | some afi =>
    simp only [rmEor]
    cases allPendingEmpty (setPeer (p.dropEor afi) s.peers) with
    | false => exact .inl (rmExtract_phase ..)
    | true =>
      cases dump with
      | true => exact .inr ⟨rfl, rfl⟩
      | false => exact .inl (rmExtract_phase ..)

/-- A Route Monitoring message changes the phase only the way the extracted
    `route_monitoring_preprocessing` shapes allow: to `eorCompletesTo phase` (Dumping → Updating), or not at all. -/
theorem routeMon_phase_eq_generated (v : Variant) (K : Hdr → Key) (s : State) (h : Hdr) (r : Rm) :
    (stepCore v K s (.routeMon h r)).st.phase = s.phase
    ∨ (BmpDispatch.eorCompletesTo s.phase.gen).map Phase.ofGen = some (stepCore v K s (.routeMon h r)).st.phase := by
  obtain ⟨ph, ps, rg, nx⟩ := s
  have key : ∀ dump, (routeMon v dump ⟨ph, ps, rg, nx⟩ h r).st.phase = ph
      ∨ (dump = true ∧ (routeMon v dump ⟨ph, ps, rg, nx⟩ h r).st.phase = .updating) := by
    intro dump
    unfold routeMon
    cases findPeer h ps with
    | none => exact .inl rfl
    | some p =>
      simp only
      cases parseOutcome p.cfg4 r with
      | none => exact .inl rfl
      | some b => cases b <;> exact rmAfterParse_phase ..
  cases ph with
  | initiating => exact .inl rfl
  | terminated => exact .inl rfl
  | dumping =>
    rcases key true with h1 | ⟨_, h1⟩
    · exact .inl (by
        have hs : stepCore v K ⟨.dumping, ps, rg, nx⟩ (.routeMon h r) = routeMon v true ⟨.dumping, ps, rg, nx⟩ h r := rfl
        rw [hs]; exact h1)
    · have hs : stepCore v K ⟨.dumping, ps, rg, nx⟩ (.routeMon h r) = routeMon v true ⟨.dumping, ps, rg, nx⟩ h r := rfl
      exact .inr (by rw [hs, h1]; rfl)
  | updating =>
    rcases key false with h1 | ⟨h0, _⟩
    · exact .inl (by
        have hs : stepCore v K ⟨.updating, ps, rg, nx⟩ (.routeMon h r) = routeMon v false ⟨.updating, ps, rg, nx⟩ h r := rfl
        rw [hs]; exact h1)
    · exact absurd h0 (by decide)

/-- `terminate` moves to the phase the extractor read off `BmpState::Terminated(self.into())`, from both inner phases. -/
theorem terminate_phase_eq_generated (s : State) (hp : s.phase = .dumping ∨ s.phase = .updating) :
    (BmpDispatch.terminateTo s.phase.gen).map Phase.ofGen = some (terminate s).st.phase := by
  have ht : (terminate s).st.phase = .terminated := by
    unfold terminate; cases s.peers.map (·.mui) <;> rfl
  rcases hp with hp | hp <;> simp [hp, ht, Phase.gen, BmpDispatch.terminateTo, Phase.ofGen]

/-- Non-vacuity: the table has all nine handler shapes in use except none missing for the inner phases,
    and a concrete dispatch through the generated table reproduces a peer coming up while Dumping. -/
example : (handle asWritten id ⟨.dumping, [], [], 2⟩ (BmpDispatch.table .dumping .peerUp) (.peerUp 7 true true)).st.peers
    = [⟨7, true, [], 2, true⟩] := by decide

example : BmpDispatch.table .initiating .term = .invalid ∧ BmpDispatch.table .dumping .term = .terminate := by decide

end Rotonda.Bmp
