import RotondaModel.Model.BgpMetrics
set_option linter.unusedSimpArgs false
namespace Rotonda.BgpMetrics

open Rotonda Rotonda.BgpIn

/-! ### Counting reporter calls -/

def isGate : Call → Bool
  | .gate .. => true
  | _ => false

def isDropped : Call → Bool
  | .gate _ false => true
  | _ => false

def cBound (cs : List Call) : Nat := cs.countP (· = .listening)
def cAccepted (cs : List Call) : Nat := cs.countP (· = .accepted)
def cLost (cs : List Call) : Nat := cs.countP (· = .lost)
def cDisc (cs : List Call) : Nat := cs.countP (· = .disconnect)
def cGate (cs : List Call) : Nat := cs.countP isGate
def cDropped (cs : List Call) : Nat := cs.countP isDropped

theorem calls_append (m : Metrics) (a b : List Call) : m.calls (a ++ b) = (m.calls a).calls b := by
  simp [Metrics.calls, List.foldl_append]

theorem calls_cons (m : Metrics) (c : Call) (cs : List Call) : m.calls (c :: cs) = (m.call c).calls cs := rfl

/-- One call moves exactly its own counter, by one. -/
theorem call_counts (m : Metrics) (c : Call) :
    (m.call c).bound = m.bound + cBound [c] ∧ (m.call c).accepted = m.accepted + cAccepted [c] ∧
    (m.call c).lost = m.lost + cLost [c] ∧ (m.call c).disc = m.disc + cDisc [c] ∧
    (m.call c).gUpdates = m.gUpdates + cGate [c] ∧ (m.call c).gDropped = m.gDropped + cDropped [c] := by
  cases c with
  | gate b d => cases d <;> simp [Metrics.call, cBound, cAccepted, cLost, cDisc, cGate, cDropped, isGate, isDropped]
  | _ => simp [Metrics.call, cBound, cAccepted, cLost, cDisc, cGate, cDropped, isGate, isDropped]

theorem count_cons (c : Call) (cs : List Call) :
    cBound (c :: cs) = cBound [c] + cBound cs ∧ cAccepted (c :: cs) = cAccepted [c] + cAccepted cs ∧
    cLost (c :: cs) = cLost [c] + cLost cs ∧ cDisc (c :: cs) = cDisc [c] + cDisc cs ∧
    cGate (c :: cs) = cGate [c] + cGate cs ∧ cDropped (c :: cs) = cDropped [c] + cDropped cs := by
  simp only [cBound, cAccepted, cLost, cDisc, cGate, cDropped, List.countP_cons, List.countP_nil]
  omega

/-- The reporter only adds: each counter after a list of calls = its value before + the number of calls of its kind. -/
theorem calls_counts (cs : List Call) : ∀ m : Metrics,
    (m.calls cs).bound = m.bound + cBound cs ∧ (m.calls cs).accepted = m.accepted + cAccepted cs ∧
    (m.calls cs).lost = m.lost + cLost cs ∧ (m.calls cs).disc = m.disc + cDisc cs ∧
    (m.calls cs).gUpdates = m.gUpdates + cGate cs ∧ (m.calls cs).gDropped = m.gDropped + cDropped cs := by
  induction cs with
  | nil => intro m; simp [Metrics.calls, cBound, cAccepted, cLost, cDisc, cGate, cDropped]
  | cons c cs ih =>
    intro m
    rw [calls_cons]
    obtain ⟨h1, h2, h3, h4, h5, h6⟩ := ih (m.call c)
    obtain ⟨k1, k2, k3, k4, k5, k6⟩ := call_counts m c
    obtain ⟨c1, c2, c3, c4, c5, c6⟩ := count_cons c cs
    refine ⟨?_, ?_, ?_, ?_, ?_, ?_⟩ <;> omega

/-! ### Runs -/

theorem mstep_m (mv : MVariant) (s : MWorld) (o : MOp) : (mstep mv s o).1.m = s.m.calls (stepCalls mv s o) := by
  cases o with
  | base o => rfl
  | reconf cfg l a =>
    simp only [mstep, stepCalls]
    split
    · rfl
    · rfl
  | acceptErr =>
    simp only [mstep, stepCalls]
    split <;> rfl
  | bindFail =>
    simp only [mstep, stepCalls]
    split <;> rfl

theorem runFrom_m (mv : MVariant) (ops : List MOp) : ∀ s : MWorld, (runFrom mv s ops).1.m = s.m.calls (trace mv s ops) := by
  induction ops with
  | nil => intro s; rfl
  | cons o os ih =>
    intro s
    simp only [runFrom, trace]
    rw [ih, mstep_m, calls_append]

theorem runFrom_append (mv : MVariant) (a b : List MOp) : ∀ s : MWorld,
    runFrom mv s (a ++ b) = ((runFrom mv (runFrom mv s a).1 b).1, (runFrom mv s a).2 ++ (runFrom mv (runFrom mv s a).1 b).2) := by
  induction a with
  | nil => intro s; simp [runFrom]
  | cons o os ih => intro s; simp [runFrom, ih]

/-! ### Every step: the code's calls against the ledger -/

/-- The set-size register after a list of calls, starting from `d`. -/
def setOf (d : Nat) : List Call → Nat
  | [] => d
  | .gate (some n) _ :: cs => setOf n cs
  | _ :: cs => setOf d cs

theorem setOf_append (a b : List Call) : ∀ d, setOf d (a ++ b) = setOf (setOf d a) b := by
  induction a with
  | nil => intro d; rfl
  | cons c cs ih =>
    intro d
    cases c with
    | gate bulk dl => cases bulk <;> simp [setOf, ih]
    | _ => simp [setOf, ih]

theorem calls_setSize (cs : List Call) : ∀ m : Metrics, (m.calls cs).setSize = setOf m.setSize cs := by
  induction cs with
  | nil => intro m; rfl
  | cons c cs ih =>
    intro m
    rw [calls_cons, ih]
    cases c with
    | gate bulk dl => cases bulk <;> simp [setOf, Metrics.call]
    | _ => simp [setOf, Metrics.call]

def Agree (mv : MVariant) (cs : List Call) (o : Obs) : Prop :=
  cBound cs = nBound o ∧ cAccepted cs = nAccepted o ∧ cLost cs = nLost mv o ∧ cDisc cs = nDisc mv o ∧
  cGate cs = nGate o ∧ cDropped cs = nDropped o ∧ ∀ d, setOf d cs = lastBulk d [o]

theorem finishCalls_eq (v : BgpIn.Variant) (w : World) (k : Nat) (x : Sess) (linked : Bool) :
    finishCalls linked x = if (finish v w k x).2.isSome then [Call.gate none linked] else [] := by
  unfold finishCalls finish
  split <;> simp_all

theorem counted_counts (st : Site) :
    cLost (counted st .lost) = on st ∧ cDisc (counted st .disconnect) = on st ∧
    cBound (counted st .lost) = 0 ∧ cAccepted (counted st .lost) = 0 ∧ cDisc (counted st .lost) = 0 ∧
    cGate (counted st .lost) = 0 ∧ cDropped (counted st .lost) = 0 ∧
    cBound (counted st .disconnect) = 0 ∧ cAccepted (counted st .disconnect) = 0 ∧ cLost (counted st .disconnect) = 0 ∧
    cGate (counted st .disconnect) = 0 ∧ cDropped (counted st .disconnect) = 0 := by
  cases st <;> simp [counted, on, cLost, cDisc, cBound, cAccepted, cGate, cDropped, isGate, isDropped]

section
attribute [local simp] cBound cAccepted cLost cDisc cGate cDropped nBound nAccepted nLost nDisc nGate nDropped isGate
  isDropped counted on isEnd withdrew endOut setOf lastBulk

theorem step_agrees_conn (mv : MVariant) (s : MWorld) (a : Addr) (asn : Nat) :
    Agree mv (stepCalls mv s (.base (.conn a asn))) ⟨.base (.conn a asn), (mstep mv s (.base (.conn a asn))).2, s.linked⟩ := by
  simp only [stepCalls, baseCalls, connCalls, mstep, step, Agree]
  by_cases ht : s.w.term
  · simp [ht, cBound, cAccepted, cLost, cDisc, cGate, cDropped, nBound, nAccepted, nLost, nDisc, nGate, nDropped]
  · cases hg : get s.w.cfg a with
    | none => simp [ht, hg, cBound, cAccepted, cLost, cDisc, cGate, cDropped, nBound, nAccepted, nLost, nDisc, nGate, nDropped, isGate, isDropped]
    | some e =>
      by_cases hacc : e.asns.accepts asn
      · by_cases hl : (a, asn) ∈ s.w.live
        · cases h : mv.discdup <;> simp [ht, hg, hacc, hl, counted, on, h, cBound, cAccepted, cLost, cDisc, cGate, cDropped, nBound, nAccepted, nLost, nDisc, nGate, nDropped, isGate, isDropped]
        · simp [ht, hg, hacc, hl, cBound, cAccepted, cLost, cDisc, cGate, cDropped, nBound, nAccepted, nLost, nDisc, nGate, nDropped, isGate, isDropped]
      · simp [ht, hg, hacc, cBound, cAccepted, cLost, cDisc, cGate, cDropped, nBound, nAccepted, nLost, nDisc, nGate, nDropped, isGate, isDropped]



theorem step_agrees_notif (mv : MVariant) (s : MWorld) (k : Nat) :
    Agree mv (stepCalls mv s (.base (.notif k))) ⟨.base (.notif k), (mstep mv s (.base (.notif k))).2, s.linked⟩ := by
  simp only [stepCalls, baseCalls, opSlot, slotCalls, mstep, step, Agree]
  cases hs : s.w.sess[k]? with
  | none => simp [hs]
  | some x => by_cases hc : x.copen <;> simp [hs, hc]

theorem step_agrees_upd (mv : MVariant) (s : MWorld) (k : Nat) (u : Rib.Upd) :
    Agree mv (stepCalls mv s (.base (.upd k u))) ⟨.base (.upd k u), (mstep mv s (.base (.upd k u))).2, s.linked⟩ := by
  simp only [stepCalls, baseCalls, opSlot, slotCalls, mstep, step, Agree]
  cases hs : s.w.sess[k]? with
  | none => simp [hs]
  | some x =>
    by_cases hc : x.copen
    · by_cases hp : x.ph = .running
      · cases hl : s.linked <;> simp [hs, hc, hp, hl]
      · simp [hs, hc, hp]
    · simp [hs, hc]

theorem step_agrees_fin (mv : MVariant) (s : MWorld) (k : Nat) :
    Agree mv (stepCalls mv s (.base (.fin k))) ⟨.base (.fin k), (mstep mv s (.base (.fin k))).2, s.linked⟩ := by
  simp only [stepCalls, baseCalls, opSlot, slotCalls, mstep, step, Agree]
  cases hs : s.w.sess[k]? with
  | none => simp [hs]
  | some x =>
    by_cases hc : x.copen
    · by_cases hp : x.ph = .running ∨ x.ph = .flooding
      · cases hf : (finish mv.base s.w k x).2 <;> cases hl : s.linked <;> cases hv : mv.lostfin <;>
          simp [hs, hc, hp, hf, hl, hv, finishCalls_eq mv.base s.w k x]
      · simp [hs, hc, hp]
    · simp [hs, hc]

theorem step_agrees_rst (mv : MVariant) (s : MWorld) (k : Nat) :
    Agree mv (stepCalls mv s (.base (.rst k))) ⟨.base (.rst k), (mstep mv s (.base (.rst k))).2, s.linked⟩ := by
  simp only [stepCalls, baseCalls, opSlot, slotCalls, mstep, step, Agree]
  cases hs : s.w.sess[k]? with
  | none => simp [hs]
  | some x =>
    by_cases hc : x.copen
    · by_cases hp : x.ph = .running ∨ x.ph = .flooding
      · cases hf : (finish mv.base s.w k x).2 <;> cases hl : s.linked <;> cases hv : mv.losterr <;>
          simp [hs, hc, hp, hf, hl, hv, finishCalls_eq mv.base s.w k x]
      · simp [hs, hc, hp]
    · simp [hs, hc]

theorem step_agrees_hold (mv : MVariant) (s : MWorld) (k : Nat) :
    Agree mv (stepCalls mv s (.base (.hold k))) ⟨.base (.hold k), (mstep mv s (.base (.hold k))).2, s.linked⟩ := by
  simp only [stepCalls, baseCalls, opSlot, slotCalls, mstep, step, Agree, MVariant.base]
  cases hs : s.w.sess[k]? with
  | none => simp [hs]
  | some x =>
    by_cases hc : x.copen
    · by_cases hp : x.ph = .running
      · cases hf : (finish { fsmdrop := .repaired, frame := mv.frame, rib := mv.rib } s.w k x).2 <;> cases hl : s.linked <;>
          simp [hs, hc, hp, hf, hl, finishCalls_eq { fsmdrop := .repaired, frame := mv.frame, rib := mv.rib } s.w k x]
      · simp [hs, hc, hp]
    · simp [hs, hc]

theorem step_agrees_garbage (mv : MVariant) (s : MWorld) (k kind : Nat) :
    Agree mv (stepCalls mv s (.base (.garbage k kind))) ⟨.base (.garbage k kind), (mstep mv s (.base (.garbage k kind))).2, s.linked⟩ := by
  simp only [stepCalls, baseCalls, opSlot, slotCalls, mstep, step, Agree, MVariant.base]
  cases hs : s.w.sess[k]? with
  | none => simp [hs]
  | some x =>
    by_cases hc : x.copen
    · by_cases hp : x.ph = .running
      · by_cases hk : kind = 0 ∧ mv.frame = .asWritten
        · simp [hs, hc, hp, hk]
        · cases hf : (finish { fsmdrop := .repaired, frame := mv.frame, rib := mv.rib } s.w k x).2 <;> cases hl : s.linked <;>
            cases hv : mv.losterr <;>
            simp [hs, hc, hp, hk, hf, hl, hv, finishCalls_eq { fsmdrop := .repaired, frame := mv.frame, rib := mv.rib } s.w k x]
      · by_cases hp2 : x.ph = .flooding
        · cases hf : (finish { fsmdrop := .repaired, frame := mv.frame, rib := mv.rib } s.w k x).2 <;> cases hl : s.linked <;>
            cases hv : mv.losterr <;>
            simp [hs, hc, hp, hp2, hf, hl, hv, finishCalls_eq { fsmdrop := .repaired, frame := mv.frame, rib := mv.rib } s.w k x]
        · simp [hs, hc, hp, hp2]
    · simp [hs, hc]

theorem count_append (a b : List Call) :
    cBound (a ++ b) = cBound a + cBound b ∧ cAccepted (a ++ b) = cAccepted a + cAccepted b ∧
    cLost (a ++ b) = cLost a + cLost b ∧ cDisc (a ++ b) = cDisc a + cDisc b ∧
    cGate (a ++ b) = cGate a + cGate b ∧ cDropped (a ++ b) = cDropped a + cDropped b := by
  simp [List.countP_append]

theorem finish_snd (v : BgpIn.Variant) (w : World) (k : Nat) (x : Sess) :
    (finish v w k x).2 = match x.neg, x.rejected with | some _, false => some x.id | _, _ => none := by
  unfold finish
  split <;> simp_all

/-- Termination: every session that is up reports one `disconnect`; those with a negotiated, not rejected session
    send their `Withdraw`. -/
theorem terminateCalls_counts (linked : Bool) (ss : List Sess) :
    cBound (terminateCalls linked ss) = 0 ∧ cAccepted (terminateCalls linked ss) = 0 ∧ cLost (terminateCalls linked ss) = 0 ∧
    cDisc (terminateCalls linked ss) = runningN ss ∧
    cDropped (terminateCalls linked ss) = if linked then 0 else cGate (terminateCalls linked ss) := by
  induction ss with
  | nil => simp [terminateCalls, runningN]
  | cons x xs ih =>
    obtain ⟨h1, h2, h3, h4, h5⟩ := ih
    obtain ⟨a1, a2, a3, a4, a5, a6⟩ := count_append (if x.ph = .running then .disconnect :: finishCalls linked x else []) (terminateCalls linked xs)
    simp only [terminateCalls]
    rw [a1, a2, a3, a4, a5, a6, h1, h2, h3, h4, h5]
    by_cases hp : x.ph = .running
    · cases hl : linked <;> simp [hp, runningN, finishCalls, List.filter_cons] <;> split <;> simp <;> omega
    · cases hl : linked <;> simp [hp, runningN, List.filter_cons]

theorem setOf_finishCalls (linked : Bool) (x : Sess) (d : Nat) : setOf d (finishCalls linked x) = d := by
  unfold finishCalls; split <;> simp

theorem setOf_terminateCalls (linked : Bool) (ss : List Sess) : ∀ d, setOf d (terminateCalls linked ss) = d := by
  induction ss with
  | nil => intro d; simp [terminateCalls]
  | cons x xs ih =>
    intro d
    simp only [terminateCalls, setOf_append, ih]
    split
    · simp [setOf_finishCalls]
    · simp

theorem setOf_verdictCalls (mv : MVariant) (vd : Verdict) (d : Nat) : setOf d (verdictCalls mv vd) = d := by
  cases vd
  · cases h : mv.discmain <;> simp [verdictCalls, h]
  · cases h : mv.discpeer <;> simp [verdictCalls, h]
  · simp [verdictCalls]

theorem setOf_reconfCalls (mv : MVariant) (cfg' : List Entry) (main' : Nat × Nat) (ss : List Sess) :
    ∀ (as : List (Option Acc)) (d : Nat), setOf d (reconfCalls mv cfg' main' ss as) = d := by
  induction ss with
  | nil => intro as d; simp [reconfCalls]
  | cons x xs ih =>
    intro as d
    cases as with
    | nil => simp [reconfCalls]
    | cons a as =>
      simp only [reconfCalls, setOf_append, ih]
      split
      · simp [setOf_append, setOf_verdictCalls, setOf_finishCalls]
      · simp

theorem terminateAll_ws (v : BgpIn.Variant) (hv : v.fsmdrop = .repaired) (linked : Bool) (ss : List Sess) :
    ∀ (k : Nat) (w : World) (acc : List Nat),
      (terminateAll v k ss w acc).2.length = acc.length + cGate (terminateCalls linked ss) := by
  induction ss with
  | nil => intro k w acc; simp [terminateAll, terminateCalls]
  | cons x xs ih =>
    intro k w acc
    unfold terminateAll
    simp only [terminateCalls]
    obtain ⟨_, _, _, _, a5, _⟩ := count_append (if x.ph = .running then .disconnect :: finishCalls linked x else []) (terminateCalls linked xs)
    rw [a5]
    by_cases hp : x.ph = .running
    · simp only [hp, if_true, hv]
      rw [ih]
      rw [finish_snd]
      simp only [finishCalls]
      split <;> simp_all <;> omega
    · simp only [hp, if_false]
      rw [ih]
      simp

theorem step_agrees_terminate (mv : MVariant) (s : MWorld) :
    Agree mv (stepCalls mv s (.base .terminate)) ⟨.base .terminate, (mstep mv s (.base .terminate)).2, s.linked⟩ := by
  simp only [stepCalls, baseCalls, mstep, step, Agree]
  by_cases ht : s.w.term
  · simp [ht]
  · obtain ⟨h1, h2, h3, h4, h5⟩ := terminateCalls_counts s.linked s.w.sess
    have h6 := terminateAll_ws mv.base rfl s.linked s.w.sess 0 { s.w with term := true } []
    simp only [ht, if_false, Bool.false_eq_true]
    simp only [nBound, nAccepted, nLost, nDisc, nGate, nDropped]
    rw [h1, h2, h3, h4, h5, h6]
    cases hl : s.linked <;> simp [setOf_terminateCalls]

theorem verdictCalls_counts (mv : MVariant) (vd : Verdict) :
    cBound (verdictCalls mv vd) = 0 ∧ cAccepted (verdictCalls mv vd) = 0 ∧ cLost (verdictCalls mv vd) = 0 ∧
    cDisc (verdictCalls mv vd) = verdictWeight mv vd ∧ cGate (verdictCalls mv vd) = 0 ∧ cDropped (verdictCalls mv vd) = 0 := by
  cases vd
  · cases h : mv.discmain <;> simp [verdictCalls, verdictWeight, h]
  · cases h : mv.discpeer <;> simp [verdictCalls, verdictWeight, h]
  · simp [verdictCalls, verdictWeight]

theorem finishCalls_counts (linked : Bool) (x : Sess) :
    cBound (finishCalls linked x) = 0 ∧ cAccepted (finishCalls linked x) = 0 ∧ cLost (finishCalls linked x) = 0 ∧
    cDisc (finishCalls linked x) = 0 ∧ cDropped (finishCalls linked x) = if linked then 0 else cGate (finishCalls linked x) := by
  unfold finishCalls
  cases linked <;> split <;> simp

/-- Reconfiguration: what the processors report, against the list of sessions it ended. -/
theorem reconf_counts (mv : MVariant) (v : BgpIn.Variant) (cfg' : List Entry) (main' : Nat × Nat) (ss : List Sess) :
    ∀ (as : List (Option Acc)) (k : Nat) (w : World) (out : List (Nat × Verdict × Bool)),
      cBound (reconfCalls mv cfg' main' ss as) = 0 ∧ cAccepted (reconfCalls mv cfg' main' ss as) = 0 ∧
      cLost (reconfCalls mv cfg' main' ss as) = 0 ∧
      cDropped (reconfCalls mv cfg' main' ss as) = cGate (reconfCalls mv cfg' main' ss as) ∧
      (((reconfAll v cfg' main' k ss as w out).2.map fun e => verdictWeight mv e.2.1).sum
        = (out.map fun e => verdictWeight mv e.2.1).sum + cDisc (reconfCalls mv cfg' main' ss as)) ∧
      (((reconfAll v cfg' main' k ss as w out).2.filter fun e => e.2.2).length
        = (out.filter fun e => e.2.2).length + cGate (reconfCalls mv cfg' main' ss as)) := by
  induction ss with
  | nil => intro as k w out; simp [reconfCalls, reconfAll]
  | cons x xs ih =>
    intro as k w out
    cases as with
    | nil => simp [reconfCalls, reconfAll]
    | cons a as =>
      simp only [reconfCalls, reconfAll]
      cases hv : verdict cfg' main' x a with
      | none =>
        obtain ⟨h1, h2, h3, h4, h5, h6⟩ := ih as (k + 1) w out
        dsimp only
        simp only [List.nil_append]
        exact ⟨h1, h2, h3, h4, h5, h6⟩
      | some vd =>
        obtain ⟨h1, h2, h3, h4, h5, h6⟩ := ih as (k + 1) (finish v w k x).1 (out ++ [(k, vd, (finish v w k x).2.isSome)])
        obtain ⟨a1, a2, a3, a4, a5, a6⟩ := count_append (verdictCalls mv vd ++ finishCalls false x) (reconfCalls mv cfg' main' xs as)
        obtain ⟨b1, b2, b3, b4, b5, b6⟩ := count_append (verdictCalls mv vd) (finishCalls false x)
        obtain ⟨c1, c2, c3, c4, c5, c6⟩ := verdictCalls_counts mv vd
        obtain ⟨d1, d2, d3, d4, d5⟩ := finishCalls_counts false x
        have hf : cGate (finishCalls false x) = if (finish v w k x).2.isSome then 1 else 0 := by
          rw [finishCalls_eq v w k x]; split <;> simp
        have d5' : cDropped (finishCalls false x) = cGate (finishCalls false x) := by
          rw [d5]; rfl
        dsimp only
        refine ⟨by omega, by omega, by omega, ?_, ?_, ?_⟩
        · omega
        · simp only [h5, List.map_append, List.sum_append, List.map_cons, List.map_nil, List.sum_cons, List.sum_nil]
          omega
        · simp only [h6, List.filter_append, List.length_append]
          cases hfs : (finish v w k x).2.isSome
          · rw [hfs] at hf
            simp only [List.filter_cons, List.filter_nil, List.length_nil, Bool.false_eq_true, if_false] at hf ⊢
            omega
          · rw [hfs] at hf
            simp only [List.filter_cons, List.filter_nil, List.length_cons, List.length_nil, if_true] at hf ⊢
            omega

theorem step_agrees_reconf (mv : MVariant) (s : MWorld) (cfg' : List Entry) (l a : Nat) :
    Agree mv (stepCalls mv s (.reconf cfg' l a)) ⟨.reconf cfg' l a, (mstep mv s (.reconf cfg' l a)).2, s.linked⟩ := by
  simp only [stepCalls, mstep, Agree]
  by_cases ht : s.w.term
  · simp [ht]
  · obtain ⟨h1, h2, h3, h4, h5, h6⟩ := reconf_counts mv mv.base cfg' (l, a) s.w.sess s.acc 0 s.w []
    obtain ⟨a1, a2, a3, a4, a5, a6⟩ := count_append (if l ≠ s.main.1 then [Call.listening] else []) (reconfCalls mv cfg' (l, a) s.w.sess s.acc)
    simp only [ht, if_false, Bool.false_eq_true]
    rw [a1, a2, a3, a4, a5, a6, h1, h2, h3, h4]
    simp only [nBound, nAccepted, nLost, nDisc, nGate, nDropped, h5, h6]
    by_cases hl : l = s.main.1 <;> simp [hl, setOf_append, setOf_reconfCalls]

theorem step_agrees_acceptErr (mv : MVariant) (s : MWorld) :
    Agree mv (stepCalls mv s .acceptErr) ⟨.acceptErr, (mstep mv s .acceptErr).2, s.linked⟩ := by
  simp only [stepCalls, mstep, Agree]
  by_cases ht : s.w.term <;> simp [ht]

theorem step_agrees_bindFail (mv : MVariant) (s : MWorld) :
    Agree mv (stepCalls mv s .bindFail) ⟨.bindFail, (mstep mv s .bindFail).2, s.linked⟩ := by
  simp only [stepCalls, mstep, Agree]
  by_cases ht : s.w.term <;> simp [ht]

/-- Every step: the calls the code makes are exactly what the ledger reads off the observation. -/
theorem step_agrees (mv : MVariant) (s : MWorld) (o : MOp) : Agree mv (stepCalls mv s o) ⟨o, (mstep mv s o).2, s.linked⟩ := by
  cases o with
  | base o =>
    cases o with
    | conn a asn => exact step_agrees_conn mv s a asn
    | upd k u => exact step_agrees_upd mv s k u
    | notif k => exact step_agrees_notif mv s k
    | fin k => exact step_agrees_fin mv s k
    | rst k => exact step_agrees_rst mv s k
    | garbage k kind => exact step_agrees_garbage mv s k kind
    | hold k => exact step_agrees_hold mv s k
    | terminate => exact step_agrees_terminate mv s
  | reconf cfg' l a => exact step_agrees_reconf mv s cfg' l a
  | acceptErr => exact step_agrees_acceptErr mv s
  | bindFail => exact step_agrees_bindFail mv s
end

/-! ### Histories -/

theorem total_cons (f : Obs → Nat) (o : Obs) (os : List Obs) : total f (o :: os) = f o + total f os := by
  simp [total]

theorem total_append (f : Obs → Nat) (a b : List Obs) : total f (a ++ b) = total f a + total f b := by
  simp [total]

theorem lastBulk_cons (o : Obs) (os : List Obs) (d : Nat) : lastBulk d (o :: os) = lastBulk (lastBulk d [o]) os := by
  simp only [lastBulk]
  split <;> rfl

/-- The whole trace of a run against the ledger of its observations. -/
theorem trace_agrees (mv : MVariant) (ops : List MOp) : ∀ s : MWorld,
    cBound (trace mv s ops) = total nBound (runFrom mv s ops).2 ∧
    cAccepted (trace mv s ops) = total nAccepted (runFrom mv s ops).2 ∧
    cLost (trace mv s ops) = total (nLost mv) (runFrom mv s ops).2 ∧
    cDisc (trace mv s ops) = total (nDisc mv) (runFrom mv s ops).2 ∧
    cGate (trace mv s ops) = total nGate (runFrom mv s ops).2 ∧
    cDropped (trace mv s ops) = total nDropped (runFrom mv s ops).2 ∧
    ∀ d, setOf d (trace mv s ops) = lastBulk d (runFrom mv s ops).2 := by
  induction ops with
  | nil => intro s; simp [trace, runFrom, total, cBound, cAccepted, cLost, cDisc, cGate, cDropped, setOf, lastBulk]
  | cons o os ih =>
    intro s
    obtain ⟨h1, h2, h3, h4, h5, h6, h7⟩ := ih (mstep mv s o).1
    obtain ⟨a1, a2, a3, a4, a5, a6⟩ := count_append (stepCalls mv s o) (trace mv (mstep mv s o).1 os)
    obtain ⟨g1, g2, g3, g4, g5, g6, g7⟩ := step_agrees mv s o
    simp only [trace, runFrom, total_cons]
    refine ⟨by omega, by omega, by omega, by omega, by omega, by omega, ?_⟩
    intro d
    rw [setOf_append, h7, lastBulk_cons, g7]

/-- **Exact accounting.** From any state, after any history of any length, every exported counter equals its
    value before plus the number of events of its class among the observations of that history; the set-size
    register holds the size of the last UPDATE that went through the gate. -/
theorem BgpMetrics_counters_exact_from (mv : MVariant) (s : MWorld) (ops : List MOp) :
    let r := runFrom mv s ops
    r.1.m.bound = s.m.bound + total nBound r.2 ∧
    r.1.m.accepted = s.m.accepted + total nAccepted r.2 ∧
    r.1.m.lost = s.m.lost + total (nLost mv) r.2 ∧
    r.1.m.disc = s.m.disc + total (nDisc mv) r.2 ∧
    r.1.m.gUpdates = s.m.gUpdates + total nGate r.2 ∧
    r.1.m.gDropped = s.m.gDropped + total nDropped r.2 ∧
    r.1.m.setSize = lastBulk s.m.setSize r.2 := by
  intro r
  obtain ⟨h1, h2, h3, h4, h5, h6, h7⟩ := trace_agrees mv ops s
  obtain ⟨c1, c2, c3, c4, c5, c6⟩ := calls_counts (trace mv s ops) s.m
  have hm : r.1.m = s.m.calls (trace mv s ops) := runFrom_m mv ops s
  refine ⟨?_, ?_, ?_, ?_, ?_, ?_, ?_⟩
  · rw [hm, c1, h1]
  · rw [hm, c2, h2]
  · rw [hm, c3, h3]
  · rw [hm, c4, h4]
  · rw [hm, c5, h5]
  · rw [hm, c6, h6]
  · rw [hm, calls_setSize, h7]

/-- … for a unit from its start: one bind at start-up, everything else zero. -/
theorem BgpMetrics_counters_exact (mv : MVariant) (cfg : List Entry) (linked : Bool) (ops : List MOp) :
    let r := run mv cfg linked ops
    r.1.m.bound = 1 + total nBound r.2 ∧
    r.1.m.accepted = total nAccepted r.2 ∧
    r.1.m.lost = total (nLost mv) r.2 ∧
    r.1.m.disc = total (nDisc mv) r.2 ∧
    r.1.m.gUpdates = total nGate r.2 ∧
    r.1.m.gDropped = total nDropped r.2 ∧
    r.1.m.exportedSetSize = (if total nGate r.2 = 0 then none else some (lastBulk 0 r.2)) := by
  intro r
  obtain ⟨h1, h2, h3, h4, h5, h6, h7⟩ := BgpMetrics_counters_exact_from mv (MWorld.init cfg linked) ops
  simp only [MWorld.init, Nat.zero_add] at h1 h2 h3 h4 h5 h6 h7
  refine ⟨h1, h2, h3, h4, h5, h6, ?_⟩
  show (if r.1.m.gUpdates = 0 then none else some r.1.m.setSize) = _
  have e5 : r.1.m.gUpdates = total nGate r.2 := h5
  have e7 : r.1.m.setSize = lastBulk 0 r.2 := h7
  rw [e5, e7]

example : (run asWritten [⟨.exact 1, .one 65001, 0⟩, ⟨.exact 2, .many [], 0⟩] true
    [.base (.conn 1 65001), .base (.conn 2 65002), .base (.conn 3 65001), .base (.upd 0 (.ok 7 [⟨⟨.v4, 8, 10⟩, .unicast⟩] [])),
     .acceptErr, .base (.fin 0), .base .terminate]).1.m
    = { bound := 2, accepted := 3, lost := 0, disc := 1, gUpdates := 3, gDropped := 0, setSize := 1 } := by decide


/-- **Counters never decrease**: from any state, for any history and any continuation of it. Nothing in the
    reporter subtracts (`call_counts`), so no gauge can underflow either; the only gauge, the set size, is
    overwritten by the size of a `Bulk` and by nothing else. -/
theorem BgpMetrics_counters_monotone (mv : MVariant) (s : MWorld) (a b : List MOp) :
    let m1 := (runFrom mv s a).1.m
    let m2 := (runFrom mv s (a ++ b)).1.m
    m1.bound ≤ m2.bound ∧ m1.accepted ≤ m2.accepted ∧ m1.lost ≤ m2.lost ∧ m1.disc ≤ m2.disc ∧
    m1.gUpdates ≤ m2.gUpdates ∧ m1.gDropped ≤ m2.gDropped := by
  intro m1 m2
  have e : m2 = (runFrom mv (runFrom mv s a).1 b).1.m := by
    show (runFrom mv s (a ++ b)).1.m = _
    rw [runFrom_append]
  obtain ⟨h1, h2, h3, h4, h5, h6, _⟩ := BgpMetrics_counters_exact_from mv (runFrom mv s a).1 b
  rw [e]
  refine ⟨?_, ?_, ?_, ?_, ?_, ?_⟩ <;> (first | exact Nat.le.intro (Eq.symm ‹_›) | omega)

example : (runFrom asWritten (MWorld.init [⟨.exact 1, .one 65001, 0⟩] true) [.base (.conn 1 65001)]).1.m.accepted
    < (runFrom asWritten (MWorld.init [⟨.exact 1, .one 65001, 0⟩] true) ([.base (.conn 1 65001)] ++ [.base (.conn 9 1)])).1.m.accepted := by
  decide

/-- Dropped updates never exceed updates. -/
theorem BgpMetrics_dropped_le_updates (mv : MVariant) (cfg : List Entry) (linked : Bool) (ops : List MOp) :
    (run mv cfg linked ops).1.m.gDropped ≤ (run mv cfg linked ops).1.m.gUpdates := by
  obtain ⟨_, _, _, _, h5, h6, _⟩ := BgpMetrics_counters_exact mv cfg linked ops
  rw [h5, h6]
  generalize (run mv cfg linked ops).2 = l
  induction l with
  | nil => simp [total]
  | cons o os ih =>
    rw [total_cons, total_cons]
    have : nDropped o ≤ nGate o := by
      unfold nDropped
      split
      · exact Nat.le_refl _
      · split <;> simp
    omega

/-! ### What the metric names say, and where the code as written disagrees -/

/-- Session ends caused from the peer's side: it closed, reset, or sent bytes that cannot be framed. -/
def peerEnds (o : Obs) : Nat :=
  match o.op, o.out with
  | .base (.fin _), .base out | .base (.rst _), .base out | .base (.garbage ..), .base out => if isEnd out then 1 else 0
  | _, _ => 0

/-- Connections of configured peers the unit ended by its own decision: an OPEN with a refused AS, a second
    session of a live peer, hold-timer expiry, termination, reconfiguration. -/
def unitEnds (o : Obs) : Nat :=
  match o.op, o.out with
  | .base (.conn ..), .base .badas => 1
  | .base (.conn ..), .base .rejected => 1
  | .base (.hold _), .base (.expired _) => 1
  | .base .terminate, .term up _ => up
  | .reconf .., .reconf _ ended => ended.length
  | _, _ => 0

/-- Peer-side ends the code does not count. -/
def missedLost (mv : MVariant) (o : Obs) : Nat :=
  match o.op, o.out with
  | .base (.fin _), .base out => if isEnd out then 1 - on mv.lostfin else 0
  | .base (.rst _), .base out | .base (.garbage ..), .base out => if isEnd out then 1 - on mv.losterr else 0
  | _, _ => 0

/-- Unit-side ends the code does not count. -/
def missedDisc (mv : MVariant) (o : Obs) : Nat :=
  match o.op, o.out with
  | .base (.conn ..), .base .badas => 1
  | .base (.conn ..), .base .rejected => 1 - on mv.discdup
  | .base (.hold _), .base (.expired _) => 1
  | .reconf .., .reconf _ ended => (ended.map fun e => 1 - verdictWeight mv e.2.1).sum
  | _, _ => 0

theorem on_le_one (st : Site) : on st ≤ 1 := by cases st <;> simp [on]

theorem lost_pointwise (mv : MVariant) (o : Obs) : nLost mv o + missedLost mv o = peerEnds o := by
  have h1 := on_le_one mv.lostfin
  have h2 := on_le_one mv.losterr
  unfold nLost missedLost peerEnds
  split <;> simp_all <;> split <;> omega

theorem sum_weights (mv : MVariant) (l : List (Nat × Verdict × Bool)) :
    (l.map fun e => verdictWeight mv e.2.1).sum + (l.map fun e => 1 - verdictWeight mv e.2.1).sum = l.length := by
  induction l with
  | nil => simp
  | cons e es ih =>
    have : verdictWeight mv e.2.1 ≤ 1 := by
      cases e.2.1 <;> simp [verdictWeight, on_le_one]
    simp only [List.map_cons, List.sum_cons, List.length_cons]
    omega

theorem disc_pointwise (mv : MVariant) (o : Obs) : nDisc mv o + missedDisc mv o = unitEnds o := by
  have h1 := on_le_one mv.discdup
  obtain ⟨op, out, lk⟩ := o
  cases op with
  | base b =>
    cases out with
    | base ob =>
      cases b <;> cases ob <;> simp [nDisc, missedDisc, unitEnds] <;> first | omega | (rename_i w; cases w <;> simp)
    | _ => cases b <;> simp [nDisc, missedDisc, unitEnds]
  | reconf c l a =>
    cases out with
    | reconf rb ended => simpa [nDisc, missedDisc, unitEnds] using sum_weights mv ended
    | _ => simp [nDisc, missedDisc, unitEnds]
  | _ => cases out <;> simp [nDisc, missedDisc, unitEnds]

theorem total_add (f g h : Obs → Nat) (e : ∀ o, f o + g o = h o) (l : List Obs) : total f l + total g l = total h l := by
  induction l with
  | nil => simp [total]
  | cons o os ih => simp only [total_cons]; have := e o; omega

/-- **What is counted and what is not, exactly**: for every variant and every history,
    `connection_lost_count` + the peer-side ends the code misses = all peer-side ends, and
    `disconnect_count` + the unit-side ends the code misses = all unit-side ends. -/
theorem BgpMetrics_ends_accounted (mv : MVariant) (cfg : List Entry) (linked : Bool) (ops : List MOp) :
    let r := run mv cfg linked ops
    r.1.m.lost + total (missedLost mv) r.2 = total peerEnds r.2 ∧
    r.1.m.disc + total (missedDisc mv) r.2 = total unitEnds r.2 := by
  intro r
  obtain ⟨_, _, h3, h4, _, _, _⟩ := BgpMetrics_counters_exact mv cfg linked ops
  exact ⟨by rw [h3]; exact total_add _ _ _ (lost_pointwise mv) _, by rw [h4]; exact total_add _ _ _ (disc_pointwise mv) _⟩

/-- "the number of times the connection to a peer was lost" -/
def lost_full (mv : MVariant) : Prop :=
  ∀ (cfg : List Entry) (linked : Bool) (ops : List MOp),
    (run mv cfg linked ops).1.m.lost = total peerEnds (run mv cfg linked ops).2

/-- "the number of times the connection to a peer was actively disconnected" -/
def disc_full (mv : MVariant) : Prop :=
  ∀ (cfg : List Entry) (linked : Bool) (ops : List MOp),
    (run mv cfg linked ops).1.m.disc = total unitEnds (run mv cfg linked ops).2

/-- On the tree as written `connection_lost_count` is a constant: no history moves it. -/
theorem BgpMetrics_lost_never_counted (mv : MVariant) (h1 : mv.lostfin = .asWritten) (h2 : mv.losterr = .asWritten)
    (s : MWorld) (ops : List MOp) : (runFrom mv s ops).1.m.lost = s.m.lost := by
  obtain ⟨_, _, h3, _⟩ := BgpMetrics_counters_exact_from mv s ops
  rw [h3]
  have z : ∀ l : List Obs, total (nLost mv) l = 0 := by
    intro l
    induction l with
    | nil => simp [total]
    | cons o os ih =>
      rw [total_cons, ih]
      unfold nLost
      split <;> simp [on, h1, h2]
  rw [z]; rfl

/-- With both `lost` sites repaired the counter is what its name says, for every history. -/
theorem BgpMetrics_lost_repaired (mv : MVariant) (h1 : mv.lostfin = .repaired) (h2 : mv.losterr = .repaired) : lost_full mv := by
  intro cfg linked ops
  obtain ⟨h, _⟩ := BgpMetrics_ends_accounted mv cfg linked ops
  have z : ∀ l : List Obs, total (missedLost mv) l = 0 := by
    intro l
    induction l with
    | nil => simp [total]
    | cons o os ih =>
      rw [total_cons, ih]
      unfold missedLost
      split <;> simp [on, h1, h2]
  rw [z] at h
  exact h

/-- Guarded partial for the tree as written: a history without peer-side ends. -/
theorem BgpMetrics_lost_partial (mv : MVariant) (cfg : List Entry) (linked : Bool) (ops : List MOp)
    (g : total peerEnds (run mv cfg linked ops).2 = 0) :
    (run mv cfg linked ops).1.m.lost = total peerEnds (run mv cfg linked ops).2 := by
  obtain ⟨h, _⟩ := BgpMetrics_ends_accounted mv cfg linked ops
  omega

/-- Guarded partial: `disconnect_count` is exact on every history in which the code misses nothing. -/
theorem BgpMetrics_disc_partial (mv : MVariant) (cfg : List Entry) (linked : Bool) (ops : List MOp)
    (g : total (missedDisc mv) (run mv cfg linked ops).2 = 0) :
    (run mv cfg linked ops).1.m.disc = total unitEnds (run mv cfg linked ops).2 := by
  obtain ⟨_, h⟩ := BgpMetrics_ends_accounted mv cfg linked ops
  omega


/-! ### Witnesses (each is replayed on the real unit by the engine first) -/

def E1 : List Entry := [⟨.exact 1, .one 65001, 0⟩]
def E3 : List Entry := [⟨.exact 1, .one 65001, 0⟩, ⟨.exact 2, .one 65002, 0⟩, ⟨.exact 3, .many [], 0⟩]
def E3' : List Entry := [⟨.exact 1, .one 65001, 0⟩, ⟨.exact 2, .many [65002], 0⟩]

/-- `bgpmetrics:connection_lost_count:peer-close-not-counted`: the peer closes an established session. -/
theorem BgpMetrics_lost_fin_counterexample :
    (run asWritten E1 true [.base (.conn 1 65001), .base (.fin 0)]).1.m.lost = 0 ∧
    total peerEnds (run asWritten E1 true [.base (.conn 1 65001), .base (.fin 0)]).2 = 1 ∧
    (run { asWritten with lostfin := .repaired } E1 true [.base (.conn 1 65001), .base (.fin 0)]).1.m.lost = 1 ∧
    ¬ lost_full asWritten := by
  refine ⟨by decide, by decide, by decide, fun h => ?_⟩
  have := h E1 true [.base (.conn 1 65001), .base (.fin 0)]
  revert this; decide

/-- `bgpmetrics:connection_lost_count:read-error-not-counted`: the peer resets an established session. -/
theorem BgpMetrics_lost_rst_counterexample :
    (run asWritten E1 true [.base (.conn 1 65001), .base (.rst 0)]).1.m.lost = 0 ∧
    total peerEnds (run asWritten E1 true [.base (.conn 1 65001), .base (.rst 0)]).2 = 1 ∧
    (run { asWritten with losterr := .repaired } E1 true [.base (.conn 1 65001), .base (.rst 0)]).1.m.lost = 1 ∧
    ¬ lost_full { asWritten with lostfin := .repaired } := by
  refine ⟨by decide, by decide, by decide, fun h => ?_⟩
  have := h E1 true [.base (.conn 1 65001), .base (.rst 0)]
  revert this; decide

/-- `bgpmetrics:disconnect_count:duplicate-session-not-counted`, `…:bad-peer-as-not-counted`,
    `…:hold-timer-expiry-not-counted`: the unit ends the connection, `disconnect_count` stays 0. The first has a
    repair site (`discdup`); the other two are decided inside routecore's session, which does not tell the unit. -/
theorem BgpMetrics_disc_counterexamples :
    (run asWritten E1 true [.base (.conn 1 65001), .base (.conn 1 65001)]).1.m.disc = 0 ∧
    total unitEnds (run asWritten E1 true [.base (.conn 1 65001), .base (.conn 1 65001)]).2 = 1 ∧
    (run { asWritten with discdup := .repaired } E1 true [.base (.conn 1 65001), .base (.conn 1 65001)]).1.m.disc = 1 ∧
    (run repaired E1 true [.base (.conn 1 65002)]).1.m.disc = 0 ∧
    total unitEnds (run repaired E1 true [.base (.conn 1 65002)]).2 = 1 ∧
    (run repaired E1 true [.base (.conn 1 65001), .base (.hold 0)]).1.m.disc = 0 ∧
    total unitEnds (run repaired E1 true [.base (.conn 1 65001), .base (.hold 0)]).2 = 1 ∧
    ¬ disc_full asWritten ∧ ¬ disc_full repaired := by
  refine ⟨by decide, by decide, by decide, by decide, by decide, by decide, by decide, fun h => ?_, fun h => ?_⟩
  · have := h E1 true [.base (.conn 1 65001), .base (.conn 1 65001)]
    revert this; decide
  · have := h E1 true [.base (.conn 1 65002)]
    revert this; decide

/-- `bgpmetrics:disconnect_count:peer-config-changed-not-counted`, `…:unit-config-changed-not-counted`: three
    sessions; the reconfiguration keeps peer 1, changes peer 2's AS policy and removes peer 3: two sessions are
    ended, one `disconnect` is counted (the removed peer); a changed own AS ends the remaining one uncounted. -/
theorem BgpMetrics_reconf_counterexample :
    let ops : List MOp := [.base (.conn 1 65001), .base (.conn 2 65002), .base (.conn 3 65003), .reconf E3' 0 0, .reconf E3' 0 1]
    (run asWritten E3 true ops).1.m.disc = 1 ∧ total unitEnds (run asWritten E3 true ops).2 = 3 ∧
    (run asWritten E3 true ops).1.m.gUpdates = 3 ∧ (run asWritten E3 true ops).1.m.gDropped = 3 ∧
    (run { asWritten with discpeer := .repaired } E3 true ops).1.m.disc = 2 ∧
    (run { asWritten with discpeer := .repaired, discmain := .repaired } E3 true ops).1.m.disc = 3 := by
  decide

/-- The naive conservation law "every accepted connection is open, lost or disconnected". -/
def conservation_full (mv : MVariant) : Prop :=
  ∀ (cfg : List Entry) (linked : Bool) (ops : List MOp),
    (run mv cfg linked ops).1.m.accepted
      = live (run mv cfg linked ops).1 + (run mv cfg linked ops).1.m.lost + (run mv cfg linked ops).1.m.disc

theorem BgpMetrics_conservation_counterexample :
    (run asWritten E1 true [.base (.conn 1 65001), .base (.fin 0)]).1.m.accepted = 1 ∧
    live (run asWritten E1 true [.base (.conn 1 65001), .base (.fin 0)]).1 = 0 ∧
    ¬ conservation_full asWritten ∧
    -- a connection from an address no peer entry contains is accepted and dropped: counted as accepted only
    ¬ conservation_full repaired := by
  refine ⟨by decide, by decide, fun h => ?_, fun h => ?_⟩
  · have := h E1 true [.base (.conn 1 65001), .base (.fin 0)]
    revert this; decide
  · have := h E1 true [.base (.conn 9 65001)]
    revert this; decide

/-! ### Sessions do not see each other -/

/-- What a per-session event contributes depends on that session's own slot (and on whether a link is
    attached), on nothing else: two states that agree there produce the same calls. -/
theorem BgpMetrics_session_local (mv : MVariant) (s1 s2 : MWorld) (o : Op) (k : Nat) (ho : opSlot o = some k)
    (hk : s1.w.sess[k]? = s2.w.sess[k]?) (hl : s1.linked = s2.linked) :
    stepCalls mv s1 (.base o) = stepCalls mv s2 (.base o) := by
  cases o <;> simp_all [stepCalls, baseCalls, opSlot]

theorem finish_other (v : BgpIn.Variant) (w : World) (j k : Nat) (x : Sess) (h : j ≠ k) :
    (finish v w j x).1.sess[k]? = w.sess[k]? := by
  unfold finish
  split <;> simp [setSess, emit, List.getElem?_set_ne h]

/-- An event of session `j` leaves every other slot as it was … -/
theorem BgpMetrics_other_slot_untouched (mv : MVariant) (s : MWorld) (o : Op) (j k : Nat) (ho : opSlot o = some j)
    (h : j ≠ k) : (mstep mv s (.base o)).1.w.sess[k]? = s.w.sess[k]? := by
  cases o with
  | conn a asn => simp [opSlot] at ho
  | terminate => simp [opSlot] at ho
  | upd i u =>
    simp only [opSlot, Option.some.injEq] at ho; subst ho
    simp only [mstep, step]
    cases hs : s.w.sess[i]? with
    | none => simp
    | some x => dsimp only; split <;> (try split) <;> simp [emit]
  | notif i =>
    simp only [mstep, step]
    cases hs : s.w.sess[i]? with
    | none => simp
    | some x => dsimp only; split <;> simp
  | fin i =>
    simp only [opSlot, Option.some.injEq] at ho; subst ho
    simp only [mstep, step]
    cases hs : s.w.sess[i]? with
    | none => simp
    | some x => dsimp only; split <;> (try split) <;> simp [finish_other _ _ _ _ _ h, setSess, List.getElem?_set_ne h]
  | rst i =>
    simp only [opSlot, Option.some.injEq] at ho; subst ho
    simp only [mstep, step]
    cases hs : s.w.sess[i]? with
    | none => simp
    | some x => dsimp only; split <;> (try split) <;> simp [finish_other _ _ _ _ _ h, setSess, List.getElem?_set_ne h]
  | garbage i kind =>
    simp only [opSlot, Option.some.injEq] at ho; subst ho
    simp only [mstep, step]
    cases hs : s.w.sess[i]? with
    | none => simp
    | some x =>
      dsimp only
      split <;> (try split) <;> (try split) <;> simp [finish_other _ _ _ _ _ h, setSess, List.getElem?_set_ne h]
  | hold i =>
    simp only [opSlot, Option.some.injEq] at ho; subst ho
    simp only [mstep, step, MVariant.base]
    cases hs : s.w.sess[i]? with
    | none => simp
    | some x => dsimp only; split <;> (try split) <;> simp [finish_other _ _ _ _ _ h, setSess, List.getElem?_set_ne h]

/-- … and so does a new connection: it only appends a slot. -/
theorem BgpMetrics_conn_appends (mv : MVariant) (s : MWorld) (a : Addr) (asn k : Nat) (hk : k < s.w.sess.length) :
    (mstep mv s (.base (.conn a asn))).1.w.sess[k]? = s.w.sess[k]? := by
  simp only [mstep, step]
  split
  · simp [List.getElem?_append_left hk]
  · split
    · simp [List.getElem?_append_left hk]
    · split
      · simp [List.getElem?_append_left hk]
      · split <;> simp [List.getElem?_append_left hk]

example : stepCalls asWritten (run asWritten E3 true [.base (.conn 1 65001), .base (.conn 2 65002)]).1 (.base (.fin 0))
    = stepCalls asWritten (run asWritten E3 true [.base (.conn 1 65001), .base (.conn 2 65002), .base (.rst 1), .base (.conn 3 65003)]).1 (.base (.fin 0)) := by
  decide



/-! ### Conservation -/

def cntPh (p : Phase) (l : List Sess) : Nat := l.countP fun x => x.ph = p

theorem runningN_eq (l : List Sess) : runningN l = cntPh .running l := by
  simp [runningN, cntPh, List.countP_eq_length_filter]

theorem cnt_set (p : Phase) (x' : Sess) : ∀ (l : List Sess) (k : Nat) (x : Sess), l[k]? = some x →
    cntPh p (l.set k x') + (if x.ph = p then 1 else 0) = cntPh p l + (if x'.ph = p then 1 else 0) := by
  intro l
  induction l with
  | nil => intro k x h; simp at h
  | cons y ys ih =>
    intro k x h
    cases k with
    | zero =>
      simp only [List.getElem?_cons_zero, Option.some.injEq] at h
      subst h
      simp only [List.set_cons_zero, cntPh, List.countP_cons, decide_eq_true_eq]
      omega
    | succ k =>
      simp only [List.getElem?_cons_succ] at h
      have := ih k x h
      simp only [List.set_cons_succ, cntPh, List.countP_cons, decide_eq_true_eq] at this ⊢
      omega

theorem cnt_append (p : Phase) (a b : List Sess) : cntPh p (a ++ b) = cntPh p a + cntPh p b := by
  simp [cntPh, List.countP_append]

theorem finish_sess (v : BgpIn.Variant) (w : World) (k : Nat) (x : Sess) :
    (finish v w k x).1.sess = w.sess.set k { x with ph := .done, copen := false } := by
  unfold finish
  split <;> simp [setSess, emit]


def NoFlood (l : List Sess) : Prop := ∀ x ∈ l, x.ph ≠ .flooding

/-- Replacing slot `k` (which holds `x`) by `x'`. -/
theorem slot_update (l : List Sess) (k : Nat) (x x' : Sess) (hs : l[k]? = some x) (hN : NoFlood l)
    (hx' : x'.ph ≠ .flooding) :
    NoFlood (l.set k x') ∧
    cntPh .running (l.set k x') + (if x.ph = .running then 1 else 0) = cntPh .running l + (if x'.ph = .running then 1 else 0) ∧
    cntPh .dead (l.set k x') + (if x.ph = .dead then 1 else 0) = cntPh .dead l + (if x'.ph = .dead then 1 else 0) := by
  refine ⟨?_, cnt_set _ _ _ _ _ hs, cnt_set _ _ _ _ _ hs⟩
  intro y hy
  rcases List.mem_or_eq_of_mem_set hy with h | h
  · exact hN y h
  · subst h; exact hx'

theorem set_at_length (pre rest : List Sess) (x a : Sess) : (pre ++ x :: rest).set pre.length a = pre ++ a :: rest := by
  induction pre with
  | nil => simp
  | cons p ps ih => simp [ih]

def termMap (ss : List Sess) : List Sess := ss.map fun s => if s.ph = .running then { s with ph := .done } else s

theorem terminateAll_sess (v : BgpIn.Variant) (hv : v.fsmdrop = .repaired) (ss : List Sess) :
    ∀ (pre : List Sess) (w : World) (acc : List Nat), w.sess = pre ++ ss →
      (terminateAll v pre.length ss w acc).1.sess = pre ++ termMap ss := by
  induction ss with
  | nil => intro pre w acc h; simp [terminateAll, termMap, h]
  | cons x xs ih =>
    intro pre w acc h
    unfold terminateAll
    by_cases hp : x.ph = .running
    · simp only [hp, if_true, hv]
      have e : (setSess (finish v w pre.length x).1 pre.length { x with ph := .done }).sess
          = (pre ++ [{ x with ph := .done }]) ++ xs := by
        simp only [setSess, finish_sess, h, set_at_length, List.append_assoc, List.singleton_append]
      have := ih (pre ++ [{ x with ph := .done }]) _ (acc ++ (finish v w pre.length x).2.toList) e
      simp only [List.length_append, List.length_singleton] at this
      rw [this]
      simp [termMap, hp]
    · simp only [hp, if_false]
      have e : w.sess = (pre ++ [x]) ++ xs := by simp [h]
      have := ih (pre ++ [x]) w acc e
      simp only [List.length_append, List.length_singleton] at this
      rw [this]
      simp [termMap, hp]

theorem termMap_counts (ss : List Sess) (hN : NoFlood ss) :
    NoFlood (termMap ss) ∧ cntPh .running (termMap ss) = 0 ∧ cntPh .dead (termMap ss) = cntPh .dead ss := by
  induction ss with
  | nil => simp [termMap, NoFlood, cntPh]
  | cons x xs ih =>
    have hx : x.ph ≠ .flooding := hN x (by simp)
    obtain ⟨h1, h2, h3⟩ := ih (fun y hy => hN y (by simp [hy]))
    simp only [termMap, List.map_cons] at h1 h2 h3 ⊢
    refine ⟨?_, ?_, ?_⟩
    · intro y hy
      simp only [List.mem_cons] at hy
      rcases hy with h | h
      · subst h; split <;> simp_all
      · exact h1 y h
    · simp only [cntPh, List.countP_cons] at h2 ⊢
      rw [h2]
      split <;> simp_all
    · simp only [cntPh, List.countP_cons] at h3 ⊢
      rw [h3]
      by_cases hp : x.ph = .running <;> simp [hp]


def reconfMap (cfg' : List Entry) (main' : Nat × Nat) : List Sess → List (Option Acc) → List Sess
  | x :: xs, a :: as =>
    (match verdict cfg' main' x a with
     | some _ => { x with ph := .done, copen := false }
     | none => x) :: reconfMap cfg' main' xs as
  | xs, _ => xs

theorem reconfAll_sess (v : BgpIn.Variant) (cfg' : List Entry) (main' : Nat × Nat) (ss : List Sess) :
    ∀ (as : List (Option Acc)) (pre : List Sess) (w : World) (out : List (Nat × Verdict × Bool)), w.sess = pre ++ ss →
      (reconfAll v cfg' main' pre.length ss as w out).1.sess = pre ++ reconfMap cfg' main' ss as ∧
      (reconfAll v cfg' main' pre.length ss as w out).2.length + cntPh .running (reconfMap cfg' main' ss as)
        = out.length + cntPh .running ss := by
  induction ss with
  | nil => intro as pre w out h; simp [reconfAll, reconfMap, h]
  | cons x xs ih =>
    intro as pre w out h
    cases as with
    | nil => simp [reconfAll, reconfMap, h]
    | cons a as =>
      simp only [reconfAll, reconfMap]
      cases hv : verdict cfg' main' x a with
      | none =>
        dsimp only
        have e : w.sess = (pre ++ [x]) ++ xs := by simp [h]
        have := ih as (pre ++ [x]) w out e
        simp only [List.length_append, List.length_singleton] at this
        obtain ⟨t1, t2⟩ := this
        refine ⟨by rw [t1]; simp, ?_⟩
        simp only [cntPh, List.countP_cons] at t2 ⊢
        omega
      | some vd =>
        dsimp only
        have hrun : x.ph = .running := by
          unfold verdict at hv
          by_cases hp : x.ph = .running
          · exact hp
          · simp [hp] at hv
        have e : (finish v w pre.length x).1.sess = (pre ++ [{ x with ph := .done, copen := false }]) ++ xs := by
          simp only [finish_sess, h, set_at_length, List.append_assoc, List.singleton_append]
        have := ih as (pre ++ [{ x with ph := .done, copen := false }]) (finish v w pre.length x).1
          (out ++ [(pre.length, vd, (finish v w pre.length x).2.isSome)]) e
        simp only [List.length_append, List.length_singleton] at this
        obtain ⟨t1, t2⟩ := this
        refine ⟨by rw [t1]; simp, ?_⟩
        simp only [cntPh, List.countP_cons, hrun] at t2 ⊢
        simp at t2 ⊢
        omega

theorem reconfMap_counts (cfg' : List Entry) (main' : Nat × Nat) (ss : List Sess) :
    ∀ (as : List (Option Acc)), NoFlood ss →
      NoFlood (reconfMap cfg' main' ss as) ∧ cntPh .dead (reconfMap cfg' main' ss as) = cntPh .dead ss := by
  induction ss with
  | nil => intro as hN; simp [reconfMap, NoFlood, cntPh]
  | cons x xs ih =>
    intro as hN
    cases as with
    | nil => simp [reconfMap, hN]
    | cons a as =>
      have hx : x.ph ≠ .flooding := hN x (by simp)
      obtain ⟨h1, h2⟩ := ih as (fun y hy => hN y (by simp [hy]))
      simp only [reconfMap]
      refine ⟨?_, ?_⟩
      · intro y hy
        simp only [List.mem_cons] at hy
        rcases hy with h | h
        · subst h; split <;> simp_all
        · exact h1 y h
      · simp only [cntPh, List.countP_cons] at h2 ⊢
        rw [h2]
        cases hv : verdict cfg' main' x a with
        | none => simp
        | some vd =>
          have hrun : x.ph = .running := by
            unfold verdict at hv
            by_cases hp : x.ph = .running
            · exact hp
            · simp [hp] at hv
          simp [hrun]


/-- Connections that became an established session. -/
def nNeg (o : Obs) : Nat :=
  match o.op, o.out with
  | .base (.conn ..), .base .neg => 1
  | _, _ => 0

/-- Established sessions that ended (whoever ended them). -/
def estEnds (o : Obs) : Nat :=
  match o.op, o.out with
  | .base (.fin _), .base out | .base (.rst _), .base out | .base (.garbage ..), .base out => if isEnd out then 1 else 0
  | .base (.hold _), .base (.expired _) => 1
  | .base .terminate, .term up _ => up
  | .reconf .., .reconf _ ended => ended.length
  | _, _ => 0

def Step (mv : MVariant) (s : MWorld) (o : MOp) : Prop :=
  NoFlood (mstep mv s o).1.w.sess ∧
  nNeg ⟨o, (mstep mv s o).2, s.linked⟩ + cntPh .running s.w.sess + cntPh .dead s.w.sess
    = cntPh .running (mstep mv s o).1.w.sess + cntPh .dead (mstep mv s o).1.w.sess + estEnds ⟨o, (mstep mv s o).2, s.linked⟩

theorem isEnd_endOut (r : Option Nat) : isEnd (endOut r) = true := by cases r <;> rfl

theorem noFlood_snoc (l : List Sess) (x : Sess) (hN : NoFlood l) (hx : x.ph ≠ .flooding) : NoFlood (l ++ [x]) := by
  intro y hy
  simp only [List.mem_append, List.mem_singleton] at hy
  rcases hy with h | h
  · exact hN y h
  · subst h; exact hx

theorem cons_step_conn (mv : MVariant) (s : MWorld) (a : Addr) (asn : Nat) (hN : NoFlood s.w.sess) :
    Step mv s (.base (.conn a asn)) := by
  simp only [Step, mstep, step]
  by_cases ht : s.w.term
  · simp [ht, nNeg, estEnds, cnt_append, cntPh, noFlood_snoc _ _ hN]
  · cases hg : get s.w.cfg a with
    | none => simp [ht, hg, nNeg, estEnds, cnt_append, cntPh, noFlood_snoc _ _ hN]
    | some e =>
      by_cases hacc : e.asns.accepts asn
      · by_cases hl : (a, asn) ∈ s.w.live
        · simp [ht, hg, hacc, hl, nNeg, estEnds, cnt_append, cntPh, noFlood_snoc _ _ hN]
        · simp [ht, hg, hacc, hl, nNeg, estEnds, cnt_append, cntPh, noFlood_snoc _ _ hN]; omega
      · simp [ht, hg, hacc, nNeg, estEnds, cnt_append, cntPh, noFlood_snoc _ _ hN]


theorem cons_step_upd (mv : MVariant) (s : MWorld) (k : Nat) (u : Rib.Upd) (hN : NoFlood s.w.sess) :
    Step mv s (.base (.upd k u)) := by
  simp only [Step, mstep, step]
  cases hs : s.w.sess[k]? with
  | none => simp [nNeg, estEnds, hN]
  | some x =>
    by_cases hc : x.copen
    · by_cases hp : x.ph = .running <;> simp [hc, hp, nNeg, estEnds, hN, emit]
    · simp [hc, nNeg, estEnds, hN]

theorem cons_step_notif (mv : MVariant) (s : MWorld) (k : Nat) (hN : NoFlood s.w.sess) :
    Step mv s (.base (.notif k)) := by
  simp only [Step, mstep, step]
  cases hs : s.w.sess[k]? with
  | none => simp [nNeg, estEnds, hN]
  | some x => by_cases hc : x.copen <;> simp [hc, nNeg, estEnds, hN]

theorem cons_step_fin (mv : MVariant) (s : MWorld) (k : Nat) (hN : NoFlood s.w.sess) :
    Step mv s (.base (.fin k)) := by
  simp only [Step, mstep, step]
  cases hs : s.w.sess[k]? with
  | none => simp [nNeg, estEnds, hN, isEnd]
  | some x =>
    have hx : x.ph ≠ .flooding := hN x (List.mem_of_getElem? hs)
    by_cases hc : x.copen
    · by_cases hp : x.ph = .running
      · obtain ⟨u1, u2, u3⟩ := slot_update s.w.sess k x { x with ph := .done, copen := false } hs hN (by simp)
        simp [hp] at u2 u3
        simp [hc, hp, nNeg, estEnds, isEnd_endOut, finish_sess, u1]
        omega
      · obtain ⟨u1, u2, u3⟩ := slot_update s.w.sess k x { x with copen := false } hs hN hx
        simp at u2 u3
        simp [hc, hp, hx, nNeg, estEnds, isEnd, setSess, u1]
        omega
    · simp [hc, nNeg, estEnds, hN, isEnd]

theorem cons_step_rst (mv : MVariant) (s : MWorld) (k : Nat) (hN : NoFlood s.w.sess) :
    Step mv s (.base (.rst k)) := by
  simp only [Step, mstep, step]
  cases hs : s.w.sess[k]? with
  | none => simp [nNeg, estEnds, hN, isEnd]
  | some x =>
    have hx : x.ph ≠ .flooding := hN x (List.mem_of_getElem? hs)
    by_cases hc : x.copen
    · by_cases hp : x.ph = .running
      · obtain ⟨u1, u2, u3⟩ := slot_update s.w.sess k x { x with ph := .done, copen := false } hs hN (by simp)
        simp [hp] at u2 u3
        simp [hc, hp, nNeg, estEnds, isEnd_endOut, finish_sess, u1]
        omega
      · obtain ⟨u1, u2, u3⟩ := slot_update s.w.sess k x { x with copen := false } hs hN hx
        simp at u2 u3
        simp [hc, hp, hx, nNeg, estEnds, isEnd, setSess, u1]
        omega
    · simp [hc, nNeg, estEnds, hN, isEnd]

theorem cons_step_hold (mv : MVariant) (s : MWorld) (k : Nat) (hN : NoFlood s.w.sess) :
    Step mv s (.base (.hold k)) := by
  simp only [Step, mstep, step, MVariant.base]
  cases hs : s.w.sess[k]? with
  | none => simp [nNeg, estEnds, hN]
  | some x =>
    have hx : x.ph ≠ .flooding := hN x (List.mem_of_getElem? hs)
    by_cases hc : x.copen
    · by_cases hp : x.ph = .running
      · obtain ⟨u1, u2, u3⟩ := slot_update s.w.sess k x { x with ph := .done, copen := false } hs hN (by simp)
        simp [hp] at u2 u3
        simp [hc, hp, nNeg, estEnds, finish_sess, u1]
        omega
      · obtain ⟨u1, u2, u3⟩ := slot_update s.w.sess k x { x with copen := false } hs hN hx
        simp at u2 u3
        simp [hc, hp, hx, nNeg, estEnds, setSess, u1]
        omega
    · simp [hc, nNeg, estEnds, hN]

theorem cons_step_garbage (mv : MVariant) (s : MWorld) (k kind : Nat) (hN : NoFlood s.w.sess) :
    Step mv s (.base (.garbage k kind)) := by
  simp only [Step, mstep, step, MVariant.base]
  cases hs : s.w.sess[k]? with
  | none => simp [nNeg, estEnds, hN, isEnd]
  | some x =>
    have hx : x.ph ≠ .flooding := hN x (List.mem_of_getElem? hs)
    by_cases hc : x.copen
    · by_cases hp : x.ph = .running
      · by_cases hk : kind = 0 ∧ mv.frame = .asWritten
        · obtain ⟨u1, u2, u3⟩ := slot_update s.w.sess k x { x with ph := .dead, copen := false } hs hN (by simp)
          simp [hp] at u2 u3
          simp [hc, hp, hk, nNeg, estEnds, isEnd, setSess, u1]
          omega
        · obtain ⟨u1, u2, u3⟩ := slot_update s.w.sess k x { x with ph := .done, copen := false } hs hN (by simp)
          simp [hp] at u2 u3
          simp [hc, hp, hk, nNeg, estEnds, isEnd_endOut, finish_sess, u1]
          omega
      · obtain ⟨u1, u2, u3⟩ := slot_update s.w.sess k x { x with copen := false } hs hN hx
        simp at u2 u3
        simp [hc, hp, hx, nNeg, estEnds, isEnd, setSess, u1]
        omega
    · simp [hc, nNeg, estEnds, hN, isEnd]

theorem cons_step_terminate (mv : MVariant) (s : MWorld) (hN : NoFlood s.w.sess) : Step mv s (.base .terminate) := by
  simp only [Step, mstep, step]
  by_cases ht : s.w.term
  · simp [ht, nNeg, estEnds, hN]
  · have e := terminateAll_sess mv.base rfl s.w.sess [] { s.w with term := true } [] (by simp)
    obtain ⟨t1, t2, t3⟩ := termMap_counts s.w.sess hN
    simp only [List.length_nil, List.nil_append] at e
    simp only [ht, if_false, Bool.false_eq_true, e, nNeg, estEnds, runningN_eq, t2, t3]
    exact ⟨t1, by omega⟩

theorem cons_step_reconf (mv : MVariant) (s : MWorld) (cfg' : List Entry) (l a : Nat) (hN : NoFlood s.w.sess) :
    Step mv s (.reconf cfg' l a) := by
  simp only [Step, mstep]
  by_cases ht : s.w.term
  · simp [ht, nNeg, estEnds, hN]
  · obtain ⟨e1, e2⟩ := reconfAll_sess mv.base cfg' (l, a) s.w.sess s.acc [] s.w [] (by simp)
    obtain ⟨t1, t3⟩ := reconfMap_counts cfg' (l, a) s.w.sess s.acc hN
    simp only [List.length_nil, List.nil_append, Nat.zero_add] at e1 e2
    simp only [ht, if_false, Bool.false_eq_true, e1, nNeg, estEnds, t3]
    exact ⟨t1, by omega⟩

theorem cons_step (mv : MVariant) (s : MWorld) (o : MOp) (hN : NoFlood s.w.sess) : Step mv s o := by
  cases o with
  | base o =>
    cases o with
    | conn a asn => exact cons_step_conn mv s a asn hN
    | upd k u => exact cons_step_upd mv s k u hN
    | notif k => exact cons_step_notif mv s k hN
    | fin k => exact cons_step_fin mv s k hN
    | rst k => exact cons_step_rst mv s k hN
    | garbage k kind => exact cons_step_garbage mv s k kind hN
    | hold k => exact cons_step_hold mv s k hN
    | terminate => exact cons_step_terminate mv s hN
  | reconf cfg' l a => exact cons_step_reconf mv s cfg' l a hN
  | acceptErr =>
    simp only [Step, mstep]
    by_cases ht : s.w.term <;> simp [ht, nNeg, estEnds, hN]
  | bindFail =>
    simp only [Step, mstep]
    by_cases ht : s.w.term <;> simp [ht, nNeg, estEnds, hN]

/-- Sessions: every connection that became an established session is up, dead (its task panicked), or ended. -/
theorem sessions_conserved (mv : MVariant) (ops : List MOp) : ∀ s : MWorld, NoFlood s.w.sess →
    total nNeg (runFrom mv s ops).2 + cntPh .running s.w.sess + cntPh .dead s.w.sess
      = cntPh .running (runFrom mv s ops).1.w.sess + cntPh .dead (runFrom mv s ops).1.w.sess
        + total estEnds (runFrom mv s ops).2 := by
  induction ops with
  | nil => intro s _; simp [runFrom, total]
  | cons o os ih =>
    intro s hN
    obtain ⟨h1, h2⟩ := cons_step mv s o hN
    have := ih (mstep mv s o).1 h1
    simp only [runFrom, total_cons]
    omega


/-- Connections accepted from an address no peer entry contains (dropped at once). -/
def nNocfg (o : Obs) : Nat :=
  match o.op, o.out with
  | .base (.conn ..), .base .nocfg => 1
  | _, _ => 0

/-- Connections of a configured address turned away at the OPEN (refused AS, second session of a live peer). -/
def nTurnedAway (o : Obs) : Nat :=
  match o.op, o.out with
  | .base (.conn ..), .base .badas | .base (.conn ..), .base .rejected => 1
  | _, _ => 0

theorem accepted_pointwise (o : Obs) : nNocfg o + nTurnedAway o + nNeg o = nAccepted o := by
  obtain ⟨op, out, lk⟩ := o
  cases op with
  | base b =>
    cases out with
    | base ob => cases b <;> cases ob <;> simp [nNocfg, nTurnedAway, nNeg, nAccepted]
    | _ => cases b <;> simp [nNocfg, nTurnedAway, nNeg, nAccepted]
  | _ => cases out <;> simp [nNocfg, nTurnedAway, nNeg, nAccepted]

theorem ends_pointwise (o : Obs) : nTurnedAway o + estEnds o = peerEnds o + unitEnds o := by
  obtain ⟨op, out, lk⟩ := o
  cases op with
  | base b =>
    cases out with
    | base ob => cases b <;> cases ob <;> simp [nTurnedAway, estEnds, peerEnds, unitEnds, isEnd]
    | _ => cases b <;> simp [nTurnedAway, estEnds, peerEnds, unitEnds]
  | _ => cases out <;> simp [nTurnedAway, estEnds, peerEnds, unitEnds]

theorem total_add3 (f g h k : Obs → Nat) (e : ∀ o, f o + g o + h o = k o) (l : List Obs) :
    total f l + total g l + total h l = total k l := by
  induction l with
  | nil => simp [total]
  | cons o os ih => simp only [total_cons]; have := e o; omega

theorem total_add22 (f g h k : Obs → Nat) (e : ∀ o, f o + g o = h o + k o) (l : List Obs) :
    total f l + total g l = total h l + total k l := by
  induction l with
  | nil => simp [total]
  | cons o os ih => simp only [total_cons]; have := e o; omega

/-- **Conservation law the counters support**, for every variant and every history of any length: every accepted
    connection is exactly one of: from an unconfigured address; an established session that is up; one whose task
    died (frame length below 19, as written); one whose end was counted as lost; one whose end was counted as a
    disconnect; one of the peer-side / unit-side ends the code does not count. -/
theorem BgpMetrics_conservation (mv : MVariant) (cfg : List Entry) (linked : Bool) (ops : List MOp) :
    let r := run mv cfg linked ops
    r.1.m.accepted = total nNocfg r.2 + live r.1 + cntPh .dead r.1.w.sess + r.1.m.lost + r.1.m.disc
      + total (missedLost mv) r.2 + total (missedDisc mv) r.2 := by
  intro r
  obtain ⟨_, h2, _⟩ := BgpMetrics_counters_exact mv cfg linked ops
  obtain ⟨e1, e2⟩ := BgpMetrics_ends_accounted mv cfg linked ops
  have c := sessions_conserved mv ops (MWorld.init cfg linked) (by intro x hx; simp [MWorld.init, World.init] at hx)
  have a := total_add3 _ _ _ _ accepted_pointwise r.2
  have b := total_add22 _ _ _ _ ends_pointwise r.2
  have hl : live r.1 = cntPh .running r.1.w.sess := runningN_eq _
  simp only [MWorld.init, World.init, cntPh, List.countP_nil] at c
  change r.1.m.accepted = total nAccepted r.2 at h2
  change r.1.m.lost + total (missedLost mv) r.2 = total peerEnds r.2 at e1
  change r.1.m.disc + total (missedDisc mv) r.2 = total unitEnds r.2 at e2
  change total nNeg r.2 + 0 + 0 = List.countP _ r.1.w.sess + List.countP _ r.1.w.sess + total estEnds r.2 at c
  simp only [cntPh] at hl ⊢
  omega

/-- … so with nothing missed and no dead task, `accepted = unconfigured + up + lost + disconnected`. -/
theorem BgpMetrics_conservation_exact (mv : MVariant) (cfg : List Entry) (linked : Bool) (ops : List MOp)
    (g1 : total (missedLost mv) (run mv cfg linked ops).2 = 0) (g2 : total (missedDisc mv) (run mv cfg linked ops).2 = 0)
    (g3 : cntPh .dead (run mv cfg linked ops).1.w.sess = 0) :
    (run mv cfg linked ops).1.m.accepted
      = total nNocfg (run mv cfg linked ops).2 + live (run mv cfg linked ops).1
        + (run mv cfg linked ops).1.m.lost + (run mv cfg linked ops).1.m.disc := by
  have := BgpMetrics_conservation mv cfg linked ops
  simp only at this
  omega

/-- … and always `lost + disconnect + up ≤ accepted`: no end is counted twice, nothing is counted that was not accepted. -/
theorem BgpMetrics_conservation_le (mv : MVariant) (cfg : List Entry) (linked : Bool) (ops : List MOp) :
    (run mv cfg linked ops).1.m.lost + (run mv cfg linked ops).1.m.disc + live (run mv cfg linked ops).1
      ≤ (run mv cfg linked ops).1.m.accepted := by
  have := BgpMetrics_conservation mv cfg linked ops
  simp only at this
  omega

example :
    let r := run repaired E3 true [.base (.conn 1 65001), .base (.conn 2 65002), .base (.conn 9 65001), .base (.fin 0),
      .base (.conn 3 65003), .reconf E3' 0 0]
    total (missedLost repaired) r.2 = 0 ∧ total (missedDisc repaired) r.2 = 0 ∧ cntPh .dead r.1.w.sess = 0 ∧
    r.1.m.accepted = 4 ∧ total nNocfg r.2 = 1 ∧ live r.1 = 0 ∧ r.1.m.lost = 1 ∧ r.1.m.disc = 2 := by decide


end Rotonda.BgpMetrics
