import RotondaModel.Proofs.Http
/-!
# C12 — every HTTP request gets a well-formed response; bad ones get 4xx, not a crash

Statements only (plus top-level proofs and non-vacuity examples).  Model: `Model/Http.lean`
(`handle` = `Server::handle_request` of `src/http.rs` with the `/status/graph`, `/status/traces`,
RIB, mrt-file-in queue and router-list processors).  `asWritten` is the code at the pinned commit;
`repaired` differs at the three defect sites (`Variant`).  `Deps` (prefix / ASN / community
parsers of inetnum and routecore, the file system) is universally quantified: the theorems hold
for *any* behaviour of those dependencies.

The quantifiers are the property's: every request (`Req`: method, raw path, query string,
`Accept-Encoding` bytes — no bound on any length) against every registry (`Registry`: any list of
processors in any order, compression on or off).
-/
namespace Rotonda.Http

/-- `extract_params` -/
def params (req : Req) : List Param :=
  match req.query with
  | some q => parseQuery q
  | none => []

/-- The status code C12 demands: 405 for non-GET; `/metrics`, `/status` 200; nobody responsible 404;
    otherwise the first responsible processor: 400 if the request is malformed for it, else 200. -/
def specStatus (d : Deps) (reg : Registry) (req : Req) : Nat :=
  match req.method with
  | .other => 405
  | .get =>
    let dec := decodedPath req.path
    if dec = sMetrics ∨ dec = sStatus then 200
    else match reg.procs.find? (·.claims dec) with
      | none => 404
      | some p => if p.malformed d req.path dec (params req) then 400 else 200

/-- The remainder of a `/status/graph…` path contains `/traces/` only where byte 8 of it is a
    character boundary (the `split_at` of `manager.rs:1463` is then harmless). -/
def graphSplitSafe (req : Req) : Bool :=
  let restant := (decodedPath req.path).drop sGraph.length
  !containsSub restant sTracesSeg || isCharBoundary restant sTracesSeg.length

/-! ### The handler in closed form -/

theorem handle_get_eq (v : Variant) (d : Deps) (reg : Registry) (req : Req) (hm : req.method = .get) :
    handle v d reg req =
      if decodedPath req.path = sMetrics ∨ decodedPath req.path = sStatus then
        encode v reg.compress req.acceptEnc r200
      else match reg.procs.find? (·.claims (decodedPath req.path)) with
        | none => encode v reg.compress req.acceptEnc r404
        | some p =>
          match p.panics v d req.path (decodedPath req.path) (params req) with
          | some s => .panic s
          | none => encode v reg.compress req.acceptEnc
                      (respOf (p.malformed d req.path (decodedPath req.path) (params req))) := by
  unfold handle
  simp only [hm]
  by_cases hf : decodedPath req.path = sMetrics ∨ decodedPath req.path = sStatus
  · simp only [hf, if_true]
    rcases hf with h | h <;> simp [h]
  · have h1 : ¬ decodedPath req.path = sMetrics := fun h => hf (Or.inl h)
    have h2 : ¬ decodedPath req.path = sStatus := fun h => hf (Or.inr h)
    simp only [if_false, h1, h2, decide_false, Bool.or_self, Bool.false_eq_true]
    rw [firstSome_eq]
    unfold params
    cases reg.procs.find? (·.claims (decodedPath req.path)) with
    | none => simp
    | some p =>
      simp only [if_false, false_or]
      generalize Proc.panics v d req.path (decodedPath req.path) _ p = o
      cases o <;> rfl

/-! ### Clause "405 for non-GET" — holds for the code as written -/

/-- **C12 (method gate).** Any non-GET request, whatever its path, query and headers, against any
    registry: 405, not encoded, no panic — also in the code as written (the gate precedes every
    defect site). -/
theorem C12_non_get_405 (v : Variant) (d : Deps) (reg : Registry) (req : Req)
    (hm : req.method = .other) : handle v d reg req = .ok r405 := by
  unfold handle; simp [hm]

example : handle asWritten ⟨fun _ => .err, fun _ => .err, fun _ => .err, fun _ => .missing⟩
    ⟨true, [.graph true]⟩ ⟨.other, sGraph, none, some [255]⟩ = .ok r405 := by decide

/-! ### Clause "no request can panic a handler" -/

/-- The clause at full strength, for the code as written. **False** (three witnesses below). -/
def C12_no_panic_full : Prop :=
  ∀ (d : Deps) (reg : Registry) (req : Req), ∃ r, handle asWritten d reg req = .ok r

/-- The parsers of inetnum / routecore return `Ok` or `Err` for every string (they do not panic
    themselves). False of inetnum 0.1.1's `Asn::from_str`, see `C12_panic_witness_dependency`. -/
def depsNeverPanic (d : Deps) : Prop := ∀ b, d.asn b ≠ .panic ∧ d.community b ≠ .panic

theorem firstBad_ne_panic (l : List PRes) (h : ∀ r ∈ l, r ≠ .panic) : firstBad l ≠ .panic := by
  induction l with
  | nil => simp [firstBad]
  | cons r l ih =>
    cases r with
    | ok => simp only [firstBad]; exact ih (fun r hr => h r (List.mem_cons_of_mem _ hr))
    | err => simp [firstBad]
    | panic => exact absurd rfl (h .panic List.mem_cons_self)

theorem filtersRes_ne_panic (d : Deps) (hd : depsNeverPanic d) (needle : Bytes) (ps : List Param) :
    filtersRes d needle ps ≠ .panic := by
  unfold filtersRes
  apply firstBad_ne_panic
  intro r hr
  rw [List.mem_flatMap] at hr
  obtain ⟨m, _, hm⟩ := hr
  cases m with
  | exact v => simp [filterSeq] at hm; rw [hm]; simp
  | family f v =>
    simp only [filterSeq] at hm
    split at hm
    · rw [List.mem_map] at hm
      obtain ⟨b, _, rfl⟩ := hm
      exact (hd b).1
    · split at hm
      · simp at hm; rw [hm]; exact (hd v).1
      · split at hm
        · simp at hm; rw [hm]; exact (hd v).2
        · simp at hm; rw [hm]; simp

theorem ribPrefixDepPanics_false (d : Deps) (hd : depsNeverPanic d) (v4min v6min : Nat) (suffix : Bytes)
    (ps : List Param) : ribPrefixDepPanics d v4min v6min suffix ps = false := by
  unfold ribPrefixDepPanics
  cases d.pfx suffix with
  | err => rfl
  | ok v4 len =>
    have h1 := filtersRes_ne_panic d hd sSelect ps
    have h2 := filtersRes_ne_panic d hd sDiscard ps
    have e1 : (filtersRes d sSelect ps == .panic) = false := by simpa using h1
    have e2 : (filtersRes d sDiscard ps == .panic) = false := by simpa using h2
    simp [e1, e2]

/-- **C12 (no panic), any variant, under explicit guards.** A defect site is harmless if it is
    repaired *or* its guard holds:
    * `Accept-Encoding`: compression off, or no header, or every header byte visible ASCII/tab;
    * `/status/graph…/traces/`: byte 8 after `/status/graph` is a character boundary;
    * empty graph: the registry's graph processor has a link report to draw;
    * dependency: the ASN / community parsers do not panic themselves. -/
theorem C12_no_panic (v : Variant) (d : Deps) (reg : Registry) (req : Req)
    (hae : v.aeUnwrap = false ∨ reg.compress = false ∨ aeReadable req.acceptEnc = true)
    (hsplit : v.graphSplit = false ∨ graphSplitSafe req = true)
    (hempty : v.graphEmpty = false ∨ Proc.graph true ∉ reg.procs)
    (hdep : v.depPanic = false ∨ depsNeverPanic d) :
    ∃ r, handle v d reg req = .ok r := by
  cases hm : req.method with
  | other => exact ⟨r405, C12_non_get_405 v d reg req hm⟩
  | get =>
    have henc : ∀ r, ∃ r', encode v reg.compress req.acceptEnc r = .ok r' := by
      intro r
      rw [encode_eq]
      have : (reg.compress && v.aeUnwrap && !aeReadable req.acceptEnc) = false := by
        rcases hae with h | h | h <;> simp [h]
      simp [this]
    rw [handle_get_eq v d reg req hm]
    split
    · exact henc _
    · split
      · exact henc _
      · rename_i p hp
        have hmem : p ∈ reg.procs := List.mem_of_find?_eq_some hp
        have hnone : p.panics v d req.path (decodedPath req.path) (params req) = none := by
          cases p with
          | graph empty =>
            simp only [Proc.panics]
            have h1 : (v.graphSplit && containsSub ((decodedPath req.path).drop sGraph.length) sTracesSeg
                && !isCharBoundary ((decodedPath req.path).drop sGraph.length) sTracesSeg.length) = false := by
              rcases hsplit with h | h
              · simp [h]
              · simp only [graphSplitSafe, Bool.or_eq_true, Bool.not_eq_true'] at h
                rcases h with h | h <;> simp [h]
            have h2 : (v.graphEmpty && empty) = false := by
              rcases hempty with h | h
              · simp [h]
              · cases empty with
                | false => simp
                | true => exact absurd hmem h
            simp [h1, h2]
          | tracer => rfl
          | rib base v4min v6min =>
            simp only [Proc.panics]
            have : (v.depPanic && decide (countByte 47 req.path + 1 ≠ 3)
                && ribPrefixDepPanics d v4min v6min ((stripPrefix (decodedPath req.path) base).getD []) (params req)) = false := by
              rcases hdep with h | h
              · simp [h]
              · simp [ribPrefixDepPanics_false d h]
            rw [this]
            rfl
          | mrt _ _ => rfl
          | routerList _ => rfl
          | dead => rfl
        rw [hnone]
        exact henc _

/-- **C12 (no panic), repaired code:** full strength, no guard — for every behaviour of the
    dependencies, including parsers that panic themselves. -/
theorem C12_no_panic_repaired (d : Deps) (reg : Registry) (req : Req) :
    ∃ r, handle repaired d reg req = .ok r :=
  C12_no_panic repaired d reg req (Or.inl rfl) (Or.inl rfl) (Or.inl rfl) (Or.inl rfl)

/-- **C12 (no panic), code as written, partial:** exactly the four guarded situations are excluded. -/
theorem C12_no_panic_partial (d : Deps) (reg : Registry) (req : Req)
    (hae : reg.compress = false ∨ aeReadable req.acceptEnc = true)
    (hsplit : graphSplitSafe req = true) (hempty : Proc.graph true ∉ reg.procs)
    (hdep : depsNeverPanic d) :
    ∃ r, handle asWritten d reg req = .ok r :=
  C12_no_panic asWritten d reg req (Or.inr hae) (Or.inr hsplit) (Or.inr hempty) (Or.inr hdep)

/-- the guards are satisfiable by a non-trivial request (and violated by the witnesses below) -/
example : aeReadable (some sGzip) = true ∧ graphSplitSafe ⟨.get, sGraph ++ sTracesSeg ++ [55], none, none⟩ = true
    ∧ Proc.graph true ∉ [Proc.tracer, .graph false] := by decide

def deps0 : Deps := ⟨fun _ => .err, fun _ => .err, fun _ => .err, fun _ => .missing⟩

/-- `GET /status` with `Accept-Encoding: \xffg`, compression on (the default build and default
    configuration): `v.to_str().unwrap()` at `http.rs:261`. Replayed first by the engine. -/
theorem C12_panic_witness_accept_encoding :
    handle asWritten deps0 ⟨true, [.tracer, .graph false]⟩ ⟨.get, sStatus, none, some [255, 103]⟩
      = .panic .aeToStr := by decide

/-- `GET /status/graphaaaaaaa%E2%82%AC/traces/`: `restant.split_at(8)` at `manager.rs:1463`
    lands inside the three-byte `€`. -/
theorem C12_panic_witness_graph_split :
    handle asWritten deps0 ⟨false, [.tracer, .graph false]⟩
      ⟨.get, sGraph ++ [97, 97, 97, 97, 97, 97, 97, 37, 69, 50, 37, 56, 50, 37, 65, 67] ++ sTracesSeg, none, none⟩
      = .panic .graphSplitAt := by decide

/-- `GET /status/graph` before the first link report exists: `get_svg` lays out a graph without
    nodes and layout-rs asserts. -/
theorem C12_panic_witness_graph_empty :
    handle asWritten deps0 ⟨false, [.tracer, .graph true]⟩ ⟨.get, sGraph, none, none⟩
      = .panic .graphEmpty := by decide

/-- `GET /p/1/8?select[peer_as]=a%C3%A9` against a RIB at `/p/`, with the dependency behaving as
    inetnum 0.1.1 does on `"aé"` (`Asn::from_str` slices `s[..2]` inside `é` and panics): the
    handler panics, because `extract_filter_kind` hands the decoded parameter value over unchecked. -/
theorem C12_panic_witness_dependency :
    handle asWritten
      ⟨fun s => if s = [49, 47, 56] then .ok true 8 else .err,
       fun s => if s = [97, 195, 169] then .panic else .err, fun _ => .err, fun _ => .missing⟩
      ⟨false, [.tracer, .graph false, .rib [47, 112, 47] 8 19]⟩
      ⟨.get, [47, 112, 47, 49, 47, 56],
       some [115, 101, 108, 101, 99, 116, 91, 112, 101, 101, 114, 95, 97, 115, 93, 61, 97, 37, 67, 51, 37, 65, 57], none⟩
      = .panic .depFromStr := by decide

theorem C12_no_panic_counterexample : ¬ C12_no_panic_full := by
  intro h
  obtain ⟨r, hr⟩ := h deps0 ⟨true, [.tracer, .graph false]⟩ ⟨.get, sStatus, none, some [255, 103]⟩
  rw [C12_panic_witness_accept_encoding] at hr
  cases hr

/-- the same three requests are answered by the repaired code -/
example : handle repaired deps0 ⟨true, [.tracer, .graph false]⟩ ⟨.get, sStatus, none, some [255, 103]⟩ = .ok r200
    ∧ handle repaired deps0 ⟨false, [.tracer, .graph false]⟩
        ⟨.get, sGraph ++ [97, 97, 97, 97, 97, 97, 97, 37, 69, 50, 37, 56, 50, 37, 65, 67] ++ sTracesSeg, none, none⟩ = .ok r200
    ∧ handle repaired deps0 ⟨false, [.tracer, .graph true]⟩ ⟨.get, sGraph, none, none⟩ = .ok r200 := by decide

/-! ### Clause "405 / 404 / 400 with a reason / 200 otherwise" -/

theorem encode_status (v : Variant) (c : Bool) (ae : Option Bytes) (r r' : Resp)
    (h : encode v c ae r = .ok r') : r'.status = r.status ∧ r'.reason = r.reason := by
  rw [encode_eq] at h
  split at h
  · cases h
  · cases h; exact ⟨rfl, rfl⟩

/-- **C12 (status-code law).** Whenever the handler answers (always, for the repaired code;
    under the guards of `C12_no_panic_partial` for the code as written), the status is the one
    the property demands, and a 400 carries a non-empty reason. Any variant, any dependencies. -/
theorem C12_status_law (v : Variant) (d : Deps) (reg : Registry) (req : Req) (r : Resp)
    (h : handle v d reg req = .ok r) :
    r.status = specStatus d reg req ∧ (r.status = 400 → r.reason = true) := by
  cases hm : req.method with
  | other =>
    rw [C12_non_get_405 v d reg req hm] at h
    cases h
    simp [specStatus, hm, r405]
  | get =>
    rw [handle_get_eq v d reg req hm] at h
    unfold specStatus
    simp only [hm]
    split at h
    · rename_i hf
      have := encode_status _ _ _ _ _ h
      simp only [hf, if_true]
      exact ⟨this.1, fun _ => this.2⟩
    · rename_i hf
      simp only [hf, if_false]
      split at h
      · rename_i hnone
        have := encode_status _ _ _ _ _ h
        exact ⟨this.1, fun _ => this.2⟩
      · rename_i p hp
        split at h
        · cases h
        · have := encode_status _ _ _ _ _ h
          refine ⟨?_, fun _ => ?_⟩
          · rw [this.1]; unfold respOf; split <;> rfl
          · rw [this.2]; unfold respOf; split <;> rfl

/-- **C12 (unknown paths).** A GET that is neither `/metrics` nor `/status` and that no registered
    processor is responsible for gets 404 (if it is answered at all: the only way not to be is the
    `Accept-Encoding` defect). -/
theorem C12_unknown_404 (v : Variant) (d : Deps) (reg : Registry) (req : Req) (r : Resp)
    (hm : req.method = .get)
    (hfixed : ¬ (decodedPath req.path = sMetrics ∨ decodedPath req.path = sStatus))
    (hnone : ∀ p ∈ reg.procs, p.claims (decodedPath req.path) = false)
    (h : handle v d reg req = .ok r) : r.status = 404 := by
  have := (C12_status_law v d reg req r h).1
  rw [this]
  unfold specStatus
  simp only [hm, hfixed, if_false]
  have : reg.procs.find? (·.claims (decodedPath req.path)) = none := by
    rw [List.find?_eq_none]
    intro p hp
    simp [hnone p hp]
  simp [this]

/-- **C12 (malformed prefix).** A prefix query (not the three-segment ingress-id form) whose prefix
    the parser rejects, routed to a RIB processor, is answered 400 with a reason — whatever the
    query string says. -/
theorem C12_malformed_prefix_400 (v : Variant) (d : Deps) (reg : Registry) (req : Req) (r : Resp)
    (base suffix : Bytes) (v4min v6min : Nat)
    (hm : req.method = .get)
    (hfixed : ¬ (decodedPath req.path = sMetrics ∨ decodedPath req.path = sStatus))
    (hfirst : reg.procs.find? (·.claims (decodedPath req.path)) = some (.rib base v4min v6min))
    (hsuffix : stripPrefix (decodedPath req.path) base = some suffix)
    (hsegs : countByte 47 req.path + 1 ≠ 3)
    (hbad : d.pfx suffix = .err)
    (h : handle v d reg req = .ok r) : r.status = 400 ∧ r.reason = true := by
  have hs := C12_status_law v d reg req r h
  have : r.status = 400 := by
    rw [hs.1]
    unfold specStatus
    simp only [hm, hfixed, if_false, hfirst]
    simp [Proc.malformed, ribMalformed, hsuffix, hsegs, ribPrefixMalformed, hbad]
  exact ⟨this, hs.2 this⟩

/-- non-vacuity: a well-formed and a malformed prefix query against a realistic registry -/
example :
    let reg : Registry := ⟨true, [.tracer, .graph false, .rib [47, 112, 47] 8 19]⟩
    let d : Deps := ⟨fun s => if s = [49, 47, 56] then .ok true 8 else .err, fun _ => .err, fun _ => .err, fun _ => .missing⟩
    handle asWritten d reg ⟨.get, [47, 112, 47, 49, 47, 56], none, none⟩ = .ok r200
    ∧ handle asWritten d reg ⟨.get, [47, 112, 47, 49, 47, 57], none, some sGzip⟩ = .ok ⟨400, true, true⟩
    ∧ handle asWritten d reg ⟨.get, [47, 112, 47, 49, 47, 56], some [120, 61, 49], none⟩ = .ok r400
    ∧ handle asWritten d reg ⟨.get, [47, 113], none, none⟩ = .ok r404 := by decide

/-! ### Clause "gzip-encoded only when the client accepts it" -/

/-- **C12 (gzip).** An answer carries `Content-Encoding: gzip` iff it answers a GET, compression
    is configured, and the (first) `Accept-Encoding` header is readable and lists `gzip`
    (`acceptsGzip`: the code's reading — the substring `gzip` in a visible-ASCII header). -/
theorem C12_gzip (v : Variant) (d : Deps) (reg : Registry) (req : Req) (r : Resp)
    (h : handle v d reg req = .ok r) :
    r.gzip = true ↔ (req.method = .get ∧ reg.compress = true ∧ acceptsGzip req.acceptEnc = true) := by
  have key : ∀ r0 : Resp, r0.gzip = false → encode v reg.compress req.acceptEnc r0 = .ok r →
      (r.gzip = true ↔ (reg.compress = true ∧ acceptsGzip req.acceptEnc = true)) := by
    intro r0 h0 he
    rw [encode_eq] at he
    split at he
    · cases he
    · cases he; simp [h0]
  cases hm : req.method with
  | other =>
    rw [C12_non_get_405 v d reg req hm] at h
    cases h
    simp [r405]
  | get =>
    rw [handle_get_eq v d reg req hm] at h
    simp only [true_and]
    split at h
    · exact key _ rfl h
    · split at h
      · exact key _ rfl h
      · split at h
        · cases h
        · refine key _ ?_ h
          unfold respOf; split <;> rfl

example : handle asWritten deps0 ⟨true, []⟩ ⟨.get, sStatus, none, some sGzip⟩ = .ok ⟨200, true, true⟩
    ∧ handle asWritten deps0 ⟨false, []⟩ ⟨.get, sStatus, none, some sGzip⟩ = .ok r200
    ∧ handle asWritten deps0 ⟨true, []⟩ ⟨.get, sStatus, none, some [98, 114]⟩ = .ok r200 := by decide

/-! ### Long values

Nothing in the model depends on the *length* of a path, a parameter name, a parameter value or a
header value: the reason text of a 400 is abstracted to "non-empty" (`Resp.reason`) and the helper
that builds it (`api.rs` `fn err`, the `format!` texts of the RIB / router-list code) is taken to
answer for every message. That is an assumption the correspondence engine has to exercise, so the
engine sends, for every place a request carries text, values of 63 … 4097 bytes and up to 16 KiB made
of 1- to 4-byte characters at every alignment. The theorem below states the mrt clause for them
explicitly: a `file` value the file system does not place inside the update directory is answered
400 with a reason, whatever its bytes and however long it is. -/

/-- **C12 (unusable `file` value, any length).** -/
theorem C12_mrt_unusable_file_400 (v : Variant) (d : Deps) (reg : Registry) (req : Req) (r : Resp)
    (base f : Bytes)
    (hm : req.method = .get)
    (hfixed : ¬ (decodedPath req.path = sMetrics ∨ decodedPath req.path = sStatus))
    (hfirst : reg.procs.find? (·.claims (decodedPath req.path)) = some (.mrt base true))
    (hfile : getParam sFile (params req) = some (.exact f))
    (hbad : d.fs f ≠ .inside)
    (h : handle v d reg req = .ok r) : r.status = 400 ∧ r.reason = true := by
  have hs := C12_status_law v d reg req r h
  have : r.status = 400 := by
    rw [hs.1]
    unfold specStatus
    simp only [hm, hfixed, if_false, hfirst]
    have : mrtFileOk d (params req) = false := by
      unfold mrtFileOk
      rw [hfile]
      cases hfs : d.fs f <;> simp_all
    simp [Proc.malformed, this]
  exact ⟨this, hs.2 this⟩

/-- non-vacuity, for every length: `file=` followed by `n` three-byte characters (`€`, percent-encoded
    on the wire, here as the parser hands them on) is an `Exact` parameter with that value -/
example (n : Nat) :
    getParam sFile [⟨sFile, (List.replicate n [226, 130, 172]).flatten⟩]
      = some (.exact (List.replicate n [226, 130, 172]).flatten) := by
  simp [getParam, matchParam, splitBrackets, sFile, isBracket]

set_option maxRecDepth 200000 in
example :
    let reg : Registry := ⟨false, [.tracer, .graph false, .mrt [47, 109, 47] true]⟩
    -- GET /m/queue?file=%E2%82%AC%E2%82%AC… (100 characters, 300 bytes), nothing of that name on disk
    let q : Bytes := sFile ++ [61] ++ (List.replicate 100 [37, 69, 50, 37, 56, 50, 37, 65, 67]).flatten
    handle asWritten deps0 reg ⟨.get, [47, 109, 47] ++ sQueue, some q, none⟩ = .ok r400 := by decide

end Rotonda.Http
