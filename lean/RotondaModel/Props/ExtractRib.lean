import RotondaModel.Model.Rib
import RotondaModel.Generated.RibUpdate
/-!
# Extraction tie: the RIB unit's dispatch on `Update`

`Generated/RibUpdate.lean` is regenerated from the source text of `src/units/rib_unit/unit.rs`
(`process_update`, `signal_withdraw`, `filter_payload`) on every run (`tools/extract_ribupdate.py`).
This file proves that `Model/Rib.lean` (`Rib.apply`, `Rib.forwards`; the model of C01–C03 and of the
RIB bridges) treats every `Update` variant the way the table read off the code says.
-/
namespace Rotonda.Rib
open Rotonda.Generated

/-- model update ↦ the variant of `payload::Update` it stands for -/
def Update.kind : Update → RibUpdate.Kind
  | .single _ => .single | .bulk _ => .bulk | .withdraw .. => .withdraw | .withdrawBulk _ => .withdrawBulk
  | .endOfStream => .upstreamStatus | .outputStream => .outputStream | .queryResult => .queryResult

/-- the payloads `filter_payload` is called with: `[payload]` for `Single`, the list for `Bulk` -/
def Update.payloads : Update → List Payload
  | .single p => [p] | .bulk ps => ps | _ => []

/-- The extracted actions interpreted with the model's store operations (no roto filter: every payload is
    accepted, `acceptInsertsAndKeeps`). An action applied to a variant it is not written for cannot be typed in
    Rust; `table_well_typed` shows the table never asks for it. -/
def act (v : Variant) (r : Rib) : RibUpdate.Action → Update → Rib
  | .filterInsertOne, u => u.payloads.foldl Rib.insertPayload r
  | .filterInsertAll, u => u.payloads.foldl Rib.insertPayload r
  | .withdrawIngress, .withdraw m af => r.withdrawForIngress v m af
  | .withdrawEach, .withdrawBulk ms => ms.foldl (fun r m => r.withdrawForIngress v m none) r
  | _, _ => r

/-- What the extracted action sends through the gate. A re-processed query result is an answer to a query,
    not route data: like the model's `forwards` it is left out. -/
def fwd : RibUpdate.Action → Update → List Update
  | .filterInsertOne, u | .filterInsertAll, u =>
    match RibUpdate.forwardByCount u.payloads.length, u.payloads with
    | .nothing, _ => []
    | .single, p :: _ => [.single p]
    | .single, [] => []
    | .bulk, ps => [.bulk ps]
  | .forward, u => [u]
  | _, _ => []

def actionTakes : RibUpdate.Action → List RibUpdate.Kind
  | .filterInsertOne => [.single] | .filterInsertAll => [.bulk]
  | .withdrawIngress => [.withdraw] | .withdrawEach => [.withdrawBulk]
  | .forward => [.single, .bulk, .withdraw, .withdrawBulk, .queryResult, .upstreamStatus, .outputStream]
  | .reprocessQuery => [.queryResult]

/-- Every arm of the extracted table hands its action the variant it is written for. -/
theorem table_well_typed : ∀ k, k ∈ actionTakes (RibUpdate.table k) := by
  intro k; cases k <;> decide

/-- **The link (store).** The RIB content after `process_update` is the extracted table interpreted with the
    model's store operations, for every variant, RIB and update. -/
theorem apply_eq_generated (v : Variant) (r : Rib) (u : Update) :
    r.apply v u = act v r (RibUpdate.table u.kind) u := by
  cases u <;> rfl

/-- **The link (gate).** What `process_update` passes on is the extracted table + the extracted
    `match res.len()` rule. -/
theorem forwards_eq_generated (u : Update) : Rib.forwards u = fwd (RibUpdate.table u.kind) u := by
  cases u with
  | bulk ps =>
    match ps with
    | [] => rfl
    | [_] => rfl
    | _ :: _ :: _ => rfl
  | _ => rfl

/-- The variants whose arm is `forward` / `reprocessQuery` leave the RIB content alone. -/
theorem store_untouched (v : Variant) (r : Rib) (u : Update)
    (h : RibUpdate.table u.kind = .forward ∨ RibUpdate.table u.kind = .reprocessQuery) : r.apply v u = r := by
  cases u <;> first | rfl | (simp [Update.kind, RibUpdate.table] at h)

/-- Exactly `Withdraw` and `WithdrawBulk` reach `withdraw_for_ingress`; exactly `Single` and `Bulk` reach the filter. -/
theorem table_withdraw_iff : ∀ k, (RibUpdate.table k = .withdrawIngress ∨ RibUpdate.table k = .withdrawEach)
    ↔ (k = .withdraw ∨ k = .withdrawBulk) := by
  intro k; cases k <;> decide

theorem table_insert_iff : ∀ k, (RibUpdate.table k = .filterInsertOne ∨ RibUpdate.table k = .filterInsertAll)
    ↔ (k = .single ∨ k = .bulk) := by
  intro k; cases k <;> decide

/-- `Withdraw`/`WithdrawBulk` are not passed on (the downstream units never see them), as the table's arms say. -/
theorem withdraw_not_forwarded (u : Update) (h : u.kind = .withdraw ∨ u.kind = .withdrawBulk) :
    Rib.forwards u = [] := by
  rw [forwards_eq_generated]
  cases u <;> first | rfl | (simp [Update.kind, RibUpdate.table] at h)

/-- Non-vacuity: a two-payload `Bulk` goes through the generated count rule as `Bulk`, a one-payload one as `Single`. -/
example (p q : Payload) : fwd (RibUpdate.table .bulk) (.bulk [p, q]) = [.bulk [p, q]]
    ∧ fwd (RibUpdate.table .bulk) (.bulk [p]) = [.single p] := ⟨rfl, rfl⟩

end Rotonda.Rib
